package main

import (
	"fmt"
	"go/ast"
	"go/token"
	"go/types"
	"path/filepath"
	"sort"
	"strings"
)

// Lock-program extraction (tie 2 for C05): for every function of the anchored
// packages that touches a mutex (or calls one that does), the structured
// sequence of lock events, calls made, returns, branches, loops, goroutine
// spawns, errgroup waits and sync.Once bodies.

var lockPkgs = []string{"internal/x/xproto", "internal/confgen", "internal/confgen/fieldprop", "internal/protogen", "internal/importer/book", "internal/importer"}

type lstmt struct {
	kind string // lock rlock unlock runlock dunlock drunlock call ret branch loop spawn wait once
	arg  string
	alts [][]lstmt
}

type lockWalker struct {
	fset  *token.FileSet
	info  *types.Info
	owner string // key of the enclosing function: scope of local mutex names
}

const modPath = "github.com/tableauio/tableau/"

func shortPkg(p *types.Package) string {
	if p == nil {
		return ""
	}
	return filepath.Base(p.Path())
}

// funcKey gives a stable readable key for a function or method of the repository.
func funcKey(f *types.Func) string {
	sig, _ := f.Type().(*types.Signature)
	if sig != nil && sig.Recv() != nil {
		t := sig.Recv().Type()
		if p, ok := t.(*types.Pointer); ok {
			t = p.Elem()
		}
		if n, ok := t.(*types.Named); ok {
			return shortPkg(f.Pkg()) + "." + n.Obj().Name() + "." + f.Name()
		}
	}
	return shortPkg(f.Pkg()) + "." + f.Name()
}

func namedOf(t types.Type) *types.Named {
	if p, ok := t.(*types.Pointer); ok {
		t = p.Elem()
	}
	n, _ := t.(*types.Named)
	return n
}

// mutexName identifies the mutex an expression denotes: owner struct + field, or a local variable.
func (w *lockWalker) mutexName(x ast.Expr) string {
	switch e := x.(type) {
	case *ast.SelectorExpr:
		if sel, ok := w.info.Selections[e]; ok {
			if n := namedOf(sel.Recv()); n != nil {
				return shortPkg(n.Obj().Pkg()) + "." + n.Obj().Name() + "." + e.Sel.Name
			}
		}
		return w.owner + ":" + exprText(w.fset, x)
	case *ast.Ident:
		if tv, ok := w.info.Types[e]; ok {
			if n := namedOf(tv.Type); n != nil && n.Obj().Pkg() != nil && n.Obj().Pkg().Path() != "sync" {
				return shortPkg(n.Obj().Pkg()) + "." + n.Obj().Name() + ".(embedded)" // promoted method of an embedded mutex
			}
		}
		return w.owner + ":" + e.Name
	}
	return w.owner + ":" + exprText(w.fset, x)
}

func (w *lockWalker) callee(call *ast.CallExpr) *types.Func {
	switch fun := call.Fun.(type) {
	case *ast.SelectorExpr:
		if f, ok := w.info.Uses[fun.Sel].(*types.Func); ok {
			return f
		}
	case *ast.Ident:
		if f, ok := w.info.Uses[fun].(*types.Func); ok {
			return f
		}
	}
	return nil
}

func recvTypeString(f *types.Func) string {
	sig, _ := f.Type().(*types.Signature)
	if sig == nil || sig.Recv() == nil {
		return ""
	}
	if n := namedOf(sig.Recv().Type()); n != nil && n.Obj().Pkg() != nil {
		return n.Obj().Pkg().Path() + "." + n.Obj().Name()
	}
	return ""
}

func (w *lockWalker) callStmts(call *ast.CallExpr, deferred bool) []lstmt {
	var out []lstmt
	for _, a := range call.Args {
		if _, isLit := a.(*ast.FuncLit); isLit {
			continue // handled below (Go / Do) or as an optional branch
		}
		out = append(out, w.expr(a)...)
	}
	if fl, ok := call.Fun.(*ast.FuncLit); ok {
		return append(out, w.block(fl.Body.List)...)
	}
	f := w.callee(call)
	var recvX ast.Expr
	if sel, ok := call.Fun.(*ast.SelectorExpr); ok {
		recvX = sel.X
		out = append(out, w.expr(sel.X)...)
	}
	funcLitArg := func() *ast.FuncLit {
		for _, a := range call.Args {
			if fl, ok := a.(*ast.FuncLit); ok {
				return fl
			}
		}
		return nil
	}
	if f != nil {
		rt := recvTypeString(f)
		switch {
		case (rt == "sync.Mutex" || rt == "sync.RWMutex") && recvX != nil:
			switch f.Name() {
			case "Lock", "RLock", "Unlock", "RUnlock":
				k := strings.ToLower(f.Name())
				if deferred {
					k = "d" + k
				}
				return append(out, lstmt{kind: k, arg: w.mutexName(recvX)})
			}
		case rt == "golang.org/x/sync/errgroup.Group" && f.Name() == "Go":
			if fl := funcLitArg(); fl != nil {
				return append(out, lstmt{kind: "spawn", arg: exprText(w.fset, recvX), alts: [][]lstmt{w.block(fl.Body.List)}})
			}
		case rt == "golang.org/x/sync/errgroup.Group" && f.Name() == "Wait":
			return append(out, lstmt{kind: "wait", arg: exprText(w.fset, recvX)})
		case rt == "sync.Once" && f.Name() == "Do":
			if fl := funcLitArg(); fl != nil {
				return append(out, lstmt{kind: "once", arg: exprText(w.fset, recvX), alts: [][]lstmt{w.block(fl.Body.List)}})
			}
		}
		if fl := funcLitArg(); fl != nil {
			// a callback handed to some other function: may or may not run, possibly repeatedly
			out = append(out, lstmt{kind: "branch", alts: [][]lstmt{{{kind: "loop", alts: [][]lstmt{w.block(fl.Body.List)}}}, nil}})
		}
		if f.Pkg() != nil && strings.HasPrefix(f.Pkg().Path()+"/", modPath) {
			return append(out, lstmt{kind: "call", arg: funcKey(f)})
		}
		return out
	}
	if fl := funcLitArg(); fl != nil {
		out = append(out, lstmt{kind: "branch", alts: [][]lstmt{{{kind: "loop", alts: [][]lstmt{w.block(fl.Body.List)}}}, nil}})
	}
	// a call through a function value or an interface method: callee unknown statically
	if tv, ok := w.info.Types[call.Fun]; ok && !tv.IsType() && !tv.IsBuiltin() {
		if _, isSig := tv.Type.Underlying().(*types.Signature); isSig {
			out = append(out, lstmt{kind: "dyn", arg: exprText(w.fset, call.Fun)})
		}
	}
	return out
}

// expr collects the calls inside an expression, in evaluation order (approximate).
func (w *lockWalker) expr(e ast.Expr) []lstmt {
	var out []lstmt
	if e == nil {
		return nil
	}
	switch x := e.(type) {
	case *ast.CallExpr:
		return w.callStmts(x, false)
	case *ast.FuncLit:
		// a function literal that is not called here: its body may run later; treated as an optional branch
		return []lstmt{{kind: "branch", alts: [][]lstmt{w.block(x.Body.List), nil}}}
	case *ast.BinaryExpr:
		return append(w.expr(x.X), w.expr(x.Y)...)
	case *ast.UnaryExpr:
		return w.expr(x.X)
	case *ast.ParenExpr:
		return w.expr(x.X)
	case *ast.SelectorExpr:
		return w.expr(x.X)
	case *ast.IndexExpr:
		return append(w.expr(x.X), w.expr(x.Index)...)
	case *ast.StarExpr:
		return w.expr(x.X)
	case *ast.TypeAssertExpr:
		return w.expr(x.X)
	case *ast.CompositeLit:
		for _, el := range x.Elts {
			out = append(out, w.expr(el)...)
		}
	case *ast.KeyValueExpr:
		return append(w.expr(x.Key), w.expr(x.Value)...)
	case *ast.SliceExpr:
		return w.expr(x.X)
	}
	return out
}

func (w *lockWalker) block(list []ast.Stmt) []lstmt {
	var out []lstmt
	for _, s := range list {
		out = append(out, w.stmt(s)...)
	}
	return out
}

func (w *lockWalker) stmt(s ast.Stmt) []lstmt {
	switch x := s.(type) {
	case *ast.ExprStmt:
		return w.expr(x.X)
	case *ast.DeferStmt:
		return w.callStmts(x.Call, true)
	case *ast.GoStmt:
		if fl, ok := x.Call.Fun.(*ast.FuncLit); ok {
			return []lstmt{{kind: "spawn", arg: "go", alts: [][]lstmt{w.block(fl.Body.List)}}}
		}
		return []lstmt{{kind: "spawn", arg: "go", alts: [][]lstmt{w.callStmts(x.Call, false)}}}
	case *ast.AssignStmt:
		var out []lstmt
		for _, r := range x.Rhs {
			out = append(out, w.expr(r)...)
		}
		return out
	case *ast.DeclStmt:
		var out []lstmt
		if gd, ok := x.Decl.(*ast.GenDecl); ok {
			for _, sp := range gd.Specs {
				if vs, ok := sp.(*ast.ValueSpec); ok {
					for _, v := range vs.Values {
						out = append(out, w.expr(v)...)
					}
				}
			}
		}
		return out
	case *ast.ReturnStmt:
		var out []lstmt
		for _, r := range x.Results {
			out = append(out, w.expr(r)...)
		}
		return append(out, lstmt{kind: "ret"})
	case *ast.BlockStmt:
		return w.block(x.List)
	case *ast.IfStmt:
		var out []lstmt
		if x.Init != nil {
			out = append(out, w.stmt(x.Init)...)
		}
		out = append(out, w.expr(x.Cond)...)
		thenB := w.block(x.Body.List)
		var elseB []lstmt
		if x.Else != nil {
			elseB = w.stmt(x.Else)
		}
		return append(out, lstmt{kind: "branch", alts: [][]lstmt{thenB, elseB}})
	case *ast.ForStmt:
		var out []lstmt
		if x.Init != nil {
			out = append(out, w.stmt(x.Init)...)
		}
		out = append(out, w.expr(x.Cond)...)
		return append(out, lstmt{kind: "loop", alts: [][]lstmt{w.block(x.Body.List)}})
	case *ast.RangeStmt:
		out := w.expr(x.X)
		return append(out, lstmt{kind: "loop", alts: [][]lstmt{w.block(x.Body.List)}})
	case *ast.SwitchStmt:
		var out []lstmt
		if x.Init != nil {
			out = append(out, w.stmt(x.Init)...)
		}
		out = append(out, w.expr(x.Tag)...)
		var alts [][]lstmt
		hasDefault := false
		for _, c := range x.Body.List {
			cc := c.(*ast.CaseClause)
			if cc.List == nil {
				hasDefault = true
			}
			alts = append(alts, w.block(cc.Body))
		}
		if !hasDefault {
			alts = append(alts, nil)
		}
		return append(out, lstmt{kind: "branch", alts: alts})
	case *ast.TypeSwitchStmt:
		var alts [][]lstmt
		for _, c := range x.Body.List {
			alts = append(alts, w.block(c.(*ast.CaseClause).Body))
		}
		alts = append(alts, nil)
		return []lstmt{{kind: "branch", alts: alts}}
	case *ast.SelectStmt:
		var alts [][]lstmt
		for _, c := range x.Body.List {
			alts = append(alts, w.block(c.(*ast.CommClause).Body))
		}
		return []lstmt{{kind: "branch", alts: alts}}
	case *ast.LabeledStmt:
		return w.stmt(x.Stmt)
	}
	return nil
}

func hasLockEvent(ss []lstmt) bool {
	for _, s := range ss {
		switch s.kind {
		case "lock", "rlock", "unlock", "runlock", "dunlock", "drunlock", "wait", "spawn", "once":
			return true
		}
		for _, a := range s.alts {
			if hasLockEvent(a) {
				return true
			}
		}
	}
	return false
}

func callsAny(ss []lstmt, names map[string]bool) bool {
	for _, s := range ss {
		if s.kind == "call" && names[s.arg] {
			return true
		}
		for _, a := range s.alts {
			if callsAny(a, names) {
				return true
			}
		}
	}
	return false
}

// prune drops calls to functions outside `keep` and empty structure.
func prune(ss []lstmt, keep map[string]bool) []lstmt {
	var out []lstmt
	for _, s := range ss {
		switch s.kind {
		case "call":
			if keep[s.arg] {
				out = append(out, s)
			}
		case "branch", "loop", "spawn", "once":
			var alts [][]lstmt
			nonEmpty := false
			for _, a := range s.alts {
				p := prune(a, keep)
				if len(p) > 0 {
					nonEmpty = true
				}
				alts = append(alts, p)
			}
			if nonEmpty || s.kind == "spawn" {
				s.alts = alts
				out = append(out, s)
			}
		default:
			out = append(out, s)
		}
	}
	return out
}

var internTab []string
var internIdx = map[string]int{}

func intern(s string) string {
	if i, ok := internIdx[s]; ok {
		return fmt.Sprint(i)
	}
	internIdx[s] = len(internTab)
	internTab = append(internTab, s)
	return fmt.Sprint(len(internTab) - 1)
}

func leanLStmts(ss []lstmt) string {
	var parts []string
	for _, s := range ss {
		switch s.kind {
		case "lock", "rlock", "unlock", "runlock", "dunlock", "drunlock", "call", "wait", "dyn":
			parts = append(parts, fmt.Sprintf(".%s %s", map[string]string{"lock": "lock", "rlock": "rlock", "unlock": "unlock", "runlock": "runlock",
				"dunlock": "deferUnlock", "drunlock": "deferRUnlock", "call": "call", "wait": "wait", "dyn": "dyn"}[s.kind], intern(s.arg)))
		case "ret":
			parts = append(parts, ".ret")
		case "branch":
			var alts []string
			for _, a := range s.alts {
				alts = append(alts, leanLStmts(a))
			}
			parts = append(parts, ".branch ["+strings.Join(alts, ", ")+"]")
		case "loop":
			parts = append(parts, ".loop "+leanLStmts(s.alts[0]))
		case "spawn":
			parts = append(parts, ".spawn "+intern(s.arg)+" "+leanLStmts(s.alts[0]))
		case "once":
			parts = append(parts, ".once "+intern(s.arg)+" "+leanLStmts(s.alts[0]))
		}
	}
	return "[" + strings.Join(parts, ", ") + "]"
}

func init() {
	generators = append(generators, func() (string, string, error) {
		name := "Locks.lean"
		type fn struct {
			key  string
			body []lstmt
		}
		var all []fn
		pkgs, err := loadTyped(lockPkgs)
		if err != nil {
			return name, "", err
		}
		var paths []string
		for p := range pkgs {
			paths = append(paths, p)
		}
		sort.Strings(paths)
		inLockPkgs := map[string]bool{}
		for _, r := range lockPkgs {
			inLockPkgs["github.com/tableauio/tableau/"+r] = true
		}
		for _, pp := range paths {
			if !inLockPkgs[pp] {
				continue
			}
			pkg := pkgs[pp]
			for _, f := range pkg.Syntax {
				fname := filepath.Base(pkg.Fset.Position(f.Pos()).Filename)
				if strings.HasSuffix(fname, "_test.go") || strings.HasPrefix(fname, "verif_") {
					continue
				}
				for _, d := range f.Decls {
					fd, ok := d.(*ast.FuncDecl)
					if !ok || fd.Body == nil {
						continue
					}
					obj, _ := pkg.TypesInfo.Defs[fd.Name].(*types.Func)
					if obj == nil {
						continue
					}
					key := funcKey(obj)
					w := &lockWalker{fset: pkg.Fset, info: pkg.TypesInfo, owner: key}
					all = append(all, fn{key: key, body: w.block(fd.Body.List)})
				}
			}
		}
		// keep: functions with lock events, then (to a fixpoint) functions calling kept ones
		keep := map[string]bool{}
		for _, f := range all {
			if hasLockEvent(f.body) {
				keep[f.key] = true
			}
		}
		for changed := true; changed; {
			changed = false
			for _, f := range all {
				if !keep[f.key] && callsAny(f.body, keep) {
					keep[f.key] = true
					changed = true
				}
			}
		}
		sort.SliceStable(all, func(i, j int) bool { return all[i].key < all[j].key })
		var b strings.Builder
		b.WriteString("/- GENERATED by /verif/extract from /repo on every run. Do not edit.\n")
		b.WriteString("   Lock programs of the anchored packages (functions that touch a mutex / errgroup / Once,\n")
		b.WriteString("   and their transitive callers), calls to functions outside that set removed. -/\n")
		b.WriteString("import TableauVerif.Model.Conc\n")
		b.WriteString("namespace TableauVerif.Generated.Locks\nopen TableauVerif.Model.Conc\n\n")
		internTab, internIdx = nil, map[string]int{}
		var body strings.Builder
		b.WriteString("/-- function / mutex / expression names are interned: `names[i]` is the text of id `i` -/\n")
		first := true
		for _, f := range all {
			if !keep[f.key] {
				continue
			}
			if !first {
				body.WriteString(",\n")
			}
			first = false
			body.WriteString("  (" + intern(f.key) + ", " + leanLStmts(prune(f.body, keep)) + ")")
		}
		b.WriteString("def names : List String := [\n")
		for i, n := range internTab {
			sep := ","
			if i == len(internTab)-1 {
				sep = ""
			}
			fmt.Fprintf(&b, "  %s%s -- %d\n", leanStr(n), sep, i)
		}
		b.WriteString("]\n\ndef funcs : List (Nat × List LStmt) := [\n")
		b.WriteString(body.String())
		b.WriteString("\n]\n\nend TableauVerif.Generated.Locks\n")
		return name, b.String(), nil
	})
}
