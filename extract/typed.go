package main

import (
	"fmt"
	"os"

	"golang.org/x/tools/go/packages"
)

var loadedPkgs map[string]*packages.Package

// loadTyped loads and type-checks the anchored packages of the repo (offline, module mode).
func loadTyped(rels []string) (map[string]*packages.Package, error) {
	if loadedPkgs != nil {
		return loadedPkgs, nil
	}
	// one load for every generator: the union of all anchored package lists
	seen := map[string]bool{}
	var patterns []string
	for _, r := range append(append(append([]string{}, rels...), lockPkgs...), orderPkgs...) {
		if !seen[r] {
			seen[r] = true
			patterns = append(patterns, "./"+r)
		}
	}
	cfg := &packages.Config{
		Mode: packages.NeedName | packages.NeedFiles | packages.NeedSyntax | packages.NeedTypes | packages.NeedTypesInfo | packages.NeedImports | packages.NeedDeps,
		Dir:  repo,
		Env:  append(os.Environ(), "GOFLAGS=-mod=mod", "GOPROXY=off", "GOSUMDB=off", "GOTOOLCHAIN=local"),
	}
	pkgs, err := packages.Load(cfg, patterns...)
	if err != nil {
		return nil, err
	}
	res := map[string]*packages.Package{}
	for _, p := range pkgs {
		if len(p.Errors) > 0 {
			return nil, fmt.Errorf("package %s: %v", p.PkgPath, p.Errors[0])
		}
		res[p.PkgPath] = p
	}
	loadedPkgs = res
	return res, nil
}
