// Command vextract is the translator / fact extractor (tie 2, DESIGN.md §3.3).
// It re-reads /repo's current working tree with go/parser and regenerates the
// Lean files under lean/TableauVerif/Generated that proofs are about or are
// pinned to. It is run on every check.
package main

import (
	"flag"
	"fmt"
	"os"
	"path/filepath"
)

var repo string

func main() {
	out := flag.String("out", "", "output directory for generated .lean files")
	flag.StringVar(&repo, "repo", "/repo", "repository root")
	flag.Parse()
	if *out == "" {
		fmt.Fprintln(os.Stderr, "need -out")
		os.Exit(2)
	}
	files := map[string]string{}
	for _, g := range generators {
		name, content, err := g()
		if err != nil {
			fmt.Fprintf(os.Stderr, "extract %s: %v\n", name, err)
			os.Exit(1)
		}
		files[name] = content
	}
	for name, content := range files {
		if err := os.WriteFile(filepath.Join(*out, name), []byte(content), 0o644); err != nil {
			fmt.Fprintln(os.Stderr, err)
			os.Exit(1)
		}
	}
}

var generators []func() (name, content string, err error)
