package main

import (
	"fmt"
	"go/ast"
	"go/parser"
	"go/token"
	"os"
	"path/filepath"
	"sort"
	"strings"
)

// Inventory of pooled objects (tie 2 for C16 / C05): every `<pool>.Get().(*T)` in the library, the variable it is
// bound to, and what the function then does to that object before anything else can see it: the fields assigned
// at the top level of the function body (unconditionally), the fields assigned only inside nested statements, and
// whether the object is reset as a whole (`*v = T{}` / `proto.Reset(v)` / `v.Reset()`). For pooled struct types
// declared in the library the struct's field names are listed too (for generated protobuf types the data fields
// are pinned by hand in the theorem's expectation).
func init() {
	generators = append(generators, func() (string, string, error) {
		name := "Pools.lean"
		type site struct {
			dir, fn, pool, typ       string
			top, nested, structField []string
			reset                    bool
		}
		var all []site
		structs := map[string][]string{} // dir.Type -> fields
		fset := token.NewFileSet()
		err := filepath.Walk(repo, func(p string, info os.FileInfo, err error) error {
			if err != nil {
				return err
			}
			rel, _ := filepath.Rel(repo, p)
			rel = filepath.ToSlash(rel)
			if info.IsDir() {
				switch {
				case strings.HasPrefix(info.Name(), ".") && rel != ".":
					return filepath.SkipDir
				case rel == "verifhook" || rel == "test" || rel == "cmd" || rel == "testdata" || strings.HasSuffix(rel, "/testdata"):
					return filepath.SkipDir
				}
				return nil
			}
			if !strings.HasSuffix(p, ".go") || strings.HasSuffix(p, "_test.go") || strings.HasSuffix(p, ".pb.go") || strings.HasPrefix(info.Name(), "verif_") {
				return nil
			}
			f, err := parser.ParseFile(fset, p, nil, parser.ParseComments)
			if err != nil {
				return err
			}
			dir := filepath.ToSlash(filepath.Dir(rel))
			for _, d := range f.Decls {
				if gd, ok := d.(*ast.GenDecl); ok && gd.Tok == token.TYPE {
					for _, sp := range gd.Specs {
						ts := sp.(*ast.TypeSpec)
						if st, ok := ts.Type.(*ast.StructType); ok {
							var fs []string
							for _, fl := range st.Fields.List {
								for _, n := range fl.Names {
									fs = append(fs, n.Name)
								}
							}
							structs[dir+"."+ts.Name.Name] = fs
						}
					}
				}
				fd, ok := d.(*ast.FuncDecl)
				if !ok || fd.Body == nil {
					continue
				}
				// find `v := X.Get().(*T)` anywhere in the body
				type bound struct{ v, pool, typ string }
				var bs []bound
				ast.Inspect(fd.Body, func(n ast.Node) bool {
					as, ok := n.(*ast.AssignStmt)
					if !ok || len(as.Lhs) != 1 || len(as.Rhs) != 1 {
						return true
					}
					ta, ok := as.Rhs[0].(*ast.TypeAssertExpr)
					if !ok {
						return true
					}
					call, ok := ta.X.(*ast.CallExpr)
					if !ok {
						return true
					}
					sel, ok := call.Fun.(*ast.SelectorExpr)
					if !ok || sel.Sel.Name != "Get" || len(call.Args) != 0 {
						return true
					}
					id, ok := as.Lhs[0].(*ast.Ident)
					if !ok {
						return true
					}
					bs = append(bs, bound{id.Name, exprText(fset, sel.X), strings.TrimPrefix(exprText(fset, ta.Type), "*")})
					return true
				})
				for _, b := range bs {
					s := site{dir: dir, fn: fd.Name.Name, pool: b.pool, typ: b.typ}
					var walk func(stmts []ast.Stmt, depth int)
					note := func(st ast.Stmt, depth int) {
						switch x := st.(type) {
						case *ast.AssignStmt:
							for _, l := range x.Lhs {
								if se, ok := l.(*ast.SelectorExpr); ok {
									if id, ok := se.X.(*ast.Ident); ok && id.Name == b.v {
										if depth == 0 {
											s.top = append(s.top, se.Sel.Name)
										} else {
											s.nested = append(s.nested, se.Sel.Name)
										}
									}
								}
								if st, ok := l.(*ast.StarExpr); ok {
									if id, ok := st.X.(*ast.Ident); ok && id.Name == b.v && depth == 0 {
										s.reset = true
									}
								}
							}
						case *ast.ExprStmt:
							if call, ok := x.X.(*ast.CallExpr); ok && depth == 0 {
								t := exprText(fset, call)
								if t == b.v+".Reset()" || t == "proto.Reset("+b.v+")" {
									s.reset = true
								}
							}
						}
					}
					walk = func(stmts []ast.Stmt, depth int) {
						for _, st := range stmts {
							note(st, depth)
							switch x := st.(type) {
							case *ast.IfStmt:
								walk(x.Body.List, depth+1)
								if eb, ok := x.Else.(*ast.BlockStmt); ok {
									walk(eb.List, depth+1)
								} else if ei, ok := x.Else.(*ast.IfStmt); ok {
									walk([]ast.Stmt{ei}, depth+1)
								}
							case *ast.ForStmt:
								walk(x.Body.List, depth+1)
							case *ast.RangeStmt:
								walk(x.Body.List, depth+1)
							case *ast.BlockStmt:
								walk(x.List, depth+1)
							case *ast.SwitchStmt:
								for _, c := range x.Body.List {
									walk(c.(*ast.CaseClause).Body, depth+1)
								}
							}
						}
					}
					walk(fd.Body.List, 0)
					sort.Strings(s.top)
					sort.Strings(s.nested)
					all = append(all, s)
				}
			}
			return nil
		})
		if err != nil {
			return name, "", err
		}
		// generated protobuf types: the exported (data) fields of the structs in proto/tableaupb/*.pb.go
		pbs, _ := filepath.Glob(filepath.Join(repo, "proto", "tableaupb", "*.pb.go"))
		for _, p := range pbs {
			f, err := parser.ParseFile(fset, p, nil, 0)
			if err != nil {
				return name, "", err
			}
			for _, d := range f.Decls {
				if gd, ok := d.(*ast.GenDecl); ok && gd.Tok == token.TYPE {
					for _, sp := range gd.Specs {
						ts := sp.(*ast.TypeSpec)
						if st, ok := ts.Type.(*ast.StructType); ok {
							var fs []string
							for _, fl := range st.Fields.List {
								for _, n := range fl.Names {
									if n.IsExported() {
										fs = append(fs, n.Name)
									}
								}
							}
							structs["tableaupb."+ts.Name.Name] = fs
						}
					}
				}
			}
		}
		for i := range all {
			if fs, ok := structs[all[i].dir+"."+all[i].typ]; ok {
				all[i].structField = fs
			} else {
				all[i].structField = structs[all[i].typ]
			}
		}
		sort.Slice(all, func(i, j int) bool {
			if all[i].dir != all[j].dir {
				return all[i].dir < all[j].dir
			}
			return all[i].fn < all[j].fn
		})
		list := func(xs []string) string {
			var q []string
			for _, x := range xs {
				q = append(q, leanStr(x))
			}
			return "[" + strings.Join(q, ", ") + "]"
		}
		var b strings.Builder
		b.WriteString("/- GENERATED by /verif/extract from /repo on every run. Do not edit.\n   Every `<pool>.Get().(*T)` of the library: (directory, function, pool, type), the struct's fields when the type is\n   declared in the library, the fields assigned unconditionally at the top level of the function, the fields assigned\n   only inside nested statements, and whether the object is reset as a whole. -/\n")
		b.WriteString("namespace TableauVerif.Generated.Pools\n\n")
		b.WriteString("structure Site where\n  dir : String\n  fn : String\n  pool : String\n  typ : String\n  structFields : List String\n  top : List String\n  nested : List String\n  reset : Bool\nderiving DecidableEq, Repr\n\n")
		b.WriteString("def sites : List Site := [\n")
		for i, s := range all {
			sep := ","
			if i == len(all)-1 {
				sep = ""
			}
			fmt.Fprintf(&b, "  { dir := %s, fn := %s, pool := %s, typ := %s,\n    structFields := %s, top := %s, nested := %s, reset := %v }%s\n",
				leanStr(s.dir), leanStr(s.fn), leanStr(s.pool), leanStr(s.typ), list(s.structField), list(s.top), list(s.nested), s.reset, sep)
		}
		b.WriteString("]\n\nend TableauVerif.Generated.Pools\n")
		return name, b.String(), nil
	})
}
