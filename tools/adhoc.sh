#!/bin/bash
# ad hoc: run one stream through impl and model, print diff summary.  usage: adhoc.sh <stream> <seed> <n>
set -e
T=/verif/.cache/tmp/adhoc; mkdir -p $T
export VERIF_TMP=/verif/.cache/tmp TZ=UTC
${VH:-/verif/.cache/bin/vh} gen "$1" "$2" "$3" > $T/ops
${VH:-/verif/.cache/bin/vh} impl < $T/ops > $T/impl 2>$T/impl.err
/verif/lean/.lake/build/bin/tvdriver < $T/ops > $T/model
paste -d'\n' $T/ops $T/impl $T/model | awk 'NR%3==1{op=$0} NR%3==2{i=$0} NR%3==0{ if (i!=$0) {n++; if (n<='"${4:-5}"') {print "OP    " op; print "IMPL  " i; print "MODEL " $0; print ""}} } END{print "diffs:", n+0, "of", NR/3}'
