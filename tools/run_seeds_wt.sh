#!/bin/bash
# like run_seeds.sh, but leaves /repo alone: each seed is applied to a scratch worktree of /repo and checked by a
# scratch copy of /verif whose harness is built against that worktree (usable while a sweep is running on /repo).
# usage: run_seeds_wt.sh <seed-id> ...      (scratch: /tmp/vcopy.<id>, /tmp/rwt.<id>; both removed afterwards)
cd /verif
mkdir -p .cache/seedruns
one() {
  id=$1; prop=${id%%-*}; p=/verif/seeded/$id/patch.diff
  [ -f "$p" ] || { echo "$id NO-PATCH"; return; }
  W=/tmp/rwt.$id; V=/tmp/vcopy.$id
  git -C /repo worktree remove --force $W 2>/dev/null; rm -rf $W $V
  git -C /repo worktree add -q --detach $W HEAD || { echo "$id WORKTREE-FAILED"; return; }
  if ! git -C $W apply $p 2>/dev/null; then echo "$id PATCH-DOES-NOT-APPLY"; git -C /repo worktree remove --force $W; return; fi
  mkdir -p $V; rsync -a --exclude .git --exclude .cache/tmp --exclude .cache/seedruns --exclude replays /verif/ $V/
  sed -i "s#=> /repo#=> $W#" $V/harness/go.mod
  t0=$(date +%s)
  (cd $V && VERIF_REPO=$W ./check "$prop" > /verif/.cache/seedruns/$id.log 2>&1); rc=$?
  t1=$(date +%s)
  v=$(grep -m1 '^VIOLATION' .cache/seedruns/$id.log)
  if [ $rc -eq 0 ]; then r=MISSED; elif echo "$v" | grep -q no-failing-input-found; then r=CAUGHT-no-input; elif [ -n "$v" ]; then r=CAUGHT-concrete; else r="ERROR(rc=$rc)"; fi
  echo "$id $r $((t1-t0))s"
  # keep the replay the violation names, for the record
  rp=$(echo "$v" | sed -n 's/.*replay=\([^ ]*\).*/\1/p'); [ -n "$rp" ] && [ -f "$rp" ] && cp "$rp" .cache/seedruns/$id.replay 2>/dev/null
  git -C /repo worktree remove --force $W; rm -rf $V
}
for id in "$@"; do one $id; done
git -C /repo worktree prune
