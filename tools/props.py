"""
Per-property configuration of the check driver.
streams: (name, n_quick, n_thorough[, shards])
oracles: op names for which the Lean driver implements `o.<op>` (the property's executable oracle)
"""
import re

TRIVIAL_OUTPUTS = {"", "-", "u", "bad-op"}

TRUSTED_BASE = [
    "Lean 4.33.0 kernel (thorough tier: leanchecker re-check of the compiled property modules)",
    "axioms per theorem as printed by #print axioms, restricted to propext / Classical.choice / Quot.sound (no sorry, no native_decide, no bv_decide, no added axiom)",
    "hand-written Lean model tied to /repo by the correspondence streams of this run (harness built with -tags verif against the current working tree) and by the regenerated facts of the extractor",
    "the Go harness (generators, canonical encoders) and the extractor in /verif",
]


def dec(tok):
    if not tok.startswith("u"):
        return None
    try:
        return "".join(chr(int(h, 16)) for h in tok[1:].split(".") if h)
    except ValueError:
        return None


def args_of(op):
    return op.split("\t")[1:]


# narrow witness classes of the known findings: (stream, op, impl_out) -> bool
KNOWN_CLASSES = {}

PROPS = {
    "C14": {
        "lean_modules": ["TableauVerif.Props.C14", "TableauVerif.Props.C14Pins"],
        "oracles": ["c14.merge", "c14.fieldsep", "c14.fieldsubsep"],
        "streams": [
            ("corr.parseroptions.mergeHeader", 3000, 200000),
            ("corr.confgen.fieldSep", 400, 4000),
            ("corr.protogen.record", 2000, 100000),
        ],
        "assumptions": [
            "modelled: MergeHeader, GetSep/GetSubsep, parseFieldDescriptor(sep part), newBookParser/newTableParser option recording; "
            "not modelled: flag parsing of tableauc, YAML config loading of options",
        ],
    },
}
