"""
Per-property configuration of the check driver.
streams: (name, n_quick, n_thorough[, shards])
oracles: op names for which the Lean driver implements `o.<op>` (the property's executable oracle)
"""
import re

TRIVIAL_OUTPUTS = {"", "-", "u", "bad-op"}

# streams whose generator emits cases that the Lean spec writer expands (driver op prefix)
PREP = {"e2e.C01.roundtrip": "w.", "e2e.C07.corrupt": "w."}

# ops whose implementation observation carries extra statistics after the first word (e.g. "same ok",
# "same conferr"): only the first word is compared with the model's answer
FIRST_WORD_FNS = {"c19.yaml", "c13.dry", "c03.reject", "c10.schema", "c08.twin", "c08.known", "c15.versions", "c15.known", "c02.closure", "c02.known", "c19.origin", "c09.doc", "c09.known"}

# property module -> (modules the script imports, script run with `lake env lean --run`): prints `<name>=true|false`
PRECHECK = {
    "TableauVerif.Props.C05": (["TableauVerif.Model.Conc", "TableauVerif.Generated.Locks"], "Driver/PrecheckC05.lean"),
}

TRUSTED_BASE = [
    "Lean 4.33.0 kernel (thorough tier: leanchecker re-check of the compiled property modules)",
    "axioms per theorem as printed by #print axioms, restricted to propext / Classical.choice / Quot.sound (no sorry, no native_decide, no bv_decide, no added axiom)",
    "hand-written Lean model tied to /repo by the correspondence streams of this run (harness built with -tags verif against the current working tree) and by the regenerated facts of the extractor",
    "the Go harness (generators, canonical encoders) and the extractor in /verif",
]


def dec(tok):
    if not tok.startswith("u"):
        return None
    try:
        return "".join(chr(int(h, 16)) for h in tok[1:].split(".") if h)
    except ValueError:
        return None


def args_of(op):
    return op.split("\t")[1:]


# narrow witness classes of the known findings: (stream, op, impl_out) -> bool
def _padrows_with_row_props(stream, op, impl_out):
    f = op.split("\t")
    return stream == "corr.confgen.layoutPairs" and f[0] == "tp.pair" and f[1] == "padrows" and re.search(r";(pr|fx|sz=|sq=)", f[4]) is not None


def _d16_last_first_elem(stream, op, impl_out):
    # D16: only the fixed witness op (the generators skip this shape and say so in their statistics)
    return op.split("\t")[0] == "c15.known"


def _c02_witness(kind):
    def f(stream, op, impl_out):
        t = op.split("\t")
        return t[0] == "c02.known" and len(t) > 1 and t[1] == kind
    return f


def _c09_witness(kind):
    def f(stream, op, impl_out):
        t = op.split("\t")
        return t[0] == "c09.known" and len(t) > 1 and t[1] == kind
    return f


KNOWN_CLASSES = {
    "c09_xml_error_position": _c09_witness("xml-error-position"),
    "c09_xml_singleton_list_split": _c09_witness("xml-singleton-list-split"),
    "c02_incell_map_wellknown_value": _c02_witness("incell-map-wellknown-value"),
    "c02_later_element_column_missing": _c02_witness("later-element-column-missing"),
    "c02_keyed_list_struct_key": _c02_witness("keyed-list-struct-key"),
    "d16_last_first_elem": _d16_last_first_elem,
}

PROPS = {
    "C09": {
        "lean_modules": ["TableauVerif.Props.C09", "TableauVerif.Props.C09Doc", "TableauVerif.Props.C09Incell"],
        "oracles": ["c09.doc", "c09.known", "c14.e2e"],
        "streams": [
            ("corr.importer.docBookName", 300, 6000),
            ("e2e.C09.documents", 360, 15000, 8),
            ("corr.importer.xmlToNode", 6000, 200000),
            ("corr.confgen.docParse", 6000, 200000),
            # separators of document workbooks at every level, incl. field-level sep / subsep of in-cell lists of structs (the YAML twin of e2e.C14)
            ("e2e.C14", 200, 8000),
        ],
        "assumptions": [
            "modelled: the XML importer's data-document conversion (parseXMLNode, confgen branch): gathering of repeated child elements, attributes as scalar children, text-only elements; names used both for text-only and for structured occurrences under one parent are outside the model (`unmodelled`, counted as drift); the YAML and XML tokenisers (yaml.v3, go-xmldom) are trusted libraries",
            "confgen's document parser is modelled (Model.DocParser: scalars, in-cell and cross-cell structs, lists, maps incl. virtual key nodes, optional fields, uniqueness, E2014/E2018/E2005) and compared with the real parser on generated descriptors and node trees (corr.confgen.docParse); unions, well-known message fields and default values are outside the model; protogen's document parser (schema documents) is not modelled: faithfulness of whole conversions is decided by the independent walker of e2e.C09.documents, which looks fields up by their (tableau.field).name option and compares every stated scalar, list, map and struct, and checks that nothing else is populated (partial)",
            "schema vocabulary exercised: scalars (9 kinds incl. a predefined enum), structs, scalar lists, in-cell lists, struct lists, scalar maps, struct maps (YAML), in-cell structs, optional fields at every level, nesting depth 3; YAML error positions of corrupted numeric scalars at any depth",
        ],
    },
    "C19": {
        "lean_modules": ["TableauVerif.Props.C19", "TableauVerif.Props.C20Emit", "TableauVerif.Props.C20EmitFrac", "TableauVerif.Props.C20EmitAll", "TableauVerif.Props.C20Valid"],
        "oracles": ["c19.origin", "c19.yaml", "c20.emitts"],
        "streams": [
            ("e2e.C19.origin", 240, 12000, 8),
            ("e2e.C19.yaml", 200, 8000, 8),
            # what the generated JSON says for a Timestamp (EmitTimezones) must be the instant the origin cell states, nanoseconds included
            ("corr.store.emitTimestamp", 6000, 200000),
        ],
        "assumptions": [
            "regenerated tie: Generated/CallSites.lean (the call sites of ParseMessage, GetMergerImporters, GetScatterImporters, RewriteSubdir, importer.New, append and the SheetInfo literals in confgen's conversion path and in load.loadOrigin) is extracted from /repo on every run and pinned by pin_callsites",
            "theorem scope: ParseMessage, the importers and the codecs are parameters (codec round trip = C06); the theorem states that the two paths feed the same inputs to the same functions (partial)",
            "the stream covers CSV and XLSX origins; YAML/XML origins are covered by C09's stream",
        ],
    },
    "C02": {
        "lean_modules": ["TableauVerif.Props.C02", "TableauVerif.Props.C02Flat", "TableauVerif.Props.C02Found", "TableauVerif.Props.C07Header", "TableauVerif.Props.C15Elem"],
        "oracles": ["c02.closure", "c02.known", "c14.merge", "c09.doc"],
        "streams": [
            ("e2e.C02.closure", 400, 20000, 8),
            # protogen and confgen must resolve the same header rows and lines (every option's presence varied independently)
            ("corr.parseroptions.mergeHeader", 3000, 200000),
            # document workbooks (YAML / XML): the generated protos compile with their imports (predefined types of other files
            # as map values, list elements, struct fields) and confgen converts every accepted document
            ("e2e.C09.documents", 200, 8000),
            ("corr.protogen.parseHeader", 3000, 100000),
            ("corr.types.misc", 6000, 100000),
        ],
        "assumptions": [
            "closure is decided end to end: real GenProto, an independent protoparse re-parse of every written .proto (plus identifier and field-name/json-name uniqueness checks on the descriptors), then real GenConf on the same directory with its error classified by code: E2000..E2021 and a short list of uncoded reasons are data-cell errors, everything else (proto parse error, E0001/E0003/E2014/E2015, unknown type) is schema-level",
            "input space: sheets generated from schema trees (nested cross-cell / in-cell structs, horizontal lists and maps, in-cell lists and maps, vertical maps and lists, enums from a type sheet, well-known types, shared nested type names), book-level and sheet-level options (Transpose, Nested, Sep, OrderedMap, Alias, FieldPresence, Optional, '#' header rows) and everyday slips (repeated name, blank column, junk data cell); arbitrary garbage in type cells is C17's input space, not this one",
            "theorem scope: legality of generated field identifiers (ToSnake); the header-parser model is tied by corr.protogen.parseHeader; emitted proto text and option text are not modelled (partial)",
        ],
    },
    "C15": {
        "lean_modules": ["TableauVerif.Props.C15", "TableauVerif.Props.C15Elem"],
        "oracles": ["c15.append", "c15.versions", "c15.known", "c14.merge"],
        "streams": [
            ("spec.C15.append", 3000, 150000),
            ("corr.protogen.parseHeader", 3000, 100000),
            ("e2e.C15.versions", 160, 8000, 8),
            # which rows ARE the header: the resolution of name / type / note / data rows and lines over the three
            # levels, every option's presence varied independently (a type row read from a data row makes the schema
            # depend on data)
            ("corr.parseroptions.mergeHeader", 3000, 200000),
        ],
        "assumptions": [
            "modelled: protogen's default-mode header parser (see C17); the exporter's positional numbering (tagid := i + 1) is read off exporter.go and exercised by the e2e stream through the parsed descriptors, not modelled",
            "theorem scope: appending arbitrary columns to sheets whose existing columns are basic (scalar/enum/opaque) cells; sheets with cross-cell aggregates are judged by the specification oracle Spec.C15.extendsBy on the real parser's output (partial)",
            "header-only: the model takes only the name and type rows; that the implementation reads nothing else (row widths, top-N window) is decided by e2e.C15.versions on XLSX and CSV inputs",
        ],
    },
    "C08": {
        "lean_modules": ["TableauVerif.Props.C08", "TableauVerif.Props.C01Grid", "TableauVerif.Props.C01Csv", "TableauVerif.Props.C18Names"],
        "oracles": ["c08.twin", "c08.known", "imp.grid"],
        "streams": [
            ("corr.xfs.csvNames", 4000, 100000),
            ("e2e.C08.twins", 240, 12000, 8),
            ("corr.protogen.parseHeader", 3000, 100000),
            ("corr.importer.grid", 3000, 100000),
            ("corr.importer.csvText", 4000, 200000),
        ],
        "assumptions": [
            "the XLSX and CSV readers (excelize, encoding/csv) are trusted libraries; what they hand over differs by trailing blank cells/rows and by the text of number-typed cells, which is what the theorems are about",
            "twin generation: the CSV twin is the rectangular export of the same cells; number-typed XLSX cells are written only for canonical integer texts (what Excel would export back unchanged)",
            "partial: equality of whole runs is decided by the twin stream (real GenProto+GenConf on both containers), the theorems cover the blank-column / blank-cell / integer-text invariances of the modelled parsers",
        ],
    },
    "C17": {
        "lean_modules": ["TableauVerif.Props.C17"],
        "oracles": ["c17.cls", "c17.fuzz", "c17.docfuzz", "c17.cross", "c17.sepcell"],
        "streams": [
            ("corr.types.match", 60000, 600000),
            ("corr.types.misc", 9000, 200000),
            ("spec.C17.classify", 8000, 300000),
            ("corr.protogen.parseHeader", 4000, 200000),
            ("e2e.C17.nopanic", 400, 20000, 8),
            ("e2e.C17.docfuzz", 400, 20000, 8),
            # in-cell aggregates with ONE separator set at field level × cells with blank items and lone separators
            ("e2e.C17.sepCells", 300, 12000, 4),
        ],
        "assumptions": [
            "modelled: the six recognisers of internal/types (direct recognisers of the regular expressions, tied to Go's regexp by exhaustive token sequences up to length 3/4 plus random ones), BelongToFirstElement, ParseTypeDescriptor, strcase.ToSnake without acronyms, and protogen's default-mode header parser (parseField / parseMapField / parseListField / parseStructField / parseBasicField / layout look-ahead / virtual type cells / nested naming) over the key:value vocabulary of field properties",
            "not a theorem: absence of panics and non-termination in the Go code itself; the Lean models are total by construction (the header parser by explicit fuel) and the Go code is exercised by the recover()/watchdog-guarded fuzz stream e2e.C17.nopanic and by every other stream's crash isolation (partial)",
            "prototext parsing of the field property text is a trusted library; the model answers `unmodelled` outside its vocabulary (counted as drift in the evidence)",
        ],
    },
    "C18": {
        "lean_modules": ["TableauVerif.Props.C18", "TableauVerif.Props.C18Incr", "TableauVerif.Props.C05Loops", "TableauVerif.Props.C18Names"],
        "oracles": ["c18.prep", "c18.incr", "c18.related"],
        "streams": [
            # naming a CSV workbook by a sheet file: the real xfs functions vs Model.CsvName ("#" and "." in directories and sheet names)
            ("corr.xfs.csvNames", 4000, 100000),
            ("corr.protogen.prepareOutdir", 3000, 100000),
            ("corr.xfs.clean", 30000, 400000),
            ("e2e.C18.incremental", 20, 300, 5),
            ("e2e.C18.related", 150, 6000),
        ],
        "assumptions": [
            "file systems are finite maps from paths to bytes; os.Remove / WriteFile are trusted to implement the map operations",
            "modelled: path.Clean on slash paths and prepareOutdir's removal rule over a directory listing; the workbook index behind incremental generation (buildWorkbookIndex / GenWorkbook: which primary books read a named workbook, as their own book or through Merger / Scatter specifiers) is Model.Incremental, tied by e2e.C18.related (generated trees with shared sources and books that are both primary and source; the real incremental Generate into an empty directory must write exactly the conf files of the related primary books) and proved to write what the full run writes, completely and confined (Props.C18Incr); that converting one primary book is a function of that book and its inputs is C04 / C16; byte equality with a fresh full run is decided by e2e.C18.incremental (recursive sha256 snapshots of input and output trees)",
        ],
    },
    "C06": {
        "lean_modules": ["TableauVerif.Props.C06", "TableauVerif.Props.C06Range"],
        "oracles": ["c06.rt", "c06.cell", "c20.emitts", "c13.dry"],
        "streams": [
            ("e2e.C06.formats", 3000, 100000),
            # cells at the edges of the Timestamp range: the three files of a worksheet are written together or not at all
            ("e2e.C06.boundary", 200, 6000),
            ("corr.xproto.squeeze", 70000, 600000),
            # the three files of every dry-run patch preview (several overlays at once) decode to one message: main patched by that overlay
            ("e2e.C13.dryrun", 30, 1000),
            ("corr.store.emitTimestamp", 10000, 300000),
        ],
        "assumptions": [
            "codecs are trusted parameters validated by the stream, not proved: protojson / prototext / wire marshal+unmarshal of protobuf-go, sonic's JSON AST, txtpbfmt, json.Compact/Indent",
            "modelled and proved: tableau's own transformation on the text path (SqueezeText); the JSON timestamp rewrite (emitTimezones): the string written for one Timestamp is modelled (Model.Rfc3339, corr.store.emitTimestamp); the walk over the message tree is exercised by e2e.C06.formats (message and JSON walked side by side: every Timestamp at any depth must be the same instant with the location's offset), not modelled",
            "timestamps are generated inside 1950-2033: year 0001/9999 edges overflow RFC 3339 when shifted into a zone and local-mean-time eras have second-resolution offsets RFC 3339 cannot print — outside the statement",
        ],
    },
    "C16": {
        "lean_modules": ["TableauVerif.Props.C16", "TableauVerif.Props.C16Pools"],
        "oracles": ["c16.hist"],
        "streams": [
            ("e2e.C16.history", 160, 1400, 8),
        ],
        "assumptions": [
            "every history is executed in ONE child process and its last call again in a FRESH child process (real GenProto/GenConf on generated inputs that reuse package, workbook, sheet, enum and column names); observation = files written (hashes) or error code of the last call",
            "modelled: the two lazily filled process-wide caches as key→table maps; the cache keys are re-read from the source on every run (pin_cache_keys); other process-wide state (metasheet name, language, log) is only exercised by the histories, not modelled",
            "load.Load has no language option (D33) — not covered by the pool of calls",
        ],
    },
    "C04": {
        "lean_modules": ["TableauVerif.Props.C04", "TableauVerif.Props.C04Rewrite", "TableauVerif.Props.C11"],
        "oracles": ["c04.det", "c11.merge", "c13.dry", "c04.rewrite", "c04.alias"],
        "streams": [
            ("e2e.C04.determinism", 32, 600, 8),
            # first uses of one enum's alias table by several goroutines at once (fresh descriptor per case)
            ("replay.C04.enumAlias", 400, 20000, 4),
            ("e2e.C11.merge", 200, 10000, 8),
            ("e2e.C13.dryrun", 30, 1000),
            ("corr.xfs.rewriteSubdir", 3000, 100000),
        ],
        # once more under Go's race detector: an unsynchronised access on an exercised path fails the op
        "race_streams": [
            ("e2e.C04.determinism", 8, 100, 4),
            ("replay.C04.enumAlias", 60, 2000, 4),
        ],
        "assumptions": [
            "abstraction: the Go scheduler, the map hash seed and directory/glob enumeration are 'some permutation / some interleaving'; the theorems quantify over all of them; the runtime itself is trusted to realise one",
            "the inventory of map iterations and goroutine spawns is regenerated from the type-checked source on every run (C04_inventory / C04_spawns): a new site is unclassified until Props/C04 lists it",
            "repeated real runs (fresh output dirs, GOMAXPROCS 1..16, map iteration re-randomised per run, merger completion orders forced through the yield hook) are compared file by file (sha256) for .proto, JSON, text and bin",
            "RewriteSubdir tries its rules in a fixed order since fix D10 (C04_rewrite_order_independent, corr.xfs.rewriteSubdir calls it 64 times per case so that the runtime enumerates the map in different orders); acronym patterns: two patterns matching at one position panic whatever the order (an ambiguous configuration, outside the statement)",
        ],
    },
    "C11": {
        "lean_modules": ["TableauVerif.Props.C11", "TableauVerif.Props.C11Union", "TableauVerif.Props.C18Names"],
        "oracles": ["c11.merge", "c11.spec", "c11.docscatter"],
        "streams": [
            # the book name of a YAML / XML workbook (what scattered files are named after) vs Model.CsvName.trimExt ∘ baseName
            ("corr.importer.docBookName", 300, 6000),
            ("e2e.C11.merge", 400, 20000, 8),
            ("e2e.C11.specifiers", 300, 12000),
            # Scatter on YAML / XML books: one file <Book>_<Sheet> per matched book, with that book's entries
            ("e2e.C11.docScatter", 200, 8000),
        ],
        "assumptions": [
            "the merge stream runs the REAL GenProto+GenConf on generated CSV books (rows partitioned over 1..4 books, glob merger) under EVERY completion order of the per-book goroutines, imposed through the verif yield hook in ParseMessage",
            "the specifier stream runs them on CSV and XLSX books with Merger / Scatter options made of several specifiers (glob, explicit books, book#sheet incl. several sheets of one secondary book, ScatterWithoutBookName) and compares every written file with Model.Sheets.mergedRows / scatteredFiles",
            "modelled: xproto.Merge/CheckMapDuplicateKey, the reduce step of ParseMessage, importer order (sorted matches, primary last); the per-book parse is the table-parser model",
            "partial: Scatter naming/export and explicit sheet specifiers (Book#Sheet) are not covered by this check yet",
        ],
    },
    "C01": {
        "lean_modules": ["TableauVerif.Props.C01", "TableauVerif.Props.C01List", "TableauVerif.Props.C01Sheet", "TableauVerif.Props.C01VList", "TableauVerif.Props.C01HList", "TableauVerif.Props.C01Grid", "TableauVerif.Props.C01Csv", "TableauVerif.Props.C09Incell"],
        "oracles": ["c01.rt", "imp.grid", "c03.parse", "c10.schema", "c14.e2e"],
        "streams": [
            ("e2e.C01.roundtrip", 8000, 300000),
            # the scalar layer on arbitrary cell texts: the value stored for a cell is the one its text states
            ("corr.xproto.parseFieldValue", 40000, 800000),
            ("corr.confgen.tableParse", 6000, 200000),
            ("corr.importer.grid", 3000, 100000),
            ("corr.importer.csvText", 8000, 400000),
            # whole sheets through the real importers and both generators, plain and transposed, CSV and XLSX, wider
            # than the importers' schema window: every field of the sheet is in the schema and in the conf
            ("e2e.C10.schema", 150, 6000),
            # in-cell aggregates written with separators set at any ONE level (field-level sep without subsep and the other
            # way round included): the cells must be split where the sheet's own separators stand
            ("e2e.C14", 200, 8000),
        ],
        "assumptions": [
            "the specification of 'what a sheet states' is the Lean writer Spec.C01.write (type-DSL layout rules); generated (schema, message) cases are written by it and converted by the REAL table parser (in-memory rows through the verif hook)",
            "modelled kinds: int32/uint32/int64/uint64/bool/string; enum, float, well-known types, unions are not in the round trip yet; protogen (header → schema) is composed in C02's check, not here",
            "theorem coverage is partial: scalar layer (C01_scalar_roundtrip, C01_flat_scalars_partial); aggregates are decided by the round-trip oracle on the implementation and by the model correspondence",
        ],
    },
    "C10": {
        "lean_modules": ["TableauVerif.Props.C10", "TableauVerif.Props.C10d", "TableauVerif.Props.C12Count"],
        "oracles": ["tp.pair", "c10.schema", "c12.refer"],
        "streams": [
            ("corr.confgen.layoutPairs", 6000, 200000),
            ("corr.confgen.tableParse", 6000, 200000),
            ("e2e.C10.schema", 200, 8000),
            # the refer check reads the referred sheet by column name: the column may stand anywhere, also behind blank-named columns
            ("e2e.C12.refer", 300, 12000),
        ],
        "assumptions": [
            "modelled: the confgen table parser (Parse, parseMessage, all map/list layouts, keyed lists, structs, scalars, presence/range, E0003, CellDebugKV) for int32/uint32/int64/uint64/bool/string; enums, floats, well-known types, unions, refer, default, adjacent-key population are not modelled (not generated)",
            "the protogen half of the property (same schema from a sheet and its transposed form) is not covered by this check yet (partial)",
        ],
    },
    "C05": {
        "lean_modules": ["TableauVerif.Props.C05", "TableauVerif.Props.C16Pools", "TableauVerif.Props.C05Loops"],
        "oracles": ["c05.typeinfos", "c05.gen", "c13.dry", "c11.merge", "c04.det", "c17.fuzz", "c17.cross", "c04.alias", "c05.docs"],
        "streams": [
            ("replay.C05.typeinfos", 2, 12, 1),
            # termination of whole conversions on arbitrary workbooks (watchdog; D47: cross:-1 on an optional sheet)
            ("e2e.C17.nopanic", 160, 4000),
            ("e2e.C05", 24, 400, 4),
            # document workbooks converted concurrently, one of them failing three structs deep: every run returns, with the same text
            ("e2e.C05.documents", 6, 120, 2),
            # the per-overlay goroutines of a scattered sheet share nothing they write: previews are independent of each
            # other and of the schedule (a violation shows as differing previews or as a crash of the worker)
            ("e2e.C13.dryrun", 30, 1000),
        ],
        # the same ops once more through a harness built with Go's race detector: an unsynchronised access to shared
        # state on an exercised path ends the worker and fails the op
        "race_streams": [
            ("replay.C05.typeinfos", 2, 8, 1),
            ("e2e.C05", 12, 200, 4),
            ("e2e.C05.documents", 4, 60, 2),
            ("e2e.C13.dryrun", 12, 300, 4),
            ("e2e.C11.merge", 16, 400, 4),
            ("e2e.C04.determinism", 8, 100, 4),
            ("replay.C04.enumAlias", 60, 2000, 4),
        ],
        "assumptions": [
            "race streams: Go's race detector sees only the interleavings and paths the generated runs exercise (no proof of race freedom); the lock discipline obligations cover the registries and caches for all schedules",
            "the lock programs are regenerated from the Go source (type-checked with go/packages) on every run; the discipline predicates over them are kernel-evaluated obligations",
            "abstraction: the Go scheduler realises one of the interleavings the thread model quantifies over; Go memory model, sync.Pool internals and library goroutines are trusted; data-race freedom beyond the lock discipline is not proved (partial)",
            "interface-method calls and calls through function values are not resolved statically: those made under a lock are pinned one by one (locks_dyn_calls_pinned)",
        ],
    },
    "C20": {
        "lean_modules": ["TableauVerif.Props.C20", "TableauVerif.Props.C20Civil", "TableauVerif.Props.C20Dur", "TableauVerif.Props.C20Days", "TableauVerif.Props.C06Range", "TableauVerif.Props.C20Emit", "TableauVerif.Props.C20EmitFrac", "TableauVerif.Props.C20EmitAll", "TableauVerif.Props.C20Valid"],
        "oracles": ["c20.ts", "c20.gen", "c20.dur", "c20.emitz", "c20.emitts", "c19.origin"],
        "streams": [
            ("corr.xproto.parseTime", 20000, 600000),
            ("corr.xproto.duration", 20000, 400000),
            ("e2e.C20.location", 300, 12000),
            ("corr.store.emitTimestamp", 20000, 600000),
            # the loader's own location option on origin workbooks (empty name = UTC, whatever the machine's zone is): the
            # message loaded from the origin equals the one loaded from the conf generated under the same location
            ("e2e.C19.origin", 120, 6000, 8),
        ],
        "assumptions": [
            "e2e.C20.location runs the real GenProto + GenConf with LocationName \"\" / \"Local\" / a zone name while the worker's machine zone (time.Local) is set to UTC, Kolkata, New_York or Lord_Howe; the reading of the option (\"\" = UTC, Local = machine zone) is the generator's, taken from the property text",
            "modelled: parseTimeWithLocation (layout choice, yyyyMMdd rewrite), time.ParseInLocation for the two layouts, time.Date's two-guess zone lookup, timestamppb.CheckValid; a location is its transition table, enumerated from Go's own zone database through Time.ZoneBounds (1950-2036) on every run",
            "durations / time-of-day cells: parseDuration's rewrites, time.ParseDuration (sign, segments, units, overflow checks) and durationpb.New are modelled (Model.Duration) and judged by Spec.C20Dur; fractions (1.5h) and non-ASCII input are answered 'unmodelled'",
            "not modelled: fractional seconds (answered 'unmodelled'), local mean time before the table, the POSIX-TZ extension rule after 2036; the EmitTimezones JSON rewrite is exercised by C06's format stream, not modelled here (partial)",
        ],
    },
    "C12": {
        "lean_modules": ["TableauVerif.Props.C12", "TableauVerif.Props.C12Contig", "TableauVerif.Props.C12Seq", "TableauVerif.Props.C12Count"],
        "oracles": ["c12.range", "c12.contig", "c01.rt", "c12.refer", "doc.parse", "c12.seq", "c12.redecl", "c12.keyrange"],
        "streams": [
            ("corr.fieldprop.range", 12000, 400000),
            ("e2e.C12.contiguity", 1200, 60000),
            ("corr.confgen.tableParse", 4000, 100000),
            # "a satisfied constraint never causes an error or changes the output": well-formed sheets written by
            # the specification must be accepted with exactly their data (deduced uniqueness, contiguity, sizes)
            ("e2e.C01.roundtrip", 4000, 150000),
            ("e2e.C12.refer", 300, 12000),
            ("e2e.C12.sequence", 300, 12000),
            # one nested type name declared by two columns with the same or with different sub-field constraints
            ("e2e.C12.redeclared", 200, 8000),
            # a range on the key of a struct-valued map, vertical and horizontal layouts
            ("e2e.C12.keyRange", 200, 8000),
            # uniqueness in documents: the document parser model (incl. E2005 on map nodes and keyed lists) against
            # the real one; o.doc.parse judges the clear case (a unique map stating one key text twice)
            ("corr.confgen.docParse", 6000, 200000),
        ],
        "assumptions": [
            "modelled: fieldprop.CheckInRange (signed/unsigned integer kinds, string length), CheckMapKeySequence (signed keys), GetSize/IsFixed; float ranges answered by the implementation only (not modelled)",
            "partial: unique / refer / contiguity / duplicate-column constraints are decided by the end-to-end streams of the table parser, not by these theorems",
        ],
    },
    "C13": {
        "lean_modules": ["TableauVerif.Props.C13", "TableauVerif.Props.C13Map"],
        "oracles": ["c13.patch", "c13.load", "c13.dry", "c13.tbl", "c13.ydoc", "c13.emap"],
        "streams": [
            ("corr.xproto.patch", 6000, 300000),
            ("e2e.C13.load", 3000, 100000),
            ("e2e.C13.dryrun", 40, 1500),
            # table worksheets: PATCH_REPLACE marks of scalar and struct list columns through GenProto, dry run and loader
            ("e2e.C13.table", 200, 8000),
            # document worksheets (YAML): an overlay entry replaces main's entry of its key whatever its value is ("" included)
            ("e2e.C13.docPatch", 200, 8000),
            # in-cell maps keyed by an enum / by int32, PATCH_REPLACE or default, through GenProto, dry run and loader
            ("e2e.C13.incellMaps", 200, 8000),
        ],
        "assumptions": [
            "modelled: xproto.PatchMessage/patchMessage/patchList/patchMap over message trees (populated fields only); unknown fields not modelled",
            "aliasing / src-unchanged is a heap property a pure model cannot express: checked at run time by the harness (proto.Equal of src before/after) and reported in the observation",
            "load.loadWithPatch is modelled as Model.Patch.load (patch type, load mode, existing / missing patch files in the given order) and tied by e2e.C13.load "
            "through real files in json / text / bin and PatchDirs / PatchPaths; DryRun 'patch' previews of a scattered PATCH_MERGE sheet are compared with the loader's result per overlay (e2e.C13.dryrun)",
        ],
    },
    "C03": {
        "lean_modules": ["TableauVerif.Props.C03", "TableauVerif.Props.C03Frac", "TableauVerif.Props.C03Enum", "TableauVerif.Props.C20Dur", "TableauVerif.Props.C12Count"],
        "oracles": ["c03.parse", "c03.frac", "c03.cmp", "c20.dur", "c03.reject", "c03.enum", "c09.doc"],
        "streams": [
            ("corr.xproto.enum", 6000, 200000),
            ("e2e.C03.reject", 800, 30000),
            # documents: a corrupted scalar at any depth and a corrupted element of a cross-cell list must be rejected
            ("e2e.C09.documents", 300, 12000, 8),
            ("corr.xproto.duration", 10000, 200000),
            ("corr.xproto.parseFieldValue", 60000, 1500000),
            ("corr.xproto.fraction", 30000, 400000),
        ],
        "assumptions": [
            "enum cells: parseEnumValue is modelled (Model.EnumLit: number through the float reading and truncation, name, alias, E2006) and judged by Spec.C03Enum; special floats, out-of-int32 numbers and digit-led texts with underscores are answered 'unmodelled'",
            "modelled: ParseFieldValue for the int32/uint32/int64/uint64 families and bool (strconv.ParseInt/ParseUint/ParseBool and the decimal subset of ParseFloat transliterated); "
            "answered 'unmodelled' (compared by the oracle only): hex floats, '_' separators, non-integer literals with more than 15 digits",
            "strconv.ParseFloat's float64 rounding is not modelled; the modelled class is chosen so that rounding cannot change the result (DESIGN.md C03)",
        ],
    },
    "C07": {
        "lean_modules": ["TableauVerif.Props.C07", "TableauVerif.Props.C07Desc", "TableauVerif.Props.C07Header"],
        "oracles": ["c07.position", "c07.desc", "c07.corrupt", "c07.skip", "tp.parse", "pg.errpos", "c07.book", "pg.e2epos"],
        "streams": [
            ("corr.excel.position", 4000, 200000),
            ("corr.xerrors.newDesc", 6000, 300000),
            ("e2e.C07.corrupt", 5000, 200000),
            ("corr.confgen.tableParse", 6000, 200000),
            ("corr.protogen.parseHeader", 8000, 200000),
            ("spec.C07.headerPos", 8000, 200000),
            # the same spoilt headers through the real GenProto: NameCellPos / TypeCellPos of the rendered error
            ("spec.C07.headerPosE2E", 1000, 30000),
            ("e2e.C07.book", 240, 10000),
        ],
        "assumptions": [
            "modelled: excel.LetterAxis/Postion, xerrors.ErrorKV/WrapKV/Error(), xerrors.NewDesc, the header cursor protogen's "
            "table parser returns with an error (the column of NameCellPos / TypeCellPos)",
        ],
    },
    "C14": {
        "lean_modules": ["TableauVerif.Props.C14", "TableauVerif.Props.C14Pins", "TableauVerif.Props.C14Lines"],
        "oracles": ["c14.merge", "c14.fieldsep", "c14.fieldsubsep", "c14.e2e", "c12.refer"],
        "streams": [
            ("corr.parseroptions.mergeHeader", 3000, 200000),
            ("corr.confgen.fieldSep", 400, 4000),
            ("corr.protogen.record", 2000, 100000),
            ("corr.protogen.recordDoc", 2000, 100000),
            ("e2e.C14", 600, 20000),
            # confgen's second reader of a worksheet (the refer check) must resolve the same header rows: referred
            # sheets whose rows are moved by the global header options or by the book-level '#' row
            ("e2e.C12.refer", 300, 12000),
        ],
        "assumptions": [
            "modelled: MergeHeader, GetSep/GetSubsep, parseFieldDescriptor(sep part), newBookParser/newTableParser option recording; "
            "not modelled: flag parsing of tableauc, YAML config loading of options",
        ],
    },
}
