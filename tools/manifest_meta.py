HOOK_COMMITS = []

NOT_APPLICABLE = {}

META = {
    "C14": {
        "technique": "Lean 4 theorem (decision logic stated outright) + regenerated source pins + differential correspondence",
        "text": "Kernel-checked theorems: the three-level resolver equals 'most specific non-empty setting, else default' for every presence pattern and all values (C14_resolve), field > sheet > book > default for separators (C14_sep_field/C14_subsep_field), and what confgen resolves from the options protogen records equals what protogen used (C14_recorded_agree_partial: without a book-level '#' row; the full statement is refuted by a kernel-checked witness, finding D11). The model is tied to the code by pins over the regenerated if-chains of MergeHeader and default constants, and by differential streams against the real MergeHeader / parseFieldDescriptor / newTableParser.",
        "note": "Trusted: Lean kernel; the hand-written model as far as the streams and pins check it; harness and extractor. Not modelled: CLI/YAML option loading.",
    },
}
