import subprocess
def _hook_commits():
    try:
        out = subprocess.check_output(["git", "-C", "/repo", "log", "--format=%h %s"], text=True)
        return [l.split()[0] for l in out.splitlines() if " verif hooks:" in " " + l][::-1]
    except Exception:
        return []
HOOK_COMMITS = _hook_commits()

NOT_APPLICABLE = {}

META = {
    "C01": {
        "technique": "Lean 4 theorems (scalar round trip, row of scalar columns builds exactly the stated message) + Lean specification writer as round-trip oracle on the real table parser + differential correspondence of the whole table-parser model",
        "text": "Kernel-checked: every canonical populated scalar written in a cell is read back as exactly that value for all six modelled kinds and all values (C01_scalar_roundtrip, on top of C03's all-n theorems), blank cells are absent, and a data row of scalar columns yields exactly the message its non-blank cells state — each value once, at its field, nothing else (C01_flat_scalars_partial, any number of columns). The full statement (all layouts: vertical/horizontal/in-cell maps and lists, keyed lists, structs, nesting) is decided on every run by the round trip: generated (schema, message) pairs are written as worksheets by the Lean specification Spec.C01.write and converted by the real parser, the oracle demanding exactly the message back; the table-parser model itself is tied to the code by corr.confgen.tableParse.",
        "note": "Partial: the round-trip THEOREM covers the scalar layer only; aggregates rest on the oracle + correspondence. Trusted: Lean kernel, Spec.C01.write as the reading of the documentation, harness. Not covered: enum/float/well-known/union cells, XLSX container (C08), protogen side (C02).",
    },
    "C10": {
        "technique": "Lean 4 theorems (invariance of the parser's accessors, lifted to whole sheets by induction over data lines) + differential correspondence of the table parser + pair oracle on the real parser",
        "text": "Kernel-checked on the table-parser model, for every schema, sheet and data: (b) any permutation of the columns (names pairwise distinct) gives the same message or the same error code at the same column name (C10b_acc/C10b_parse/C10b_sheet); (c) inserting blank-named columns anywhere changes nothing (C10c_acc/C10c_sheet, true since fix D14); (a) a sheet and its transposed form with the flag flipped convert identically (C10a_transpose via toCols_transpose). The model (whole confgen table parser for the modelled kinds) is tied to the code by corr.confgen.tableParse (0 differences over generated schemas × grids) and the real parser is judged directly on layout pairs (transpose / permute / pad / blank rows) by corr.confgen.layoutPairs.",
        "note": "Trusted: Lean kernel; model as far as the streams check it. Known finding D35 (blank rows with present/sequence/fixed/size). Partial: (d) optional-column removal and the protogen transpose half are only exercised, not proved; enums/floats/well-known/unions not modelled.",
    },
    "C05": {
        "technique": "Lean 4 theorem (deadlock-freedom and invariant preservation of disciplined lock programs under every schedule) + kernel-evaluated discipline obligations over lock programs regenerated from the Go source + watchdog replays",
        "text": "Kernel-checked general theorem: threads whose lock programs obey the discipline (acquire only when nothing is held, every acquisition released, Lock = announce;acquire) can always make progress or have all finished, at every state reachable under every schedule, with Go's writer-preferring RWMutex semantics (C05_deadlock_free, C05_invariant); the shape removed by fix D1 (re-entrant RLock + writer) provably deadlocks (C05_reentrant_rlock_deadlocks). That the code base obeys the discipline is re-established on every run: the extractor type-checks /repo and regenerates the lock program of every function touching a mutex/errgroup/Once (and callers), and five obligations over that data are kernel-evaluated (balanced on every path, at most one lock held, no acquisition under a lock through static calls, no lock across Wait/Once, dynamic calls under lock pinned). Real runs under a watchdog (TypeInfos Get/Put stress; GenProto+GenConf with good/broken refers, repeated calls) are judged by 'the call returned'.",
        "note": "Partial by nature: the Go scheduler/memory model are abstracted as arbitrary interleavings of lock events; data-race freedom of unlocked accesses is not proved (no lockset theorem yet); interface/func-value calls are pinned, not analysed. Trusted: Lean kernel, extractor (go/packages), harness.",
    },
    "C20": {
        "technique": "Lean 4 theorems (fixed-offset locations: stored instant shows the wall clock; first-guess finality inside a zone interval) + differential correspondence over real zone tables + independent 'location shows wall clock' oracle",
        "text": "Kernel-checked: in every single-offset location (UTC, fixed offsets) and for every wall clock the computed instant is wall-as-UTC minus the offset and the location shows exactly that wall clock at it (C20_fixed_offset, C20_fixed_offset_shows, C20_utc); in any transition table the first guess is final when it lands inside the interval found (C20_inside_interval). The model (layout choice, yyyyMMdd rewrite, Go layout parsing, two-guess zone lookup, Timestamp validity) is tied to the code by a differential stream over 20 IANA zones (half-hour, 45-minute, DST, date-line) with wall clocks at every transition ± hours in all three spellings; an independent oracle (read the clock at the stored instant: offset in force + civil-from-days) judges every implementation result.",
        "note": "Trusted: Lean kernel; Go's time package and zone database (tables are re-read from it on every run); model as far as the stream checks it. Partial: DST correctness is decided by the oracle on the enumerated transitions, not by a theorem; durations and EmitTimezones output are not covered yet.",
    },
    "C12": {
        "technique": "Lean 4 theorem (accepts iff member of the denoted range, for all bounds and values) + differential correspondence + Lean oracle",
        "text": "Kernel-checked: for every numeric/string-length kind, every well-formed range text (open ends, equal bounds, int64/uint64 extremes) and every value, the range check accepts iff the value lies in the denoted set and otherwise reports E2004 (C12_range_iff); it never panics whatever the text (C12_range_total, true since fix D4); no range means no error; sequence and size helpers characterised. Tied to fieldprop.CheckInRange by boundary-table/random differential stream; an independent denotational reading of the range text judges every implementation answer.",
        "note": "Trusted: Lean kernel; model as far as streams check it. Partial: float ranges, unique/refer/contiguity/duplicate-column constraints are not covered by theorems yet.",
    },
    "C13": {
        "technique": "Lean 4 theorems (algebraic laws of the patch function: identity, frame, per-field determination, order-independence, replace) + differential correspondence + independent field-by-field Lean spec as oracle",
        "text": "Kernel-checked laws of the modelled patch at any nesting depth and for every message: empty patch is the identity (C13_identity); fields unpopulated in the patch are unchanged (C13_frame); each populated field's result is determined by its own step alone (C13_field) hence independent of Range's enumeration order (C13_order_independent, all permutations); scalars overwrite, list elements append, PATCH_REPLACE makes dst's old value irrelevant (C13_scalar/C13_list/C13_replace/C13_replace_eq_from_empty). The model is tied to xproto.PatchMessage by a differential stream over generated schemas (all kinds, cardinalities, presence, PATCH_REPLACE placements, nesting) and an independently written field-by-field specification judges every implementation result.",
        "note": "Trusted: Lean kernel; model as far as the stream checks it; protobuf-go reflection. Partial: aliasing/src-unchanged is a runtime check of the harness, not a theorem; load.Load's patch-file fold and DryRun are not yet modelled.",
    },
    "C03": {
        "technique": "Lean 4 theorems (decision logic per kind over the whole string space) + differential correspondence + Lean oracle on the implementation's observations",
        "text": "Kernel-checked theorems over all integers and all strings: every in-range integer written canonically is stored exactly (C03_int32/uint32/int64/uint64_exact, all n), every out-of-range integer is rejected (…_overflow, all n: MIN-1, MAX+1 and beyond), any non-digit rune in a 64-bit cell is rejected (C03_garbage_*), the twelve bool spellings are accepted and every other whole-cell text rejected, blank cells are absent. The model of ParseFieldValue (integer families, bool) is tied to the code by an exhaustive/boundary/random differential stream; the property's must-accept/must-reject oracle (Lean) judges every implementation observation.",
        "note": "Trusted: Lean kernel; model only as far as the stream checks it; float64 rounding of strconv.ParseFloat is outside the model (modelled class avoids it). Partial: enum, float/double and well-known kinds are judged through later streams, not these theorems.",
    },
    "C07": {
        "technique": "Lean 4 theorems (bijectivity of the A1 encoding) + differential correspondence of the error-text protocol + Lean oracle",
        "text": "Kernel-checked: the column letters decode back to the column for every n (C07_a1), the A1 text determines row and column (C07_position_injective). The key/value error-text protocol (ErrorKV/WrapKV/NewDesc) is modelled and tied to the code by a differential stream over generated nested error values; the oracle 'innermost layer wins' judges the implementation's Desc.",
        "note": "Trusted: Lean kernel; model as far as streams check it. Partial: the single-cell-corruption statement over the whole table parser is decided by the end-to-end stream, not yet by a theorem.",
    },
    "C14": {
        "technique": "Lean 4 theorem (decision logic stated outright) + regenerated source pins + differential correspondence",
        "text": "Kernel-checked theorems: the three-level resolver equals 'most specific non-empty setting, else default' for every presence pattern and all values (C14_resolve), field > sheet > book > default for separators (C14_sep_field/C14_subsep_field), and what confgen resolves from the options protogen records equals what protogen used (C14_recorded_agree, for every sheet row, '#' row and global header; true since fix D11, the pre-fix recording is refuted by a kernel-checked witness). The model is tied to the code by pins over the regenerated if-chains of MergeHeader and default constants, by differential streams against the real MergeHeader / parseFieldDescriptor / newTableParser+mergeBookOptions, and by an end-to-end stream (sheets physically laid out per the resolved options through real GenProto+GenConf).",
        "note": "Trusted: Lean kernel; the hand-written model as far as the streams and pins check it; harness and extractor. Not modelled: CLI/YAML option loading.",
    },
}
