#!/usr/bin/env python3
"""prints the prompt for a mutation sub-agent: only the property text + its own scratch worktree"""
import json, sys
pid, wt, out = sys.argv[1], sys.argv[2], sys.argv[3]
variant = sys.argv[4] if len(sys.argv) > 4 else ""
prop = None
for l in open('/verif/properties.jsonl'):
    p = json.loads(l)
    if p['id'] == pid:
        prop = p
text = json.dumps(prop, indent=1, ensure_ascii=False)
print(f"""You are helping to evaluate a verification effort for the Go project tableauio/tableau (a converter that turns Excel/CSV/XML/YAML workbooks into protobuf schemas and JSON/text/binary config data).

You have your own scratch git worktree of the project at {wt} . Work ONLY inside {wt} and write your results to {out} (create it). Do not read or touch /repo or /verif (anything there is off limits), and do not look for other verification material on this machine.

The sandbox has no network. In every shell command first run:
  export GOFLAGS=-mod=mod GOPROXY=off GOSUMDB=off GOTOOLCHAIN=local
The project builds with `go build ./...` and its test suite runs with `go test -vet=off -count=1 ./...` (a few minutes). Some source files use CRLF line endings: keep each file's line endings as they are (do not rewrite whole files).

Here is a semantic property that the project is supposed to satisfy (JSON record):

{text}

YOUR TASK: write a realistic change (a bug a developer could plausibly introduce: a refactor gone subtly wrong, an optimisation, a "simplification", a changed default, an off-by-one, a lost check, a changed order, a race …) to the NON-TEST Go source of the project in {wt} that BREAKS this property, while
  (1) the project still compiles (`go build ./...`), and
  (2) the existing test suite still passes completely, unedited (`go test -vet=off -count=1 ./...`) — you may not modify or delete existing tests or testdata.
The change must need something specific to manifest — an unusual input, a particular boundary value, a multi-step sequence, a particular configuration or option combination, a particular interleaving, or two cooperating edits that each look fine alone — NOT something that ordinary use would expose at once. Keep it small (typically 1-15 changed lines). {variant}

Also write a DEMONSTRATION: a new Go test file (or a small main program) that FAILS with your change applied and PASSES on the unchanged code, exercising the property through the project's code (public API such as tableau.GenProto/GenConf, load.Load, store, xerrors, or package-internal functions via an in-package _test.go file). Verify both directions yourself: run the demonstration with the change (must fail) and after `git stash`/reverting the change (must pass), and run the full existing test suite with the change applied (must pass).

Deliver into {out}:
  - patch.diff : output of `git diff` for the source change ONLY (not the demonstration), applicable with `git apply` at the worktree's HEAD;
  - the demonstration file(s), plus demo.md saying where each file goes in the tree and the exact command to run it;
  - notes.md : what the change does, why it breaks the property, what exactly is needed for it to manifest, and the outputs you observed (demo with/without change, test suite result).
When done, leave the worktree clean of the demonstration files or not as you like; just make sure {out} is complete. Reply with a short summary (what you changed, what manifests it, and confirmation of the three runs).""")
