#!/bin/bash
# prepare a new round of seed agents: for every property a scratch worktree /tmp/wt<R>/<ID> at /repo HEAD and a prompt
# /tmp/seed<R>/prompt_<ID>.txt that names the files earlier seeds of that property touched.  usage: mkround.sh <R> [ids…]
R=$1; shift
ids=("$@"); if [ ${#ids[@]} -eq 0 ]; then ids=(C01 C02 C03 C04 C05 C06 C07 C08 C09 C10 C11 C12 C13 C14 C15 C16 C17 C18 C19 C20); fi
mkdir -p /tmp/wt$R /tmp/seed$R
for id in "${ids[@]}"; do
  git -C /repo worktree remove --force /tmp/wt$R/$id 2>/dev/null
  git -C /repo worktree add -q --detach /tmp/wt$R/$id HEAD
  files=$(cat /verif/seeded/$id-*/patch.diff /verif/seeded/_superseded/$id-*/patch.diff 2>/dev/null | grep '^+++ b/' | sed 's#^+++ b/##' | sort -u | tr '\n' ',' | sed 's/,$//; s/,/, /g')
  variant="Do NOT make your change in any of these files (earlier experiments already covered them): $files. Pick another clause of the property statement, another code path, input format (xlsx / csv / xml / yaml), layout, option or boundary that the property also covers. IMPORTANT: never use \`git stash\` (the stash is shared between sibling worktrees): to run something without your change use \`git diff > patch.diff\` then \`git apply -R patch.diff\`, and \`git apply patch.diff\` to put it back."
  python3 /verif/tools/mkseedprompt.py $id /tmp/wt$R/$id /tmp/seed$R/$id "$variant" > /tmp/seed$R/prompt_$id.txt
done
ls /tmp/seed$R | wc -l
