#!/bin/bash
# build the harness against a scratch worktree of /repo instead of /repo itself (for trying a seed while /repo is busy)
# usage: build_wt.sh <worktree> <out-binary>
set -e
export GOFLAGS=-mod=mod GOPROXY=off GOSUMDB=off GOTOOLCHAIN=local
H=/verif/.cache/tmp/hwt.$$; rm -rf $H; mkdir -p $H; cp -r /verif/harness/. $H/
sed -i "s#=> /repo#=> $1#" $H/go.mod
(cd $H && go build -tags verif -o "$2" ./cmd/vh)
rm -rf $H
