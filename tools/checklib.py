"""
Check driver library.  See /verif/DESIGN.md §3.5.

Flow for one property:
  1. rebuild from /repo's working tree: Go harness (-tags verif), extractor → lean/TableauVerif/Generated,
     `lake build` of the property's proof modules + the line-protocol driver;
  2. proof obligations: module builds, no sorry/axiom/native_decide, `#print axioms` of every theorem;
  3. correspondence streams: the same generated ops go to the REAL code (vh impl) and to the Lean model
     (tvdriver); outputs are diffed; the property's executable oracle (Lean, `o.<fn>`) judges the
     implementation's observation of every op;
  4. known findings are replayed (must still fail as recorded) and printed as KNOWN-FINDING;
  5. anything broken → failing-input search → VIOLATION line + replay file;
  6. evidence/<id>.json is rewritten.
"""
import concurrent.futures as cf
import fcntl, glob, hashlib, json, os, re, shutil, subprocess, sys, time

VERIF = os.path.dirname(os.path.dirname(os.path.abspath(__file__)))
REPO = os.environ.get("VERIF_REPO", "/repo")
LEAN = os.path.join(VERIF, "lean")
HARNESS = os.path.join(VERIF, "harness")
EXTRACT = os.path.join(VERIF, "extract")
CACHE = os.path.join(VERIF, ".cache")
BIN = os.path.join(CACHE, "bin")
TMP = os.path.join(CACHE, "tmp")
VH = os.path.join(BIN, "vh")
VH_RACE = os.path.join(BIN, "vh-race")
TABLEAUC = os.path.join(BIN, "tableauc")
EXTRACTOR = os.path.join(BIN, "vextract")
DRIVER = os.path.join(LEAN, ".lake", "build", "bin", "tvdriver")
ALLOWED_AXIOMS = {"propext", "Classical.choice", "Quot.sound"}
NCPU = min(16, os.cpu_count() or 4)

GOENV = dict(os.environ, GOFLAGS="-mod=mod", GOPROXY="off", GOSUMDB="off", GOTOOLCHAIN="local",
             CGO_ENABLED=os.environ.get("CGO_ENABLED", "0"))

sys.path.insert(0, os.path.join(VERIF, "tools"))
import props as PROPS  # noqa: E402


class MachineryError(Exception):
    pass


def log(*a):
    print("[check]", *a, file=sys.stderr, flush=True)


def run(cmd, cwd=None, env=None, timeout=None, inp=None):
    p = subprocess.run(cmd, cwd=cwd, env=env, timeout=timeout, input=inp,
                       stdout=subprocess.PIPE, stderr=subprocess.PIPE, text=True)
    return p.returncode, p.stdout, p.stderr


# --------------------------------------------------------------------------- build

class Lock:
    def __init__(self, name):
        os.makedirs(CACHE, exist_ok=True)
        self.path = os.path.join(CACHE, name + ".lock")

    def __enter__(self):
        self.f = open(self.path, "w")
        fcntl.flock(self.f, fcntl.LOCK_EX)

    def __exit__(self, *a):
        fcntl.flock(self.f, fcntl.LOCK_UN)
        self.f.close()


def tree_hash():
    """hash of the working tree of /repo (not of git objects): edits need not be committed"""
    h = hashlib.sha256()
    for root, dirs, files in os.walk(REPO):
        dirs[:] = sorted(d for d in dirs if d not in (".git",))
        for fn in sorted(files):
            if fn.endswith((".go", ".mod", ".sum", ".yaml", ".yml", ".proto")):
                p = os.path.join(root, fn)
                try:
                    with open(p, "rb") as f:
                        data = f.read()
                except OSError:
                    continue
                h.update(os.path.relpath(p, REPO).encode())
                h.update(b"\0")
                h.update(hashlib.sha256(data).digest())
    return h.hexdigest()[:16]


def verif_hash(sub):
    h = hashlib.sha256()
    for root, dirs, files in os.walk(os.path.join(VERIF, sub)):
        dirs[:] = sorted(dirs)
        for fn in sorted(files):
            p = os.path.join(root, fn)
            h.update(p.encode())
            with open(p, "rb") as f:
                h.update(hashlib.sha256(f.read()).digest())
    return h.hexdigest()[:16]


class BuildState:
    """what could be (re)built from the current tree; failures are recorded, not raised"""
    def __init__(self):
        self.go_ok = True
        self.go_err = ""
        self.extract_ok = True
        self.extract_err = ""
        self.lean_ok = {}      # module -> bool
        self.lean_err = {}     # module -> text
        self.driver_ok = True
        self.driver_err = ""
        self.tree = ""


def build_go(bs):
    os.makedirs(BIN, exist_ok=True)
    os.makedirs(TMP, exist_ok=True)
    th = tree_hash()
    bs.tree = th
    stamp = os.path.join(BIN, "stamp.json")
    want = {"tree": th, "harness": verif_hash("harness"), "extract": verif_hash("extract")}
    try:
        have = json.load(open(stamp))
    except Exception:
        have = {}
    if have == want and all(os.path.exists(p) for p in (VH, TABLEAUC, EXTRACTOR)):
        return
    try:
        shutil.copy(os.path.join(REPO, "go.sum"), os.path.join(HARNESS, "go.sum"))
        shutil.copy(os.path.join(REPO, "go.sum"), os.path.join(EXTRACT, "go.sum"))
    except OSError:
        pass
    for p in (VH, TABLEAUC, EXTRACTOR, stamp):
        if os.path.exists(p):
            os.remove(p)
    t0 = time.time()
    rc, out, err = run(["go", "build", "-o", EXTRACTOR, "."], cwd=EXTRACT, env=GOENV, timeout=900)
    if rc != 0:
        bs.extract_ok = False
        bs.extract_err = err[-4000:]
    rc, out, err = run(["go", "build", "-tags", "verif", "-o", VH, "./cmd/vh"], cwd=HARNESS, env=GOENV, timeout=1800)
    if rc != 0:
        bs.go_ok = False
        bs.go_err = err[-4000:]
    rc, out, err = run(["go", "build", "-o", TABLEAUC, "./cmd/tableauc"], cwd=REPO, env=GOENV, timeout=1800)
    if rc != 0:
        bs.go_ok = False
        bs.go_err += "\n" + err[-4000:]
    log("go builds %.1fs (go_ok=%s)" % (time.time() - t0, bs.go_ok))
    if bs.go_ok and bs.extract_ok:
        json.dump(want, open(stamp, "w"))


def run_extractor(bs):
    """regenerate lean/TableauVerif/Generated/*.lean from /repo (tie 2); files are rewritten only on change"""
    if not bs.extract_ok:
        return
    gen_dir = os.path.join(LEAN, "TableauVerif", "Generated")
    tmp_dir = os.path.join(TMP, "gen.%d" % os.getpid())
    os.makedirs(tmp_dir, exist_ok=True)
    rc, out, err = run([EXTRACTOR, "-repo", REPO, "-out", tmp_dir], env=GOENV, timeout=600)
    if rc != 0:
        bs.extract_ok = False
        bs.extract_err = (out + err)[-4000:]
        shutil.rmtree(tmp_dir, ignore_errors=True)
        return
    os.makedirs(gen_dir, exist_ok=True)
    produced = set()
    for fn in sorted(os.listdir(tmp_dir)):
        produced.add(fn)
        src, dst = os.path.join(tmp_dir, fn), os.path.join(gen_dir, fn)
        new = open(src).read()
        old = open(dst).read() if os.path.exists(dst) else None
        if new != old:
            open(dst, "w").write(new)
    for fn in os.listdir(gen_dir):          # delete stale generated files
        if fn not in produced:
            os.remove(os.path.join(gen_dir, fn))
    shutil.rmtree(tmp_dir, ignore_errors=True)


def lake_build(targets, timeout=3600):
    return run(["lake", "build"] + targets, cwd=LEAN, timeout=timeout)


def build_lean(bs, modules):
    rc, out, err = lake_build(["tvdriver"])
    if rc != 0:
        bs.driver_ok = False
        bs.driver_err = (out + err)[-6000:]
    for m in modules:
        pre = getattr(PROPS, "PRECHECK", {}).get(m)
        if pre:
            # fast (interpreted) evaluation of decidable obligations over regenerated facts: a false predicate would
            # make the kernel proof fail only after minutes, so report the obligation broken right away
            deps, script = pre
            rc, out, err = lake_build(deps)
            if rc == 0:
                rc, out, err = run(["lake", "env", "lean", "--run", script], cwd=LEAN, timeout=600)
            bad = [l for l in out.split("\n") if l.endswith("=false")]
            if rc != 0 or bad:
                bs.lean_ok[m] = False
                bs.lean_err[m] = ("precheck %s: %s (the kernel proof was not attempted)" % (script, ", ".join(bad) or (out + err)[-800:]))
                continue
        rc, out, err = lake_build([m])
        bs.lean_ok[m] = (rc == 0)
        if rc != 0:
            bs.lean_err[m] = (out + err)[-6000:]


def build_all(modules):
    bs = BuildState()
    with Lock("build"):
        t0 = time.time()
        build_go(bs)
        run_extractor(bs)
        build_lean(bs, modules)
        log("build total %.1fs" % (time.time() - t0))
    return bs


# --------------------------------------------------------------------------- proof audit

FORBIDDEN = re.compile(r"\bsorry\b|\badmit\b|^\s*axiom\s|native_decide|bv_decide|implemented_by|\bunsafe\s|maxHeartbeats\s+0")


def strip_comments(src):
    # remove /- … -/ (nested) and -- … comments
    out, i, depth, n = [], 0, 0, len(src)
    while i < n:
        if src.startswith("/-", i):
            depth += 1
            i += 2
        elif depth and src.startswith("-/", i):
            depth -= 1
            i += 2
        elif depth:
            if src[i] == "\n":
                out.append("\n")
            i += 1
        elif src.startswith("--", i):
            while i < n and src[i] != "\n":
                i += 1
        else:
            out.append(src[i])
            i += 1
    return "".join(out)


def module_file(mod):
    return os.path.join(LEAN, *mod.split(".")) + ".lean"


def lean_sources():
    res = []
    for root, dirs, files in os.walk(LEAN):
        dirs[:] = [d for d in dirs if d != ".lake"]
        for fn in files:
            if fn.endswith(".lean"):
                res.append(os.path.join(root, fn))
    return sorted(res)


def forbidden_scan():
    hits = []
    for p in lean_sources():
        src = strip_comments(open(p).read())
        # string literals may legitimately mention words; drop them
        src = re.sub(r'"(\\.|[^"\\])*"', '""', src)
        for ln, line in enumerate(src.split("\n"), 1):
            if FORBIDDEN.search(line):
                hits.append("%s:%d: %s" % (os.path.relpath(p, VERIF), ln, line.strip()))
    return hits


THEOREM_RE = re.compile(r"^\s*(?:@\[[^\]]*\]\s*)?(?:protected\s+|private\s+)?theorem\s+([A-Za-z_][\w.'?!]*)", re.M)
NAMESPACE_RE = re.compile(r"^\s*namespace\s+([\w.]+)", re.M)


def theorems_of(mod):
    src = strip_comments(open(module_file(mod)).read())
    ns = NAMESPACE_RE.search(src)
    prefix = (ns.group(1) + ".") if ns else ""
    return [prefix + m.group(1) for m in THEOREM_RE.finditer(src)]


def axiom_audit(mod):
    """returns (list of (theorem, axioms, ok)), error text"""
    ths = theorems_of(mod)
    if not ths:
        return [], ""
    os.makedirs(TMP, exist_ok=True)
    path = os.path.join(TMP, "audit_%s_%d.lean" % (mod.replace(".", "_"), os.getpid()))
    with open(path, "w") as f:
        f.write("import %s\n" % mod)
        for t in ths:
            f.write("#print axioms %s\n" % t)
    rc, out, err = run(["lake", "env", "lean", path], cwd=LEAN, timeout=1200)
    os.remove(path)
    if rc != 0:
        return [], (out + err)[-4000:]
    res = {}
    # output forms: "'X' depends on axioms: [a, b]" possibly wrapped over lines / "'X' does not depend on any axioms"
    text = out.replace("\n", " ")
    for m in re.finditer(r"'(\S+?)' (does not depend on any axioms|depends on axioms: \[([^\]]*)\])", text):
        name = m.group(1)
        axs = [a.strip() for a in (m.group(3) or "").split(",") if a.strip()]
        res[name] = axs
    rows = []
    for t in ths:
        if t not in res:
            rows.append((t, ["<no #print axioms output>"], False))
        else:
            rows.append((t, res[t], all(a in ALLOWED_AXIOMS for a in res[t])))
    return rows, ""


# --------------------------------------------------------------------------- streams

MAX_CRASHES_PER_SHARD = 6


def run_lines(cmd, lines, crash_token, timeout_per_chunk=1800, env=None):
    """Feed op lines to a line-protocol process; on a crash record `crash_token` for the op that
    killed it and restart on the rest (crash isolation). After MAX_CRASHES_PER_SHARD crashes the
    remaining ops of this shard are answered SKIPPED (the crashes already decide the outcome)."""
    outs = []
    i = 0
    restarts = 0
    crashes = 0
    while i < len(lines):
        if crashes >= MAX_CRASHES_PER_SHARD:
            outs.extend(["SKIPPED"] * (len(lines) - i))
            break
        chunk = lines[i:]
        try:
            p = subprocess.run(cmd, input="\n".join(chunk) + "\n", stdout=subprocess.PIPE, stderr=subprocess.PIPE,
                               text=True, timeout=timeout_per_chunk, env=env)
            got = p.stdout.split("\n")
            if got and got[-1] == "":
                got.pop()
        except subprocess.TimeoutExpired as e:
            so = e.stdout or ""
            if isinstance(so, bytes):
                so = so.decode("utf-8", "replace")
            got = so.split("\n")
            if got and got[-1] == "":
                got.pop()
            got = got[:len(chunk)]
            outs.extend(got)
            i += len(got)
            if i < len(lines):
                outs.append("TIMEOUT")
                i += 1
                crashes += 1
            restarts += 1
            continue
        if "##RESTART##" in got:
            k = got.index("##RESTART##")
            outs.extend(got[:k])
            i += k
            restarts += 1
            crashes += 1
            continue
        if len(got) >= len(chunk):
            outs.extend(got[:len(chunk)])
            i += len(chunk)
        else:
            outs.extend(got)
            i += len(got)
            outs.append(crash_token)
            i += 1
            restarts += 1
            crashes += 1
            if restarts > 200:
                raise MachineryError("too many worker crashes running %s" % cmd[0])
    return outs


def sharded(cmd, lines, crash_token, shards=None, env=None):
    if not lines:
        return []
    shards = shards or max(1, min(NCPU, len(lines) // 200))
    if shards == 1:
        return run_lines(cmd, lines, crash_token, env=env)
    size = (len(lines) + shards - 1) // shards
    parts = [lines[k:k + size] for k in range(0, len(lines), size)]
    with cf.ThreadPoolExecutor(max_workers=len(parts)) as ex:
        res = list(ex.map(lambda part: run_lines(cmd, part, crash_token, env=env), parts))
    out = []
    for r in res:
        out.extend(r)
    return out


def build_race(bs):
    """the harness once more, with Go's race detector compiled in (needs cgo): used for the `race_streams` of a
    property. Returns an error text when the build is not possible."""
    stamp = os.path.join(BIN, "race_stamp.json")
    want = {"tree": bs.tree or tree_hash(), "harness": verif_hash("harness")}
    try:
        have = json.load(open(stamp))
    except Exception:
        have = {}
    if have == want and os.path.exists(VH_RACE):
        return ""
    for p in (VH_RACE, stamp):
        if os.path.exists(p):
            os.remove(p)
    env = dict(GOENV, CGO_ENABLED="1")
    rc, out, err = run(["go", "build", "-race", "-tags", "verif", "-o", VH_RACE, "./cmd/vh"], cwd=HARNESS, env=env, timeout=1800)
    if rc != 0:
        return err[-1500:]
    json.dump(want, open(stamp, "w"))
    return ""


def impl_env():
    e = dict(os.environ)
    e["VERIF_TMP"] = TMP
    e["VERIF_REPO"] = REPO
    e["VERIF_TABLEAUC"] = TABLEAUC
    e["GOMEMLIMIT"] = "2GiB"
    e.setdefault("TZ", "UTC")
    return e


def gen_ops(stream, seed, n):
    rc, out, err = run([VH, "gen", stream, str(seed), str(n)], env=impl_env(), timeout=1800)
    if rc != 0:
        raise MachineryError("generator %s failed: %s" % (stream, err[-2000:]))
    return [l for l in out.split("\n") if l]


def corpus_ops(stream):
    p = os.path.join(VERIF, "corpus", stream + ".ops")
    if not os.path.exists(p):
        return []
    return [l for l in open(p).read().split("\n") if l and not l.startswith("#")]


class StreamResult:
    def __init__(self, name):
        self.name = name
        self.ops = 0
        self.distinct = 0
        self.nontrivial = 0
        self.diffs = []       # (op, impl, model, verdict)
        self.fails = []       # (op, impl, model)   oracle FAILS on the implementation's observation
        self.model_fails = [] # oracle FAILS on the model's own output (theorem/oracle mismatch = my bug)
        self.drift = 0
        self.verdicts = {}
        self.samples = []
        self.impl_crashes = 0
        self.skipped = 0
        self.dist = {}
        self.wall = 0.0


def oracle_name(fn):
    return "o." + fn


def run_stream(stream, seed, n, oracle_fns, shards=None, prep=None, race=False):
    t0 = time.time()
    sr = StreamResult(stream + ("@race" if race else ""))
    ops = corpus_ops(stream) + gen_ops(stream, seed, n)
    if prep:
        # the generator emitted CASES; the Lean spec writer (driver op `w.<fn>`) expands each into the op proper
        expanded = sharded([DRIVER], [prep + o for o in ops], "MODEL-CRASH", shards=shards)
        bad = [e for e in expanded if e in ("bad-op", "MODEL-CRASH")]
        if bad:
            raise MachineryError("stream %s: the spec writer could not expand %d generated case(s)" % (stream, len(bad)))
        ops = expanded
    seen, uniq = set(), []
    for o in ops:
        if o not in seen:
            seen.add(o)
            uniq.append(o)
    sr.ops = len(ops)
    sr.distinct = len(uniq)
    if race:
        # a detected data race ends the worker (GORACE halt_on_error): the op is answered PANIC
        impl = sharded([VH_RACE, "impl"], uniq, "PANIC", shards=shards, env=dict(impl_env(), GORACE="halt_on_error=1", GOMEMLIMIT="6GiB"))
    else:
        impl = sharded([VH, "impl"], uniq, "PANIC", shards=shards, env=impl_env())
    model = sharded([DRIVER], uniq, "MODEL-CRASH", shards=shards)
    if len(impl) != len(uniq) or len(model) != len(uniq):
        raise MachineryError("stream %s: output count mismatch impl=%d model=%d ops=%d" % (stream, len(impl), len(model), len(uniq)))
    # oracle pass on the implementation's observations (and on the model's, to keep the oracle honest)
    olines, oidx = [], []
    for k, o in enumerate(uniq):
        fn = o.split("\t", 1)[0]
        if impl[k] == "SKIPPED":
            continue
        if fn in oracle_fns:
            rest = o.split("\t", 1)[1] if "\t" in o else ""
            olines.append("o." + fn + "\t" + rest + "\t" + impl[k])
            oidx.append((k, "impl"))
            if model[k] != impl[k] and model[k] != "unmodelled" and fn not in getattr(PROPS, "FIRST_WORD_FNS", ()):
                olines.append("o." + fn + "\t" + rest + "\t" + model[k])
                oidx.append((k, "model"))
    overd = sharded([DRIVER], olines, "MODEL-CRASH", shards=shards) if olines else []
    verd = {}
    for (k, who), v in zip(oidx, overd):
        verd[(k, who)] = v
    triv = PROPS.TRIVIAL_OUTPUTS
    for k, o in enumerate(uniq):
        fn = o.split("\t", 1)[0]
        if impl[k] == "SKIPPED":
            sr.skipped += 1
            continue
        sr.dist[fn] = sr.dist.get(fn, 0) + 1
        if model[k] in ("bad-op", "MODEL-CRASH"):
            raise MachineryError("stream %s: model driver answered %s for op %r" % (stream, model[k], o[:300]))
        if impl[k] == "bad-op":
            raise MachineryError("stream %s: harness answered bad-op for op %r" % (stream, o[:300]))
        if impl[k] in ("PANIC", "TIMEOUT"):
            sr.impl_crashes += 1
        if model[k] not in triv:
            sr.nontrivial += 1
        v = verd.get((k, "impl"))
        if v is not None:
            sr.verdicts[v] = sr.verdicts.get(v, 0) + 1
        if v == "FAILS":
            sr.fails.append((o, impl[k], model[k]))
        elif v == "bad-op":
            raise MachineryError("stream %s: oracle could not decode observation %r of op %r" % (stream, impl[k][:200], o[:300]))
        impl_cmp = impl[k].split(" ", 1)[0] if fn in getattr(PROPS, "FIRST_WORD_FNS", ()) else impl[k]
        if fn in getattr(PROPS, "FIRST_WORD_FNS", ()):
            sr.dist[fn + ":" + impl[k][:40]] = sr.dist.get(fn + ":" + impl[k][:40], 0) + 1
        if model[k] == "unmodelled":
            sr.drift += 1          # outside the modelled class: the oracle still judged the implementation above
        elif impl_cmp != model[k]:
            if v == "unspec" and (verd.get((k, "model")) == "unspec" or fn in getattr(PROPS, "FIRST_WORD_FNS", ())):
                # outside the property (for end-to-end ops the "model" is the expected first word only)
                sr.drift += 1
            else:
                sr.diffs.append((o, impl[k], model[k], v))
            if verd.get((k, "model")) == "FAILS":
                sr.model_fails.append((o, impl[k], model[k]))
    step = max(1, len(uniq) // 5)
    for k in range(0, len(uniq), step):
        sr.samples.append({"op": uniq[k][:400], "impl": impl[k][:300], "model": model[k][:300]})
    sr.wall = time.time() - t0
    return sr


# --------------------------------------------------------------------------- known findings

def load_known():
    p = os.path.join(VERIF, "known_findings.json")
    if not os.path.exists(p):
        return []
    return json.load(open(p))


def known_match(kf_list, prop, stream, op, impl_out):
    """a failing case is downgraded only if it falls in the narrow witness class of a listed finding"""
    for kf in kf_list:
        if kf.get("property") != prop or kf.get("status") != "known":
            continue
        cls = PROPS.KNOWN_CLASSES.get(kf.get("class"))
        if cls is None:
            continue
        try:
            if cls(stream, op, impl_out):
                return kf
        except Exception:
            continue
    return None


# --------------------------------------------------------------------------- replay files

def write_replay(prop, kind, broken, seed, tier, cases, extra=None):
    d = os.path.join(VERIF, "replays", prop)
    os.makedirs(d, exist_ok=True)
    k = 1
    while os.path.exists(os.path.join(d, "%d.json" % k)):
        k += 1
    path = os.path.join(d, "%d.json" % k)
    doc = {"property": prop, "kind": kind, "broken": broken, "seed": seed, "tier": tier,
           "cases": cases, "cmd": "./check replay %s" % path}
    if extra:
        doc.update(extra)
    json.dump(doc, open(path, "w"), indent=1, ensure_ascii=False)
    return path


def human(op):
    """decode u<hex> strings in an op line for readability"""
    def dec(tok):
        if re.fullmatch(r"u([0-9a-f]+(\.[0-9a-f]+)*)?", tok):
            try:
                return repr("".join(chr(int(h, 16)) for h in tok[1:].split(".") if h))
            except Exception:
                return tok
        return tok
    return " ".join(dec(t) for t in re.split(r"[\t ]", op))


def do_replay(path):
    doc = json.load(open(path))
    bs = build_all([])
    if not bs.go_ok or not bs.driver_ok:
        print("cannot build harness/driver for replay:", bs.go_err, bs.driver_err)
        return 2
    prop = doc["property"]
    oracle_fns = set(PROPS.PROPS.get(prop, {}).get("oracles", []))
    for c in doc.get("cases", []):
        op = c.get("op")
        if not op:
            print(json.dumps(c, indent=1, ensure_ascii=False))
            continue
        impl = run_lines([VH, "impl"], [op], "PANIC", env=impl_env())[0]
        model = run_lines([DRIVER], [op], "MODEL-CRASH")[0]
        fn = op.split("\t", 1)[0]
        v = None
        if fn in oracle_fns:
            rest = op.split("\t", 1)[1] if "\t" in op else ""
            v = run_lines([DRIVER], ["o." + fn + "\t" + rest + "\t" + impl], "MODEL-CRASH")[0]
        print("op     :", human(op))
        print("impl   :", human(impl))
        print("model  :", human(model))
        print("oracle :", v)
        print("recorded impl:", human(c.get("impl", "")))
    return 0


# --------------------------------------------------------------------------- main per-property check

def check_property(prop, tier, seed):
    t0 = time.time()
    cfg = PROPS.PROPS[prop]
    modules = cfg.get("lean_modules", [])
    bs = build_all(modules)
    kf_list = load_known()
    broken = []            # names of theorems / modules / streams that no longer check
    concrete = []          # concrete failing cases not covered by a known finding
    known_hits = {}        # known finding id -> count
    notes = []
    obligations, discharged = 0, 0
    audit_rows = []

    # ---- 2. proof obligations
    hits = forbidden_scan()
    if hits:
        raise MachineryError("forbidden constructs in lean sources: " + "; ".join(hits[:10]))
    if not bs.extract_ok:
        broken.append("extractor(tie2): " + bs.extract_err[-400:])
    for m in modules:
        ths = theorems_of(m)
        obligations += max(1, len(ths))
        if not bs.lean_ok.get(m, False):
            broken.append("lean module %s no longer checks: %s" % (m, bs.lean_err.get(m, "")[-1500:]))
            continue
        rows, err = axiom_audit(m)
        if err:
            broken.append("axiom audit of %s failed: %s" % (m, err[-800:]))
            continue
        if not ths:
            discharged += 1
        for (t, axs, ok) in rows:
            audit_rows.append({"theorem": t, "axioms": axs})
            if ok:
                discharged += 1
            else:
                raise MachineryError("theorem %s depends on non-allowed axioms %s" % (t, axs))
    if tier == "thorough" and modules and all(bs.lean_ok.get(m) for m in modules):
        for m in cfg.get("leanchecker_modules", modules):
            rc, out, err = run(["lake", "env", "leanchecker", m], cwd=LEAN, timeout=3600)
            obligations += 1
            if rc == 0:
                discharged += 1
            else:
                broken.append("leanchecker rejects %s: %s" % (m, (out + err)[-800:]))

    # ---- 3. correspondence + oracle streams
    results = []
    oracle_fns = set(cfg.get("oracles", []))
    stream_cfgs = cfg.get("streams", [])
    can_run = bs.go_ok and bs.driver_ok
    if not bs.go_ok:
        broken.append("harness does not build against the current tree (-tags verif): " + bs.go_err[-1500:])
    if not bs.driver_ok:
        raise MachineryError("lean driver does not build: " + bs.driver_err[-2000:])
    if can_run:
        def one(sc):
            name, nq, nt = sc[0], sc[1], sc[2]
            n = nq if tier == "quick" else nt
            return run_stream(name, seed, n, oracle_fns, shards=(sc[3] if len(sc) > 3 else None), prep=PROPS.PREP.get(name))
        with cf.ThreadPoolExecutor(max_workers=max(1, min(4, len(stream_cfgs)))) as ex:
            results = list(ex.map(one, stream_cfgs))
        race_cfgs = cfg.get("race_streams", [])
        if race_cfgs:
            rerr = build_race(bs)
            if rerr:
                notes.append("race-detector build of the harness not possible here, race streams skipped: " + rerr[-300:])
            else:
                for sc in race_cfgs:
                    n = sc[1] if tier == "quick" else sc[2]
                    results.append(run_stream(sc[0], seed, n, oracle_fns, shards=(sc[3] if len(sc) > 3 else None), prep=PROPS.PREP.get(sc[0]), race=True))
        for sr in results:
            sr.model_fails = [x for x in sr.model_fails if not known_match(kf_list, prop, sr.name, x[0], x[2])]
            if sr.model_fails:
                raise MachineryError("oracle rejects the MODEL's own output on %s: %r (model/spec mismatch in /verif)" % (sr.name, sr.model_fails[0][0][:300]))
            for (op, im, mo) in sr.fails:
                kf = known_match(kf_list, prop, sr.name, op, im)
                if kf:
                    known_hits[kf["id"]] = known_hits.get(kf["id"], 0) + 1
                else:
                    concrete.append({"stream": sr.name, "op": op, "impl": im, "model": mo, "oracle": "FAILS", "readable": human(op)[:600]})
            real_diffs = []
            for (op, im, mo, v) in sr.diffs:
                if v == "FAILS":
                    continue  # already handled above (concrete or known)
                kf = known_match(kf_list, prop, sr.name, op, im)
                if kf and kf.get("covers_diff"):
                    known_hits[kf["id"]] = known_hits.get(kf["id"], 0) + 1
                    continue
                real_diffs.append((op, im, mo, v))
            if real_diffs:
                broken.append("correspondence %s: %d op(s) where implementation and model differ, first: %s impl=%s model=%s" % (
                    sr.name, len(real_diffs), human(real_diffs[0][0])[:400], human(real_diffs[0][1])[:200], human(real_diffs[0][2])[:200]))
                sr.real_diffs = real_diffs
            else:
                sr.real_diffs = []

    # ---- 4. known findings: replay each witness, must still fail exactly as recorded
    known_lines = []
    for kf in kf_list:
        if kf.get("property") != prop:
            continue
        w = kf.get("witness", {})
        if not can_run or "op" not in w:
            continue
        op = w["op"]
        im = run_lines([VH, "impl"], [op], "PANIC", env=impl_env())[0]
        fn = op.split("\t", 1)[0]
        rest = op.split("\t", 1)[1] if "\t" in op else ""
        v = run_lines([DRIVER], ["o." + fn + "\t" + rest + "\t" + im], "MODEL-CRASH")[0] if fn in oracle_fns else None
        fails_now = (v == "FAILS") or (kf.get("expect_impl") is not None and im == kf.get("expect_impl") and v is None)
        if kf.get("status") == "known":
            if fails_now:
                known_lines.append("KNOWN-FINDING: property=%s %s [%s]" % (prop, kf.get("what", ""), kf.get("id")))
            else:
                # the recorded defect no longer manifests: stale entry; not a violation, but say so loudly
                notes.append("known finding %s no longer reproduces (impl=%s oracle=%s): entry is stale" % (kf.get("id"), human(im)[:200], v))
                log("WARNING: known finding %s no longer reproduces" % kf.get("id"))
        elif kf.get("status") == "fixed":
            if fails_now:
                concrete.append({"stream": w.get("stream"), "op": op, "impl": im, "oracle": v, "note": "regression of fixed finding " + kf.get("id", "?"), "readable": human(op)[:600]})

    # ---- 5. verdict
    violation_line = None
    if concrete:
        path = write_replay(prop, "counterexample", broken, seed, tier, concrete[:20])
        violation_line = "VIOLATION property=%s replay=%s" % (prop, path)
    elif broken:
        found = failing_input_search(prop, cfg, bs, seed, tier, kf_list, oracle_fns) if can_run else []
        if found:
            path = write_replay(prop, "counterexample", broken, seed, tier, found[:20])
            violation_line = "VIOLATION property=%s replay=%s" % (prop, path)
        else:
            cases = []
            for sr in results:
                for (op, im, mo, v) in getattr(sr, "real_diffs", [])[:10]:
                    cases.append({"stream": sr.name, "op": op, "impl": im, "model": mo, "oracle": v, "readable": human(op)[:600]})
            path = write_replay(prop, "no-failing-input-found", broken, seed, tier, cases)
            violation_line = "VIOLATION property=%s replay=%s no-failing-input-found" % (prop, path)

    # ---- 6. evidence
    wall = time.time() - t0
    evals = sum(sr.ops for sr in results)
    distinct_nt = sum(sr.nontrivial for sr in results)
    samples = []
    for sr in results:
        samples.extend([dict(s, stream=sr.name) for s in sr.samples[:3]])
    for r in audit_rows[:3]:
        samples.append({"obligation": r["theorem"], "axioms": r["axioms"]})
    ev = {
        "property_id": prop,
        "tier": tier,
        "seed": seed,
        "level": "proof",
        "coverage": {
            "obligations": obligations,
            "discharged": discharged,
            "checker_cmd": "cd /verif/lean && lake build %s && lake env lean <#print axioms of every theorem>%s" % (
                " ".join(modules), " && lake env leanchecker <module>" if tier == "thorough" else ""),
            "trusted_base": PROPS.TRUSTED_BASE + cfg.get("trusted_extra", []),
            "theorems": audit_rows,
            "evaluations": evals,
            "distinct_nontrivial": distinct_nt,
            "rule": cfg.get("rule", "ops generated per stream from one PRNG (seed); distinct = distinct op lines; non-trivial = model output is not a trivial/default answer"),
            "samples": samples,
            "streams": [{"name": sr.name, "ops": sr.ops, "distinct": sr.distinct, "nontrivial": sr.nontrivial,
                         "diffs": len(sr.diffs), "oracle_verdicts": sr.verdicts, "drift_unspecified": sr.drift,
                         "impl_crashes": sr.impl_crashes, "skipped_after_crashes": sr.skipped, "op_distribution": sr.dist, "wall_s": round(sr.wall, 2)} for sr in results],
            "repo_tree_hash": bs.tree,
            "known_findings_hit": known_hits,
            "broken": broken,
            "notes": notes,
        },
        "assumptions": cfg.get("assumptions", []),
        "wall_s": round(wall, 2),
        "violations": (len(concrete) if concrete else (1 if violation_line else 0)),
    }
    os.makedirs(os.path.join(VERIF, "evidence"), exist_ok=True)
    json.dump(ev, open(os.path.join(VERIF, "evidence", prop + ".json"), "w"), indent=1, ensure_ascii=False)

    for l in known_lines:
        print(l)
    if violation_line:
        print(violation_line)
        for b in broken[:5]:
            log("broken:", b[:600])
        for c in concrete[:5]:
            log("failing input:", c.get("readable", "")[:400], "impl=", human(c.get("impl", ""))[:200])
        return 1
    print("OK property=%s tier=%s obligations=%d/%d evaluations=%d wall=%.1fs" % (prop, tier, discharged, obligations, evals, wall))
    return 0


def failing_input_search(prop, cfg, bs, seed, tier, kf_list, oracle_fns):
    """§3.4: a proof obligation or a correspondence broke — look for a concrete input on which the
    property's own oracle rejects the implementation's observation (wider sweep, other seeds)."""
    found = []
    for sc in cfg.get("streams", []):
        name = sc[0]
        n = sc[2] if tier == "quick" else sc[2] * 2
        for s2 in (seed + 1000003, seed + 2000003):
            try:
                sr = run_stream(name, s2, n, oracle_fns, prep=PROPS.PREP.get(name))
            except MachineryError as e:
                log("search: %s" % e)
                continue
            for (op, im, mo) in sr.fails:
                if not known_match(kf_list, prop, name, op, im):
                    found.append({"stream": name, "op": op, "impl": im, "model": mo, "oracle": "FAILS", "readable": human(op)[:600], "found_by": "search seed %d" % s2})
            if found:
                return found
    return found


def do_setup():
    t0 = time.time()
    modules = sorted({m for p in PROPS.PROPS.values() for m in p.get("lean_modules", [])})
    bs = build_all(modules)
    ok = bs.go_ok and bs.extract_ok and bs.driver_ok and all(bs.lean_ok.get(m) for m in modules)
    if not ok:
        print("setup failed:", bs.go_err, bs.extract_err, bs.driver_err, {m: e[-500:] for m, e in bs.lean_err.items()})
        return 2
    print("setup ok in %.0fs" % (time.time() - t0))
    return 0


def main(argv):
    if not argv:
        print(__doc__)
        return 2
    tier = os.environ.get("VERIF_TIER", "quick")
    seed = int(os.environ.get("VERIF_SEED", "1"))
    args = list(argv)
    if "--tier" in args:
        i = args.index("--tier")
        tier = args[i + 1]
        del args[i:i + 2]
    if tier not in ("quick", "thorough"):
        print("bad tier", tier)
        return 2
    try:
        if args[0] == "--setup":
            return do_setup()
        if args[0] == "replay":
            return do_replay(args[1])
        if args[0] == "--all":
            rc = 0
            for p in sorted(PROPS.PROPS):
                rc = max(rc, check_property(p, tier, seed))
            return rc
        prop = args[0]
        if prop not in PROPS.PROPS:
            print("unknown or unclaimed property", prop)
            return 2
        return check_property(prop, tier, seed)
    except MachineryError as e:
        print("MACHINERY-ERROR: %s" % e)
        return 2
