#!/usr/bin/env python3
"""For every `fixed` entry of known_findings.json: revert its fix commit in a scratch worktree of /repo HEAD,
build the harness against that tree, run the recorded witness op and its oracle: the witness must FAIL there
(and it passes on the repaired tree, which every ./check run verifies).  usage: check_fixed_witnesses.py [ID…]"""
import json, os, subprocess, sys, shutil
V='/verif'; WT='/tmp/wt/fixcheck'; ALT=V+'/.cache/tmp/vh_alt'
env=dict(os.environ, GOFLAGS='-mod=mod', GOPROXY='off', GOSUMDB='off', GOTOOLCHAIN='local', VERIF_TMP=V+'/.cache/tmp', TZ='UTC')
def sh(cmd, **kw):
    return subprocess.run(cmd, shell=True, stdout=subprocess.PIPE, stderr=subprocess.STDOUT, text=True, env=env, **kw)
kf=json.load(open(V+'/known_findings.json'))
want=set(sys.argv[1:])
modsrc=open(V+'/harness/go.mod').read().replace('=> /repo','=> '+WT)
open(V+'/.cache/tmp/go.alt.mod','w').write(modsrc)
shutil.copy(V+'/harness/go.sum', V+'/.cache/tmp/go.alt.sum')
for e in kf:
    if e['status']!='fixed' or (want and e['id'] not in want): continue
    sh('git -C /repo worktree remove --force %s; git -C /repo worktree prune'%WT)
    r=sh('git -C /repo worktree add --detach %s HEAD -q'%WT)
    r=sh('git -C %s revert --no-commit %s'%(WT,e['commit']))
    if r.returncode!=0:
        print('%-6s %-4s revert of %s does not apply cleanly: skipped'%(e['id'],e['property'],e['commit'])); continue
    r=sh('cd %s/harness && go build -tags verif -modfile=%s/.cache/tmp/go.alt.mod -o %s ./cmd/vh'%(V,V,ALT))
    if r.returncode!=0:
        print('%-6s build failed: %s'%(e['id'], r.stdout[-300:])); continue
    op=e['witness']['op']
    p=subprocess.run([ALT,'impl'],input=op+'\n',stdout=subprocess.PIPE,stderr=subprocess.DEVNULL,text=True,env=env,timeout=300)
    impl=p.stdout.split('\n')[0] if p.stdout.endswith('\n') else 'PANIC'
    fn,rest=(op.split('\t',1)+[''])[:2]
    o=subprocess.run([V+'/lean/.lake/build/bin/tvdriver'],input='o.'+fn+'\t'+rest+'\t'+impl+'\n',stdout=subprocess.PIPE,text=True)
    verdict=o.stdout.strip()
    model=subprocess.run([V+'/lean/.lake/build/bin/tvdriver'],input=op+'\n',stdout=subprocess.PIPE,text=True).stdout.strip()
    print('%-6s %-4s before-fix impl=%s oracle=%s model=%s'%(e['id'],e['property'],impl[:70],verdict,model[:40]))
sh('git -C /repo worktree remove --force %s; git -C /repo worktree prune'%WT)
