#!/usr/bin/env python3
# decode u<hex>.<hex> tokens in lines from stdin into readable text
import re,sys
def dec(m):
    b=m.group(1)
    if b=='' : return '""'
    try: return '"'+''.join(chr(int(h,16)) for h in b.split('.')).replace('\n','\\n')+'"'
    except: return m.group(0)
for l in sys.stdin:
    sys.stdout.write(re.sub(r'\bu((?:[0-9a-f]+(?:\.[0-9a-f]+)*)?)(?![0-9a-zA-Z])',dec,l))
