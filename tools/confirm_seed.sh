#!/bin/bash
# usage: confirm_seed.sh <ID> "<go test command>" <src:dst> [<src:dst> ...]
# Confirms a seeded change myself in the agent's scratch worktree /tmp/wt/<ID>:
#   patch applies at HEAD; demo FAILS with it, PASSES without; build ok; existing suite passes with it.
set -u
ID=$1; CMD=$2; shift 2
R=${ROUND:-}; WT=/tmp/wt$R/$ID; SD=/tmp/seed$R/$ID
export GOFLAGS=-mod=mod GOPROXY=off GOSUMDB=off GOTOOLCHAIN=local
cd $WT || exit 2
git checkout -q -- . ; git clean -fdq
git apply $SD/patch.diff || { echo "PATCH DOES NOT APPLY"; exit 1; }
for pair in "$@"; do src=${pair%%:*}; dst=${pair##*:}; mkdir -p $(dirname $dst); cp $SD/$src $dst; done
echo "--- demo WITH change (expect FAIL):"; bash -c "$CMD" > $SD.with.log 2>&1; W=$?; tail -3 $SD.with.log
git apply -R $SD/patch.diff
echo "--- demo WITHOUT change (expect PASS):"; bash -c "$CMD" > $SD.without.log 2>&1; WO=$?; tail -2 $SD.without.log
git apply $SD/patch.diff
for pair in "$@"; do dst=${pair##*:}; rm -f $dst; done
git clean -fdq
echo "--- build + existing suite WITH change:"; go build ./... && go test -vet=off -count=1 ./... 2>&1 | grep -v "no test files" | grep -v "^ok" ; S=${PIPESTATUS[0]}
echo "RESULT with=$W without=$WO (want with!=0 without=0); suite non-ok lines above (want none)"
