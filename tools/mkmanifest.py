#!/usr/bin/env python3
"""Regenerates /verif/MANIFEST.json from tools/props.py + tools/manifest_meta.py (single source of truth)."""
import json, os, sys
HERE = os.path.dirname(os.path.abspath(__file__))
sys.path.insert(0, HERE)
import props as P
import manifest_meta as M

ALL = ["C%02d" % i for i in range(1, 21)]
checks = []
for pid in ALL:
    if pid not in P.PROPS:
        continue
    m = M.META[pid]
    checks.append({
        "property_id": pid,
        "quick_cmd": "./check %s --tier quick" % pid,
        "thorough_cmd": "./check %s --tier thorough" % pid,
        "evidence_file": "/verif/evidence/%s.json" % pid,
        "replay_cmd_template": "./check replay {path}",
        "engine": "lean4-proof+correspondence",
        "level_claimed": {"category": "proof", "text": m["text"], "design_ref": m.get("design_ref", "DESIGN.md §5 " + pid)},
        "level_note": m["note"],
        "technique": m["technique"],
    })
na = [{"property_id": pid, "reason": M.NOT_APPLICABLE.get(pid, "not claimed yet: model, theorems and tie for this property are still under construction (see DESIGN.md §8 staging)")}
      for pid in ALL if pid not in P.PROPS]
doc = {
    "version": 1,
    "setup_cmd": "./check --setup",
    "hooks": {
        "guard": "verif",
        "enable": "go build -tags verif (the harness module /verif/harness replaces github.com/tableauio/tableau => /repo and imports /repo/verifhook)",
        "baseline_off_cmd": "for m in $(cat /w/out/gomods.txt); do MF=$(cd /repo/$m && . /w/out/goenv.sh && gomodflag); (cd /repo/$m && go test $MF -json -vet=off -count=1 -timeout 25m ./...); done",
        "source_commits": M.HOOK_COMMITS,
        "add_only": True,
    },
    "engines": [
        {"name": "lean4-proof+correspondence", "path": "/verif/lean", "serves_properties": [c["property_id"] for c in checks],
         "kind_free_text": "Lean 4 theorems about a hand-written executable model (lake project /verif/lean), tied to /repo on every run by (1) a correspondence harness (/verif/harness, Go, -tags verif, line protocol against the compiled Lean driver) and (2) an extractor (/verif/extract) regenerating Lean data from the Go source that proof obligations are stated over"},
    ],
    "checks": checks,
    "not_applicable": na,
    "notes": "All checks go through ./check <id>; see DESIGN.md. Known findings: /verif/known_findings.json.",
}
json.dump(doc, open(os.path.join(os.path.dirname(HERE), "MANIFEST.json"), "w"), indent=1, ensure_ascii=False)
print("wrote MANIFEST.json with", len(checks), "checks,", len(na), "not_applicable")
