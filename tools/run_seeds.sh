#!/bin/bash
# apply each stored seed to /repo in turn, run the property's quick check, restore /repo.
# usage: run_seeds.sh [seed-id ...]   (default: every directory under /verif/seeded with a patch.diff)
# Prints one line per seed: <seed> <CAUGHT-concrete|CAUGHT-no-input|MISSED> <wall seconds>
cd /verif
if [ -n "$(git -C /repo status --porcelain)" ]; then echo "/repo is not clean" >&2; exit 2; fi
ids=("$@"); if [ ${#ids[@]} -eq 0 ]; then ids=($(ls seeded | grep -v '^_')); fi
mkdir -p .cache/seedruns
for id in "${ids[@]}"; do
  p=seeded/$id/patch.diff; [ -f "$p" ] || continue
  prop=${id%%-*}
  if ! git -C /repo apply --check /verif/$p 2>/dev/null; then echo "$id PATCH-DOES-NOT-APPLY"; continue; fi
  git -C /repo apply /verif/$p
  t0=$(date +%s)
  ./check "$prop" > .cache/seedruns/$id.log 2>&1; rc=$?
  t1=$(date +%s)
  git -C /repo checkout -- . ; git -C /repo clean -fdq -- . 2>/dev/null
  v=$(grep -m1 '^VIOLATION' .cache/seedruns/$id.log)
  if [ $rc -eq 0 ]; then r=MISSED; elif echo "$v" | grep -q no-failing-input-found; then r=CAUGHT-no-input; elif [ -n "$v" ]; then r=CAUGHT-concrete; else r="ERROR(rc=$rc)"; fi
  echo "$id $r $((t1-t0))s"
done
