module verifharness

go 1.20

require (
	github.com/jhump/protoreflect v1.16.0
	github.com/tableauio/tableau v0.0.0
	github.com/xuri/excelize/v2 v2.6.1
	google.golang.org/protobuf v1.34.2
)

require (
	github.com/antchfx/xpath v1.2.3 // indirect
	github.com/bufbuild/protocompile v0.10.0 // indirect
	github.com/bytedance/sonic v1.13.2 // indirect
	github.com/bytedance/sonic/loader v0.2.4 // indirect
	github.com/cloudwego/base64x v0.1.5 // indirect
	github.com/emirpasic/gods v1.18.1 // indirect
	github.com/golang/protobuf v1.5.4 // indirect
	github.com/klauspost/cpuid/v2 v2.0.9 // indirect
	github.com/mitchellh/go-wordwrap v1.0.1 // indirect
	github.com/mohae/deepcopy v0.0.0-20170929034955-c48cc78d4826 // indirect
	github.com/protocolbuffers/txtpbfmt v0.0.0-20240820135758-21b1d9897dc7 // indirect
	github.com/richardlehane/mscfb v1.0.4 // indirect
	github.com/richardlehane/msoleps v1.0.3 // indirect
	github.com/rogpeppe/go-internal v1.10.0 // indirect
	github.com/subchen/go-xmldom v1.1.2 // indirect
	github.com/twitchyliquid64/golang-asm v0.15.1 // indirect
	github.com/xuri/efp v0.0.0-20220603152613-6918739fd470 // indirect
	github.com/xuri/nfp v0.0.0-20220409054826-5e722a1d9e22 // indirect
	go.uber.org/atomic v1.7.0 // indirect
	go.uber.org/multierr v1.8.0 // indirect
	go.uber.org/zap v1.24.0 // indirect
	golang.org/x/arch v0.14.0 // indirect
	golang.org/x/crypto v0.21.0 // indirect
	golang.org/x/net v0.22.0 // indirect
	golang.org/x/sync v0.6.0 // indirect
	golang.org/x/text v0.14.0 // indirect
	gopkg.in/natefinch/lumberjack.v2 v2.2.1 // indirect
	gopkg.in/yaml.v3 v3.0.1 // indirect
)

replace github.com/tableauio/tableau => /repo
