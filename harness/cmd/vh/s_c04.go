package main

import (
	"crypto/sha256"
	"encoding/hex"
	"fmt"
	"math/rand"
	"os"
	"path/filepath"
	"runtime"
	"sort"
	"strconv"
	"strings"

	"github.com/tableauio/tableau"
	"github.com/tableauio/tableau/format"
	"github.com/tableauio/tableau/options"
	"github.com/tableauio/tableau/xerrors"
)

// c04Input writes a small input tree exercising mergers, scatters, several sheets and books in a subdir.
func c04Input(w *workspace, variant int, r *rand.Rand) {
	mapSheet := func(name string, ids ...int) sheetSpec {
		rows := [][]string{{"ID", "Name", "Tags"}, {"map<uint32, " + name + "Item>", "string", "[]int32"}, {"id", "name", "tags"}}
		for _, id := range ids {
			rows = append(rows, []string{strconv.Itoa(id), "n" + strconv.Itoa(id), fmt.Sprintf("%d,%d", id, id+1)})
		}
		return sheetSpec{Name: name, Rows: rows}
	}
	listSheet := func(name string, ids ...int) sheetSpec {
		rows := [][]string{{"ID", "Name"}, {"[" + name + "Item]uint32", "string"}, {"id", "name"}}
		for _, id := range ids {
			rows = append(rows, []string{strconv.Itoa(id), "n" + strconv.Itoa(id)})
		}
		return sheetSpec{Name: name, Rows: rows}
	}
	sub := "excel"
	w.writeCSVBook(sub, bookSpec{Name: "Item", Sheets: []sheetSpec{mapSheet("ItemConf", 1, 2, 3)}})
	w.writeCSVBook(sub, bookSpec{Name: "Hero", Sheets: []sheetSpec{mapSheet("HeroConf", 1, 2), listSheet("HeroList", 5, 6, 7)}})
	// merger: Zone1 primary, Zone2..4 secondary
	z1 := listSheet("ZoneConf", 1, 2)
	z1.Meta = map[string]string{"Merger": "Zone*.csv"}
	w.writeCSVBook(sub, bookSpec{Name: "Zone1", Sheets: []sheetSpec{z1}})
	for k := 2; k <= 4; k++ {
		w.writeCSVBook(sub, bookSpec{Name: "Zone" + strconv.Itoa(k), Sheets: []sheetSpec{listSheet("ZoneConf", 10*k, 10*k+1)}, NoMeta: true})
	}
	// two more merger sources whose names differ only in letter case (their order must still be fixed)
	w.writeCSVBook(sub, bookSpec{Name: "ZoneX", Sheets: []sheetSpec{listSheet("ZoneConf", 91, 92)}, NoMeta: true})
	w.writeCSVBook(sub, bookSpec{Name: "Zonex", Sheets: []sheetSpec{listSheet("ZoneConf", 93, 94)}, NoMeta: true})
	// scatter
	s1 := mapSheet("ScatConf", 1)
	s1.Meta = map[string]string{"Scatter": "Scat*.csv"}
	w.writeCSVBook(sub, bookSpec{Name: "Scat1", Sheets: []sheetSpec{s1}})
	w.writeCSVBook(sub, bookSpec{Name: "Scat2", Sheets: []sheetSpec{mapSheet("ScatConf", 2, 3)}, NoMeta: true})
	// two primaries sharing one merger source (named-workbook generation)
	a := mapSheet("AlphaZone", 1)
	a.Meta = map[string]string{"Merger": "Shared*.csv#Zone"}
	b := mapSheet("BetaZone", 2)
	b.Meta = map[string]string{"Merger": "Shared*.csv#Zone"}
	w.writeCSVBook(sub, bookSpec{Name: "Alpha", Sheets: []sheetSpec{a}})
	w.writeCSVBook(sub, bookSpec{Name: "Beta", Sheets: []sheetSpec{b}})
	w.writeCSVBook(sub, bookSpec{Name: "Shared", Sheets: []sheetSpec{{Name: "Zone", Rows: [][]string{{"ID", "Name", "Tags"}, {"t", "t", "t"}, {"n", "n", "n"}, {"77", "shared", "7"}}}}, NoMeta: true})
	// a sheet with AdjacentKey: blank key cells are filled from the row above (pooled row cells carry that mark)
	adjRows := [][]string{{"ID", "PropID", "Value"}, {"map<uint32, Adj>", "map<int32, Prop>", "int32"}, {"id", "prop", "value"},
		{"1", "1", "10"}, {"", "2", "20"}, {"", "3", "30"}, {"2", "1", "40"}, {"", "2", "50"}, {"", "3", "60"}, {"3", "1", "70"}}
	if variant&1 == 1 && variant&16 == 16 {
		// the single defect sits in this sheet, below auto-populated rows
		adjRows = append(adjRows, []string{"", "2", "abc"})
	}
	w.writeCSVBook(sub, bookSpec{Name: "Adj", Sheets: []sheetSpec{{Name: "AdjConf", Rows: adjRows, Meta: map[string]string{"AdjacentKey": "true"}}}})
	// two sheets of one name in different workbooks, told apart by alias, each referred to by a column of another
	// workbook (refer "Sheet(Alias).Column"): which refer is checked first depends on map order and goroutine timing
	pool := func(alias string, ids ...int) sheetSpec {
		rows := [][]string{{"ID", "Name"}, {"map<uint32, " + alias + "Item>", "string"}, {"id", "name"}}
		for _, id := range ids {
			rows = append(rows, []string{strconv.Itoa(id), "p" + strconv.Itoa(id)})
		}
		return sheetSpec{Name: "Pool", Rows: rows, Meta: map[string]string{"Alias": alias}}
	}
	w.writeCSVBook(sub, bookSpec{Name: "PoolA", Sheets: []sheetSpec{pool("GearPool", 1, 2, 3)}})
	w.writeCSVBook(sub, bookSpec{Name: "PoolB", Sheets: []sheetSpec{pool("GemPool", 4, 5)}})
	referSheet := func(name, alias string, vals ...int) sheetSpec {
		rows := [][]string{{"ID", "PoolID"}, {"map<uint32, " + name + "Item>", `uint32|{refer:"Pool(` + alias + `).ID"}`}, {"id", "pool id"}}
		for i, v := range vals {
			rows = append(rows, []string{strconv.Itoa(i + 1), strconv.Itoa(v)})
		}
		return sheetSpec{Name: name, Rows: rows}
	}
	w.writeCSVBook(sub, bookSpec{Name: "Reward", Sheets: []sheetSpec{referSheet("DropConf", "GearPool", 1, 2, 3), referSheet("LootConf", "GemPool", 4, 5)}})
	w.writeCSVBook(sub, bookSpec{Name: "Bonus", Sheets: []sheetSpec{referSheet("BonusConf", "GemPool", 5, 4)}})
	// type sheets (enum, struct, union) in one workbook, used from OTHER workbooks — also a message nested in the union
	// (whether a type is known must not depend on which workbook's goroutine runs first)
	w.writeCSVBook(sub, baseBook())
	for k := 1; k <= 3; k++ {
		name := "Use" + strconv.Itoa(k) + "Conf"
		rows := [][]string{{"ID", "FightBattleID", "FightDamage", "PayID", "PayNum", "Kind"},
			{"map<uint32, " + name + "Item>", "{.Target.PVP}int32", "int64", "{.Reward}uint32", "int32", "enum<.FruitType>"},
			{"id", "battle", "damage", "pay id", "pay num", "kind"}, {"1", "100", "2000", "7", "70", "Apple"}, {"2", "101", "3000", "8", "80", "Pear"}}
		w.writeCSVBook(sub, bookSpec{Name: "Use" + strconv.Itoa(k), Sheets: []sheetSpec{{Name: name, Rows: rows}}})
	}
	// transposed sheets (one record per column) with a blank column between filled ones: the pooled row cells of
	// the skipped column are released on a path of their own
	for k := 1; k <= 4; k++ {
		rows := [][]string{{"ID", "map<uint32, Mall" + strconv.Itoa(k) + ">", "id"}, {"Name", "string", "name"}, {"Price", "int32", "price"}}
		for c := 1; c <= 6; c++ {
			if c == 2 || c == 5 {
				for i := range rows {
					rows[i] = append(rows[i], "")
				}
				continue
			}
			rows[0] = append(rows[0], strconv.Itoa(100*k+c))
			rows[1] = append(rows[1], fmt.Sprintf("mall-%d-%d", k, c))
			rows[2] = append(rows[2], strconv.Itoa(1000*k+c))
		}
		w.writeCSVBook(sub, bookSpec{Name: "Mall" + strconv.Itoa(k), Sheets: []sheetSpec{{Name: "Mall" + strconv.Itoa(k) + "Conf", Rows: rows, Meta: map[string]string{"Transpose": "true"}}}})
	}
	// a workbook described by a HAND-WRITTEN proto file whose message-typed field carries no (tableau.field) option (the
	// proto file is put next to the generated ones before every conf run), next to books with in-cell structs: what an
	// option-less field means must not depend on which pooled options object its parser happens to get
	writeCSV(filepath.Join(w.In, sub, "Server#ServerConf.csv"), [][]string{{"Name", "LimitsMaxPlayers", "LimitsMaxRooms"}, {"string", "int32", "int32"}, {"n", "p", "r"}, {"alpha", "100", "8"}})
	for k := 1; k <= 3; k++ {
		rows := [][]string{{"ID", "Name", "Price"}, {"map<uint32, ShopItem" + strconv.Itoa(k) + ">", "string", "{int32 Gold,int32 Gem}Price" + strconv.Itoa(k)}, {"id", "name", "price"}}
		for id := 1; id <= 40; id++ {
			rows = append(rows, []string{strconv.Itoa(id), "n" + strconv.Itoa(id), strconv.Itoa(id) + "," + strconv.Itoa(id%7)})
		}
		w.writeCSVBook(sub, bookSpec{Name: "Shop" + strconv.Itoa(k), Sheets: []sheetSpec{{Name: "Shop" + strconv.Itoa(k) + "Conf", Rows: rows}}})
	}
	if variant&1 == 1 && variant&16 == 0 {
		// a single defect: one bad cell in one secondary merger book
		w.writeCSVBook(sub, bookSpec{Name: "Zone3", Sheets: []sheetSpec{{Name: "ZoneConf", Rows: [][]string{{"ID", "Name"}, {"t", "t"}, {"n", "n"}, {"30", "a"}, {"bad!", "b"}}}}, NoMeta: true})
	}
}

func c04Run(w *workspace, outIdx int, variant int, named bool) (snap string, errText string) {
	outProto := filepath.Join(w.Root, fmt.Sprintf("proto%d", outIdx))
	outConf := filepath.Join(w.Root, fmt.Sprintf("conf%d", outIdx))
	os.MkdirAll(outProto, 0o755)
	os.MkdirAll(outConf, 0o755)
	rewrites := map[string]string{}
	if variant&2 == 2 {
		rewrites = map[string]string{"excel/": "excel/"}
	}
	po := &options.ProtoOption{
		Input: &options.ProtoInputOption{ProtoPaths: []string{outProto}, Formats: []format.Format{format.CSV}, Subdirs: []string{"excel"}, SubdirRewrites: rewrites,
			Header: &options.HeaderOption{NameRow: 1, TypeRow: 2, NoteRow: 3, DataRow: 4, Sep: ",", Subsep: ":"}},
		Output: &options.ProtoOutputOption{FilenameWithSubdirPrefix: variant&4 == 4,
			FileOptions: map[string]string{"go_package": "example.com/conf", "java_package": "com.example.conf", "csharp_namespace": "Example.Conf", "objc_class_prefix": "EX"}},
	}
	if err := tableau.GenProto("protoconf", w.In, outProto, options.Proto(po), options.Log(quietLog)); err != nil {
		return "", "proto:" + errCode(err)
	}
	serverProto := "syntax = \"proto3\";\npackage protoconf;\nimport \"tableau/protobuf/tableau.proto\";\noption (tableau.workbook) = {name:\"excel/Server#*.csv\"};\n\n" +
		"message ServerConf {\n  option (tableau.worksheet) = {name:\"ServerConf\"};\n  string name = 1;\n  Limits limits = 2;\n}\n\n" +
		"message Limits {\n  int32 max_players = 1;\n  int32 max_rooms = 2;\n}\n"
	if err := os.WriteFile(filepath.Join(outProto, "server.proto"), []byte(serverProto), 0o644); err != nil {
		panic(err)
	}
	co := &options.ConfOption{
		Input:  &options.ConfInputOption{ProtoPaths: []string{outProto}, ProtoFiles: []string{filepath.Join(outProto, "*.proto")}, Formats: []format.Format{format.CSV}, Subdirs: []string{"excel"}, SubdirRewrites: rewrites},
		Output: &options.ConfOutputOption{Formats: []format.Format{format.JSON, format.Text, format.Bin}, Pretty: variant&8 == 8},
	}
	setters := []options.Option{options.Conf(co), options.Log(quietLog), options.LocationName("UTC")}
	var err error
	if named {
		err = tableau.NewConfGenerator("protoconf", w.In, outConf, setters...).Generate("excel/Shared#*.csv")
	} else {
		err = tableau.GenConf("protoconf", w.In, outConf, setters...)
	}
	if err != nil {
		d := xerrors.NewDesc(err)
		get := func(k string) string {
			v, _ := d.GetValue(k).(string)
			return v
		}
		// the whole rendered error, every field of it (field options, column, type … included): one defect, one text
		text := strings.ReplaceAll(strings.ReplaceAll(err.Error()+"\n"+d.String(), outConf, "<CONF>"), outProto, "<PROTO>")
		sum := sha256.Sum256([]byte(text))
		if os.Getenv("VERIF_DEBUG") != "" {
			println("ERRTEXT", text)
		}
		return "", "conf:" + errCode(err) + ":" + get(xerrors.KeyBookName) + ":" + get(xerrors.KeySheetName) + ":" + get(xerrors.KeyDataCellPos) + ":" + get(xerrors.KeyDataCell) + ":text=" + hex.EncodeToString(sum[:6])
	}
	sp, sc := snapshot(outProto), snapshot(outConf)
	return snapString(sp) + "|" + snapString(sc), ""
}

func init() {
	// e2e.C04.determinism: the same input tree converted repeatedly (fresh output dirs, GOMAXPROCS cycled):
	// success/failure, every output file's hash and the reported single defect must be identical in all runs.
	regStream("e2e.C04.determinism", func(r *rand.Rand, n int, emit func(string, ...string)) {
		for i := 0; i < n; i++ {
			named := "0"
			if i%3 == 2 {
				named = "1"
			}
			emit("c04.det", strconv.Itoa(i%32), named, strconv.Itoa(8+r.Intn(5)))
		}
	})
	regImpl("c04.det", func(a []string) string {
		variant, named, nruns := int(mustInt(a[0])), a[1] == "1", int(mustInt(a[2]))
		w := newWorkspace()
		defer w.cleanup()
		c04Input(w, variant, rand.New(rand.NewSource(1)))
		old := runtime.GOMAXPROCS(0)
		defer runtime.GOMAXPROCS(old)
		seen := map[string]int{}
		for k := 0; k < nruns; k++ {
			runtime.GOMAXPROCS([]int{1, 2, 4, 8, 16}[k%5])
			snap, errText := c04Run(w, k, variant, named)
			seen[snap+"#"+errText]++
		}
		if len(seen) == 1 {
			for k := range seen {
				kind := "ok"
				if strings.Contains(k, "#conf:") || strings.Contains(k, "#proto:") {
					kind = "err"
					fmt.Fprintln(os.Stderr, "c04.det: stable error:", k[strings.Index(k, "#")+1:])
				}
				return "same " + kind
			}
		}
		var keys []string
		for k := range seen {
			keys = append(keys, k)
		}
		sort.Strings(keys)
		// name the first differing file
		diff := ""
		m0, m1 := map[string]string{}, map[string]string{}
		for _, kv := range strings.FieldsFunc(keys[0], func(c rune) bool { return c == ';' || c == '|' }) {
			if i := strings.Index(kv, "="); i > 0 {
				m0[kv[:i]] = kv[i+1:]
			}
		}
		for _, kv := range strings.FieldsFunc(keys[1], func(c rune) bool { return c == ';' || c == '|' }) {
			if i := strings.Index(kv, "="); i > 0 {
				m1[kv[:i]] = kv[i+1:]
			}
		}
		for f, h := range m0 {
			if m1[f] != h {
				diff = f
				break
			}
		}
		for f := range m1 {
			if _, ok := m0[f]; !ok && diff == "" {
				diff = f
			}
		}
		return fmt.Sprintf("differ %d outcomes, e.g. file %s", len(seen), diff)
	})
}
