package main

import (
	"math/rand"
	"strconv"

	"github.com/tableauio/tableau/verifhook"
	"github.com/tableauio/tableau/xerrors"
)

var descKeys = []string{
	xerrors.KeyModule, xerrors.KeyBookName, xerrors.KeyPrimaryBookName, xerrors.KeySheetName,
	xerrors.KeyPrimarySheetName, xerrors.KeyNameCellPos, xerrors.KeyNameCell, xerrors.KeyTypeCellPos,
	xerrors.KeyTypeCell, xerrors.KeyDataCellPos, xerrors.KeyDataCell, xerrors.KeyPBMessage,
	xerrors.KeyPBFieldName, xerrors.KeyPBFieldType, xerrors.KeyPBFieldOpts, xerrors.KeyColumnName,
	"ErrCode", "ErrDesc", "Help", xerrors.KeyReason,
}

var safeVals = []string{"", "A1", "B12", "Item.xlsx", "Hero#Conf.csv", "1001", "abc", "x y", "a:b", "值", "map<uint32, Item>", "E2012", "-1", "1.5e3", "{int32 ID}Item"}
var unsafeVals = []string{"a|b", "|", " lead", "trail ", ":x", "x:", "a|DataCell: evil", "a|b: c", " ", ":"}

type errLayer struct {
	kvs []string // k, v, k, v …
}

func genErrTree(r *rand.Rand, unsafe bool) (layers []errLayer, reason string) {
	depth := r.Intn(5) // number of wrap layers
	pick := func() string {
		if unsafe && r.Intn(4) == 0 {
			return unsafeVals[r.Intn(len(unsafeVals))]
		}
		return safeVals[r.Intn(len(safeVals))]
	}
	for i := 0; i <= depth; i++ {
		n := r.Intn(4)
		if r.Intn(8) == 0 {
			n = 0
		}
		var l errLayer
		used := map[string]bool{}
		for j := 0; j < n; j++ {
			k := descKeys[r.Intn(len(descKeys)-1)] // not Reason
			if used[k] {
				continue
			}
			used[k] = true
			l.kvs = append(l.kvs, k, pick())
		}
		layers = append(layers, l)
	}
	return layers, pick()
}

func encTree(layers []errLayer, reason string) []string {
	var a []string
	for i, l := range layers {
		tag := "W"
		if i == len(layers)-1 {
			tag = "L"
		}
		a = append(a, tag, strconv.Itoa(len(l.kvs)/2))
		for _, s := range l.kvs {
			a = append(a, encStr(s))
		}
	}
	return append(a, encStr(reason))
}

// buildErr builds the REAL error value from the encoded tree.
func buildErr(a []string) error {
	type lay struct {
		tag string
		kvs []any
	}
	var ls []lay
	i := 0
	for i < len(a)-1 {
		tag := a[i]
		n, _ := strconv.Atoi(a[i+1])
		i += 2
		var kvs []any
		for j := 0; j < 2*n; j++ {
			kvs = append(kvs, mustStr(a[i+j]))
		}
		i += 2 * n
		ls = append(ls, lay{tag, kvs})
	}
	reason := mustStr(a[len(a)-1])
	last := ls[len(ls)-1]
	err := xerrors.ErrorKV(reason, last.kvs...)
	for k := len(ls) - 2; k >= 0; k-- {
		err = xerrors.WrapKV(err, ls[k].kvs...)
	}
	return err
}

func init() {
	regStream("corr.excel.position", func(r *rand.Rand, n int, emit func(string, ...string)) {
		for i := 0; i < 800 && i < n; i++ { // exhaustive small columns (covers A..ZZ and the first AAA..)
			emit("c07.letter", strconv.Itoa(i))
		}
		for i := 800; i < n; i++ {
			switch r.Intn(3) {
			case 0:
				emit("c07.letter", strconv.Itoa(r.Intn(20000)))
			default:
				emit("c07.position", strconv.Itoa(r.Intn(100000)), strconv.Itoa(r.Intn(20000)))
			}
		}
	})
	regImpl("c07.letter", func(a []string) string { return encStr(verifhook.LetterAxis(int(mustInt(a[0])))) })
	regImpl("c07.position", func(a []string) string {
		return encStr(verifhook.Position(int(mustInt(a[0])), int(mustInt(a[1]))))
	})

	regStream("corr.xerrors.newDesc", func(r *rand.Rand, n int, emit func(string, ...string)) {
		for i := 0; i < n; i++ {
			layers, reason := genErrTree(r, i%5 == 4) // every fifth tree draws from the malformed pool
			tree := encTree(layers, reason)
			if i%7 == 0 {
				emit("c07.render", tree...)
			}
			key := descKeys[r.Intn(len(descKeys))]
			emit("c07.desc", append([]string{encStr(key)}, tree...)...)
		}
	})
	regImpl("c07.render", func(a []string) string { return encStr(buildErr(a).Error()) })
	regImpl("c07.desc", func(a []string) string {
		key := mustStr(a[0])
		v := xerrors.NewDesc(buildErr(a[1:])).GetValue(key)
		if v == nil {
			return "-"
		}
		return encStr(v.(string))
	})
}
