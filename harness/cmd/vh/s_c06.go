package main

import (
	"encoding/json"
	"fmt"
	"math/rand"
	"os"
	"path/filepath"
	"strconv"
	"strings"
	"time"

	"github.com/tableauio/tableau/format"
	"github.com/tableauio/tableau/load"
	"github.com/tableauio/tableau/store"
	"github.com/tableauio/tableau/verifhook"
	"google.golang.org/protobuf/proto"
	"google.golang.org/protobuf/reflect/protoreflect"
	"google.golang.org/protobuf/types/dynamicpb"
)

func init() {
	// e2e.C06.formats: generated messages (every field kind incl. Timestamp/Duration, strings with blank runs,
	// newlines, U+3000, quotes, timestamp look-alikes, int64 extremes) × all 2^5 output option combinations:
	// store.Store as json / txt / bin, load.Load each back, proto.Equal with the original.
	regStream("e2e.C06.formats", func(r *rand.Rand, n int, emit func(string, ...string)) {
		schemaWithWellKnown = true
		defer func() { schemaWithWellKnown = false }()
		locs := []string{"UTC", "Asia/Shanghai", "America/New_York", "Asia/Kolkata"}
		for i := 0; i < n; {
			schema := genSchema(r, 2)
			md := buildDescriptor(schema)
			var dt []string
			schema.tokens(&dt)
			for j := 0; j < 4 && i < n; j++ {
				msg := genMessage(r, schema, md, []int{30, 60, 90, 100}[r.Intn(4)])
				emit("c06.rt", strconv.Itoa((i*11+i/32)%32), locs[r.Intn(len(locs))], strings.Join(dt, " "), msgString(msg))
				i++
			}
		}
	})
	regImpl("c06.rt", func(a []string) string {
		mask := int(mustInt(a[0]))
		loc := a[1]
		pos := 0
		schema := parseSchema(strings.Fields(a[2]), &pos)
		md := buildDescriptor(schema)
		pos = 0
		orig := decMessage(md, strings.Fields(a[3]), &pos)
		w := newWorkspace()
		defer w.cleanup()
		opts := []store.Option{store.Pretty(mask&1 != 0), store.EmitUnpopulated(mask&2 != 0), store.UseProtoNames(mask&4 != 0),
			store.UseEnumNumbers(mask&8 != 0), store.EmitTimezones(mask&16 != 0), store.LocationName(loc)}
		var parts []string
		if len(a[3])%2 == 0 {
			// an earlier run left longer files of the same names in the output directory (stale tails must not survive)
			os.MkdirAll(w.Conf, 0o755)
			for _, ext := range []string{".json", ".txt", ".bin"} {
				os.WriteFile(filepath.Join(w.Conf, string(md.Name())+ext), []byte(strings.Repeat("{\"stale\": 1} ", 20000)), 0o644)
			}
		}
		for _, f := range []format.Format{format.JSON, format.Text, format.Bin} {
			tag := map[format.Format]string{format.JSON: "json", format.Text: "text", format.Bin: "bin"}[f]
			if err := store.Store(orig.Interface(), w.Conf, f, opts...); err != nil {
				parts = append(parts, tag+"=storeerr")
				continue
			}
			back := dynamicpb.NewMessage(md)
			if err := load.Load(back, w.Conf, f); err != nil {
				parts = append(parts, tag+"=loaderr")
				continue
			}
			if proto.Equal(orig.Interface(), back) {
				parts = append(parts, tag+"=1")
			} else {
				parts = append(parts, tag+"=0")
			}
		}
		// EmitTimezones: every Timestamp of the message — in fields, lists, map values, at any depth — must be
		// shown in the JSON as the same instant with the offset the location has at that instant
		if mask&16 != 0 {
			parts = append(parts, "tz="+checkEmittedZones(orig, filepath.Join(w.Conf, string(md.Name())+".json"), loc, mask&4 != 0))
		} else {
			parts = append(parts, "tz=-")
		}
		return strings.Join(parts, " ")
	})
}

// checkEmittedZones walks the message and the stored JSON document side by side.
func checkEmittedZones(msg protoreflect.Message, jsonPath string, locName string, protoNames bool) string {
	data, err := os.ReadFile(jsonPath)
	if err != nil {
		return "nofile"
	}
	var root map[string]any
	if err := json.Unmarshal(data, &root); err != nil {
		return "badjson"
	}
	loc, err := time.LoadLocation(locName)
	if err != nil {
		return "badloc"
	}
	bad := ""
	var walk func(m protoreflect.Message, node any)
	check := func(m protoreflect.Message, node any) {
		s, ok := node.(string)
		if !ok {
			bad = "not-a-string"
			return
		}
		secs := m.Get(m.Descriptor().Fields().ByName("seconds")).Int()
		nanos := m.Get(m.Descriptor().Fields().ByName("nanos")).Int()
		want := time.Unix(secs, nanos)
		got, err := time.Parse(time.RFC3339Nano, s)
		if err != nil {
			bad = "unparsable:" + s
			return
		}
		if !got.Equal(want) {
			bad = "instant:" + s
			return
		}
		_, gotOff := got.Zone()
		_, wantOff := want.In(loc).Zone()
		if gotOff != wantOff-wantOff%60 {
			bad = fmt.Sprintf("offset:%s:want%d", s, wantOff)
		}
	}
	walk = func(m protoreflect.Message, node any) {
		if bad != "" {
			return
		}
		if m.Descriptor().FullName() == "google.protobuf.Timestamp" {
			check(m, node)
			return
		}
		obj, ok := node.(map[string]any)
		if !ok {
			if m.Descriptor().FullName() == "google.protobuf.Duration" {
				return
			}
			bad = "not-an-object"
			return
		}
		m.Range(func(fd protoreflect.FieldDescriptor, v protoreflect.Value) bool {
			if fd.Kind() != protoreflect.MessageKind || (fd.IsMap() && fd.MapValue().Kind() != protoreflect.MessageKind) {
				return true
			}
			name := fd.JSONName()
			if protoNames {
				name = fd.TextName()
			}
			sub := obj[name]
			switch {
			case fd.IsMap():
				mo, _ := sub.(map[string]any)
				v.Map().Range(func(k protoreflect.MapKey, mv protoreflect.Value) bool {
					walk(mv.Message(), mo[k.String()])
					return bad == ""
				})
			case fd.IsList():
				lo, _ := sub.([]any)
				for i := 0; i < v.List().Len() && bad == ""; i++ {
					if i >= len(lo) {
						bad = "short-list"
						break
					}
					walk(v.List().Get(i).Message(), lo[i])
				}
			default:
				walk(v.Message(), sub)
			}
			return bad == ""
		})
	}
	walk(msg, any(root))
	if bad != "" {
		return "0:" + strings.ReplaceAll(bad, " ", "_")
	}
	return "1"
}

func init() {
	// corr.xproto.squeeze: texts over the alphabet that matters to the scanner (blanks incl. tab/newline/U+3000,
	// both quote kinds, backslash, ordinary runes), exhaustive up to length 6, plus real prototext output.
	regStream("corr.xproto.squeeze", func(r *rand.Rand, n int, emit func(string, ...string)) {
		alpha := []string{"a", " ", "\t", "\n", "　", "\"", "'", "\\", ":"}
		count := 0
		var rec func(prefix string, depth int)
		rec = func(prefix string, depth int) {
			emit("c06.squeeze", encStr(prefix))
			count++
			if depth == 5 {
				return
			}
			for _, a := range alpha {
				rec(prefix+a, depth+1)
			}
		}
		rec("", 0)
		for count < n {
			l := 1 + r.Intn(30)
			var sb strings.Builder
			for i := 0; i < l; i++ {
				sb.WriteString(alpha[r.Intn(len(alpha))])
			}
			emit("c06.squeeze", encStr(sb.String()))
			count++
		}
	})
	regImpl("c06.squeeze", func(a []string) string { return encStr(verifhook.SqueezeText(mustStr(a[0]))) })
}

// ---------------------------------------------------------------------------
// e2e.C06.boundary: one datetime cell at the edges of what a Timestamp can hold (0001-01-01 … 9999-12-31 in UTC; the
// edge moves with the location), converted by the real GenConf into text, binary and JSON in that order: either the
// cell is rejected and NO file of the worksheet is written, or all three are written.
//   c06.cell <location> <its transition table> <cell text>   → all | none | partial:<files>
// ---------------------------------------------------------------------------

func init() {
	regStream("e2e.C06.boundary", func(r *rand.Rand, n int, emit func(string, ...string)) {
		names := []string{"UTC", "Asia/Shanghai", "America/New_York", "Asia/Kolkata", "America/St_Johns", "Pacific/Auckland"}
		texts := []string{"0001-01-01 00:00:00", "0001-01-01 12:00:00", "0001-01-02 00:00:00", "9999-12-31 23:59:59", "9999-12-31 00:00:00", "9999-12-30 23:59:59",
			"0000-06-15 12:00:00", "0000-12-31 23:59:59", "2024-02-29 12:00:00", "1970-01-01 00:00:00", "0001-01-01", "9999-12-31", "99991231", "00010101"}
		for i := 0; i < n; i++ {
			z := zoneTable(names[r.Intn(len(names))])
			emit("c06.cell", z.name, z.enc, encStr(texts[r.Intn(len(texts))]))
		}
	})
	regImpl("c06.cell", func(a []string) string {
		w := newWorkspace()
		defer w.cleanup()
		w.writeCSVBook("", bookSpec{Name: "Book", Sheets: []sheetSpec{{Name: "TimeConf", Rows: [][]string{
			{"ID", "At"}, {"map<uint32, Item>", "datetime"}, {"id", "at"}, {"1", mustStr(a[2])}}}}})
		ro := runOpts{LocationName: a[0], OutFormats: []format.Format{format.Text, format.Bin, format.JSON}}
		confDir := w.Conf
		if len(mustStr(a[2]))%2 == 1 {
			// the conf files go to a sub-directory of the output directory: all three formats into the same one
			ro.ConfSubdir = "release/conf"
			confDir = filepath.Join(w.Conf, "release", "conf")
		}
		if err := w.genProto(ro); err != nil {
			return "protoerr"
		}
		err := w.genConf(ro)
		var have []string
		for _, ext := range []string{".txt", ".bin", ".json"} {
			if _, e := os.Stat(filepath.Join(confDir, "TimeConf"+ext)); e == nil {
				have = append(have, ext[1:])
			}
		}
		switch {
		case err == nil && len(have) == 3:
			return "all"
		case err != nil && len(have) == 0:
			return "none"
		}
		return "partial:" + strings.Join(have, ",")
	})
}
