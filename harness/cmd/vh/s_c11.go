package main

import (
	"encoding/json"
	"fmt"
	"math/rand"
	"os"
	"path/filepath"
	"sort"
	"strconv"
	"strings"
	"sync"

	"github.com/tableauio/tableau/verifhook"
	"github.com/tableauio/tableau/xerrors"
)

// completion-order scheduler for the yield points of confgen.ParseMessage:
// a goroutine reaching "parsed" with book k waits until every book before k in
// the chosen order has reached "stored".
type orderSched struct {
	mu     sync.Mutex
	cond   *sync.Cond
	order  []string // base names of books, desired completion order
	stored map[string]bool
}

func newOrderSched(order []string) *orderSched {
	s := &orderSched{order: order, stored: map[string]bool{}}
	s.cond = sync.NewCond(&s.mu)
	return s
}

func bookKey(filename string) string {
	b := filepath.Base(filename)
	if i := strings.Index(b, "#"); i >= 0 {
		b = b[:i]
	}
	if strings.HasPrefix(b, "Part.v") {
		// the secondary books of the specifier cases carry a dot in their names (Part.v1, Part.v2, …)
		return "Part" + strings.TrimSuffix(strings.TrimSuffix(b[len("Part.v"):], ".xlsx"), ".csv")
	}
	b = strings.TrimSuffix(b, filepath.Ext(b))
	if b == "ZONE1" {
		b = "Zone2" // the second book is written as ZONE1 in some cases (see runMergeCase)
	}
	return b
}

func (s *orderSched) yield(site, key string) {
	k := bookKey(key)
	s.mu.Lock()
	defer s.mu.Unlock()
	switch site {
	case "ParseMessage.parsed":
		for {
			ready := true
			for _, b := range s.order {
				if b == k {
					break
				}
				if !s.stored[b] {
					ready = false
					break
				}
			}
			if ready {
				return
			}
			s.cond.Wait()
		}
	case "ParseMessage.stored":
		s.stored[k] = true
		s.cond.Broadcast()
	}
}

func permutations(xs []string) [][]string {
	if len(xs) <= 1 {
		return [][]string{append([]string{}, xs...)}
	}
	var out [][]string
	for i := range xs {
		rest := append(append([]string{}, xs[:i]...), xs[i+1:]...)
		for _, p := range permutations(rest) {
			out = append(out, append([]string{xs[i]}, p...))
		}
	}
	return out
}

// one merger case: rows (id, name, tag) partitioned over books Zone1..ZoneN (Zone1 is the primary)
type mergeRow struct {
	id, name, tag string
}

func runMergeCase(shape string, books [][]mergeRow, order []string) string {
	w := newWorkspace()
	defer w.cleanup()
	hdr := [][]string{{"ID", "Name"}, {"map<uint32, Item>", "string"}, {"id", "name"}}
	if shape == "list" {
		hdr = [][]string{{"ID", "Name"}, {"[Item]uint32", "string"}, {"id", "name"}}
	}
	for b, rows := range books {
		var grid [][]string
		grid = append(grid, hdr...)
		if b > 0 && (b+len(rows))%2 == 0 {
			// a secondary book whose first data line is blank (a blank line states nothing, wherever it stands)
			grid = append(grid, []string{"", ""})
		}
		for k, r := range rows {
			grid = append(grid, []string{r.id, r.name})
			if b == 0 && k == 0 && len(rows)%2 == 1 {
				grid = append(grid, []string{"", ""}) // … and one in the middle of the primary
			}
		}
		bk := bookSpec{Name: "Zone" + strconv.Itoa(b+1), Sheets: []sheetSpec{{Name: "Conf", Rows: grid}}}
		if b == 1 && len(books) >= 3 {
			// a secondary book whose name differs from the primary's only in letter case: it is another workbook
			// (sorted before Zone3…, so the book order stays the index order)
			bk.Name = "ZONE1"
		}
		if b == 0 {
			bk.Sheets[0].Meta = map[string]string{"Merger": "Z*.csv"}
		} else {
			bk.NoMeta = true
		}
		w.writeCSVBook("", bk)
	}
	ro := runOpts{}
	if err := w.genProto(ro); err != nil {
		return "protoerr " + errCode(err)
	}
	sched := newOrderSched(order)
	verifhook.SetConfgenYield(sched.yield)
	err := w.genConf(ro)
	verifhook.SetConfgenYield(nil)
	if err != nil {
		d := xerrors.NewDesc(err)
		bn, _ := d.GetValue(xerrors.KeyBookName).(string)
		// canonical: the set of books named
		var names []string
		for _, p := range strings.Split(bn, ",") {
			p = strings.TrimSpace(p)
			if p != "" {
				names = append(names, bookKey(p))
			}
		}
		sort.Strings(names)
		return "err " + errCode(err) + " " + strings.Join(names, "+")
	}
	data, rerr := os.ReadFile(filepath.Join(w.Conf, "Conf.json"))
	if rerr != nil {
		return "nojson"
	}
	var got struct {
		ItemMap map[string]struct {
			ID   int    `json:"id"`
			Name string `json:"name"`
		} `json:"itemMap"`
		ItemList []struct {
			ID   int    `json:"id"`
			Name string `json:"name"`
		} `json:"itemList"`
	}
	if jerr := json.Unmarshal(data, &got); jerr != nil {
		return "badjson"
	}
	var keys []string
	for k, v := range got.ItemMap {
		keys = append(keys, k+"="+v.Name)
	}
	sort.Strings(keys)
	var elems []string
	for _, t := range got.ItemList {
		elems = append(elems, strconv.Itoa(t.ID)+"="+t.Name)
	}
	return "ok map[" + strings.Join(keys, ",") + "] list[" + strings.Join(elems, ",") + "]"
}

func init() {
	// e2e.C11.merge: a sheet's rows partitioned over 1..4 books (glob merger); the real GenConf runs under
	// EVERY completion order of the per-book goroutines (yield hook). Observation: the common result, or the
	// differing ones.
	regStream("e2e.C11.merge", func(r *rand.Rand, n int, emit func(string, ...string)) {
		for i := 0; i < n; i++ {
			nbooks := 1 + r.Intn(4)
			nrows := r.Intn(7)
			dup := r.Intn(5) == 0 && nbooks >= 2
			var parts []string
			used := 0
			for b := 0; b < nbooks; b++ {
				cnt := 0
				if nrows > 0 {
					cnt = r.Intn(nrows + 1)
				}
				if b == nbooks-1 && nrows-used > 0 && r.Intn(2) == 0 {
					cnt = nrows - used
				}
				var rows []string
				for k := 0; k < cnt; k++ {
					used++
					id := strconv.Itoa(used)
					tag := "t" + id
					if r.Intn(5) == 0 {
						tag = "" // no list element in this row
					}
					rows = append(rows, id+":n"+id+":"+tag)
				}
				parts = append(parts, strings.Join(rows, ","))
			}
			dupSpec := "-"
			if dup && used > 0 {
				// one more row in another book repeating an existing id
				dupSpec = strconv.Itoa(1+r.Intn(used)) + "@" + strconv.Itoa(r.Intn(nbooks))
			}
			shape := []string{"map", "list"}[r.Intn(2)]
			emit("c11.merge", shape, strconv.Itoa(nbooks), strings.Join(parts, ";"), dupSpec)
		}
	})
	regImpl("c11.merge", func(a []string) string {
		shape := a[0]
		a = a[1:]
		nbooks := int(mustInt(a[0]))
		books := make([][]mergeRow, nbooks)
		owner := map[string]int{}
		for b, part := range strings.Split(a[1], ";") {
			if part == "" {
				continue
			}
			for _, rs := range strings.Split(part, ",") {
				f := strings.SplitN(rs, ":", 3)
				books[b] = append(books[b], mergeRow{f[0], f[1], f[2]})
				owner[f[0]] = b
			}
		}
		if a[2] != "-" {
			f := strings.Split(a[2], "@")
			b := int(mustInt(f[1]))
			if owner[f[0]] == b {
				b = (b + 1) % nbooks
			}
			books[b] = append(books[b], mergeRow{f[0], "dup", ""})
		}
		var names []string
		for b := 0; b < nbooks; b++ {
			names = append(names, "Zone"+strconv.Itoa(b+1))
		}
		results := map[string][]string{}
		var orderSeen []string
		for _, perm := range permutations(names) {
			res := runMergeCase(shape, books, perm)
			if _, ok := results[res]; !ok {
				orderSeen = append(orderSeen, res)
			}
			results[res] = append(results[res], strings.Join(perm, ">"))
		}
		if len(orderSeen) == 1 {
			return "same " + orderSeen[0]
		}
		return fmt.Sprintf("differ %d %s || %s", len(orderSeen), orderSeen[0], orderSeen[1])
	})
}
