package main

import (
	"fmt"
	"math/rand"
	"os"
	"path/filepath"
	"strings"

	"github.com/tableauio/tableau/format"
	"github.com/tableauio/tableau/load"
	"google.golang.org/protobuf/proto"
	"google.golang.org/protobuf/reflect/protoregistry"
	"google.golang.org/protobuf/types/dynamicpb"
)

// ---------------------------------------------------------------------------
// e2e.C19.yaml: origin loading of YAML workbooks with several worksheets: every worksheet loaded from the
// workbook equals the worksheet loaded from its generated conf; an unreadable workbook is rejected by both
// paths. The data documents come in any order, a sheet's document may occur twice (a stale copy left in the
// file), a document that is not valid YAML may stand anywhere.
// ---------------------------------------------------------------------------

func runC19YAML(seed int64) string {
	r := rand.New(rand.NewSource(seed))
	uniq := fmt.Sprintf("%d", seed)
	sheets := []string{"HeroConf" + uniq, "ItemConf" + uniq, "ZoneConf" + uniq}[:2+r.Intn(2)]
	var sb strings.Builder
	sb.WriteString("\"@sheet\": \"@TABLEAU\"\n---\n")
	for _, s := range sheets {
		sb.WriteString("\"@sheet\": \"@" + s + "\"\nID: uint32\nName: string\n---\n")
	}
	type doc struct{ text string }
	var docs []doc
	for i, s := range sheets {
		docs = append(docs, doc{fmt.Sprintf("\"@sheet\": %s\nID: %d\nName: n%d\n", s, i+1, i+1)})
		if r.Intn(3) == 0 {
			// a second document of the same sheet (the later one is what the workbook states)
			docs = append(docs, doc{fmt.Sprintf("\"@sheet\": %s\nID: %d\nName: revised%d\n", s, 10+i, i)})
		}
	}
	r.Shuffle(len(docs), func(i, j int) { docs[i], docs[j] = docs[j], docs[i] })
	tags := []string{}
	if len(docs) > len(sheets) {
		tags = append(tags, "repeated")
	}
	if r.Intn(4) == 0 {
		k := r.Intn(len(docs) + 1)
		bad := doc{"\"@sheet\": Scratch\nNotes:\n\t- tab indented, not valid YAML\n"}
		docs = append(docs[:k], append([]doc{bad}, docs[k:]...)...)
		tags = append(tags, "broken")
	}
	for i, d := range docs {
		if i > 0 {
			sb.WriteString("---\n")
		}
		sb.WriteString(d.text)
	}
	w := newWorkspace()
	defer w.cleanup()
	if err := os.WriteFile(filepath.Join(w.In, "Doc"+uniq+".yaml"), []byte(sb.String()), 0o644); err != nil {
		panic(err)
	}
	tag := " [" + strings.Join(tags, ",") + "]"
	ro := runOpts{Formats: []format.Format{format.YAML}, Package: "py" + uniq}
	if err := w.genProto(ro); err != nil {
		return "same protoerr" + tag
	}
	confErr := w.genConf(ro)
	descs, err := parseProtoDir(w.Proto)
	if err != nil {
		return "same protoinvalid" + tag
	}
	for _, s := range sheets {
		md := descs[ro.pkg()+"."+s]
		if md == nil {
			return "same nomessage" + tag
		}
		_ = protoregistry.GlobalFiles
		fromOrigin := dynamicpb.NewMessage(md.UnwrapMessage())
		originErr := load.Load(fromOrigin, w.In, format.YAML)
		if (confErr != nil) != (originErr != nil) {
			return fmt.Sprintf("differ error-parity sheet=%s conf=%s origin=%s%s", strings.TrimSuffix(s, uniq), errCore(confErr), errCore(originErr), tag)
		}
		if confErr != nil {
			continue
		}
		fromConf := dynamicpb.NewMessage(md.UnwrapMessage())
		if err := load.Load(fromConf, w.Conf, format.JSON); err != nil {
			return "differ conf-unloadable" + tag
		}
		if !proto.Equal(fromOrigin, fromConf) {
			return "differ message sheet=" + strings.TrimSuffix(s, uniq) + tag
		}
	}
	if confErr != nil {
		return "same err" + tag
	}
	return "same ok" + tag
}

// runC19XML: the same for an XML workbook with several root elements (one per worksheet, any order)
func runC19XML(seed int64) string {
	r := rand.New(rand.NewSource(seed))
	uniq := fmt.Sprintf("%d", seed)
	sheets := []string{"HeroConf" + uniq, "ItemConf" + uniq, "ZoneConf" + uniq}[:2+r.Intn(2)]
	var sb strings.Builder
	sb.WriteString("<?xml version=\"1.0\" encoding=\"UTF-8\" ?>\n<!--\n<@TABLEAU>\n")
	for _, s := range sheets {
		sb.WriteString("    <Item Sheet=\"" + s + "\" />\n")
	}
	sb.WriteString("</@TABLEAU>\n\n")
	for _, s := range sheets {
		sb.WriteString("<" + s + ">\n    <Item ID=\"[Item]uint32\" Name=\"string\" />\n    <Title>string</Title>\n</" + s + ">\n\n")
	}
	sb.WriteString("-->\n\n")
	order := r.Perm(len(sheets))
	tags := []string{"xml"}
	corrupt := r.Intn(5) == 0
	for _, k := range order {
		s := sheets[k]
		sb.WriteString("<" + s + ">\n")
		for e := 0; e < 1+r.Intn(3); e++ {
			id := fmt.Sprintf("%d", 10*k+e+1)
			if corrupt && k == order[len(order)-1] && e == 0 {
				id = "abc"
			}
			sb.WriteString(fmt.Sprintf("    <Item ID=\"%s\" Name=\"n%d\" />\n", id, e))
		}
		sb.WriteString(fmt.Sprintf("    <Title>t%d</Title>\n</%s>\n\n", k, s))
	}
	if corrupt {
		tags = append(tags, "corrupt")
	}
	w := newWorkspace()
	defer w.cleanup()
	if err := os.WriteFile(filepath.Join(w.In, "Doc"+uniq+".xml"), []byte(sb.String()), 0o644); err != nil {
		panic(err)
	}
	tag := " [" + strings.Join(tags, ",") + "]"
	ro := runOpts{Formats: []format.Format{format.XML}, Package: "px" + uniq}
	if err := w.genProto(ro); err != nil {
		if os.Getenv("VERIF_DEBUG") != "" {
			println("PROTOERR", err.Error(), sb.String())
		}
		return "same protoerr" + tag
	}
	confErr := w.genConf(ro)
	descs, err := parseProtoDir(w.Proto)
	if err != nil {
		return "same protoinvalid" + tag
	}
	for _, s := range sheets {
		md := descs[ro.pkg()+"."+s]
		if md == nil {
			return "same nomessage" + tag
		}
		fromOrigin := dynamicpb.NewMessage(md.UnwrapMessage())
		originErr := load.Load(fromOrigin, w.In, format.XML)
		if confErr != nil {
			// one bad sheet fails the whole conversion; loading THAT sheet from origin must fail alike
			continue
		}
		if originErr != nil {
			return fmt.Sprintf("differ error-parity sheet=%s conf=ok origin=%s%s", strings.TrimSuffix(s, uniq), errCore(originErr), tag)
		}
		fromConf := dynamicpb.NewMessage(md.UnwrapMessage())
		if err := load.Load(fromConf, w.Conf, format.JSON); err != nil {
			return "differ conf-unloadable" + tag
		}
		if !proto.Equal(fromOrigin, fromConf) {
			return "differ message sheet=" + strings.TrimSuffix(s, uniq) + tag
		}
	}
	if confErr != nil {
		// the spoilt sheet: origin loading reports the same error
		bad := sheets[order[len(order)-1]]
		md := descs[ro.pkg()+"."+bad]
		fromOrigin := dynamicpb.NewMessage(md.UnwrapMessage())
		originErr := load.Load(fromOrigin, w.In, format.XML)
		if originErr == nil {
			return "differ error-parity conf=" + errCore(confErr) + " origin=ok" + tag
		}
		if errCore(confErr) != errCore(originErr) {
			return "differ error-desc conf=" + errCore(confErr) + " origin=" + errCore(originErr) + tag
		}
		return "same err" + tag
	}
	return "same ok" + tag
}

func init() {
	regStream("e2e.C19.yaml", func(r *rand.Rand, n int, emit func(string, ...string)) {
		for i := 0; i < n; i++ {
			if i%3 == 2 {
				emit("c19.yaml", itoa(r.Int63n(1<<40)), "xml")
			} else {
				emit("c19.yaml", itoa(r.Int63n(1<<40)))
			}
		}
	})
	regImpl("c19.yaml", func(a []string) string {
		if len(a) > 1 && a[1] == "xml" {
			return runC19XML(mustInt(a[0]))
		}
		return runC19YAML(mustInt(a[0]))
	})
}
