package main

import (
	"fmt"
	"math/rand"
	"strings"

	"github.com/tableauio/tableau/verifhook"
)

// ---------------------------------------------------------------------------
// corr.xproto.duration: time-of-day / duration cells against Model.Duration and
// the specification Spec.C20Dur (must-accept spellings with their length,
// must-reject texts).
// ---------------------------------------------------------------------------

func implDuration(text string) string {
	fd := kindFields["duration"]
	v, present, err := verifhook.ParseFieldValue(fd, text, "")
	if err != nil {
		return "err"
	}
	if !present {
		return "absent"
	}
	m := v.Message()
	sec := m.Get(m.Descriptor().Fields().ByName("seconds")).Int()
	nanos := m.Get(m.Descriptor().Fields().ByName("nanos")).Int()
	return fmt.Sprintf("ok %d %d", sec, nanos)
}

func init() {
	regStream("corr.xproto.duration", func(r *rand.Rand, n int, emit func(string, ...string)) {
		count := 0
		out := func(s string) { emit("c20.dur", encStr(s)); count++ }
		fixed := []string{"", " ", "0", "+0", "-0", "00", "000", "0000", "00000", "000000", "0000000", "2359", "235959", "23:59", "23:59:59", "24:00:00", "99:99:99",
			"1:2", "1:2:3", "1:2:3:4", ":", "::", "10:", ":10", "1h", "1m", "1s", "1ms", "1us", "1µs", "1μs", "1ns", "1h2m3s", "3s2m1h", "1h1h", "-1h", "+1h", "--1h", "1", "12", "123",
			"h", "1x", "1 h", "1h ", " 1h", "1H", "1hr", "1d", "abc", "12ab", "1.5h", "1.h", ".5h", "1h.5", "9223372036854775807ns", "9223372036854775808ns", "-9223372036854775808ns",
			"-9223372036854775809ns", "2562047h", "2562048h", "153722867m", "153722868m", "9223372036s", "9223372037s", "99999999999999999999h", "1h99999999999999999999ns",
			"１２:００", "12：00", "12h30", "12m60s", "60:60", "0:0", "00:00:00", "1e3s", "0x10s", "1_000s", "１h"}
		for _, s := range fixed {
			out(s)
		}
		units := []string{"h", "m", "s", "ms", "us", "ns", "µs", "μs"}
		toks := []string{"0", "1", "2", "9", "10", "59", "60", ":", "h", "m", "s", "ms", "us", "ns", "µ", ".", "-", "+", " ", "x", "d"}
		for count < n {
			switch r.Intn(6) {
			case 0: // clock spellings
				h, m, s := r.Intn(100), r.Intn(100), r.Intn(100)
				out([]string{fmt.Sprintf("%02d:%02d:%02d", h, m, s), fmt.Sprintf("%02d:%02d", h, m), fmt.Sprintf("%02d%02d%02d", h, m, s), fmt.Sprintf("%02d%02d", h, m),
					fmt.Sprintf("%d:%d:%d", h, m, s), fmt.Sprintf("%d:%02d", h, m)}[r.Intn(6)])
			case 1: // Go syntax, canonical
				var sb strings.Builder
				for k := 1 + r.Intn(4); k > 0; k-- {
					sb.WriteString(fmt.Sprintf("%d%s", r.Intn(1000000), units[r.Intn(6)]))
				}
				out(sb.String())
			case 2: // Go syntax near the int64 limit
				base := []uint64{9223372036854775807, 9223372036854775808, 9223372036854775, 9223372036, 153722867, 2562047}[r.Intn(6)]
				u := []string{"ns", "ns", "us", "s", "m", "h"}
				k := r.Intn(6)
				out(fmt.Sprintf("%s%d%s", []string{"", "-", "+"}[r.Intn(3)], base+uint64(r.Intn(3)), u[k]))
			case 3: // digits only of any length
				l := 1 + r.Intn(8)
				var sb strings.Builder
				for i := 0; i < l; i++ {
					sb.WriteByte(byte('0' + r.Intn(10)))
				}
				out(sb.String())
			default: // token soup
				var sb strings.Builder
				for k := 1 + r.Intn(5); k > 0; k-- {
					sb.WriteString(toks[r.Intn(len(toks))])
				}
				out(sb.String())
			}
		}
	})
	regImpl("c20.dur", func(a []string) string { return implDuration(mustStr(a[0])) })
}
