package main

import (
	"math/rand"
	"strconv"
	"strings"

	"github.com/tableauio/tableau/format"
	"github.com/tableauio/tableau/proto/tableaupb"
	"github.com/tableauio/tableau/verifhook"
)

// ---------------------------------------------------------------------------
// corr.confgen.docParse: confgen's document parser on generated node trees
// against Model.DocParser (same descriptor generator as the table parser).
// ---------------------------------------------------------------------------

type dnodeT struct {
	kind     int // 0 scalar 1 list 2 map
	name     string
	value    string
	children []*dnodeT
}

func (n *dnodeT) enc(sb *strings.Builder) {
	sb.WriteString("(" + strconv.Itoa(n.kind) + "|" + encStr(n.name) + "|" + encStr(n.value) + "|")
	for _, c := range n.children {
		c.enc(sb)
	}
	sb.WriteString(")")
}

func decDNode(s string) (*dnodeT, string) {
	// "(k|name|value|children)"
	s = s[1:]
	i := strings.Index(s, "|")
	k, _ := strconv.Atoi(s[:i])
	s = s[i+1:]
	i = strings.Index(s, "|")
	name := mustStr(s[:i])
	s = s[i+1:]
	i = strings.Index(s, "|")
	value := mustStr(s[:i])
	s = s[i+1:]
	n := &dnodeT{kind: k, name: name, value: value}
	for strings.HasPrefix(s, "(") {
		var c *dnodeT
		c, s = decDNode(s)
		n.children = append(n.children, c)
	}
	return n, s[1:]
}

func (n *dnodeT) toBook() *verifhook.BookNode {
	b := &verifhook.BookNode{Name: n.name, Value: n.value}
	switch n.kind {
	case 1:
		b.Kind = 1
	case 2:
		b.Kind = 2
	}
	for _, c := range n.children {
		b.Children = append(b.Children, c.toBook())
	}
	return b
}

// docNodeFor builds the node of one field (nil = the document omits it)
func (g *tGen) docNodeFor(f *tField, depth int) *dnodeT {
	r := g.r
	if f.prop.optional && r.Intn(4) == 0 {
		return nil
	}
	if r.Intn(40) == 0 {
		return nil
	}
	cell := func() string {
		var cols []colSpec
		g.columns([]*tField{f}, "", "", &cols)
		if len(cols) == 0 {
			return ""
		}
		return g.cellText(cols[0])
	}
	switch {
	case f.card == 'o' && f.kind != "m":
		return &dnodeT{kind: 0, name: f.name, value: g.scalarText(f.kind, false)}
	case f.layout == 'i' || (f.card == 'o' && f.incell):
		return &dnodeT{kind: 0, name: f.name, value: cell()}
	case f.card == 'o': // cross-cell struct
		n := &dnodeT{kind: 2, name: f.name, children: g.docChildren(f.sub, depth-1)}
		if r.Intn(8) == 0 {
			// a one-element list node stands for the struct (XML)
			k := 1
			if r.Intn(4) == 0 {
				k = 2
			}
			l := &dnodeT{kind: 1, name: f.name}
			for i := 0; i < k; i++ {
				l.children = append(l.children, &dnodeT{kind: 2, children: g.docChildren(f.sub, depth-1)})
			}
			return l
		}
		return n
	case f.card == 'l':
		if f.kind != "m" {
			if r.Intn(6) == 0 {
				// a single scalar node (XML: one occurrence) is read through the in-cell path
				return &dnodeT{kind: 0, name: f.name, value: []string{"1", "1,2", "a", ""}[r.Intn(4)]}
			}
			n := &dnodeT{kind: 1, name: f.name}
			for i := r.Intn(4); i > 0; i-- {
				n.children = append(n.children, &dnodeT{kind: 0, value: g.scalarText(f.kind, false)})
			}
			return n
		}
		if f.incell {
			n := &dnodeT{kind: 1, name: f.name}
			for i := r.Intn(3); i > 0; i-- {
				var parts []string
				for _, s := range f.sub {
					parts = append(parts, g.scalarText(s.kind, false))
				}
				n.children = append(n.children, &dnodeT{kind: 0, value: strings.Join(parts, ",")})
			}
			return n
		}
		n := &dnodeT{kind: 1, name: f.name}
		for i := r.Intn(4); i > 0; i-- {
			n.children = append(n.children, &dnodeT{kind: 2, children: g.docChildren(f.sub, depth-1)})
		}
		return n
	default: // map with message value, not in-cell
		asList := r.Intn(4) == 0
		n := &dnodeT{kind: 2, name: f.name}
		if asList {
			n.kind = 1
		}
		for i := r.Intn(4); i > 0; i-- {
			key := g.scalarText(f.sub[0].kind, true)
			var kids []*dnodeT
			for j, s := range f.sub {
				if j == 0 {
					if asList && r.Intn(10) != 0 {
						kids = append(kids, &dnodeT{kind: 0, name: s.name, value: key})
					}
					continue
				}
				if c := g.docNodeFor(s, depth-1); c != nil {
					kids = append(kids, c)
				}
			}
			e := &dnodeT{kind: 2, children: kids}
			if !asList {
				e.name = key
			}
			n.children = append(n.children, e)
		}
		return n
	}
}

func (g *tGen) docChildren(fs []*tField, depth int) []*dnodeT {
	var out []*dnodeT
	for _, f := range fs {
		if c := g.docNodeFor(f, depth); c != nil {
			out = append(out, c)
		}
	}
	if g.r.Intn(10) == 0 {
		out = append(out, &dnodeT{kind: 0, name: "Unrelated", value: "x"})
	}
	return out
}

func implDocParse(a []string) string {
	o := parseTPOpts(a[0])
	pos := 0
	fs := parseTDesc(strings.Fields(a[1]), &pos)
	md := buildTDescriptor(fs)
	root, rest := decDNode(a[2])
	if rest != "" {
		return "bad-op"
	}
	sheetOpts := &tableaupb.WorksheetOptions{Name: "Sheet", Optional: o.optional, Sep: o.sheetSep, Subsep: o.sheetSubsep}
	bookOpts := &tableaupb.WorkbookOptions{Name: "Book.yaml", Sep: o.bookSep, Subsep: o.bookSubsep}
	doc := &verifhook.BookNode{Kind: 3, Children: []*verifhook.BookNode{root.toBook()}}
	msg, err := verifhook.DocumentParse(md, bookOpts, sheetOpts, "Sheet", doc, format.YAML)
	if err != nil {
		return "err " + errCode(err)
	}
	encStringsAsRunes = true
	defer func() { encStringsAsRunes = false }()
	return "ok " + msgString(msg.ProtoReflect())
}

func init() {
	regStream("corr.confgen.docParse", func(r *rand.Rand, n int, emit func(string, ...string)) {
		g := &tGen{r: r}
		for i := 0; i < n; {
			fs := g.sheet()
			var dt []string
			tdescTokens(fs, &dt)
			for j := 0; j < 5 && i < n; j++ {
				o := genTPOpts(r)
				root := &dnodeT{kind: 2, name: "Sheet", children: g.docChildren(fs, 2)}
				var sb strings.Builder
				root.enc(&sb)
				emit("doc.parse", o.token(), strings.Join(dt, " "), sb.String())
				i++
			}
		}
	})
	regImpl("doc.parse", implDocParse)
}
