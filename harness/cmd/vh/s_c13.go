package main

import (
	"math/rand"
	"strings"

	"github.com/tableauio/tableau/verifhook"
	"google.golang.org/protobuf/proto"
)

func init() {
	// corr.xproto.patch: generated schemas (every field kind, cardinality, presence pattern,
	// PATCH_REPLACE placement, nesting ≤ 2) × generated (dst, src) pairs.
	regStream("corr.xproto.patch", func(r *rand.Rand, n int, emit func(string, ...string)) {
		for i := 0; i < n; {
			schema := genSchema(r, 2)
			md := buildDescriptor(schema)
			var dt []string
			schema.tokens(&dt)
			for j := 0; j < 6 && i < n; j++ {
				density := []int{0, 30, 60, 90, 100}[r.Intn(5)]
				dst := genMessage(r, schema, md, []int{0, 50, 90}[r.Intn(3)])
				src := genMessage(r, schema, md, density)
				emit("c13.patch", strings.Join(dt, " "), msgString(dst), msgString(src))
				i++
			}
		}
	})
	regImpl("c13.patch", func(a []string) string {
		pos := 0
		schema := parseSchema(strings.Fields(a[0]), &pos)
		md := buildDescriptor(schema)
		pos = 0
		dst := decMessage(md, strings.Fields(a[1]), &pos)
		pos = 0
		src := decMessage(md, strings.Fields(a[2]), &pos)
		srcBefore := proto.Clone(src.Interface())
		if err := verifhook.PatchMessage(dst.Interface(), src.Interface()); err != nil {
			return "err"
		}
		res := msgString(dst)
		// runtime (non-theorem) part of the property: src is neither modified nor aliased
		if !proto.Equal(srcBefore, src.Interface()) {
			return res + " | SRC-MODIFIED"
		}
		return res
	})
}
