package main

import (
	"encoding/json"
	"fmt"
	"math/rand"
	"os"
	"path/filepath"
	"time"

	"github.com/tableauio/tableau/store"
	"google.golang.org/protobuf/types/known/timestamppb"
)

// ---------------------------------------------------------------------------
// e2e.C20.location: the LocationName option through the real conf generator:
// "" means UTC whatever the machine's zone is, "Local" the machine's zone, any
// other name that zone. The machine zone is imposed on the worker process
// (time.Local) for the duration of the op.
//
//   c20.gen <locName> <machine zone> <effective zone name> <its transition table> <cell text>
// ---------------------------------------------------------------------------

func implC20Gen(a []string) string { return implC20(a, false) }

// c20.emitz: the same run with EmitTimezones — the JSON must show the same instant with the location's offset
//   → okz <unix seconds> <offset seconds east of UTC>
func implC20Emitz(a []string) string { return implC20(a, true) }

func implC20(a []string, emitz bool) string {
	locName, machine, text := a[0], a[1], mustStr(a[4])
	mz, err := time.LoadLocation(machine)
	if err != nil {
		panic(err)
	}
	saved := time.Local
	time.Local = mz
	defer func() { time.Local = saved }()
	w := newWorkspace()
	defer w.cleanup()
	if (len(text)+len(machine))%2 == 0 {
		w.writeCSVBook("", bookSpec{Name: "Book", Sheets: []sheetSpec{{Name: "TimeConf", Rows: [][]string{
			{"ID", "At"}, {"map<uint32, Item>", "datetime"}, {"id", "at"}, {"1", text}}}}})
	} else {
		// the cell sits in a workbook merged into the sheet (Merger): same location, same reading
		w.writeCSVBook("", bookSpec{Name: "Book", Sheets: []sheetSpec{{Name: "TimeConf", Meta: map[string]string{"Merger": "Extra*.csv"}, Rows: [][]string{
			{"ID", "At"}, {"map<uint32, Item>", "datetime"}, {"id", "at"}, {"2", "2001-02-03 04:05:06"}}}}})
		w.writeCSVBook("", bookSpec{Name: "Extra1", NoMeta: true, Sheets: []sheetSpec{{Name: "TimeConf", Rows: [][]string{
			{"ID", "At"}, {"t", "t"}, {"id", "at"}, {"1", text}}}}})
	}
	ro := runOpts{LocationName: locName, LocationRaw: true, EmitTimezones: emitz}
	if err := w.genProto(ro); err != nil {
		return "protoerr"
	}
	if len(text)%2 == 1 || locName == "Local" || locName == "" {
		// an earlier conversion of the same books under ANOTHER location, in this process: what "Local" (or any name)
		// means afterwards is what it meant before
		warm := ro
		warm.LocationName = []string{"Asia/Kolkata", "America/St_Johns", "Pacific/Auckland"}[len(text)%3]
		saved := w.Conf
		w.Conf = filepath.Join(w.Root, "warm")
		os.MkdirAll(w.Conf, 0o755)
		_ = w.genConf(warm)
		w.Conf = saved
	}
	if err := w.genConf(ro); err != nil {
		return "err"
	}
	data, err := os.ReadFile(filepath.Join(w.Conf, "TimeConf.json"))
	if err != nil {
		return "nofile"
	}
	var got struct {
		ItemMap map[string]struct {
			At string `json:"at"`
		} `json:"itemMap"`
	}
	if err := json.Unmarshal(data, &got); err != nil {
		return "badjson"
	}
	at := got.ItemMap["1"].At
	if at == "" {
		return "absent"
	}
	t, err := time.Parse(time.RFC3339Nano, at)
	if err != nil {
		return "badtime " + at
	}
	if t.Nanosecond() != 0 {
		return fmt.Sprintf("okn %d %d", t.Unix(), t.Nanosecond())
	}
	if emitz {
		_, off := t.Zone()
		return fmt.Sprintf("okz %d %d", t.Unix(), off)
	}
	return fmt.Sprintf("ok %d", t.Unix())
}

func init() {
	regStream("e2e.C20.location", func(r *rand.Rand, n int, emit func(string, ...string)) {
		machines := []string{"UTC", "Asia/Kolkata", "America/New_York", "Australia/Lord_Howe"}
		names := []string{"", "", "Local", "UTC", "Asia/Shanghai", "America/New_York", "Asia/Kathmandu"}
		for i := 0; i < n; i++ {
			machine := machines[r.Intn(len(machines))]
			name := names[r.Intn(len(names))]
			eff := name
			switch name {
			case "":
				eff = "UTC"
			case "Local":
				eff = machine
			}
			z := zoneTable(eff)
			var t time.Time
			if len(z.trans) > 0 && r.Intn(2) == 0 {
				t = time.Unix(z.trans[r.Intn(len(z.trans))]+[]int64{-7200, -1, 0, 1800, 3600, 86400}[r.Intn(6)], 0)
			} else {
				t = time.Unix(r.Int63n(2600000000)-590000000, 0)
			}
			if r.Intn(3) == 0 {
				// with EmitTimezones; instants around the Unix epoch included (a zero-valued Timestamp message)
				if r.Intn(4) == 0 {
					t = time.Unix([]int64{0, 0, 1, -1, 60}[r.Intn(5)], 0)
				}
				if t.Unix() > -600000000 { // minute-resolution offsets only (RFC 3339 cannot print the LMT eras)
					emit("c20.emitz", name, machine, eff, z.enc, encStr(t.In(z.loc).Format("2006-01-02 15:04:05")))
					continue
				}
			}
			text := t.In(z.loc).Format([]string{"2006-01-02 15:04:05", "2006-01-02", "20060102"}[r.Intn(3)])
			emit("c20.gen", name, machine, eff, z.enc, encStr(text))
		}
	})
	regImpl("c20.gen", implC20Gen)
	regImpl("c20.emitz", implC20Emitz)
}

// ---------------------------------------------------------------------------
// corr.store.emitTimestamp: what EmitTimezones writes for one Timestamp, through the real store.MarshalToJSON
// (protojson → tableau's rewrite of the JSON string), against Model.Rfc3339.format.
//   c20.emitts <zone name> <transition table> <unix seconds> <nanos>
// ---------------------------------------------------------------------------

func init() {
	regStream("corr.store.emitTimestamp", func(r *rand.Rand, n int, emit func(string, ...string)) {
		names := []string{"UTC", "Asia/Shanghai", "America/New_York", "Asia/Kathmandu", "Asia/Kolkata", "Australia/Lord_Howe", "Europe/London", "America/St_Johns"}
		nanos := []int64{0, 0, 0, 1, 10, 999999999, 500000000, 120000000, 123456789, 1000, 1000000, 90}
		for i := 0; i < n; i++ {
			z := zoneTable(names[r.Intn(len(names))])
			var t int64
			switch {
			case len(z.trans) > 0 && r.Intn(3) == 0:
				t = z.trans[r.Intn(len(z.trans))] + []int64{-3600, -1, 0, 1, 1799, 3600}[r.Intn(6)]
			case r.Intn(6) == 0:
				t = []int64{0, 1, -1, 59, 86399, -86400}[r.Intn(6)]
			default:
				t = r.Int63n(2600000000) - 590000000
			}
			if t < -600000000 { // minute-resolution offsets only: RFC 3339 cannot print the local-mean-time eras
				t = -600000000 + r.Int63n(1000000)
			}
			emit("c20.emitts", z.name, z.enc, itoa(t), itoa(nanos[r.Intn(len(nanos))]))
		}
	})
	regImpl("c20.emitts", func(a []string) string {
		ts := &timestamppb.Timestamp{Seconds: mustInt(a[2]), Nanos: int32(mustInt(a[3]))}
		out, err := store.MarshalToJSON(ts, &store.MarshalOptions{EmitTimezones: true, LocationName: a[0]})
		if err != nil {
			return "err"
		}
		var s string
		if err := json.Unmarshal(out, &s); err != nil {
			return "notstring " + encStr(string(out))
		}
		return encStr(s)
	})
}
