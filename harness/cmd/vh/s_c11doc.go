package main

import (
	"encoding/json"
	"fmt"
	"math/rand"
	"os"
	"path/filepath"
	"sort"
	"strings"

	"github.com/tableauio/tableau/format"
)

// ---------------------------------------------------------------------------
// e2e.C11.docScatter: Scatter on document workbooks (YAML / XML). The primary book `Hero` holds the schema and the
// option Scatter: "Hero*.<ext>"; every matched book (the primary included) holds one entry whose key identifies it.
// The real GenProto + GenConf must write exactly one file <Book>_<Sheet>.json per matched book, holding that book's
// entry.      c11.docscatter <yaml|xml> <book names joined by ,>   → <Book>_<Sheet>{<key>};…   (sorted)
// ---------------------------------------------------------------------------

var docScatterNames = []string{"Hero2", "HeroElf", "HeroPet", "HeroArena", "HeroTeam", "HeroArmory", "HeroSkill", "HeroHex", "HeroBoom", "HeroX", "Heroml", "HeroLlama", "Hero_a", "HeroMix"}

func init() {
	regStream("e2e.C11.docScatter", func(r *rand.Rand, n int, emit func(string, ...string)) {
		for i := 0; i < n; i++ {
			perm := r.Perm(len(docScatterNames))[:1+r.Intn(4)]
			var names []string
			for _, p := range perm {
				names = append(names, docScatterNames[p])
			}
			emit("c11.docscatter", []string{"yaml", "xml"}[i%2], strings.Join(names, ","))
		}
	})
	regImpl("c11.docscatter", func(a []string) string {
		kind := a[0]
		names := append([]string{"Hero"}, strings.Split(a[1], ",")...)
		w := newWorkspace()
		defer w.cleanup()
		ro := runOpts{}
		for i, name := range names {
			var text string
			if kind == "yaml" {
				ro.Formats = []format.Format{format.YAML}
				if i == 0 {
					text = "\"@sheet\": \"@TABLEAU\"\n\"ItemConf\":\n  Scatter: \"Hero*.yaml\"\n---\n\"@sheet\": \"@ItemConf\"\nItemMap:\n  \"@type\": \"map<uint32, Item>\"\n  \"@struct\":\n    Name: string\n---\n"
				}
				text += fmt.Sprintf("\"@sheet\": ItemConf\nItemMap:\n  %d:\n    Name: n%d\n", i+1, i+1)
			} else {
				ro.Formats = []format.Format{format.XML}
				if i == 0 {
					text = "<?xml version=\"1.0\" encoding=\"UTF-8\" ?>\n<!--\n<@TABLEAU>\n    <Item Sheet=\"ItemConf\" Scatter=\"Hero*.xml\" />\n</@TABLEAU>\n\n<ItemConf>\n    <Item Id=\"map<uint32,Item>\" Name=\"string\" />\n</ItemConf>\n-->\n\n"
				}
				text += fmt.Sprintf("<ItemConf>\n    <Item Id=\"%d\" Name=\"n%d\" />\n</ItemConf>\n", i+1, i+1)
			}
			if err := os.WriteFile(filepath.Join(w.In, name+"."+kind), []byte(text), 0o644); err != nil {
				panic(err)
			}
		}
		if err := w.genProto(ro); err != nil {
			return "protoerr " + errCode(err)
		}
		if err := w.genConf(ro); err != nil {
			return "conferr " + errCode(err)
		}
		entries, _ := os.ReadDir(w.Conf)
		var out []string
		for _, e := range entries {
			data, _ := os.ReadFile(filepath.Join(w.Conf, e.Name()))
			var doc map[string]map[string]any
			keys := []string{}
			if json.Unmarshal(data, &doc) == nil {
				for _, m := range doc {
					for k := range m {
						keys = append(keys, k)
					}
				}
			}
			sort.Strings(keys)
			out = append(out, strings.TrimSuffix(e.Name(), ".json")+"{"+strings.Join(keys, ",")+"}")
		}
		sort.Strings(out)
		return strings.Join(out, ";")
	})
}
