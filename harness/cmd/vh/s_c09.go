package main

import (
	"fmt"
	"math"
	"math/rand"
	"os"
	"path/filepath"
	"strconv"
	"strings"

	"github.com/tableauio/tableau/format"
	"github.com/tableauio/tableau/proto/tableaupb"
	"github.com/tableauio/tableau/xerrors"
	"google.golang.org/protobuf/encoding/protojson"
	"google.golang.org/protobuf/proto"
	"google.golang.org/protobuf/reflect/protoreflect"
	"google.golang.org/protobuf/types/dynamicpb"
)

// ---------------------------------------------------------------------------
// C09: document workbooks (YAML / XML) convert faithfully.
//
// A schema tree and a value tree are generated together, rendered as a YAML
// workbook (schema document + data document) and as an XML workbook (schema
// in the leading comment + data elements), converted by the real GenProto /
// GenConf, and the written message is compared with the value tree by an
// independent walker (field lookup by (tableau.field).name).
// ---------------------------------------------------------------------------

type dnode struct {
	kind  string // scalar struct slist ilist mlist smap mmap istruct
	name  string
	typ   string // scalar / element / map value type
	ktyp  string // map key type
	tname string // struct type name
	sub   []*dnode
	opt   bool // declared |{optional:true}: may be missing from a document
	// incell (smap, YAML only): declared "@incell": true and written as one scalar "k:v,k:v"
	incell bool
	// predef (mmap, YAML only): the value type is the predefined struct .Reward of the base book (another proto file);
	// its key field is named by "@keyname" (the imported common.proto defines it for documents)
	predef bool
}

type dval struct {
	blank  bool // a string scalar written as "" (the key is there, the value is empty)
	absent bool
	text   string    // scalar
	fields []*dval   // struct (aligned with sub)
	elems  []string  // slist ilist
	items  [][]*dval // mlist: elements; mmap: values
	keys   []string  // smap mmap keys
	vals   []string  // smap values
	line   int       // YAML position of the scalar value (1-based)
	col    int
	noPos  bool      // corrupted list element: rejection is required, the position is not compared
}

type dgen struct {
	r   *rand.Rand
	seq int
}

var dScalars = []string{"uint32", "int32", "int64", "uint64", "string", "bool", "float", "double", "enum<.FruitType>"}

func (g *dgen) fname() string {
	g.seq++
	return hWords[g.r.Intn(len(hWords))] + string(rune('A'+g.seq%26)) + string(rune('a'+(g.seq/26)%26))
}

func (g *dgen) tname() string {
	g.seq++
	return []string{"Item", "Reward", "Prop", "Hero", "Cost", "Attr"}[g.r.Intn(6)] + string(rune('A'+g.seq%26)) + string(rune('a'+(g.seq/26)%26))
}

func (g *dgen) node(depth int, xml bool) *dnode {
	n := g.node0(depth, xml)
	n.opt = g.r.Intn(2) == 0 && n.name != "ID"
	if xml && (n.kind == "struct" || n.kind == "mlist") {
		n.opt = false // the XML vocabulary has no place for a property of the element itself
		if len(n.sub) > 0 {
			n.sub[0].opt = false // the first attribute carries the element's type
		}
	}
	return n
}

func (g *dgen) node0(depth int, xml bool) *dnode {
	k := g.r.Intn(12)
	if depth <= 0 && k >= 7 {
		k = g.r.Intn(7)
	}
	switch k {
	default:
		return &dnode{kind: "scalar", name: g.fname(), typ: dScalars[g.r.Intn(len(dScalars))]}
	case 4:
		return &dnode{kind: "slist", name: g.fname(), typ: []string{"int32", "string", "uint32", "int64"}[g.r.Intn(4)]}
	case 5:
		return &dnode{kind: "ilist", name: g.fname(), typ: []string{"int32", "uint32", "int64"}[g.r.Intn(3)]}
	case 6:
		n := &dnode{kind: "smap", name: g.fname(), ktyp: []string{"uint32", "int32", "string"}[g.r.Intn(3)], typ: []string{"int32", "string", "uint32", "enum<.FruitType>"}[g.r.Intn(4)]}
		n.incell = !xml && g.r.Intn(3) == 0
		return n
	case 7:
		return &dnode{kind: "istruct", name: g.fname(), tname: g.tname()}
	case 8, 9:
		if !xml && g.r.Intn(4) == 0 {
			return &dnode{kind: "struct", name: g.fname(), tname: ".Gear", predef: true, sub: []*dnode{
				{kind: "slist", name: "Cost", typ: "int32"}, {kind: "smap", name: "Data", ktyp: "int32", typ: "string"},
				{kind: "scalar", name: "Title", typ: "string"}, {kind: "slist", name: "Stat", typ: "string"}}}
		}
		n := &dnode{kind: "struct", name: g.fname(), tname: g.tname()}
		for i := 1 + g.r.Intn(3); i > 0; i-- {
			n.sub = append(n.sub, g.node(depth-1, xml))
		}
		return n
	case 10:
		n := &dnode{kind: "mlist", name: g.fname(), tname: g.tname()}
		n.sub = append(n.sub, &dnode{kind: "scalar", name: "ID", typ: []string{"uint32", "int32"}[g.r.Intn(2)]})
		for i := g.r.Intn(3); i > 0; i-- {
			n.sub = append(n.sub, g.node(depth-1, xml))
		}
		return n
	case 11:
		if !xml && g.r.Intn(3) == 0 {
			return &dnode{kind: "mmap", name: g.fname(), tname: ".Reward", ktyp: "uint32", predef: true,
				sub: []*dnode{{kind: "scalar", name: "Num", typ: "int32"}}}
		}
		n := &dnode{kind: "mmap", name: g.fname(), tname: g.tname(), ktyp: []string{"uint32", "string"}[g.r.Intn(2)]}
		for i := 1 + g.r.Intn(2); i > 0; i-- {
			n.sub = append(n.sub, g.node(depth-1, xml))
		}
		return n
	}
}

func (g *dgen) scalarText(typ string) string {
	r := g.r
	switch typ {
	case "int32":
		return strconv.Itoa(r.Intn(2001) - 1000)
	case "uint32":
		return strconv.Itoa(1 + r.Intn(5000))
	case "int64":
		return strconv.FormatInt(int64(r.Intn(1<<30))*int64(1+r.Intn(1000))-7, 10)
	case "uint64":
		return strconv.FormatUint(uint64(1+r.Intn(1<<30))*uint64(1+r.Intn(1000)), 10)
	case "string":
		if r.Intn(4) == 0 {
			// texts that look like numbers: in a string field they are the text itself (YAML: written as plain scalars)
			return numberLikeStrings[r.Intn(len(numberLikeStrings))]
		}
		return []string{"abc", "x", "hello", "w1", "Zed"}[r.Intn(5)]
	case "bool":
		return []string{"true", "false"}[r.Intn(2)]
	case "float", "double":
		return []string{"1.5", "0.25", "-3", "100"}[r.Intn(4)]
	case "enum<.FruitType>":
		return []string{"FRUIT_TYPE_APPLE", "FRUIT_TYPE_PEAR"}[r.Intn(2)]
	}
	panic(typ)
}

func (g *dgen) value(n *dnode) *dval {
	r := g.r
	v := &dval{}
	defer func() {
		if v.absent && !n.opt {
			// a field that is not optional must be in the document: give it content
			*v = *g.forced(n)
		}
	}()
	switch n.kind {
	case "scalar":
		if r.Intn(4) == 0 && n.name != "ID" {
			v.absent = true
			return v
		}
		v.text = g.scalarText(n.typ)
		if n.typ == "string" && r.Intn(5) == 0 {
			v.text, v.blank = "", true
		}
	case "slist", "ilist":
		for i := r.Intn(4); i > 0; i-- {
			v.elems = append(v.elems, g.scalarText(n.typ))
		}
		if len(v.elems) == 0 {
			v.absent = true
		}
	case "smap":
		for i, k := 0, r.Intn(4); i < k; i++ {
			key := strconv.Itoa(i + 1)
			if n.ktyp == "string" {
				key = "k" + key
			}
			v.keys = append(v.keys, key)
			if n.incell && n.typ == "string" {
				// values with the sub-separator inside (clock times, host:port, URLs): an item is cut at its FIRST ':'
				v.vals = append(v.vals, []string{"a", "x:y", "10:30:00", "http://h/p", "w1"}[r.Intn(5)])
			} else if !n.incell && n.typ == "string" && r.Intn(4) == 0 {
				v.vals = append(v.vals, "") // an entry whose value is the empty string is still an entry
			} else {
				v.vals = append(v.vals, g.scalarText(n.typ))
			}
		}
		if len(v.keys) == 0 {
			v.absent = true
		}
	case "istruct":
		if r.Intn(5) == 0 {
			v.absent = true
			return v
		}
		v.fields = []*dval{{text: strconv.Itoa(1 + r.Intn(100))}, {text: strconv.Itoa(r.Intn(50) - 10)}}
	case "struct":
		if n.predef {
			// the predefined type's fields carry no `optional`: every member is in the document
			for _, s := range n.sub {
				v.fields = append(v.fields, g.forced(s))
			}
			return v
		}
		for _, s := range n.sub {
			v.fields = append(v.fields, g.value(s))
		}
		if r.Intn(5) == 0 && n.opt {
			// the whole struct is missing
			for i, s := range n.sub {
				v.fields[i] = absentVal(s)
			}
		} else if !n.opt {
			// a struct that must be in the document needs some content to be there
			all := true
			for i, s := range n.sub {
				if !skipVal(s, v.fields[i]) {
					all = false
				}
			}
			if all {
				v.fields[0] = g.forcedDeep(n.sub[0])
			}
		}
	case "mlist":
		for i, k := 0, r.Intn(4); i < k; i++ {
			var fs []*dval
			for j, s := range n.sub {
				fv := g.value(s)
				if j == 0 {
					fv = &dval{text: strconv.Itoa(10*(i+1) + r.Intn(5))}
				}
				fs = append(fs, fv)
			}
			v.items = append(v.items, fs)
		}
		if len(v.items) == 0 {
			v.absent = true
		}
	case "mmap":
		for i, k := 0, r.Intn(4); i < k; i++ {
			key := strconv.Itoa(i + 1)
			if n.ktyp == "string" {
				key = "k" + key
			}
			v.keys = append(v.keys, key)
			var fs []*dval
			for _, s := range n.sub {
				fs = append(fs, g.value(s))
			}
			v.items = append(v.items, fs)
		}
		if len(v.keys) == 0 {
			v.absent = true
		}
	}
	return v
}

// forcedDeep: content for a node even if it is a struct of optional fields
func (g *dgen) forcedDeep(n *dnode) *dval {
	if n.kind == "struct" {
		v := &dval{}
		for _, s := range n.sub {
			v.fields = append(v.fields, g.value(s))
		}
		if skipVal(n, v) {
			v.fields[0] = g.forcedDeep(n.sub[0])
		}
		return v
	}
	return g.forced(n)
}

func absentVal(n *dnode) *dval {
	v := &dval{absent: true}
	if n.kind == "struct" {
		v.absent = false
		for _, s := range n.sub {
			v.fields = append(v.fields, absentVal(s))
		}
	}
	return v
}

// forced: a present value for a node (used when the node is not optional)
func (g *dgen) forced(n *dnode) *dval {
	switch n.kind {
	case "scalar":
		return &dval{text: g.scalarText(n.typ)}
	case "slist", "ilist":
		return &dval{elems: []string{g.scalarText(n.typ)}}
	case "smap":
		key := "1"
		if n.ktyp == "string" {
			key = "k1"
		}
		return &dval{keys: []string{key}, vals: []string{g.scalarText(n.typ)}}
	case "istruct":
		return &dval{fields: []*dval{{text: "7"}, {text: "8"}}}
	case "mlist":
		var fs []*dval
		for j, s := range n.sub {
			fv := g.value(s)
			if j == 0 {
				fv = &dval{text: "10"}
			}
			fs = append(fs, fv)
		}
		return &dval{items: [][]*dval{fs}}
	case "mmap":
		key := "1"
		if n.ktyp == "string" {
			key = "k1"
		}
		var fs []*dval
		for _, s := range n.sub {
			fs = append(fs, g.value(s))
		}
		return &dval{keys: []string{key}, items: [][]*dval{fs}}
	}
	panic(n.kind)
}

// emptyVal: nothing of the value is present in a document (recursively)
func emptyVal(n *dnode, v *dval) bool {
	if v.absent || v.blank {
		return true
	}
	if n.kind == "struct" {
		for i, s := range n.sub {
			if !emptyVal(s, v.fields[i]) {
				return false
			}
		}
		return true
	}
	return false
}

// skipVal: the value is not written into the document at all (a blank string IS written, as "")
func skipVal(n *dnode, v *dval) bool {
	if v.absent {
		return true
	}
	if n.kind == "struct" {
		for i, s := range n.sub {
			if !skipVal(s, v.fields[i]) {
				return false
			}
		}
		return true
	}
	return false
}

// --- YAML rendering -------------------------------------------------------------------------------

type ywriter struct {
	sb   strings.Builder
	line int
}

func (w *ywriter) ln(s string) {
	w.sb.WriteString(s + "\n")
	w.line++
}

func yq(s string) string { return `"` + s + `"` }

// yqt quotes a type cell (single quotes: the prop text contains double quotes... not here, but colons do occur)
func yqt(s string) string { return "'" + s + "'" }

func optSfx(n *dnode) string {
	if n.opt {
		return "|{optional:true}"
	}
	return ""
}

// longForm: a third of the aggregate fields is declared in the long form with an explicit "@incell" key — `false`
// (the default, written out) for cross-node aggregates, `true` for in-cell lists (seed C09-4: presence of the key
// was taken for `true`)
func longForm(n *dnode) bool {
	h := 0
	for _, c := range []byte(n.name) {
		h += int(c)
	}
	return h%3 == 0
}

func (w *ywriter) schemaFields(nodes []*dnode, ind string) {
	for _, n := range nodes {
		if n.kind == "smap" && n.incell {
			w.ln(ind + n.name + ":")
			w.ln(ind + `  "@type": ` + yqt("map<"+n.ktyp+", "+n.typ+">"+optSfx(n)))
			w.ln(ind + `  "@incell": true`)
			continue
		}
		if longForm(n) {
			switch n.kind {
			case "slist", "ilist":
				w.ln(ind + n.name + ":")
				w.ln(ind + `  "@type": ` + yqt("["+n.typ+"]"+optSfx(n)))
				w.ln(ind + `  "@incell": ` + map[bool]string{true: "true", false: "false"}[n.kind == "ilist"])
				continue
			case "smap":
				w.ln(ind + n.name + ":")
				w.ln(ind + `  "@type": ` + yqt("map<"+n.ktyp+", "+n.typ+">"+optSfx(n)))
				w.ln(ind + `  "@incell": false`)
				continue
			}
		}
		incellFalse := func() {
			if longForm(n) {
				w.ln(ind + `  "@incell": false`)
			}
		}
		switch n.kind {
		case "scalar":
			w.ln(ind + n.name + ": " + yqt(n.typ+optSfx(n)))
		case "slist":
			w.ln(ind + n.name + ": " + yqt("["+n.typ+"]"+optSfx(n)))
		case "ilist":
			w.ln(ind + n.name + ": " + yqt("[]"+n.typ+optSfx(n)))
		case "smap":
			w.ln(ind + n.name + ": " + yqt("map<"+n.ktyp+", "+n.typ+">"+optSfx(n)))
		case "istruct":
			w.ln(ind + n.name + ": " + yqt("{uint32 ID, int32 Num}"+n.tname+optSfx(n)))
		case "struct":
			if n.predef {
				w.ln(ind + n.name + ": " + yqt("{"+n.tname+"}"+optSfx(n)))
				break
			}
			w.ln(ind + n.name + ":")
			w.ln(ind + `  "@type": ` + yqt("{"+n.tname+"}"+optSfx(n)))
			incellFalse()
			w.schemaFields(n.sub, ind+"  ")
		case "mlist":
			w.ln(ind + n.name + ":")
			w.ln(ind + `  "@type": ` + yqt("["+n.tname+"]"+optSfx(n)))
			incellFalse()
			w.ln(ind + `  "@struct":`)
			w.schemaFields(n.sub, ind+"    ")
		case "mmap":
			w.ln(ind + n.name + ":")
			w.ln(ind + `  "@type": ` + yqt("map<"+n.ktyp+", "+n.tname+">"+optSfx(n)))
			incellFalse()
			w.ln(ind + `  "@struct":`)
			if n.predef {
				w.ln(ind + `    "@keyname": ID`)
			} else {
				w.schemaFields(n.sub, ind+"    ")
			}
		}
	}
}

var numberLikeStrings = []string{"007", "0x1F", "1_000", "+5", "0755", "1e3", "1.50", "02134"}

func yamlScalar(typ, text string) string {
	if typ == "string" {
		for _, n := range numberLikeStrings {
			if text == n {
				return text // a plain (unquoted) scalar
			}
		}
		return yq(text)
	}
	return text
}

// dataFields writes the data mapping; `first` is a prefix for the first emitted line (list items: "- ")
func (w *ywriter) dataFields(nodes []*dnode, vals []*dval, ind string, first string) bool {
	wrote := false
	pfx := func() string {
		if !wrote && first != "" {
			wrote = true
			return ind[:len(ind)-len(first)] + first
		}
		wrote = true
		return ind
	}
	for i, n := range nodes {
		v := vals[i]
		if skipVal(n, v) {
			continue
		}
		switch n.kind {
		case "scalar":
			p := pfx()
			v.line, v.col = w.line+1, len(p)+len(n.name)+3
			w.ln(p + n.name + ": " + yamlScalar(n.typ, v.text))
		case "ilist":
			w.ln(pfx() + n.name + ": " + yq(strings.Join(v.elems, ",")))
		case "istruct":
			w.ln(pfx() + n.name + ": " + yq(v.fields[0].text+", "+v.fields[1].text))
		case "slist":
			w.ln(pfx() + n.name + ":")
			for _, e := range v.elems {
				w.ln(ind + "  - " + yamlScalar(n.typ, e))
			}
		case "smap":
			if n.incell {
				var items []string
				for k, key := range v.keys {
					items = append(items, key+":"+v.vals[k])
				}
				w.ln(pfx() + n.name + ": " + yq(strings.Join(items, ",")))
				break
			}
			w.ln(pfx() + n.name + ":")
			for k, key := range v.keys {
				w.ln(ind + "  " + key + ": " + yamlScalar(n.typ, v.vals[k]))
			}
		case "struct":
			w.ln(pfx() + n.name + ":")
			w.dataFields(n.sub, v.fields, ind+"  ", "")
		case "mlist":
			w.ln(pfx() + n.name + ":")
			for _, it := range v.items {
				w.dataFields(n.sub, it, ind+"    ", "- ")
			}
		case "mmap":
			w.ln(pfx() + n.name + ":")
			for k, key := range v.keys {
				allEmpty := true
				for j, s := range n.sub {
					if !skipVal(s, v.items[k][j]) {
						allEmpty = false
					}
				}
				if allEmpty {
					w.ln(ind + "  " + key + ": {}")
					continue
				}
				w.ln(ind + "  " + key + ":")
				w.dataFields(n.sub, v.items[k], ind+"    ", "")
			}
		}
	}
	return wrote
}

func renderYAML(nodes []*dnode, vals []*dval) string {
	w := &ywriter{}
	w.ln(`"@sheet": "@TABLEAU"`)
	w.ln("---")
	w.ln(`"@sheet": "@DocConf"`)
	w.schemaFields(nodes, "")
	w.ln("---")
	w.ln(`"@sheet": DocConf`)
	w.dataFields(nodes, vals, "", "")
	return w.sb.String()
}

// --- XML rendering --------------------------------------------------------------------------------

func xmlEsc(s string) string {
	return strings.NewReplacer("&", "&amp;", "<", "&lt;", ">", "&gt;", `"`, "&quot;").Replace(s)
}

// in XML, scalars / in-cell lists / in-cell maps of a struct are attributes; aggregates are child elements
func isAttr(n *dnode) bool { return n.kind == "scalar" || n.kind == "ilist" }

func xmlSchemaType(n *dnode) string {
	switch n.kind {
	case "scalar":
		return n.typ
	case "ilist":
		return "[]" + n.typ
	}
	return ""
}

func xmlOpt(n *dnode) string {
	if n.opt {
		return "|{optional:true}"
	}
	return ""
}

func xmlSchemaElem(sb *strings.Builder, n *dnode, ind string, wrapFirst string) {
	// element for a struct-like node: attributes then children
	sb.WriteString(ind + "<" + n.name)
	first := true
	for _, s := range n.sub {
		if isAttr(s) {
			t := xmlSchemaType(s) + xmlOpt(s)
			if first && wrapFirst != "" {
				t = strings.Replace(wrapFirst, "%", xmlSchemaType(s), 1) + xmlOpt(n)
			}
			first = false
			sb.WriteString(" " + s.name + `="` + t + `"`)
		}
	}
	var kids []*dnode
	for _, s := range n.sub {
		if !isAttr(s) {
			kids = append(kids, s)
		}
	}
	if len(kids) == 0 {
		sb.WriteString("/>\n")
		return
	}
	sb.WriteString(">\n")
	xmlSchemaKids(sb, kids, ind+"    ")
	sb.WriteString(ind + "</" + n.name + ">\n")
}

func xmlSchemaKids(sb *strings.Builder, kids []*dnode, ind string) {
	for _, n := range kids {
		switch n.kind {
		case "slist":
			sb.WriteString(ind + "<" + n.name + ">[" + n.typ + "]" + xmlOpt(n) + "</" + n.name + ">\n")
		case "smap":
			sb.WriteString(ind + "<" + n.name + ">map<" + n.ktyp + ", " + n.typ + ">" + xmlOpt(n) + "</" + n.name + ">\n")
		case "istruct":
			sb.WriteString(ind + "<" + n.name + ">{uint32 ID, int32 Num}" + n.tname + xmlOpt(n) + "</" + n.name + ">\n")
		case "struct":
			xmlSchemaElem(sb, n, ind, "{"+n.tname+"}%")
		case "mlist":
			xmlSchemaElem(sb, n, ind, "["+n.tname+"]%")
		case "mmap":
			xmlSchemaElem(sb, n, ind, "map<"+n.ktyp+", "+n.tname+">")
		}
	}
}

// xmlOK: the XML vocabulary needs a leading attribute on struct / list / map elements to carry the type
func xmlOK(nodes []*dnode) bool {
	for _, n := range nodes {
		switch n.kind {
		case "struct", "mlist":
			if len(n.sub) == 0 || !isAttr(n.sub[0]) || n.sub[0].kind != "scalar" {
				return false
			}
			if !xmlOK(n.sub) {
				return false
			}
		case "mmap":
			return false // the map key is the first attribute: rendered by a separate, simpler generator below
		}
	}
	return true
}

func xmlDataElem(sb *strings.Builder, n *dnode, vals []*dval, ind string, r *rand.Rand) {
	sb.WriteString(ind + "<" + n.name)
	for i, s := range n.sub {
		if isAttr(s) && !vals[i].absent {
			t := vals[i].text
			if s.kind == "ilist" {
				t = strings.Join(vals[i].elems, ",")
			}
			sb.WriteString(" " + s.name + `="` + xmlEsc(t) + `"`)
		}
	}
	var kids []*dnode
	var kvals []*dval
	for i, s := range n.sub {
		if !isAttr(s) {
			kids = append(kids, s)
			kvals = append(kvals, vals[i])
		}
	}
	body := xmlDataKids(kids, kvals, ind+"    ", r)
	if body == "" {
		sb.WriteString("/>\n")
		return
	}
	sb.WriteString(">\n" + body + ind + "</" + n.name + ">\n")
}

// xmlDataKids renders child elements; occurrences of repeated elements are sometimes interleaved with their
// siblings (XML does not require them to be adjacent)
func xmlDataKids(kids []*dnode, vals []*dval, ind string, r *rand.Rand) string {
	var chunks [][]string // per kid: its element strings
	for i, n := range kids {
		v := vals[i]
		var els []string
		if !skipVal(n, v) {
			switch n.kind {
			case "slist":
				for _, e := range v.elems {
					els = append(els, ind+"<"+n.name+">"+xmlEsc(e)+"</"+n.name+">\n")
				}
			case "smap":
				var parts []string
				for k, key := range v.keys {
					parts = append(parts, key+":"+v.vals[k])
				}
				els = append(els, ind+"<"+n.name+">"+xmlEsc(strings.Join(parts, ","))+"</"+n.name+">\n")
			case "istruct":
				els = append(els, ind+"<"+n.name+">"+v.fields[0].text+", "+v.fields[1].text+"</"+n.name+">\n")
			case "struct":
				var sb strings.Builder
				xmlDataElem(&sb, n, v.fields, ind, r)
				els = append(els, sb.String())
			case "mlist":
				for _, it := range v.items {
					var sb strings.Builder
					xmlDataElem(&sb, n, it, ind, r)
					els = append(els, sb.String())
				}
			}
		}
		chunks = append(chunks, els)
	}
	var out strings.Builder
	if r.Intn(3) == 0 {
		// interleave: round-robin over the kids
		for round := 0; ; round++ {
			any := false
			for _, els := range chunks {
				if round < len(els) {
					out.WriteString(els[round])
					any = true
				}
			}
			if !any {
				break
			}
		}
	} else {
		for _, els := range chunks {
			for _, e := range els {
				out.WriteString(e)
			}
		}
	}
	return out.String()
}

func renderXML(nodes []*dnode, vals []*dval, r *rand.Rand) string {
	root := &dnode{kind: "struct", name: "DocConf", sub: nodes}
	var sb strings.Builder
	sb.WriteString("<?xml version=\"1.0\" encoding=\"UTF-8\" ?>\n<!--\n<@TABLEAU>\n    <Item Sheet=\"DocConf\" />\n</@TABLEAU>\n\n")
	xmlSchemaElem(&sb, root, "", "")
	sb.WriteString("-->\n\n")
	xmlDataElem(&sb, root, vals, "", r)
	return sb.String()
}

// --- the independent walker ---------------------------------------------------------------------------

func fieldByOptName(md protoreflect.MessageDescriptor, name string) protoreflect.FieldDescriptor {
	for i := 0; i < md.Fields().Len(); i++ {
		fd := md.Fields().Get(i)
		opts, _ := proto.GetExtension(fd.Options(), tableaupb.E_Field).(*tableaupb.FieldOptions)
		if opts != nil && opts.Name == name {
			return fd
		}
	}
	// a field without options: its document-side name is the camel-cased field name without a List / Map suffix
	for i := 0; i < md.Fields().Len(); i++ {
		fd := md.Fields().Get(i)
		if opts, _ := proto.GetExtension(fd.Options(), tableaupb.E_Field).(*tableaupb.FieldOptions); opts != nil && opts.Name != "" {
			continue
		}
		var sb strings.Builder
		for _, part := range strings.Split(string(fd.Name()), "_") {
			if part != "" {
				sb.WriteString(strings.ToUpper(part[:1]) + part[1:])
			}
		}
		derived := sb.String()
		if fd.IsMap() {
			derived = strings.TrimSuffix(derived, "Map")
		} else if fd.IsList() {
			derived = strings.TrimSuffix(derived, "List")
		}
		if derived == name {
			return fd
		}
	}
	return nil
}

var fruitNums = map[string]int32{"FRUIT_TYPE_APPLE": 1, "FRUIT_TYPE_PEAR": 2}

func scalarEq(fd protoreflect.FieldDescriptor, v protoreflect.Value, text string, absent bool) bool {
	switch fd.Kind() {
	case protoreflect.Int32Kind, protoreflect.Sint32Kind, protoreflect.Int64Kind, protoreflect.Sint64Kind, protoreflect.Sfixed32Kind, protoreflect.Sfixed64Kind:
		want := int64(0)
		if !absent {
			want, _ = strconv.ParseInt(text, 10, 64)
		}
		return v.Int() == want
	case protoreflect.Uint32Kind, protoreflect.Uint64Kind, protoreflect.Fixed32Kind, protoreflect.Fixed64Kind:
		want := uint64(0)
		if !absent {
			want, _ = strconv.ParseUint(text, 10, 64)
		}
		return v.Uint() == want
	case protoreflect.StringKind:
		if absent {
			return v.String() == ""
		}
		return v.String() == text
	case protoreflect.BoolKind:
		return v.Bool() == (!absent && text == "true")
	case protoreflect.FloatKind:
		want := float64(0)
		if !absent {
			f, _ := strconv.ParseFloat(text, 32)
			want = float64(float32(f))
		}
		return v.Float() == want
	case protoreflect.DoubleKind:
		want := float64(0)
		if !absent {
			want, _ = strconv.ParseFloat(text, 64)
		}
		return v.Float() == want || (math.IsNaN(want) && math.IsNaN(v.Float()))
	case protoreflect.EnumKind:
		want := int32(0)
		if !absent {
			want = fruitNums[text]
		}
		return int32(v.Enum()) == want
	}
	return false
}

func mapKeyOf(fd protoreflect.FieldDescriptor, key string) protoreflect.MapKey {
	switch fd.MapKey().Kind() {
	case protoreflect.StringKind:
		return protoreflect.ValueOfString(key).MapKey()
	case protoreflect.Uint32Kind:
		n, _ := strconv.ParseUint(key, 10, 32)
		return protoreflect.ValueOfUint32(uint32(n)).MapKey()
	case protoreflect.Int32Kind:
		n, _ := strconv.ParseInt(key, 10, 32)
		return protoreflect.ValueOfInt32(int32(n)).MapKey()
	case protoreflect.Uint64Kind:
		n, _ := strconv.ParseUint(key, 10, 64)
		return protoreflect.ValueOfUint64(n).MapKey()
	case protoreflect.Int64Kind:
		n, _ := strconv.ParseInt(key, 10, 64)
		return protoreflect.ValueOfInt64(n).MapKey()
	}
	return protoreflect.ValueOfString(key).MapKey()
}

// walk compares a message with the value tree: every stated value at its field, nothing else populated
func walk(msg protoreflect.Message, nodes []*dnode, vals []*dval, path string, extra []string) string {
	md := msg.Descriptor()
	expectedPopulated := map[protoreflect.Name]bool{}
	for _, e := range extra {
		if fd := fieldByOptName(md, e); fd != nil {
			expectedPopulated[fd.Name()] = true
		}
	}
	for i, n := range nodes {
		v := vals[i]
		fd := fieldByOptName(md, n.name)
		if fd == nil {
			return "no-field:" + path + n.name
		}
		empty := emptyVal(n, v)
		if !empty {
			expectedPopulated[fd.Name()] = true
		}
		switch n.kind {
		case "scalar":
			if fd.IsList() || fd.IsMap() || fd.Message() != nil {
				return "kind:" + path + n.name
			}
			if !scalarEq(fd, msg.Get(fd), v.text, v.absent) {
				return "value:" + path + n.name
			}
		case "slist", "ilist":
			if !fd.IsList() {
				return "kind:" + path + n.name
			}
			l := msg.Get(fd).List()
			if l.Len() != len(v.elems) {
				return "len:" + path + n.name
			}
			for k, e := range v.elems {
				if !scalarEq(fd, l.Get(k), e, false) {
					return "elem:" + path + n.name
				}
			}
		case "smap":
			if !fd.IsMap() {
				return "kind:" + path + n.name
			}
			m := msg.Get(fd).Map()
			if m.Len() != len(v.keys) {
				return "len:" + path + n.name
			}
			for k, key := range v.keys {
				mk := mapKeyOf(fd, key)
				if !m.Has(mk) || !scalarEq(fd.MapValue(), m.Get(mk), v.vals[k], false) {
					return "entry:" + path + n.name
				}
			}
		case "istruct":
			if fd.Message() == nil || fd.IsList() {
				return "kind:" + path + n.name
			}
			if v.absent {
				if msg.Has(fd) {
					return "present:" + path + n.name
				}
				break
			}
			sub := msg.Get(fd).Message()
			sn := []*dnode{{kind: "scalar", name: "ID", typ: "uint32"}, {kind: "scalar", name: "Num", typ: "int32"}}
			if r := walk(sub, sn, v.fields, path+n.name+".", nil); r != "" {
				return r
			}
		case "struct":
			if fd.Message() == nil || fd.IsList() || fd.IsMap() {
				return "kind:" + path + n.name
			}
			if empty {
				if msg.Has(fd) && countPopulated(msg.Get(fd).Message()) > 0 {
					return "present:" + path + n.name
				}
				break
			}
			if r := walk(msg.Get(fd).Message(), n.sub, v.fields, path+n.name+".", nil); r != "" {
				return r
			}
		case "mlist":
			if !fd.IsList() || fd.Message() == nil {
				return "kind:" + path + n.name
			}
			l := msg.Get(fd).List()
			if l.Len() != len(v.items) {
				return fmt.Sprintf("len:%s%s got=%d want=%d", path, n.name, l.Len(), len(v.items))
			}
			for k, it := range v.items {
				if r := walk(l.Get(k).Message(), n.sub, it, path+n.name+"[].", nil); r != "" {
					return r
				}
			}
		case "mmap":
			if !fd.IsMap() || fd.MapValue().Message() == nil {
				return "kind:" + path + n.name
			}
			m := msg.Get(fd).Map()
			if m.Len() != len(v.keys) {
				return "len:" + path + n.name
			}
			for k, key := range v.keys {
				mk := mapKeyOf(fd, key)
				if !m.Has(mk) {
					return "entry:" + path + n.name
				}
				vm := m.Get(mk).Message()
				keyName := "@key"
				if n.predef {
					keyName = "ID" // "@keyname": the predefined struct's own key field
				}
				kfd := fieldByOptName(vm.Descriptor(), keyName)
				if kfd == nil || !scalarEq(kfd, vm.Get(kfd), key, false) {
					return "key:" + path + n.name
				}
				if r := walk(vm, n.sub, v.items[k], path+n.name+"{}.", []string{keyName}); r != "" {
					return r
				}
			}
		}
	}
	// nothing else
	var stray string
	msg.Range(func(fd protoreflect.FieldDescriptor, _ protoreflect.Value) bool {
		if !expectedPopulated[fd.Name()] {
			// a struct field may be "populated" with an empty message: only real content counts
			if fd.Message() != nil && !fd.IsList() && !fd.IsMap() && countPopulated(msg.Get(fd).Message()) == 0 {
				return true
			}
			stray = "stray:" + path + string(fd.Name())
			return false
		}
		return true
	})
	return stray
}

func countPopulated(m protoreflect.Message) int {
	n := 0
	m.Range(func(fd protoreflect.FieldDescriptor, v protoreflect.Value) bool {
		if fd.Message() != nil && !fd.IsList() && !fd.IsMap() {
			n += countPopulated(v.Message())
		} else {
			n++
		}
		return true
	})
	return n
}

// --- running --------------------------------------------------------------------------------------------

const commonProto = `syntax = "proto3";
package protoconf;
import "tableau/protobuf/tableau.proto";
enum FruitType {
  FRUIT_TYPE_INVALID = 0;
  FRUIT_TYPE_APPLE = 1 [(tableau.evalue).name = "Apple"];
  FRUIT_TYPE_PEAR = 2 [(tableau.evalue).name = "Pear"];
}
message Label {
  string name = 1 [(tableau.field).name = "Name"];
  string text = 2 [(tableau.field).name = "Text"];
}
message Reward {
  uint32 id = 1 [(tableau.field).name = "ID"];
  int32 num = 2 [(tableau.field).name = "Num"];
}
// no (tableau.field) options at all: the document-side names are derived from the field names
message Gear {
  repeated int32 cost_list = 1;
  map<int32, string> data_map = 2;
  string title = 3;
  repeated string stat_list = 4;
}
`

// docBase: the predefined enum comes from an imported proto file
func docBase(w *workspace) runOpts {
	dir := filepath.Join(w.Root, "common")
	if err := os.MkdirAll(dir, 0o755); err != nil {
		panic(err)
	}
	if err := os.WriteFile(filepath.Join(dir, "common.proto"), []byte(commonProto), 0o644); err != nil {
		panic(err)
	}
	return runOpts{ProtoPaths: []string{dir}, ProtoFiles: []string{"common.proto"}}
}

// docMayBeRejected: the schema declares one nested type name twice with different members (at any depth): protogen
// may refuse it; if it accepts, the conf must still state everything the document holds
var docMayBeRejected bool

// genRedecl: two struct-list fields of one type name `Player` whose element declarations agree in their direct
// members (ID, Gear) and differ — or not — one level further down, in `Gear`
func genRedecl(r *rand.Rand) ([]*dnode, []*dval, bool) {
	g := &dgen{r: r}
	variant := r.Intn(3)
	gear := func(second bool) *dnode {
		n := &dnode{kind: "struct", name: "Gear", tname: "Gear"}
		n.sub = append(n.sub, &dnode{kind: "scalar", name: "Sword", typ: "string"})
		switch {
		case second && variant == 1: // one more member, deeper down
			n.sub = append(n.sub, &dnode{kind: "scalar", name: "Shield", typ: "string"})
		case second && variant == 2: // another type, deeper down
			n.sub[0].typ = "int32"
		}
		return n
	}
	player := func(name string, second bool) *dnode {
		n := &dnode{kind: "mlist", name: name, tname: "Player"}
		n.sub = append(n.sub, &dnode{kind: "scalar", name: "ID", typ: "uint32"}, gear(second))
		return n
	}
	nodes := []*dnode{{kind: "scalar", name: "Title", typ: "string"}, player("Home", false), player("Away", true)}
	vals := []*dval{g.forced(nodes[0])}
	for _, n := range nodes[1:] {
		gv := &dval{}
		for _, s := range n.sub[1].sub {
			gv.fields = append(gv.fields, g.forced(s))
		}
		vals = append(vals, &dval{items: [][]*dval{{{text: strconv.Itoa(1 + r.Intn(90))}, gv}}})
	}
	return nodes, vals, variant != 0
}

// genBlankMap: cross-cell scalar maps some of whose entries have the zero value of their type ("" / 0): an entry
// that the document states is an entry of the message whatever its value is
func genBlankMap(r *rand.Rand) ([]*dnode, []*dval) {
	nodes := []*dnode{{kind: "scalar", name: "Name", typ: "string"},
		{kind: "smap", name: "Label", ktyp: "uint32", typ: "string"},
		{kind: "smap", name: "Stock", ktyp: []string{"uint32", "int32"}[r.Intn(2)], typ: "int32"},
		{kind: "smap", name: "Tags", ktyp: "string", typ: "string"}}
	vals := []*dval{{text: "shop"}}
	for _, n := range nodes[1:] {
		v := &dval{}
		for i, k := 0, 1+r.Intn(4); i < k; i++ {
			key := strconv.Itoa(i + 1)
			if n.ktyp == "string" {
				key = "k" + key
			}
			v.keys = append(v.keys, key)
			switch {
			case r.Intn(2) == 0 && n.typ == "string":
				v.vals = append(v.vals, "")
			case r.Intn(2) == 0:
				v.vals = append(v.vals, "0")
			case n.typ == "string":
				v.vals = append(v.vals, "w"+key)
			default:
				v.vals = append(v.vals, strconv.Itoa(1+r.Intn(50)))
			}
		}
		vals = append(vals, v)
	}
	return nodes, vals
}

func runDoc(kind string, text string, nodes []*dnode, vals []*dval, corruptAt *dval) string {
	w := newWorkspace()
	defer w.cleanup()
	ro := docBase(w)
	ext := map[string]string{"yaml": ".yaml", "xml": ".xml"}[kind]
	if err := os.WriteFile(filepath.Join(w.In, "Doc"+ext), []byte(text), 0o644); err != nil {
		panic(err)
	}
	inFmt := format.YAML
	if kind == "xml" {
		inFmt = format.XML
	}
	ro.Formats = []format.Format{inFmt}
	if err := w.genProto(ro); err != nil {
		if os.Getenv("VERIF_DEBUG") != "" {
			println("PROTOERR", err.Error(), "\n"+text)
		}
		if docMayBeRejected {
			return "faithful schema-rejected"
		}
		return "unfaithful protogen-rejected"
	}
	if v := checkProtos(w.Proto, ro.ProtoPaths...); v != "" {
		return "unfaithful " + v
	}
	err := w.genConf(ro)
	if corruptAt != nil {
		if err == nil {
			if os.Getenv("VERIF_DEBUG") != "" {
				println("CORRUPT-ACCEPTED\n" + text)
			}
			return "unfaithful corrupt-accepted"
		}
		pos, _ := xerrors.NewDesc(err).GetValue(xerrors.KeyDataCellPos).(string)
		want := fmt.Sprintf("Ln %d, Col %d", corruptAt.line, corruptAt.col)
		if corruptAt.noPos {
			return "faithful rejected-list-element"
		}
		if kind == "yaml" && pos != want {
			if os.Getenv("VERIF_DEBUG") != "" {
				println("POSERR got", pos, "want", want, err.Error(), "\n"+text)
			}
			return "unfaithful error-position got=" + encStr(pos) + " want=" + encStr(want)
		}
		return "faithful rejected-at-position"
	}
	if err != nil {
		if os.Getenv("VERIF_DEBUG") != "" {
			println("CONFERR", err.Error(), "\n"+text)
		}
		return "unfaithful confgen-rejected " + xerrors.NewDesc(err).ErrCode()
	}
	descs, perr := parseProtoDir(w.Proto, ro.ProtoPaths...)
	if perr != nil {
		return "unfaithful protoinvalid"
	}
	md := descs["protoconf.DocConf"]
	if md == nil {
		return "unfaithful nomessage"
	}
	data, rerr := os.ReadFile(filepath.Join(w.Conf, "DocConf.json"))
	if rerr != nil {
		return "unfaithful noconf"
	}
	msg := dynamicpb.NewMessage(md.UnwrapMessage())
	if uerr := protojson.Unmarshal(data, msg); uerr != nil {
		return "unfaithful conf-unreadable"
	}
	if r := walk(msg, nodes, vals, "", nil); r != "" {
		if os.Getenv("VERIF_DEBUG") != "" {
			println("WALK", r, "\n"+text, "\n"+string(data))
		}
		return "unfaithful " + r
	}
	return "faithful ok"
}

func genDoc(r *rand.Rand, xml bool) ([]*dnode, []*dval) {
	g := &dgen{r: r}
	for {
		var nodes []*dnode
		for i := 1 + r.Intn(5); i > 0; i-- {
			nodes = append(nodes, g.node(2, xml))
		}
		if xml && !xmlOK(nodes) {
			continue
		}
		var vals []*dval
		for _, n := range nodes {
			vals = append(vals, g.value(n))
		}
		return nodes, vals
	}
}

// numeric scalars of the value tree that are rendered as YAML scalars with a position
func numericScalars(nodes []*dnode, vals []*dval, out *[]*dval) {
	for i, n := range nodes {
		v := vals[i]
		if skipVal(n, v) {
			continue
		}
		switch n.kind {
		case "scalar":
			if !v.absent && n.typ != "string" && n.typ != "bool" && n.typ != "enum<.FruitType>" {
				*out = append(*out, v)
			}
		case "struct":
			numericScalars(n.sub, v.fields, out)
		case "mlist":
			for _, it := range v.items {
				numericScalars(n.sub, it, out)
			}
		case "mmap":
			for _, it := range v.items {
				numericScalars(n.sub, it, out)
			}
		}
	}
}

// fixed witnesses of recorded findings
func c09Witness(kind string) string {
	switch kind {
	case "xml-error-position": // D20: XML nodes carry no positions
		text := "<?xml version=\"1.0\" encoding=\"UTF-8\" ?>\n<!--\n<@TABLEAU>\n    <Item Sheet=\"DocConf\" />\n</@TABLEAU>\n\n<DocConf>\n    <Item ID=\"{Item}uint32\" Num=\"int32\"/>\n</DocConf>\n-->\n\n<DocConf>\n    <Item ID=\"1\" Num=\"abc\"/>\n</DocConf>\n"
		w := newWorkspace()
		defer w.cleanup()
		ro := docBase(w)
		os.WriteFile(filepath.Join(w.In, "Doc.xml"), []byte(text), 0o644)
		ro.Formats = []format.Format{format.XML}
		if err := w.genProto(ro); err != nil {
			return "unfaithful protogen-rejected"
		}
		err := w.genConf(ro)
		if err == nil {
			return "unfaithful corrupt-accepted"
		}
		pos, _ := xerrors.NewDesc(err).GetValue(xerrors.KeyDataCellPos).(string)
		if pos != "Ln 13, Col 22" {
			return "unfaithful error-position got=" + encStr(pos) + " want=" + encStr("Ln 13, Col 22")
		}
		return "faithful rejected-at-position"
	case "xml-singleton-list-split": // D20b
		text := "<?xml version=\"1.0\" encoding=\"UTF-8\" ?>\n<!--\n<@TABLEAU>\n    <Item Sheet=\"DocConf\" />\n</@TABLEAU>\n\n<DocConf>\n    <Name>[string]</Name>\n</DocConf>\n-->\n\n<DocConf>\n    <Name>a,b</Name>\n</DocConf>\n"
		nodes := []*dnode{{kind: "slist", name: "Name", typ: "string"}}
		vals := []*dval{{elems: []string{"a,b"}}}
		return runDoc("xml", text, nodes, vals, nil)
	}
	panic("unknown witness " + kind)
}

func init() {
	regImpl("c09.known", func(a []string) string { return c09Witness(a[0]) })
	regStream("e2e.C09.documents", func(r *rand.Rand, n int, emit func(string, ...string)) {
		for i := 0; i < n; i++ {
			if i%10 == 9 {
				emit("c09.doc", "redecl", itoa(r.Int63n(1<<40)))
				continue
			}
			if i%10 == 4 {
				emit("c09.doc", "blankmap", itoa(r.Int63n(1<<40)))
				continue
			}
			emit("c09.doc", []string{"yaml", "yaml", "xml"}[i%3], itoa(r.Int63n(1<<40)))
		}
	})
	regImpl("c09.doc", func(a []string) string {
		r := rand.New(rand.NewSource(mustInt(a[1])))
		kind := a[0]
		if kind == "redecl" {
			nodes, vals, conflicting := genRedecl(r)
			docMayBeRejected = conflicting
			defer func() { docMayBeRejected = false }()
			return runDoc("yaml", renderYAML(nodes, vals), nodes, vals, nil)
		}
		if kind == "blankmap" {
			nodes, vals := genBlankMap(r)
			return runDoc("yaml", renderYAML(nodes, vals), nodes, vals, nil)
		}
		nodes, vals := genDoc(r, kind == "xml")
		if kind == "xml" {
			return runDoc("xml", renderXML(nodes, vals, r), nodes, vals, nil)
		}
		var corrupt *dval
		if r.Intn(4) == 0 {
			var cands []*dval
			numericScalars(nodes, vals, &cands)
			if len(cands) > 0 {
				corrupt = cands[r.Intn(len(cands))]
				corrupt.text = "abc"
			}
		} else if r.Intn(5) == 0 {
			// one element of a cross-cell scalar list (a YAML sequence) is no literal of the element type: text that
			// is not a number, and numbers outside the element kind's range (fractional numbers in integer columns are
			// in the statement's unspecified remainder: not generated)
			var cands []*dval
			var kinds []string
			for i, n := range nodes {
				if n.kind == "slist" && n.typ != "string" && !vals[i].absent && len(vals[i].elems) > 0 {
					cands = append(cands, vals[i])
					kinds = append(kinds, n.typ)
				}
			}
			if len(cands) > 0 {
				k := r.Intn(len(cands))
				corrupt = cands[k]
				junk := map[string][]string{"int32": {"abc", "2147483648", "-2147483649"}, "uint32": {"abc", "-1", "4294967296"},
					"int64": {"abc", "9223372036854775808", "12x"}}[kinds[k]]
				corrupt.elems[r.Intn(len(corrupt.elems))] = junk[r.Intn(len(junk))]
				corrupt.noPos = true
			}
		}
		text := renderYAML(nodes, vals)
		if os.Getenv("VERIF_DEBUG") == "2" {
			println("DOC\n" + text)
		}
		return runDoc("yaml", text, nodes, vals, corrupt)
	})
}

// --- corr.importer.xmlToNode: the XML gathering step against its Lean model ---------------------------

type xnode struct {
	name  string
	attrs [][2]string
	text  string
	kids  []*xnode
}

var xNames = []string{"A", "B", "C", "Item", "V"}

func genXNode(r *rand.Rand, depth int, name string, forceText ...bool) *xnode {
	n := &xnode{name: name}
	isText := r.Intn(3) == 0 || depth <= 0
	if len(forceText) > 0 {
		isText = forceText[0] || depth <= 0
	}
	if isText {
		// text-only (sometimes, wrongly, with an attribute)
		n.text = []string{"1", "x", "a,b", "2 3", "é"}[r.Intn(5)]
		if r.Intn(60) == 0 {
			n.attrs = append(n.attrs, [2]string{"K", "v"})
		}
		return n
	}
	used := map[string]bool{}
	for i := r.Intn(3); i > 0; i-- {
		an := xNames[r.Intn(len(xNames))]
		if used[an] {
			continue
		}
		used[an] = true
		n.attrs = append(n.attrs, [2]string{an, []string{"1", "x", ""}[r.Intn(3)]})
	}
	// within one parent a name is (mostly) used either for text-only or for structured children
	textName := map[string]bool{}
	for _, nm := range xNames {
		textName[nm] = r.Intn(2) == 0
	}
	for i := r.Intn(6); i > 0; i-- {
		nm := xNames[r.Intn(len(xNames))]
		if r.Intn(12) == 0 {
			n.kids = append(n.kids, genXNode(r, depth-1, nm))
		} else {
			n.kids = append(n.kids, genXNode(r, depth-1, nm, textName[nm] || used[nm]))
		}
	}
	return n
}

func (n *xnode) enc() string {
	var attrs []string
	for _, a := range n.attrs {
		attrs = append(attrs, encStr(a[0])+"="+encStr(a[1]))
	}
	var sb strings.Builder
	sb.WriteString("<" + encStr(n.name) + "|" + strings.Join(attrs, ",") + "|" + encStr(n.text) + "|[")
	for _, k := range n.kids {
		sb.WriteString(k.enc())
	}
	sb.WriteString("]>")
	return sb.String()
}

func (n *xnode) xml(sb *strings.Builder) {
	sb.WriteString("<" + n.name)
	for _, a := range n.attrs {
		sb.WriteString(" " + a[0] + `="` + xmlEsc(a[1]) + `"`)
	}
	if n.text == "" && len(n.kids) == 0 {
		sb.WriteString("/>")
		return
	}
	sb.WriteString(">" + xmlEsc(n.text))
	for _, k := range n.kids {
		k.xml(sb)
	}
	sb.WriteString("</" + n.name + ">")
}

func dumpBNode(n *verifhookNode, sb *strings.Builder) {
	sb.WriteString("(" + itoa(int64(n.Kind)) + "|" + encStr(n.Name) + "|" + encStr(n.Value) + "|")
	for _, c := range n.Children {
		dumpBNode(c, sb)
	}
	sb.WriteString(")")
}

func init() {
	regStream("corr.importer.xmlToNode", func(r *rand.Rand, n int, emit func(string, ...string)) {
		for i := 0; i < n; i++ {
			emit("c09.xml2node", genXNode(r, 3, "Root").enc())
		}
	})
	regImpl("c09.xml2node", func(a []string) string {
		n := decXNode(a[0])
		var sb strings.Builder
		n.xml(&sb)
		b, err := xmlDataToNode(sb.String())
		if err != nil {
			return "err"
		}
		var out strings.Builder
		out.WriteString("ok ")
		dumpBNode(b, &out)
		return out.String()
	})
}
