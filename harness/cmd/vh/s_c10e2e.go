package main

import (
	"math/rand"
	"regexp"
	"strings"

	"github.com/tableauio/tableau/format"
)

// ---------------------------------------------------------------------------
// e2e.C10.schema: a generated worksheet and its transposed form (marked Transpose) through the real importers,
// GenProto and GenConf: the same message schema and the same conf output — CSV (rectangular and with trailing
// blanks trimmed) and XLSX, sheets with more fields than the importer's schema window of 10 lines.
// ---------------------------------------------------------------------------

var transposeOptRe = regexp.MustCompile(` ?transpose:true`)

func runC10Schema(seed int64) string {
	r := rand.New(rand.NewSource(seed))
	g := &sgen{r: r}
	gs := g.sheet("HeroConf", 1+r.Intn(8), 1+r.Intn(4))
	container := []string{"csv", "csv", "xlsx"}[r.Intn(3)]
	ragged := container == "csv" && r.Intn(2) == 0
	blankCol := false
	if r.Intn(3) == 0 && len(gs.spec.Rows[0]) > 1 {
		// a blank column (no name, no type, no data) between the fields: a blank line of the transposed form
		blankCol = true
		p := 1 + r.Intn(len(gs.spec.Rows[0])-1)
		for i, row := range gs.spec.Rows {
			if p <= len(row) {
				nr := append([]string{}, row[:p]...)
				nr = append(nr, "")
				nr = append(nr, row[p:]...)
				gs.spec.Rows[i] = nr
			}
		}
	}
	// banner lines above the header (the header rows are then given in the metasheet: up to row 8)
	banner := 0
	if r.Intn(4) == 0 {
		banner = 1 + r.Intn(5)
		width := len(gs.spec.Rows[0])
		var rows [][]string
		for i := 0; i < banner; i++ {
			line := make([]string, width)
			line[0] = "# banner " + itoa(int64(i+1))
			rows = append(rows, line)
		}
		gs.spec.Rows = append(rows, gs.spec.Rows...)
	}
	run := func(transposed bool) (map[string]string, map[string]string, string) {
		w := newWorkspace()
		defer w.cleanup()
		spec := sheetSpec{Name: "HeroConf", Rows: gs.spec.Rows, Meta: map[string]string{}}
		if banner > 0 {
			spec.Meta["Namerow"], spec.Meta["Typerow"], spec.Meta["Noterow"], spec.Meta["Datarow"] =
				itoa(int64(banner+1)), itoa(int64(banner+2)), itoa(int64(banner+3)), itoa(int64(banner+4))
		}
		if transposed {
			spec.Rows = transposeRows(gs.spec.Rows)
			spec.Meta["Transpose"] = "true"
		}
		spec.Ragged = ragged
		b := bookSpec{Name: "Fuzz", Sheets: []sheetSpec{spec}}
		ro := runOpts{}
		if container == "xlsx" {
			ro.Formats = []format.Format{format.Excel}
			w.writeXLSXBook("", baseBook(), false)
			w.writeXLSXBook("", b, false)
		} else {
			w.writeCSVBook("", baseBook())
			w.writeCSVBook("", b)
		}
		if err := w.genProto(ro); err != nil {
			return nil, nil, "protoerr " + errCode(err)
		}
		protos := protoBodies(w.Proto)
		for k, v := range protos {
			protos[k] = transposeOptRe.ReplaceAllString(v, "")
		}
		if err := w.genConf(ro); err != nil {
			return protos, nil, "conferr " + errCode(err)
		}
		return protos, fileBodies(w.Conf), "ok"
	}
	p1, c1, s1 := run(false)
	p2, c2, s2 := run(true)
	tag := " [" + container
	if ragged {
		tag += ",ragged"
	}
	if len(gs.spec.Rows[0]) > 10 {
		tag += ",wide"
	}
	if blankCol {
		tag += ",blankcol"
	}
	tag += "]"
	if s1 != s2 {
		return "differ outcome plain=" + s1 + " transposed=" + s2 + tag
	}
	if strings.HasPrefix(s1, "protoerr") {
		return "same " + s1 + tag
	}
	if d := diffMaps("proto", p1, p2); d != "" {
		return "differ " + d + tag
	}
	if s1 == "ok" {
		if d := diffMaps("conf", c1, c2); d != "" {
			return "differ " + d + tag
		}
	}
	return "same " + s1 + tag
}

func init() {
	regStream("e2e.C10.schema", func(r *rand.Rand, n int, emit func(string, ...string)) {
		for i := 0; i < n; i++ {
			emit("c10.schema", itoa(r.Int63n(1<<40)))
		}
	})
	regImpl("c10.schema", func(a []string) string { return runC10Schema(mustInt(a[0])) })
}
