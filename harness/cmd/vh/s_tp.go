package main

import (
	"math/rand"
	"regexp"
	"strconv"
	"strings"

	"github.com/tableauio/tableau/format"
	"github.com/tableauio/tableau/proto/tableaupb"
	"github.com/tableauio/tableau/verifhook"
	"github.com/tableauio/tableau/xerrors"
)

type tpOpts struct {
	nr, tr, nor, dr, nl, tl                    int32
	transpose, adjacentKey, optional           bool
	sheetSep, sheetSubsep, bookSep, bookSubsep string
}

func (o tpOpts) token() string {
	b := func(x bool) string {
		if x {
			return "1"
		}
		return "0"
	}
	return strings.Join([]string{itoa(int64(o.nr)), itoa(int64(o.tr)), itoa(int64(o.nor)), itoa(int64(o.dr)), itoa(int64(o.nl)), itoa(int64(o.tl)),
		b(o.transpose), b(o.adjacentKey), b(o.optional), encStr(o.sheetSep), encStr(o.sheetSubsep), encStr(o.bookSep), encStr(o.bookSubsep)}, " ")
}

func parseTPOpts(s string) tpOpts {
	t := strings.Fields(s)
	return tpOpts{int32(mustInt(t[0])), int32(mustInt(t[1])), int32(mustInt(t[2])), int32(mustInt(t[3])), int32(mustInt(t[4])), int32(mustInt(t[5])),
		t[6] == "1", t[7] == "1", t[8] == "1", mustStr(t[9]), mustStr(t[10]), mustStr(t[11]), mustStr(t[12])}
}

func transposeRows(rows [][]string) [][]string {
	maxc := 0
	for _, r := range rows {
		if len(r) > maxc {
			maxc = len(r)
		}
	}
	out := make([][]string, maxc)
	for c := 0; c < maxc; c++ {
		out[c] = make([]string, len(rows))
		for r := range rows {
			if c < len(rows[r]) {
				out[c][r] = rows[r][c]
			}
		}
	}
	return out
}

// buildSheet lays a generated descriptor out as a grid: header rows at the positions the options say,
// data rows with mostly-valid cells; then optional perturbations of the column set.
func (g *tGen) buildSheet(fs []*tField, o tpOpts, perturb bool) [][]string {
	var cols []colSpec
	g.columns(fs, "", "", &cols)
	r := g.r
	names := make([]string, len(cols))
	for i, c := range cols {
		names[i] = c.name
	}
	ndata := r.Intn(6)
	hdrRows := int(o.dr) - 1
	if hdrRows < 0 {
		hdrRows = 0
	}
	rows := make([][]string, hdrRows+ndata)
	for i := range rows {
		rows[i] = make([]string, len(cols))
		for j := range rows[i] {
			rows[i][j] = "junk"
		}
	}
	setRow := func(idx int32, f func(j int) string) {
		if idx >= 1 && int(idx) <= len(rows) {
			for j := range cols {
				rows[idx-1][j] = f(j)
			}
		}
	}
	setRow(o.nor, func(j int) string { return "note" })
	setRow(o.tr, func(j int) string { return "type" })
	setRow(o.nr, func(j int) string { return names[j] })
	for i := hdrRows; i < len(rows); i++ {
		for j, c := range cols {
			rows[i][j] = g.cellText(c)
		}
		if r.Intn(8) == 0 { // a completely blank row
			for j := range cols {
				rows[i][j] = ""
			}
		}
	}
	if perturb && len(cols) > 0 {
		switch r.Intn(8) {
		case 0: // drop a column
			k := r.Intn(len(cols))
			for i := range rows {
				rows[i] = append(rows[i][:k:k], rows[i][k+1:]...)
			}
		case 1: // duplicate a column name
			if len(cols) > 1 && o.nr >= 1 && int(o.nr) <= len(rows) {
				rows[o.nr-1][r.Intn(len(cols))] = rows[o.nr-1][r.Intn(len(cols))]
			}
		case 2: // shuffle columns
			perm := r.Perm(len(cols))
			for i := range rows {
				nr := make([]string, len(cols))
				for j, pj := range perm {
					nr[j] = rows[i][pj]
				}
				rows[i] = nr
			}
		case 3: // trailing blank column(s)
			k := 1 + r.Intn(2)
			for i := range rows {
				for x := 0; x < k; x++ {
					rows[i] = append(rows[i], "")
				}
			}
		case 4: // an extra, unrelated column
			for i := range rows {
				v := "x"
				if int32(i+1) == o.nr {
					v = "Unrelated"
				}
				rows[i] = append(rows[i], v)
			}
		case 5: // ragged rows: trim trailing blanks of some rows
			for i := range rows {
				for len(rows[i]) > 0 && rows[i][len(rows[i])-1] == "" && r.Intn(2) == 0 {
					rows[i] = rows[i][:len(rows[i])-1]
				}
			}
		}
	}
	if o.transpose {
		rows = transposeRows(rows)
	}
	return rows
}

func genTPOpts(r *rand.Rand) tpOpts {
	o := tpOpts{nr: 1, tr: 2, nor: 3, dr: 4}
	switch r.Intn(8) {
	case 0:
		o = tpOpts{nr: 2, tr: 1, nor: 3, dr: 5}
	case 1:
		o = tpOpts{nr: 1, tr: 0, nor: 0, dr: 2}
	case 2:
		o = tpOpts{nr: 3, tr: 2, nor: 1, dr: 4}
	}
	if r.Intn(5) == 0 {
		o.transpose = true
	}
	if r.Intn(10) == 0 {
		o.optional = true
	}
	if r.Intn(10) == 0 {
		o.sheetSep = ";"
	}
	if r.Intn(12) == 0 {
		o.bookSep = "|"
	}
	if r.Intn(12) == 0 {
		o.sheetSubsep = "="
	}
	return o
}

func implTableParse(a []string) string {
	o := parseTPOpts(a[0])
	pos := 0
	fs := parseTDesc(strings.Fields(a[1]), &pos)
	md := buildTDescriptor(fs)
	rows := decGrid(a[2])
	sheetOpts := &tableaupb.WorksheetOptions{Name: "Sheet", Namerow: o.nr, Typerow: o.tr, Noterow: o.nor, Datarow: o.dr, Nameline: o.nl, Typeline: o.tl,
		Transpose: o.transpose, AdjacentKey: o.adjacentKey, Optional: o.optional, Sep: o.sheetSep, Subsep: o.sheetSubsep}
	bookOpts := &tableaupb.WorkbookOptions{Name: "Book.csv", Sep: o.bookSep, Subsep: o.bookSubsep}
	msg, err := verifhook.TableParse(md, bookOpts, sheetOpts, "Sheet", rows, format.CSV)
	if err != nil {
		d := xerrors.NewDesc(err)
		code := errCode(err)
		if code == "3" {
			return "e0003"
		}
		get := func(k string) string {
			v := d.GetValue(k)
			if v == nil {
				return ""
			}
			return v.(string)
		}
		// the last value before the coded error carries the ": -1" of the error text protocol (and ": " of empty wraps)
		col := get(xerrors.KeyColumnName)
		if strings.HasSuffix(col, "-1") {
			col = strings.TrimRight(strings.TrimSuffix(col, "-1"), " :")
		}
		return "err " + code + " " + encStr(get(xerrors.KeyDataCellPos)) + " " + encStr(get(xerrors.KeyDataCell)) + " " + encStr(col)
	}
	encStringsAsRunes = true
	defer func() { encStringsAsRunes = false }()
	return "ok " + msgString(msg.ProtoReflect())
}

func hasAutoFixed(fs []*tField) bool {
	for _, f := range fs {
		// (a field that must be present is not an optional field either: E2011 is raised for its blank cell)
		if (f.prop.fixed && f.prop.size == 0) || f.prop.present || hasAutoFixed(f.sub) {
			return true
		}
	}
	return false
}

// forceSized gives every horizontal list fixed:true and an explicit size; false if the sheet has none
func forceSized(fs []*tField, r *rand.Rand) bool {
	any := false
	for _, f := range fs {
		if f.card == 'l' && (f.layout == 'h' || f.layout == 'd') {
			f.prop.fixed, f.prop.size = true, 1+r.Intn(4)
			any = true
		}
		if forceSized(f.sub, r) {
			any = true
		}
	}
	return any
}

// blankLastElements blanks the data cells of the last element (index ≥ 2) of every horizontal aggregate
func blankLastElements(rows [][]string, o tpOpts) {
	nr, dr := int(o.nr)-1, int(o.dr)-1
	if nr < 0 || nr >= len(rows) || dr < 0 {
		return
	}
	maxIdx := map[string]int{}
	for _, n := range rows[nr] {
		if m := trailingIndexRe.FindStringSubmatch(n); m != nil {
			if k, _ := strconv.Atoi(m[2]); k > maxIdx[m[1]] {
				maxIdx[m[1]] = k
			}
		}
	}
	for c, n := range rows[nr] {
		for pre, k := range maxIdx {
			if k >= 2 && strings.HasPrefix(n, pre+strconv.Itoa(k)) {
				for x := dr; x < len(rows); x++ {
					if c < len(rows[x]) {
						rows[x][c] = ""
					}
				}
			}
		}
	}
}

var trailingIndexRe = regexp.MustCompile(`^(.*[^0-9])([0-9]+)([^0-9]*)$`)

// dropBlankColumns removes columns of a (non-transposed) sheet whose data cells are all blank: columns of plain
// fields, and element columns of a horizontal aggregate only from its highest index downwards and never its first
// element (element 1 carries the aggregate's type; without any element column there is no aggregate to speak of).
func dropBlankColumns(rows [][]string, o tpOpts, r *rand.Rand) [][]string {
	nr, dr := int(o.nr)-1, int(o.dr)-1
	if nr < 0 || nr >= len(rows) || dr >= len(rows) || dr < 0 {
		return nil
	}
	names := rows[nr]
	blank := func(c int) bool {
		for x := dr; x < len(rows); x++ {
			if c < len(rows[x]) && rows[x][c] != "" {
				return false
			}
		}
		return true
	}
	// highest element index per aggregate prefix+suffix
	maxIdx := map[string]int{}
	for _, n := range names {
		if m := trailingIndexRe.FindStringSubmatch(n); m != nil {
			k, _ := strconv.Atoi(m[2])
			if k > maxIdx[m[1]] {
				maxIdx[m[1]] = k
			}
		}
	}
	drop := map[int]bool{}
	for c, n := range names {
		if n == "" || !blank(c) || r.Intn(2) == 0 {
			continue
		}
		if m := trailingIndexRe.FindStringSubmatch(n); m != nil {
			// an element column: only the columns of the LAST element, all of them blank, and not element 1
			k, _ := strconv.Atoi(m[2])
			if k < 2 || k != maxIdx[m[1]] {
				continue
			}
			ok := true
			for c2, n2 := range names {
				if strings.HasPrefix(n2, m[1]+m[2]) && !blank(c2) {
					ok = false
				}
			}
			if !ok {
				continue
			}
			for c2, n2 := range names {
				if strings.HasPrefix(n2, m[1]+m[2]) {
					drop[c2] = true
				}
			}
			continue
		}
		drop[c] = true
	}
	if len(drop) == 0 {
		return nil
	}
	out := make([][]string, len(rows))
	for x := range rows {
		for c := range rows[x] {
			if !drop[c] {
				out[x] = append(out[x], rows[x][c])
			}
		}
		if out[x] == nil {
			out[x] = []string{}
		}
	}
	return out
}

func coreOf(res string) string {
	f := strings.Fields(res)
	if len(f) >= 5 && f[0] == "err" {
		return "err " + f[1] + " " + f[4]
	}
	return res
}

func init() {
	// corr.confgen.layoutPairs: the same generated sheet in two layouts (C10 / C08): transposed + flag,
	// columns permuted, blank columns / rows appended and trailing blanks trimmed. Both are converted by
	// the real table parser and must give the same message or the same error (code + column name).
	regStream("corr.confgen.layoutPairs", func(r *rand.Rand, n int, emit func(string, ...string)) {
		g := &tGen{r: r}
		for i := 0; i < n; {
			fs := g.sheet()
			// every fourth sheet: its horizontal lists carry an explicit size next to fixed:true (the size, not the
			// number of element columns, decides the padding), and the pair is mostly a column removal
			sized := r.Intn(4) == 0 && forceSized(fs, r)
			var dt []string
			tdescTokens(fs, &dt)
			for j := 0; j < 4 && i < n; j++ {
				o := genTPOpts(r)
				o.transpose = false
				rows := g.buildSheet(fs, o, false)
				kind := []string{"transpose", "pad", "permute", "padrows", "dropblank"}[r.Intn(5)]
				if sized && r.Intn(4) != 0 {
					kind = "dropblank"
				}
				if kind == "dropblank" {
					// clause (d): every field optional (sheet option); lists whose size IS the number of element columns
					// (fixed:true without size) are left out — there the column is not "an optional field's column"
					if hasAutoFixed(fs) {
						kind = "pad"
					} else {
						o.optional = true
						rows = g.buildSheet(fs, o, false)
						if r.Intn(2) == 0 {
							blankLastElements(rows, o)
						}
					}
				}
				o2 := o
				var rows2 [][]string
				switch kind {
				case "transpose":
					if r.Intn(2) == 0 { // start from the transposed form as well
						o.transpose = true
						rows = transposeRows(rows)
					}
					o2 = o
					o2.transpose = !o.transpose
					rows2 = transposeRows(rows)
					if r.Intn(2) == 0 {
						// the other layout as a reader that drops trailing blank cells hands it over (ragged lines)
						maxc := 0
						for _, x := range rows2 {
							if len(x) > maxc {
								maxc = len(x)
							}
						}
						trimmed := make([][]string, len(rows2))
						keep := 0
						for x := range rows2 {
							t := rows2[x]
							for len(t) > 0 && t[len(t)-1] == "" {
								t = t[:len(t)-1]
							}
							trimmed[x] = t
							if len(t) > keep {
								keep = len(t)
							}
						}
						if keep == maxc {
							rows2 = trimmed
						}
					}
				case "pad":
					rows2 = make([][]string, len(rows))
					k := r.Intn(4) // 0..3 trailing blank columns (2+ used to fail with E0003)
					for x := range rows {
						rows2[x] = append(append([]string{}, rows[x]...), make([]string, k)...)
					}
					if r.Intn(2) == 0 { // and the other way round: trailing blanks trimmed (XLSX reader)
						for x := range rows2 {
							for len(rows2[x]) > 0 && rows2[x][len(rows2[x])-1] == "" {
								rows2[x] = rows2[x][:len(rows2[x])-1]
							}
						}
					}
					if len(rows2) == 0 || len(rows) == 0 {
						continue
					}
				case "padrows": // blank rows appended at the end (kept by a CSV export, dropped by the XLSX reader)
					if len(rows) == 0 {
						continue
					}
					rows2 = append([][]string{}, rows...)
					for x := 0; x < 1+r.Intn(2); x++ {
						rows2 = append(rows2, make([]string, len(rows[0])))
					}
				case "dropblank":
					rows2 = dropBlankColumns(rows, o, r)
					if rows2 == nil {
						continue
					}
				case "permute":
					if len(rows) == 0 || len(rows[0]) < 2 {
						continue
					}
					perm := r.Perm(len(rows[0]))
					rows2 = make([][]string, len(rows))
					for x := range rows {
						rows2[x] = make([]string, len(rows[x]))
						for y, py := range perm {
							rows2[x][y] = rows[x][py]
						}
					}
				}
				if len(rows) == 0 || len(rows2) == 0 {
					continue
				}
				emit("tp.pair", kind, o.token(), o2.token(), strings.Join(dt, " "), encGrid(rows), encGrid(rows2))
				i++
			}
		}
	})
	regImpl("tp.pair", func(a []string) string {
		r1 := coreOf(implTableParse([]string{a[1], a[3], a[4]}))
		r2 := coreOf(implTableParse([]string{a[2], a[3], a[5]}))
		if r1 == r2 {
			return "same"
		}
		return "differ " + r1 + " | " + r2
	})

	// corr.confgen.tableParse: generated descriptors (scalars, in-cell / horizontal / vertical lists and maps,
	// keyed lists, structs, nesting ≤ 2, field properties) × generated grids (mostly valid cells, blank rows,
	// repeated keys, holes) × header positions / transpose / separators × column-set perturbations.
	regStream("corr.confgen.tableParse", func(r *rand.Rand, n int, emit func(string, ...string)) {
		g := &tGen{r: r}
		for i := 0; i < n; {
			fs := g.sheet()
			var dt []string
			tdescTokens(fs, &dt)
			for j := 0; j < 5 && i < n; j++ {
				o := genTPOpts(r)
				rows := g.buildSheet(fs, o, r.Intn(3) == 0)
				emit("tp.parse", o.token(), strings.Join(dt, " "), encGrid(rows))
				i++
			}
		}
	})
	regImpl("tp.parse", implTableParse)
	_ = strconv.Itoa
}
