package main

import (
	"fmt"
	"math/rand"
	"sort"
	"strconv"
	"strings"
	"time"

	"github.com/tableauio/tableau/proto/tableaupb"
	"github.com/tableauio/tableau/proto/tableaupb/internalpb"
	"github.com/tableauio/tableau/verifhook"
	"github.com/tableauio/tableau/xerrors"
	"google.golang.org/protobuf/reflect/protoreflect"
)

// ---------------------------------------------------------------------------
// C17: type DSL recognisers, ToSnake, and the protogen header parser.
// ---------------------------------------------------------------------------

func encParts(l []string) string { return strings.Join(encAll(l), ",") }

func partsOrDash(l []string) string {
	if l == nil {
		return "-"
	}
	return encParts(l)
}

func renderMatch(text string) string {
	mp, list, keyed, strct, enum, scalar, prop := verifhook.TypeMatch(text)
	return fmt.Sprintf("map=%s;list=%s;keyed=%s;struct=%s;enum=%s;scalar=%s;prop=%s",
		partsOrDash(mp), partsOrDash(list), partsOrDash(keyed), partsOrDash(strct), partsOrDash(enum), partsOrDash(scalar), encStr(prop))
}

// dispatch order of protogen's parseField / parseBasicField
func classifyImpl(text string) string {
	mp, list, keyed, strct, enum, scalar, _ := verifhook.TypeMatch(text)
	switch {
	case mp != nil:
		return "map " + encParts(mp)
	case list != nil:
		if keyed != nil {
			return "keyed " + encParts(keyed)
		}
		return "list " + encParts(list)
	case strct != nil:
		return "struct " + encParts(strct)
	case enum != nil:
		return "enum " + encParts(enum)
	case scalar != nil:
		return "scalar " + encParts(scalar)
	}
	return "other "
}

var c17Tokens = []string{"map<", "enum<", "[", "]", "{", "}", "(", ")", "<", ">", ",", "|", " ", "a", "B", "1", ".", "_", "\n", "x:1", "\t", "é"}

func init() {
	regStream("corr.types.match", func(r *rand.Rand, n int, emit func(string, ...string)) {
		count := 0
		// exhaustive over token sequences (depth by budget), then random longer ones
		depth := 3
		if n >= 200000 {
			depth = 4
		}
		var rec func(p string, d int)
		rec = func(p string, d int) {
			emit("c17.match", encStr(p))
			count++
			if d == depth {
				return
			}
			for _, t := range c17Tokens {
				rec(p+t, d+1)
			}
		}
		rec("", 0)
		for count < n {
			l := 3 + r.Intn(12)
			p := ""
			for i := 0; i < l; i++ {
				p += c17Tokens[r.Intn(len(c17Tokens))]
			}
			emit("c17.match", encStr(p))
			count++
		}
	})
	regImpl("c17.match", func(a []string) string { return renderMatch(mustStr(a[0])) })

	regStream("corr.types.misc", func(r *rand.Rand, n int, emit func(string, ...string)) {
		words := []string{"Item", "1", "2", "12", "ID", "a", "Reward", "", "é", "Lv", "_", "x1"}
		raws := []string{"int32", "uint64", "string", "bytes", "datetime", "date", "time", "duration", "fraction", "comparator", "float", "double", "bool",
			"Item", "enum<Fruit>", "enum<.Fruit>", ".Item", "google.protobuf.Timestamp", "tableau.Fraction", "sfixed32", "Int32", "enum<>", "enum<A>|{x:1}", ""}
		snk := []string{"A", "b", "1", "ID", "Id", "JSON", "Data", "a", "_", "-", ".", " ", "é", "X2", "v2", "HTTPServer", "myVar", "K8s", "3D"}
		for i := 0; i < n; i++ {
			switch i % 3 {
			case 0:
				name, prefix := "", ""
				for j := r.Intn(4); j > 0; j-- {
					prefix += words[r.Intn(len(words))]
				}
				name = prefix
				if r.Intn(4) == 0 {
					name = ""
				}
				for j := r.Intn(4); j > 0; j-- {
					name += words[r.Intn(len(words))]
				}
				emit("c17.first", encStr(name), encStr(prefix))
			case 1:
				emit("c17.desc", encStr(raws[r.Intn(len(raws))]))
			case 2:
				s := ""
				for j := r.Intn(7); j > 0; j-- {
					s += snk[r.Intn(len(snk))]
				}
				emit("c17.snake", encStr(s))
			}
		}
	})
	regImpl("c17.first", func(a []string) string { return encBool(verifhook.BelongToFirstElement(mustStr(a[0]), mustStr(a[1]))) })
	regImpl("c17.desc", func(a []string) string {
		n, f, p, k := verifhook.TypeDescriptor(mustStr(a[0]))
		return fmt.Sprintf("%s %s %s %d", encStr(n), encStr(f), encBool(p), k)
	})
	regImpl("c17.snake", func(a []string) string { return encStr(verifhook.ToSnake(mustStr(a[0]))) })
}

func encBool(b bool) string {
	if b {
		return "1"
	}
	return "0"
}

// --- the documented grammar, as a generator --------------------------------

var c17TypeNames = []string{"int32", "uint32", "int64", "string", "bool", "bytes", "float", "datetime", "duration", "Item", "Reward", ".Item", ".FruitType", "Fruit", "protoconf.Item", "Lv2Bonus", "a_b", "X"}
var c17Props = []string{"", "", "unique:true", `range:"1,10"`, `refer:"ItemConf.ID"`, "optional:true", `sep:";"`, `json_name:"x_y"`, "form:FORM_JSON", `default:"}"`, `range:"~,5" present:true`, "size:3 fixed:true", `default:"a|{b}"`, "sequence:1", `range:"10"`, `range:"~"`, `range:"1,2,3"`, `range:""`, `range:","`, `range:"1~10" present:true`}

func c17Suffix(r *rand.Rand) (enc string, text string) {
	p := c17Props[r.Intn(len(c17Props))]
	sp1, sp2 := 0, 0
	if r.Intn(3) == 0 {
		sp1 = r.Intn(3)
	}
	if r.Intn(3) == 0 {
		sp2 = r.Intn(3)
	}
	enc = fmt.Sprintf("%d:%d:%s", sp1, sp2, encStr(p))
	if p != "" {
		text = strings.Repeat(" ", sp1) + "|" + strings.Repeat(" ", sp2) + "{" + p + "}"
	}
	return
}

func c17TypeName(r *rand.Rand) string { return c17TypeNames[r.Intn(len(c17TypeNames))] }

// a column type: what may follow {S} / [E] / stand inside <> of a keyed list
func c17ColType(r *rand.Rand, depth int) string {
	switch r.Intn(7) {
	case 0:
		return "enum<" + c17TypeName(r) + ">"
	case 1:
		if depth > 0 {
			return "{" + c17TypeName(r) + "}" + c17ColType(r, depth-1)
		}
	case 2:
		return "{int32 ID, string Name}" + c17TypeName(r)
	case 3:
		return "{." + "Item}"
	}
	return c17TypeName(r)
}

func c17GenExpr(r *rand.Rand) (ast, text string) {
	sfxEnc, sfxText := c17Suffix(r)
	switch r.Intn(7) {
	case 0:
		t := c17TypeName(r)
		return "scalar:" + encStr(t) + ":" + sfxEnc, t + sfxText
	case 1:
		t := c17TypeName(r)
		return "enum:" + encStr(t) + ":" + sfxEnc, "enum<" + t + ">" + sfxText
	case 2:
		st := c17TypeName(r)
		if r.Intn(4) == 0 {
			st = "int32 ID, string Name"
		}
		if r.Intn(6) == 0 {
			st = "enum<.FruitType> Kind,int64 N"
		}
		cu := ""
		if r.Intn(4) == 0 {
			cu = []string{"Custom", "P", "my_1"}[r.Intn(3)]
		}
		col := ""
		if r.Intn(5) != 0 {
			col = c17ColType(r, 1)
		}
		paren := ""
		if cu != "" {
			paren = "(" + cu + ")"
		}
		return "struct:" + encStr(st) + ":" + encStr(cu) + ":" + encStr(col) + ":" + sfxEnc, "{" + st + paren + "}" + col + sfxText
	case 3, 4:
		e := ""
		if r.Intn(3) != 0 {
			e = c17TypeName(r)
		}
		col := ""
		if r.Intn(6) != 0 {
			col = c17ColType(r, 1)
		}
		return "list:" + encStr(e) + ":" + encStr(col) + ":" + sfxEnc, "[" + e + "]" + col + sfxText
	case 5:
		e := ""
		if r.Intn(3) != 0 {
			e = c17TypeName(r)
		}
		col := c17ColType(r, 0)
		return "keyed:" + encStr(e) + ":" + encStr(col) + ":" + sfxEnc, "[" + e + "]<" + col + ">" + sfxText
	default:
		k := c17TypeName(r)
		if r.Intn(4) == 0 {
			k = "enum<" + c17TypeName(r) + ">"
		}
		v := c17TypeName(r)
		if r.Intn(4) == 0 {
			v = "enum<" + c17TypeName(r) + ">"
		}
		spc := r.Intn(3)
		return "map:" + encStr(k) + ":" + encStr(v) + ":" + itoa(int64(spc)) + ":" + sfxEnc, "map<" + k + "," + strings.Repeat(" ", spc) + v + ">" + sfxText
	}
}

func init() {
	regStream("spec.C17.classify", func(r *rand.Rand, n int, emit func(string, ...string)) {
		for i := 0; i < n; i++ {
			ast, text := c17GenExpr(r)
			emit("c17.cls", ast, encStr(text))
		}
	})
	regImpl("c17.cls", func(a []string) string { return classifyImpl(mustStr(a[1])) })
}

// --- protogen header parser ---------------------------------------------------

func renderProp(p *tableaupb.FieldProp) string {
	if p == nil {
		return "nil"
	}
	var parts []string
	type kv struct {
		n int
		s string
	}
	var kvs []kv
	p.ProtoReflect().Range(func(fd protoreflect.FieldDescriptor, v protoreflect.Value) bool {
		var s string
		switch fd.Kind() {
		case protoreflect.BoolKind:
			s = fmt.Sprint(v.Bool())
		case protoreflect.EnumKind:
			s = string(fd.Enum().Values().ByNumber(v.Enum()).Name())
		case protoreflect.StringKind:
			s = v.String()
		default:
			s = fmt.Sprint(v.Interface())
		}
		kvs = append(kvs, kv{int(fd.Number()), s})
		return true
	})
	sort.Slice(kvs, func(i, j int) bool { return kvs[i].n < kvs[j].n })
	for _, e := range kvs {
		parts = append(parts, fmt.Sprintf("%d=%s", e.n, encStr(e.s)))
	}
	if len(parts) == 0 {
		return "nil"
	}
	return strings.Join(parts, ",")
}

func renderPField(f *internalpb.Field) string {
	o := f.GetOptions()
	span := "0"
	switch o.GetSpan() {
	case tableaupb.Span_SPAN_INNER_CELL:
		span = "1"
	case tableaupb.Span_SPAN_CROSS_CELL:
		span = "X"
	}
	me, le := "-", "-"
	if f.MapEntry != nil {
		me = encParts([]string{f.MapEntry.KeyType, f.MapEntry.ValueType, f.MapEntry.ValueFullType})
	}
	if f.ListEntry != nil {
		le = encParts([]string{f.ListEntry.ElemType, f.ListEntry.ElemFullType})
	}
	var sb strings.Builder
	sb.WriteString("{")
	sb.WriteString(strings.Join([]string{encStr(f.Name), encStr(f.Type), encStr(f.FullType), encBool(f.Predefined), encStr(o.GetName()), encStr(o.GetKey()),
		itoa(int64(o.GetLayout())), span, renderProp(o.GetProp()), me, le}, "|"))
	sb.WriteString("|[")
	for _, s := range f.Fields {
		sb.WriteString(renderPField(s))
	}
	sb.WriteString("]}")
	if f.Number != 0 || f.Alias != "" || o.GetNote() != "" {
		sb.WriteString("EXTRA")
	}
	return sb.String()
}

type hcol struct{ name, typ string }

var c17Infos = []verifhook.ProtogenTypeInfo{
	{FullName: "protoconf.Item", Kind: 4, FirstFieldOptionName: "ID"},
	{FullName: "protoconf.FruitType", Kind: 1},
	{FullName: "protoconf.Shape", Kind: 4, FirstFieldOptionName: ""},
	{FullName: "other.pkg.Thing", Kind: 4, FirstFieldOptionName: "Kind"},
}

func encInfos(infos []verifhook.ProtogenTypeInfo) string {
	var parts []string
	for _, i := range infos {
		parts = append(parts, encStr(i.FullName)+":"+itoa(int64(i.Kind))+":"+encStr(i.FirstFieldOptionName))
	}
	return strings.Join(parts, ",")
}

type hgen struct {
	r      *rand.Rand
	seq    int
	nested bool
	plain  bool // documented input space only: no digits inside names, structural mutations only
}

var hWords = []string{"Alpha", "Beta", "Gamma", "Delta", "Item", "Reward", "Prop", "Hero", "Task", "Param", "Cost", "Lv", "Zone", "Kind", "Name", "ID", "Type", "Num", "Desc", "Attr"}
var hScalars = []string{"int32", "uint32", "int64", "uint64", "string", "bool", "float", "double", "bytes", "datetime", "date", "time", "duration", "fraction", "comparator", "sint32", "fixed64"}

func (g *hgen) word() string {
	g.seq++
	w := hWords[g.r.Intn(len(hWords))]
	k := g.r.Intn(12)
	if g.plain && k == 0 {
		k = 2
	}
	switch k {
	case 0:
		return w + itoa(int64(g.seq)) // a digit in the name (may contain "1"/"2")
	case 1:
		return w + hWords[g.r.Intn(len(hWords))] + string(rune('A'+g.seq%26))
	}
	return w + string(rune('A'+g.seq%26)) + string(rune('a'+(g.seq/26)%26))
}

func (g *hgen) prop(kind string) string {
	if g.r.Intn(3) != 0 {
		return ""
	}
	var cands []string
	switch kind {
	case "scalar":
		cands = []string{`range:"1,10"`, `refer:"ItemConf.ID"`, "optional:true", `default:"1"`, "present:true", `json_name:"jn"`, "unique:true", `range:"~,5" optional:true`, `range:"10"`, `range:"~"`, `range:"3" present:true`, `range:"1,2,3"`}
	case "map":
		cands = []string{"unique:true", "unique:false", "sequence:1", "fixed:true", "size:2", "optional:true", `sep:";"`, `range:"1,~"`, `json_name:"m"`, "present:true", "patch:PATCH_MERGE", `range:"3"`, `range:"~"`}
	case "list":
		cands = []string{"unique:true", "sequence:0", "fixed:true", "size:3", "optional:true", `sep:"|"`, `subsep:":"`, `range:"1,~"`, `refer:"A.B"`, "form:FORM_TEXT", "patch:PATCH_REPLACE", "fixed:false", `range:"3"`, `range:"~"`}
	default:
		cands = []string{"form:FORM_JSON", "form:FORM_TEXT", "optional:true", "present:true", `sep:","`, `json_name:"s"`, `range:"1,2"`, "unique:true", "patch:PATCH_MERGE"}
	}
	p := cands[g.r.Intn(len(cands))]
	sp := ""
	if g.r.Intn(4) == 0 {
		sp = " "
	}
	return sp + "|" + sp + "{" + p + "}"
}

func (g *hgen) scalarType() string {
	switch g.r.Intn(10) {
	case 0:
		return "enum<.FruitType>"
	case 1:
		return "enum<Fruit>"
	}
	return hScalars[g.r.Intn(len(hScalars))]
}

// fields generates the columns of a message body whose columns are prefixed with `prefix`.
func (g *hgen) fields(prefix string, depth, n int, last bool) []hcol {
	var cols []hcol
	for i := 0; i < n; i++ {
		isLast := last && i == n-1
		cols = append(cols, g.field(prefix, depth, isLast)...)
	}
	return cols
}

// stripProp removes a trailing ` | {..}` of a type cell (a wrapped first column carries the wrapper's prop)
func stripProp(t string) string {
	if i := strings.Index(t, "|"); i >= 0 {
		return strings.TrimRight(t[:i], " ")
	}
	return t
}

func (g *hgen) structName() string {
	return []string{"Item", "Reward", "Prop", "Hero", "Cost", "Attr"}[g.r.Intn(6)]
}

func (g *hgen) field(prefix string, depth int, last bool) []hcol {
	k := g.r.Intn(16)
	if depth <= 0 && k >= 6 && k != 12 && k != 13 {
		k = g.r.Intn(6)
	}
	switch k {
	default: // scalar
		return []hcol{{prefix + g.word(), g.scalarType() + g.prop("scalar")}}
	case 3: // incell list
		return []hcol{{prefix + g.word(), "[]" + g.scalarType() + g.prop("list")}}
	case 4: // incell map
		kt := []string{"int32", "uint32", "string", "int64", "enum<.FruitType>", "bool"}[g.r.Intn(6)]
		if g.r.Intn(3) == 0 {
			// one of the two separators set at field level, the other left to the sheet / book / default
			return []hcol{{prefix + g.word(), "map<" + kt + ", " + g.scalarType() + ">" + []string{`|{sep:";"}`, `|{subsep:"="}`, `|{sep:"|"}`}[g.r.Intn(3)]}}
		}
		return []hcol{{prefix + g.word(), "map<" + kt + ", " + g.scalarType() + ">" + g.prop("map")}}
	case 5: // incell struct / incell struct list / predefined incell struct
		switch g.r.Intn(4) {
		case 0:
			return []hcol{{prefix + g.word(), "{int32 ID, string Name}" + g.structName() + g.prop("struct")}}
		case 1:
			return []hcol{{prefix + g.word(), "[]{int32 ID, string Name}" + g.structName() + g.prop("list")}}
		case 2:
			return []hcol{{prefix + g.word(), "{.Item}" + g.prop("struct")}}
		default:
			return []hcol{{prefix + g.word(), "[]{.Item}" + g.prop("list")}}
		}
	case 6: // cross-cell struct
		sn := g.structName()
		varName := sn
		typ := "{" + sn + "}"
		if g.r.Intn(4) == 0 {
			varName = g.word()
			typ = "{" + sn + "(" + varName + ")}"
		}
		sub := g.fields(prefix+varName, depth-1, 1+g.r.Intn(3), false)
		sub[0].typ = typ + stripProp(sub[0].typ) + g.prop("struct")
		return sub
	case 7: // predefined cross-cell struct: first column must be <Var>ID
		varName := g.word()
		cols := []hcol{{prefix + varName + "ID", "{.Item}int32"}, {prefix + varName + "Num", "int32"}}
		return cols
	case 8, 9: // horizontal struct list / map
		name := g.word()
		sn := g.structName()
		cnt := 1 + g.r.Intn(3)
		var cols []hcol
		var first []hcol
		for e := 1; e <= cnt; e++ {
			p := prefix + name + itoa(int64(e))
			var sub []hcol
			if e == 1 {
				sub = g.fields(p, depth-1, 1+g.r.Intn(3), false)
				first = sub
				if k == 8 {
					pfx := "[" + sn + "]"
					if g.r.Intn(4) == 0 {
						pfx = "[" + sn + "]<"
						sub[0].typ = pfx + stripProp(sub[0].typ) + ">" + g.prop("list")
					} else if g.r.Intn(4) == 0 {
						sub[0].typ = pfx // the element type alone: no column type, no property
					} else {
						sub[0].typ = pfx + stripProp(sub[0].typ) + g.prop("list")
					}
				} else {
					sub[0] = hcol{sub[0].name, "map<uint32, " + sn + ">" + g.prop("map")}
				}
			} else {
				for j, c := range first {
					nm := p + strings.TrimPrefix(c.name, prefix+name+"1")
					t := c.typ
					if j == 0 {
						t = "uint32"
						if k == 8 {
							t = "int32"
						}
					}
					sub = append(sub, hcol{nm, t})
				}
			}
			cols = append(cols, sub...)
		}
		return cols
	case 10: // horizontal scalar list
		name := g.word()
		cnt := 1 + g.r.Intn(3)
		t := hScalars[g.r.Intn(6)]
		var cols []hcol
		for e := 1; e <= cnt; e++ {
			tt := t
			if e == 1 {
				tt = "[]" + t + g.prop("list")
			}
			cols = append(cols, hcol{prefix + name + itoa(int64(e)), tt})
		}
		return cols
	case 11: // horizontal incell-struct list
		name := g.word()
		cnt := 1 + g.r.Intn(3)
		var cols []hcol
		for e := 1; e <= cnt; e++ {
			tt := "{int32 ID, string Name}Pair"
			if e == 1 {
				tt = "[]" + tt + g.prop("list")
			}
			cols = append(cols, hcol{prefix + name + itoa(int64(e)), tt})
		}
		return cols
	case 12, 13: // vertical list / map: takes the remaining columns (or, in nested mode, the prefixed ones)
		if !last && !g.nested {
			return []hcol{{prefix + g.word(), g.scalarType()}}
		}
		sn := g.structName() + string(rune('A'+g.r.Intn(3)))
		p := prefix
		if g.nested {
			p = prefix + sn
		}
		sub := g.fields(p, depth-1, 1+g.r.Intn(3), true)
		if k == 12 {
			if g.r.Intn(3) == 0 {
				sub[0].typ = "[" + sn + "]<" + stripProp(sub[0].typ) + ">" + g.prop("list")
			} else if g.r.Intn(4) == 0 {
				sub[0].typ = "[" + sn + "]" // the element type alone
			} else {
				sub[0].typ = "[" + sn + "]" + stripProp(sub[0].typ) + g.prop("list")
			}
		} else {
			sub[0] = hcol{sub[0].name, "map<" + []string{"uint32", "string", "int64", "enum<.FruitType>"}[g.r.Intn(4)] + ", " + sn + ">" + g.prop("map")}
		}
		return sub
	case 14: // predefined list / map value
		if g.r.Intn(2) == 0 {
			return []hcol{{prefix + g.word(), "[.Item]int32"}}
		}
		return []hcol{{prefix + g.word() + "1ID", "map<int32, .Item>"}, {prefix + "Num", "int32"}}
	}
}

func (g *hgen) mutate(cols []hcol) []hcol {
	if len(cols) == 0 {
		return cols
	}
	i := g.r.Intn(len(cols))
	c := cols[i]
	junk := []string{"|{}", "|{unique:maybe}", "|{bogus:1}", "[", "]", "{", "}", "<", ">", ",", " ", "map<", "enum<", ".", "1", "2", "(", ")", "[]", "|{", "\n"}
	edit := func(s string) string {
		if len(s) == 0 {
			return junk[g.r.Intn(len(junk))]
		}
		p := g.r.Intn(len(s) + 1)
		switch g.r.Intn(3) {
		case 0:
			return s[:p] + junk[g.r.Intn(len(junk))] + s[p:]
		case 1:
			if p < len(s) {
				return s[:p] + s[p+1:]
			}
			return s[:len(s)-1]
		default:
			q := p + g.r.Intn(len(s)-p+1)
			return s[:p] + s[q:]
		}
	}
	kind := g.r.Intn(8)
	if g.plain {
		kind = []int{0, 1, 5, 6, 7}[g.r.Intn(5)]
	}
	switch kind {
	case 0:
		c.name = ""
	case 1:
		c.typ = ""
	case 2:
		c.name = edit(c.name)
	case 3, 4:
		c.typ = edit(c.typ)
	case 5:
		c.name = cols[g.r.Intn(len(cols))].name // duplicate
	case 6: // drop the column
		return append(append([]hcol{}, cols[:i]...), cols[i+1:]...)
	case 7: // insert a blank column
		out := append([]hcol{}, cols[:i]...)
		out = append(out, hcol{"", ""})
		return append(out, cols[i:]...)
	}
	out := append([]hcol{}, cols...)
	out[i] = c
	return out
}

func genHeader(r *rand.Rand, plain ...bool) (nested bool, names, types []string) {
	g := &hgen{r: r, nested: r.Intn(4) == 0, plain: len(plain) > 0 && plain[0]}
	cols := g.fields("", 2, 1+r.Intn(5), true)
	for m := r.Intn(3); m > 0 && r.Intn(2) == 0; m-- {
		cols = g.mutate(cols)
	}
	for _, c := range cols {
		names = append(names, c.name)
		types = append(types, c.typ)
	}
	// trailing blanks / ragged rows
	switch r.Intn(8) {
	case 0:
		names = append(names, "")
	case 1:
		types = append(types, "", "")
	case 2:
		if len(types) > 1 {
			types = types[:len(types)-1]
		}
	}
	return g.nested, names, types
}

func init() {
	regStream("corr.protogen.parseHeader", func(r *rand.Rand, n int, emit func(string, ...string)) {
		for i := 0; i < n; i++ {
			nested, names, types := genHeader(r)
			emit("pg.header", encStr("protoconf"), encInfos(c17Infos), encBool(nested), encParts(names), encParts(types))
		}
	})
	regImpl("pg.header", func(a []string) string {
		names, types := decParts(a[3]), decParts(a[4])
		// the importer hands cells through ExtractFromCell(line 0) = trimmed, newlines removed
		fields, cur, err := verifhook.ParseHeader(mustStr(a[0]), c17Infos, names, types, a[2] == "1")
		if err != nil {
			// the cursor is what protogen's error reports as NameCellPos / TypeCellPos
			return "err " + strconv.Itoa(cur)
		}
		var sb strings.Builder
		sb.WriteString("ok ")
		for _, f := range fields {
			sb.WriteString(renderPField(f))
		}
		return sb.String()
	})
}

// genCorruptHeader: a header that is valid by construction with exactly one column spoilt (its type cell's
// property text made unparsable, or its name cell repeating an earlier name); k is that column.
func genCorruptHeader(r *rand.Rand) (nested bool, names, types []string, k int) {
	g := &hgen{r: r, nested: r.Intn(4) == 0}
	var cols []hcol
	for {
		cols = g.fields("", 2, 1+r.Intn(5), true)
		names, types = nil, nil
		for _, c := range cols {
			names = append(names, c.name)
			types = append(types, c.typ)
		}
		// "valid by construction" is settled by protogen itself: the unspoilt header is accepted
		if _, _, err := verifhook.ParseHeader("protoconf", c17Infos, names, types, g.nested); err == nil {
			break
		}
	}
	k = r.Intn(len(cols))
	if r.Intn(4) == 0 && k > 0 {
		j := r.Intn(k)
		if names[j] != "" && names[k] != "" {
			names[k] = names[j]
			return g.nested, names, types, k
		}
	}
	bad := []string{"|{bogus:1}", "|{unique:true unique:true}", `|{sep:"," nosuch:2}`}[r.Intn(3)]
	if i := strings.Index(types[k], "|"); i >= 0 {
		types[k] = types[k][:i] + bad
	} else {
		types[k] += bad
	}
	return g.nested, names, types, k
}

func init() {
	// spec.C07.headerPos: protogen names the spoilt header column (the cursor wrapDebugErr turns into
	// NameCellPos / TypeCellPos), at any nesting depth
	regStream("spec.C07.headerPos", func(r *rand.Rand, n int, emit func(string, ...string)) {
		for i := 0; i < n; i++ {
			nested, names, types, k := genCorruptHeader(r)
			emit("pg.errpos", encStr("protoconf"), encInfos(c17Infos), encBool(nested), encParts(names), encParts(types), strconv.Itoa(k))
		}
	})
	// spec.C07.headerPosE2E: the same spoilt headers through the real GenProto on a CSV workbook (the positions the
	// user reads: NameCellPos / TypeCellPos of the rendered error)
	regStream("spec.C07.headerPosE2E", func(r *rand.Rand, n int, emit func(string, ...string)) {
		for i := 0; i < n; i++ {
			nested, names, types, k := genCorruptHeader(r)
			emit("pg.e2epos", encStr("protoconf"), encInfos(c17Infos), encBool(nested), encParts(names), encParts(types), strconv.Itoa(k))
		}
	})
	regImpl("pg.e2epos", func(a []string) string {
		names, types := decParts(a[3]), decParts(a[4])
		for _, t := range types {
			if strings.Contains(t, ".") {
				return "skip"
			}
		}
		w := newWorkspace()
		defer w.cleanup()
		notes := make([]string, len(names))
		for len(types) < len(names) {
			types = append(types, "")
		}
		// every third case: the same header on a TRANSPOSED sheet (fields run down the rows: the name cells are column
		// A, the type cells column B, the field's index is the row)
		transposed := mustInt(a[5])%3 == 2 && len(types) == len(names)
		meta := map[string]string{"Nested": map[bool]string{true: "true", false: "false"}[a[2] == "1"]}
		rows := [][]string{names, types, notes}
		if transposed {
			rows = transposeRows(rows)
			meta["Transpose"] = "true"
		}
		w.writeCSVBook("", bookSpec{Name: "Book", Sheets: []sheetSpec{{Name: "HeroConf", Rows: rows, Meta: meta}}})
		err := w.genProto(runOpts{})
		if err == nil {
			return "ok"
		}
		d := xerrors.NewDesc(err)
		np, _ := d.GetValue(xerrors.KeyNameCellPos).(string)
		tp, _ := d.GetValue(xerrors.KeyTypeCellPos).(string)
		col := func(pos string, row string) (int, bool) {
			if !strings.HasSuffix(pos, row) {
				return 0, false
			}
			letters := strings.TrimSuffix(pos, row)
			if letters == "" {
				return 0, false
			}
			n := 0
			for _, c := range letters {
				if c < 'A' || c > 'Z' {
					return 0, false
				}
				n = n*26 + int(c-'A'+1)
			}
			return n - 1, true
		}
		if np == "" && tp == "" {
			return "ok" // not a header rejection: the header parser accepted, a later stage of protogen refused the workbook
		}
		if transposed {
			// "A<n>" and "B<n>": the field's index is n-1
			if !strings.HasPrefix(np, "A") || !strings.HasPrefix(tp, "B") {
				return "err ?"
			}
			n1, e1 := strconv.Atoi(np[1:])
			n2, e2 := strconv.Atoi(tp[1:])
			if e1 != nil || e2 != nil {
				return "err ?"
			}
			if n1 != n2 {
				return "err name-and-type-cells-differ"
			}
			return "err " + strconv.Itoa(n1-1)
		}
		c1, ok1 := col(np, "1")
		c2, ok2 := col(tp, "2")
		if !ok1 || !ok2 {
			return "err ?"
		}
		if c1 != c2 {
			return "err name-and-type-cells-differ"
		}
		return "err " + strconv.Itoa(c1)
	})
	regImpl("pg.errpos", func(a []string) string {
		names, types := decParts(a[3]), decParts(a[4])
		_, cur, err := verifhook.ParseHeader(mustStr(a[0]), c17Infos, names, types, a[2] == "1")
		if err != nil {
			return "err " + strconv.Itoa(cur)
		}
		return "ok"
	})
}

func decParts(s string) []string {
	if s == "" {
		return nil
	}
	var out []string
	for _, t := range strings.Split(s, ",") {
		out = append(out, mustStr(t))
	}
	return out
}

// --- e2e.C17.nopanic: whole-tool totality -----------------------------------------------------------

var fuzzJunk = []string{"", " ", "abc", "-1", "1.5", "1,", ",", ":", "1:", "1:2:3", "{}", "}", "nan", "Inf", "99999999999999999999", "\n", "é", "0", "1", "2", "true", "x,y", "1:a,2:b", "1,2,3",
	"2024-01-02 03:04:05", "2024-13-45", "1h2m", "3/4", "1/0", ">=1.2", "==", "1,abc", "abc,1", `{"id":1}`, "id:1", "|", "1|2", ";", "1;2", "a:1;b:2", "  7  ", "１"}

func fuzzCell(r *rand.Rand, typ string) string {
	if r.Intn(5) < 2 {
		return fuzzJunk[r.Intn(len(fuzzJunk))]
	}
	t := strings.ToLower(typ)
	switch {
	case strings.Contains(t, "map<"):
		// (blank items between separators too: "1:a;;2:b", a cell that is only a separator)
		return []string{"1:2", "1:a,2:b", "a:1", "1:1,1:2", "", "1:", ":1", "1:2:3", "1:a;;2:b", "7:x;", ";", "1:a,,2:b", ",", "1:a|2:b||"}[r.Intn(14)]
	case strings.HasPrefix(t, "[]{") || strings.Contains(t, "}"):
		return []string{"1,a", "1,a,2,b", "1", "", "1,", ",a", "1:a,2:b", "1,a;2,b"}[r.Intn(8)]
	case strings.HasPrefix(t, "["):
		return []string{"1,2,3", "1", "", "a,b", "1,,3", ",", "1,2,"}[r.Intn(7)]
	case strings.Contains(t, "datetime") || strings.Contains(t, "date"):
		return []string{"2024-01-02 03:04:05", "2024-01-02", "20240102", "", "2024-02-30", "x"}[r.Intn(6)]
	case strings.Contains(t, "duration") || strings.Contains(t, "time"):
		return []string{"1h2m3s", "12:30:00", "5s", "", "x", "1.5h"}[r.Intn(6)]
	case strings.Contains(t, "fraction"):
		return []string{"1/2", "10%", "3‰", "0.5", "", "1/0", "x"}[r.Intn(7)]
	case strings.Contains(t, "comparator"):
		return []string{">=1/2", "<10%", "==3", "", ">", "x"}[r.Intn(6)]
	case strings.Contains(t, "string") || strings.Contains(t, "bytes"):
		return []string{"abc", "", "a,b", "é", " x "}[r.Intn(5)]
	case strings.Contains(t, "bool"):
		return []string{"true", "false", "1", "0", "", "yes"}[r.Intn(6)]
	case strings.Contains(t, "enum"):
		return []string{"0", "1", "FRUIT_TYPE_APPLE", "Apple", "", "99", "x"}[r.Intn(7)]
	}
	return []string{"1", "2", "3", "0", "-5", "", "4294967296", "1.0", "x"}[r.Intn(9)]
}

func fuzzMeta(r *rand.Rand, nested bool) map[string]string {
	m := map[string]string{}
	if nested {
		m["Nested"] = "true"
	}
	pick := func(k string, vals ...string) {
		if r.Intn(6) == 0 {
			m[k] = vals[r.Intn(len(vals))]
		}
	}
	pick("Transpose", "true", "false", "x")
	pick("Sep", ",", ";", "|", ":", " ", "ab")
	pick("Subsep", ":", ",", "=", "")
	pick("OrderedMap", "true")
	pick("Index", "ID", "ID@X", "(ID,Name)@K", "Nope", "ID<Name>", "(", ",")
	pick("AdjacentKey", "true")
	pick("FieldPresence", "true")
	pick("Optional", "true")
	pick("Patch", "PATCH_MERGE", "PATCH_REPLACE", "x")
	pick("Mode", "MODE_DEFAULT", "MODE_ENUM_TYPE", "MODE_STRUCT_TYPE", "MODE_UNION_TYPE", "MODE_ENUM_TYPE_MULTI", "MODE_STRUCT_TYPE_MULTI", "MODE_UNION_TYPE_MULTI", "x", "MODE_UE_CSV")
	pick("Namerow", "1", "2", "0", "-1", "99", "x")
	pick("Typerow", "2", "1", "0", "3", "99")
	pick("Noterow", "3", "0", "1")
	pick("Datarow", "4", "1", "2", "0", "99")
	pick("Nameline", "1", "2", "0", "-1")
	pick("Typeline", "1", "2", "9")
	pick("Alias", "Renamed", "1x", "", "a b")
	pick("Merger", "Nope*.csv", "Fuzz#*", "#", "[")
	pick("Scatter", "Nope*.csv", "Fuzz#*", "[")
	pick("Labels", "a,b", "x")
	pick("Template", "true")
	pick("WithParentDir", "true")
	pick("ScatterWithoutBookName", "true")
	pick("LangOptions", "a:b", "x")
	return m
}

func init() {
	regStream("e2e.C17.nopanic", func(r *rand.Rand, n int, emit func(string, ...string)) {
		for i := 0; i < n; i++ {
			if i%16 == 7 {
				// union value fields spanning several columns (cross:N, -1 = all the remaining ones) on optional sheets
				emit("c17.cross", []string{"-1", "2", "3", "-1"}[r.Intn(4)], []string{"", "true"}[r.Intn(2)], strconv.Itoa(r.Intn(4)))
				continue
			}
			emit("c17.fuzz", itoa(r.Int63n(1<<40)))
		}
	})
	// c17.cross <cross count> <sheet Optional> <value cells present>: D47 (fixed): cross:-1 on an optional sheet never returned
	regImpl("c17.cross", func(a []string) string {
		w := newWorkspace()
		nvals := int(mustInt(a[2]))
		row := []string{"1", "AliasKey", "7"}
		for k := 0; k < 3; k++ {
			if k < nvals {
				row = append(row, strconv.Itoa(10*(k+1)))
			} else {
				row = append(row, "")
			}
		}
		w.writeCSVBook("", bookSpec{Name: "U", Sheets: []sheetSpec{
			{Name: "Target", Meta: map[string]string{"Mode": "MODE_UNION_TYPE"}, Rows: [][]string{{"Name", "Alias", "Field1", "Field2"}, {"Key", "AliasKey", "ID\nuint32", "Values\n[]int32|{cross:" + a[0] + "}"}}},
			{Name: "TaskConf", Meta: map[string]string{"Optional": a[1]}, Rows: [][]string{{"ID", "TargetType", "TargetField1", "TargetField2", "TargetField3", "TargetField4"},
				{"map<uint32, Task>", "{.Target}enum<.Target.Type>", "union", "union", "union", "union"}, {"id", "type", "f1", "f2", "f3", "f4"}, row}},
		}})
		done := make(chan string, 1)
		go func() {
			defer func() {
				if p := recover(); p != nil {
					done <- "PANIC " + encStr(fmt.Sprint(p))
				}
			}()
			ro := runOpts{}
			if err := w.genProto(ro); err != nil {
				done <- "returned"
				return
			}
			_ = w.genConf(ro)
			done <- "returned"
		}()
		select {
		case s := <-done:
			w.cleanup()
			return s
		case <-time.After(10 * time.Second):
			return "HANG"
		}
	})
	regImpl("c17.fuzz", func(a []string) string {
		r := rand.New(rand.NewSource(mustInt(a[0])))
		nested, names, types := genHeader(r)
		w := newWorkspace()
		ncol := len(names)
		if len(types) > ncol {
			ncol = len(types)
		}
		note := make([]string, ncol)
		rows := [][]string{names, types, note}
		for d := r.Intn(5); d > 0; d-- {
			row := make([]string, ncol)
			for c := 0; c < ncol; c++ {
				t := ""
				if c < len(types) {
					t = types[c]
				}
				row[c] = fuzzCell(r, t)
			}
			rows = append(rows, row)
		}
		meta := fuzzMeta(r, nested)
		var bookMeta map[string]string
		if r.Intn(6) == 0 {
			bookMeta = fuzzMeta(r, false)
		}
		// a predefined enum and struct the headers refer to
		w.writeCSVBook("", bookSpec{Name: "Base", Sheets: []sheetSpec{
			{Name: "FruitType", Rows: [][]string{{"Number", "Name", "Alias"}, {"1", "FRUIT_TYPE_APPLE", "Apple"}, {"2", "FRUIT_TYPE_PEAR", "Pear"}}, Meta: map[string]string{"Mode": "MODE_ENUM_TYPE"}},
			{Name: "Item", Rows: [][]string{{"Name", "Type"}, {"ID", "int32"}, {"Num", "int32"}}, Meta: map[string]string{"Mode": "MODE_STRUCT_TYPE"}},
		}})
		w.writeCSVBook("", bookSpec{Name: "Fuzz", Sheets: []sheetSpec{{Name: "FuzzConf", Rows: rows, Meta: meta}}, BookMeta: bookMeta})
		if r.Intn(3) == 0 {
			// a sheet of several type blocks (the *_TYPE_MULTI modes): a block = name row, header row, member rows, blank
			// row; the name row is varied (name in the first cell with or without a note, indented, alone, blank)
			mode := []string{"MODE_ENUM_TYPE_MULTI", "MODE_STRUCT_TYPE_MULTI", "MODE_UNION_TYPE_MULTI"}[r.Intn(3)]
			var trows [][]string
			for b := 0; b < 1+r.Intn(3); b++ {
				name := "T" + strconv.Itoa(b) + []string{"Kind", "Type", "Target"}[r.Intn(3)]
				nameRow := [][]string{{name, "note"}, {name}, {"", name}, {"", "", name}, {name, ""}, {"", ""}, {" " + name}, {"", name, "note"}}[r.Intn(8)]
				trows = append(trows, nameRow)
				switch mode {
				case "MODE_ENUM_TYPE_MULTI":
					trows = append(trows, []string{"Number", "Name", "Alias"}, []string{"1", "K" + strconv.Itoa(b) + "_A", "A"}, []string{"2", "K" + strconv.Itoa(b) + "_B", "B"})
				case "MODE_STRUCT_TYPE_MULTI":
					trows = append(trows, []string{"Name", "Type"}, []string{"ID", "uint32"}, []string{"Num", fuzzJunk[r.Intn(len(fuzzJunk))]})
				default:
					trows = append(trows, []string{"Name", "Alias", "Field1", "Field2"}, []string{"Pvp", "AliasPvp", "ID\nuint32", "Dmg\nint64"}, []string{"Pve", "AliasPve", "Hero\n[]uint32", ""})
				}
				for k := r.Intn(3); k > 0; k-- {
					trows = append(trows, []string{"", ""})
				}
			}
			w.writeCSVBook("", bookSpec{Name: "Types", Sheets: []sheetSpec{{Name: "TypeBlocks", Rows: trows, Meta: map[string]string{"Mode": mode}}}})
		}
		done := make(chan string, 1)
		go func() {
			defer func() {
				if p := recover(); p != nil {
					done <- "PANIC " + encStr(fmt.Sprint(p))
				}
			}()
			ro := runOpts{}
			if err := w.genProto(ro); err != nil {
				done <- "returned"
				return
			}
			_ = w.genConf(ro)
			done <- "returned"
		}()
		select {
		case s := <-done:
			w.cleanup()
			return s
		case <-time.After(10 * time.Second):
			return "HANG"
		}
	})

	// e2e.C17.sepCells: in-cell aggregates whose field property sets ONE of the two separators (the other comes from the
	// sheet, the book or the default) × cells with blank items, lone separators, separators of the other level: whatever
	// the cell says, the conversion returns (a result or an error).   c17.sepcell <type index> <cell index> <sheet sep index>
	regStream("e2e.C17.sepCells", func(r *rand.Rand, n int, emit func(string, ...string)) {
		for i := 0; i < n; i++ {
			emit("c17.sepcell", strconv.Itoa(i%len(c17SepTypes)), strconv.Itoa(r.Intn(len(c17SepCells))), strconv.Itoa(r.Intn(3)))
		}
	})
	regImpl("c17.sepcell", func(a []string) string {
		typ, cell := c17SepTypes[mustInt(a[0])], c17SepCells[mustInt(a[1])]
		meta := map[string]string{}
		switch a[2] {
		case "1":
			meta["Sep"] = "|"
		case "2":
			meta["Subsep"] = "="
		}
		w := newWorkspace()
		w.writeCSVBook("", bookSpec{Name: "Book", Sheets: []sheetSpec{{Name: "CellConf", Meta: meta,
			Rows: [][]string{{"ID", "Data"}, {"map<uint32, Item>", typ}, {"id", "data"}, {"1", cell}, {"2", ""}, {"3", cell}}}}})
		done := make(chan string, 1)
		go func() {
			defer func() {
				if p := recover(); p != nil {
					done <- "PANIC " + encStr(fmt.Sprint(p))
				}
			}()
			ro := runOpts{}
			if err := w.genProto(ro); err != nil {
				done <- "returned"
				return
			}
			_ = w.genConf(ro)
			done <- "returned"
		}()
		select {
		case s := <-done:
			w.cleanup()
			return s
		case <-time.After(10 * time.Second):
			return "HANG"
		}
	})
}

var c17SepTypes = []string{`map<int32, string>|{sep:";"}`, `map<int32, string>|{subsep:"="}`, `[]int32|{sep:";"}`, `[]{int32 ID, string Name}Item|{sep:";"}`,
	`[]{int32 ID, string Name}Item|{subsep:"="}`, `map<string, int32>|{sep:"|"}`, `{int32 ID, string Name}Pair|{sep:";"}`, `map<int32, string>`, `map<uint32, int32>|{sep:";" subsep:"="}`,
	`[]string|{subsep:":"}`, `map<enum<.FruitType>, int32>|{sep:";"}`}

var c17SepCells = []string{"1:a;;2:b", "7:x;", ";", "", "1:a", "1=a,2=b", ",", "1;2;;3", "1:a|2:b||", ";;", "1,a;2,b", "=", ":", "1:a,,2:b", ";1:a", "1:;2:", "|", "1=a;2=b;", " ; ", "Apple:1;;Pear:2"}
