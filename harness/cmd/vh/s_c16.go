package main

import (
	"crypto/sha256"
	"encoding/hex"
	"fmt"
	"math/rand"
	"os"
	"os/exec"
	"path/filepath"
	"strings"

	"github.com/tableauio/tableau"
	"github.com/tableauio/tableau/format"
	"github.com/tableauio/tableau/options"
	"github.com/tableauio/tableau/xerrors"
)

// The pool of API calls for the history stream. All calls reuse the same package, workbook, sheet, enum and
// column names on DIFFERENT inputs.
//
//	A: Kind{Alpha=1,Beta=2}; ItemConf ids 1,2 (kinds Alpha,Beta); RewardConf refers to ItemConf.ID with 1,2
//	B: Kind{Beta=1,Alpha=2} (aliases swapped); ItemConf ids 5,6; RewardConf refers with 5,6
//	C: like A but RewardConf refers to a column that does not exist (the load of the value space fails)
//	D: like A but with a custom metasheet name "@META"
//	E: like B, language zh
//	F: like A, but RewardConf refers to an item that does not exist (E2002), language en
//	G: like B, with the same defect (E2002), language zh
//	H: like A plus a column K8sNodeName, acronym table {K8s: k8s}
//	I: like A plus the same column, acronym table {K8s: kube} (the same pattern, another replacement)
//	J: another workbook (Shop) whose last column is an in-cell struct ({int32 Gold,int32 Gem}Price)
//	L: GenProto with a custom metasheet name, failing in the first pass (a listed sheet does not exist)
//	M: like A plus a column Num "int32|{default:"1" range:"0,100"}" with blank cells
//	N: like B plus the same column with other props ({default:"5" range:"0,1000"}), blank cells and a value 500
//	O: like F (E2002), with the language option given as the empty string (whatever that means, it means the same
//	   after any history)
//	P: another ItemConf (same package, sheet, map and column names) whose map value nests a vertical list, with a key
//	   repeated over two rows (legal: the rows aggregate)
//	Q: the same names with a scalar-only map value and the same repeated key (E2005: uniqueness is deduced)
//	K: GenConf on a hand-written proto file whose messages carry no (tableau.field) options at all (a plain string
//	   field and a plain cross-cell struct field), same package
func c16Call(name string, w *workspace) string {
	confOpts := func(lang string) []options.Option {
		co := &options.ConfOption{
			Input:  &options.ConfInputOption{ProtoPaths: []string{w.Proto}, ProtoFiles: []string{filepath.Join(w.Proto, "*.proto")}, Formats: []format.Format{format.CSV}},
			Output: &options.ConfOutputOption{Formats: []format.Format{format.JSON}},
		}
		return []options.Option{options.Conf(co), options.Log(quietLog), options.Lang(lang), options.LocationName("UTC")}
	}
	outcome := func(err error) string {
		if err != nil {
			text := strings.ReplaceAll(xerrors.NewDesc(err).String(), w.Root, "<ROOT>")
			sum := sha256.Sum256([]byte(text))
			return "conferr " + errCode(err) + " text=" + hex.EncodeToString(sum[:6])
		}
		return "ok " + snapString(snapshot(w.Proto)) + "|" + snapString(snapshot(w.Conf))
	}
	switch name {
	case "L":
		// GenProto with a custom metasheet name that FAILS early (the metasheet lists a sheet the workbook lacks)
		writeCSV(filepath.Join(w.In, "Game#ItemConf.csv"), [][]string{{"ID", "Name"}, {"map<uint32, Item>", "string"}, {"id", "name"}, {"1", "a"}})
		writeCSV(filepath.Join(w.In, "Game#@META.csv"), [][]string{{"Sheet"}, {"ItemConf"}, {"Ghost"}})
		po := &options.ProtoOption{
			Input:  &options.ProtoInputOption{ProtoPaths: []string{w.Proto}, Formats: []format.Format{format.CSV}, MetasheetName: "@META"},
			Output: &options.ProtoOutputOption{},
		}
		if err := tableau.GenProto("protoconf", w.In, w.Proto, options.Proto(po), options.Log(quietLog)); err != nil {
			return "protoerr " + errCode(err)
		}
		return "ok " + snapString(snapshot(w.Proto))
	case "P", "Q":
		rows := [][]string{{"ID", "Name", "PropID"}, {"map<uint32, Item>", "string", "[Prop]uint32"}, {"id", "name", "prop"}, {"1", "a", "10"}, {"1", "a", "11"}, {"2", "b", "20"}}
		if name == "Q" {
			rows = [][]string{{"ID", "Name", "PropID"}, {"map<uint32, Item>", "string", "uint32"}, {"id", "name", "prop"}, {"1", "a", "10"}, {"1", "a", "11"}, {"2", "b", "20"}}
		}
		w.writeCSVBook("", bookSpec{Name: "Game", Sheets: []sheetSpec{{Name: "ItemConf", Rows: rows}}})
		if err := w.genProto(runOpts{}); err != nil {
			return "protoerr " + errCode(err)
		}
		return outcome(tableau.GenConf("protoconf", w.In, w.Conf, confOpts("en")...))
	case "J":
		w.writeCSVBook("", bookSpec{Name: "Shop", Sheets: []sheetSpec{{Name: "ItemConf", Rows: [][]string{{"ID", "Name", "Price"},
			{"map<uint32, Item>", "string", "{int32 Gold,int32 Gem}Price"}, {"id", "name", "price"}, {"1", "Sword", "10,2"}, {"2", "Shield", "7,1"}, {"3", "Bow", "4,4"}}}}})
		if err := w.genProto(runOpts{}); err != nil {
			return "protoerr " + errCode(err)
		}
		return outcome(tableau.GenConf("protoconf", w.In, w.Conf, confOpts("en")...))
	case "K":
		proto := "syntax = \"proto3\";\npackage protoconf;\nimport \"tableau/protobuf/tableau.proto\";\noption (tableau.workbook) = {name:\"Server#*.csv\"};\n\n" +
			"message ServerConf {\n  option (tableau.worksheet) = {name:\"ServerConf\"};\n  string name = 1;\n  Limits limits = 2;\n}\n\n" +
			"message Limits {\n  int32 max_players = 1;\n  int32 max_rooms = 2;\n}\n"
		if err := os.WriteFile(filepath.Join(w.Proto, "server.proto"), []byte(proto), 0o644); err != nil {
			panic(err)
		}
		writeCSV(filepath.Join(w.In, "Server#ServerConf.csv"), [][]string{{"Name", "LimitsMaxPlayers", "LimitsMaxRooms"}, {"string", "int32", "int32"}, {"n", "p", "r"}, {"alpha", "100", "8"}})
		return outcome(tableau.GenConf("protoconf", w.In, w.Conf, confOpts("en")...))
	}
	kind := [][]string{{"Name", "Alias"}, {"KIND_X", "Alpha"}, {"KIND_Y", "Beta"}}
	ids := []string{"1", "2"}
	refer := "ItemConf.ID"
	lang := "en"
	metasheet := ""
	badRef := false
	numProp, numCells := "", []string(nil)
	var acronyms map[string]string
	switch name {
	case "H":
		acronyms = map[string]string{"K8s": "k8s"}
	case "I":
		acronyms = map[string]string{"K8s": "kube"}
	}
	switch name {
	case "B", "E":
		kind = [][]string{{"Name", "Alias"}, {"KIND_P", "Beta"}, {"KIND_Q", "Alpha"}}
		ids = []string{"5", "6"}
		if name == "E" {
			lang = "zh"
		}
	case "F":
		badRef = true
	case "O":
		badRef = true
		lang = ""
	case "G":
		kind = [][]string{{"Name", "Alias"}, {"KIND_P", "Beta"}, {"KIND_Q", "Alpha"}}
		ids = []string{"5", "6"}
		lang = "zh"
		badRef = true
	case "M":
		numProp, numCells = `int32|{default:"1" range:"0,100"}`, []string{"", "20"}
	case "N":
		kind = [][]string{{"Name", "Alias"}, {"KIND_P", "Beta"}, {"KIND_Q", "Alpha"}}
		ids = []string{"5", "6"}
		numProp, numCells = `int32|{default:"5" range:"0,1000"}`, []string{"", "500"}
	case "C":
		refer = "ItemConf.NoSuchColumn"
	case "D":
		metasheet = "@META"
	}
	item := [][]string{{"ID", "Kind"}, {"map<uint32, Item>", "enum<.Kind>"}, {"id", "kind"}, {ids[0], "Alpha"}, {ids[1], "Beta"}}
	reward := [][]string{{"ID", "ItemID"}, {"map<uint32, Reward>", "uint32|{refer:\"" + refer + "\"}"}, {"id", "item"}, {"1", ids[0]}, {"2", ids[1]}}
	if badRef {
		reward = append(reward, []string{"3", "77"})
	}
	if acronyms != nil {
		item[0] = append(item[0], "K8sNodeName")
		item[1] = append(item[1], "string")
		item[2] = append(item[2], "node")
		item[3] = append(item[3], "n1")
		item[4] = append(item[4], "n2")
	}
	if numProp != "" {
		item[0] = append(item[0], "Num")
		item[1] = append(item[1], numProp)
		item[2] = append(item[2], "num")
		item[3] = append(item[3], numCells[0])
		item[4] = append(item[4], numCells[1])
		item = append(item, []string{"9", "Alpha", ""})
	}
	msName := "@TABLEAU"
	if metasheet != "" {
		msName = metasheet
	}
	dir := w.In
	writeCSV(filepath.Join(dir, "Game#Kind.csv"), kind)
	writeCSV(filepath.Join(dir, "Game#ItemConf.csv"), item)
	writeCSV(filepath.Join(dir, "Game#RewardConf.csv"), reward)
	writeCSV(filepath.Join(dir, "Game#"+msName+".csv"), [][]string{{"Sheet", "Mode"}, {"Kind", "MODE_ENUM_TYPE"}, {"ItemConf", ""}, {"RewardConf", ""}})
	// an XML workbook next to the CSV one (its schema comment is found through the metasheet name)
	xmlDoc := "<?xml version=\"1.0\" encoding=\"UTF-8\" ?>\n<!--\n<" + msName + ">\n    <Item Sheet=\"DocConf\" />\n</" + msName + ">\n\n<DocConf>\n    <Item ID=\"{Item}uint32\" Num=\"int32\"/>\n</DocConf>\n-->\n\n<DocConf>\n    <Item ID=\"" + ids[0] + "\" Num=\"5\"/>\n</DocConf>\n"
	if err := os.WriteFile(filepath.Join(dir, "Doc.xml"), []byte(xmlDoc), 0o644); err != nil {
		panic(err)
	}
	po := &options.ProtoOption{
		Input:  &options.ProtoInputOption{ProtoPaths: []string{w.Proto}, Formats: []format.Format{format.CSV, format.XML}, MetasheetName: metasheet, Header: &options.HeaderOption{NameRow: 1, TypeRow: 2, NoteRow: 3, DataRow: 4, Sep: ",", Subsep: ":"}},
		Output: &options.ProtoOutputOption{},
	}
	protoSetters := []options.Option{options.Proto(po), options.Log(quietLog), options.Lang(lang)}
	if acronyms != nil {
		protoSetters = append(protoSetters, options.Acronyms(acronyms))
	}
	if err := tableau.GenProto("protoconf", w.In, w.Proto, protoSetters...); err != nil {
		return "protoerr " + errCode(err)
	}
	co := &options.ConfOption{
		Input:  &options.ConfInputOption{ProtoPaths: []string{w.Proto}, ProtoFiles: []string{filepath.Join(w.Proto, "*.proto")}, Formats: []format.Format{format.CSV, format.XML}},
		Output: &options.ConfOutputOption{Formats: []format.Format{format.JSON}},
	}
	if err := tableau.GenConf("protoconf", w.In, w.Conf, options.Conf(co), options.Log(quietLog), options.Lang(lang), options.LocationName("UTC")); err != nil {
		// which partial outputs exist after a failed run is not specified; the rendered error is part of the outcome
		text := strings.ReplaceAll(xerrors.NewDesc(err).String(), w.Root, "<ROOT>")
		sum := sha256.Sum256([]byte(text))
		return "conferr " + errCode(err) + " text=" + hex.EncodeToString(sum[:6])
	}
	return "ok " + snapString(snapshot(w.Proto)) + "|" + snapString(snapshot(w.Conf))
}

// runC16Child: `vh c16child A B …` runs the calls in ONE process, printing one outcome line per call.
func runC16Child(calls []string) {
	for _, c := range calls {
		w := newWorkspace()
		fmt.Println(c16Call(c, w))
		w.cleanup()
	}
}

func childOutcome(calls []string) string {
	cmd := exec.Command(os.Args[0], append([]string{"c16child"}, calls...)...)
	cmd.Env = os.Environ()
	out, err := cmd.Output()
	lines := strings.Split(strings.TrimSpace(string(out)), "\n")
	if err != nil || len(lines) != len(calls) {
		return "CHILD-FAILED"
	}
	return lines[len(lines)-1]
}

func init() {
	// e2e.C16.history: every history of ≤ 3 calls from the pool; the LAST call's outcome (files written, error)
	// in a process that ran the whole history vs. in a fresh process.
	regStream("e2e.C16.history", func(r *rand.Rand, n int, emit func(string, ...string)) {
		pool := []string{"A", "B", "C", "D", "E", "F", "G", "H", "I", "J", "K", "L", "M", "N", "O", "P", "Q"}
		count := 0
		for _, a := range pool {
			for _, b := range pool {
				emit("c16.hist", a, b)
				count++
			}
		}
		// pooled objects are per-P and survive only until the next GC: histories around the option-less proto (K)
		// are repeated, so that a recycled object carrying stale members is met with high probability
		for _, h := range [][]string{{"J", "K"}, {"J", "J", "K"}, {"A", "J", "K"}, {"J", "K", "K"}, {"J", "B", "K"}, {"J", "K"}} {
			emit("c16.hist", h...)
			count++
		}
		for count < n {
			emit("c16.hist", pool[r.Intn(len(pool))], pool[r.Intn(len(pool))], pool[r.Intn(len(pool))])
			count++
		}
	})
	regImpl("c16.hist", func(a []string) string {
		last := childOutcome(a)
		fresh := childOutcome(a[len(a)-1:])
		if last == "CHILD-FAILED" || fresh == "CHILD-FAILED" {
			return "CHILD-FAILED"
		}
		if last == fresh {
			return "same"
		}
		short := func(x string) string {
			if len(x) > 60 {
				return x[:60]
			}
			return x
		}
		return "differ after-history=[" + short(last) + "] fresh=[" + short(fresh) + "]"
	})
}
