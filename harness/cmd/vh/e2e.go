package main

import (
	"fmt"
	"os"
)

// e2e runners, by name
var e2es = map[string]func(args []string) int{}

func runE2E(args []string) {
	if len(args) < 1 {
		fmt.Fprintln(os.Stderr, "usage: vh e2e <name> …")
		os.Exit(2)
	}
	f, ok := e2es[args[0]]
	if !ok {
		fmt.Fprintln(os.Stderr, "unknown e2e", args[0])
		os.Exit(2)
	}
	os.Exit(f(args[1:]))
}
