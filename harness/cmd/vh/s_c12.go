package main

import (
	"math/rand"
	"strconv"
	"strings"

	"github.com/tableauio/tableau/proto/tableaupb"
	"github.com/tableauio/tableau/verifhook"
	"google.golang.org/protobuf/reflect/protoreflect"
)

var rangeBoundsSigned = []string{"~", "0", "1", "-1", "10", "-10", "2147483647", "-2147483648", "9223372036854775807", "-9223372036854775808", "9223372036854775808", "5"}
var rangeBoundsUnsigned = []string{"~", "0", "1", "10", "4294967295", "18446744073709551615", "18446744073709551616", "-1", "5", "3"}
var rangeOdd = []string{"5", "", " ", ",", "1,", ",1", "a,b", "1,2,3", "~", "~,~", " 1 , 10 ", "1;10", "1.5,2", "+1,5", "0x1,5", "1,1", "10,1"}
var valsSigned = []int64{-9223372036854775808, -9223372036854775807, -2147483649, -2147483648, -11, -10, -9, -2, -1, 0, 1, 2, 4, 5, 6, 9, 10, 11, 2147483646, 2147483647, 2147483648, 9223372036854775806, 9223372036854775807}
var valsUnsigned = []uint64{0, 1, 2, 3, 4, 5, 6, 9, 10, 11, 4294967294, 4294967295, 4294967296, 18446744073709551614, 18446744073709551615}
var valsString = []string{"", "a", "ab", "abc", "abcd", "abcde", "abcdef", "值值值", "值值值值值", "0123456789", "0123456789x", "é́"}

func init() {
	regStream("corr.fieldprop.range", func(r *rand.Rand, n int, emit func(string, ...string)) {
		count := 0
		out := func(kind, rng, v string, p, pp bool) {
			b := func(x bool) string {
				if x {
					return "1"
				}
				return "0"
			}
			emit("c12.range", kind, encStr(rng), v, b(p), b(pp))
			count++
		}
		// boundary tables: every numeric family × bound shapes × values around the bounds
		for _, kind := range []string{"int32", "int64"} {
			for _, l := range rangeBoundsSigned {
				for _, h := range rangeBoundsSigned {
					for _, v := range valsSigned {
						if kind == "int32" && (v > 2147483647 || v < -2147483648) {
							continue
						}
						if count%7 == 0 || l == "~" || h == "~" || l == h {
							out(kind, l+","+h, strconv.FormatInt(v, 10), true, false)
						} else {
							count++
						}
					}
				}
			}
		}
		for _, kind := range []string{"uint32", "uint64"} {
			for _, l := range rangeBoundsUnsigned {
				for _, h := range rangeBoundsUnsigned {
					for _, v := range valsUnsigned {
						if kind == "uint32" && v > 4294967295 {
							continue
						}
						out(kind, l+","+h, strconv.FormatUint(v, 10), true, false)
					}
				}
			}
		}
		for _, l := range []string{"~", "0", "1", "3", "5"} {
			for _, h := range []string{"~", "0", "3", "5", "10"} {
				for _, v := range valsString {
					out("string", l+","+h, encStr(v), true, false)
				}
			}
		}
		for _, rg := range rangeOdd {
			for _, kind := range []string{"int32", "uint64", "string", "bool"} {
				v := "5"
				if kind == "string" {
					v = encStr("hello")
				}
				if kind == "bool" {
					v = "1"
				}
				out(kind, rg, v, true, false)
				out(kind, rg, v, false, false)
				out(kind, rg, v, false, true)
			}
		}
		for count < n {
			kinds := []string{"int32", "int64", "uint32", "uint64", "string"}
			kind := kinds[r.Intn(len(kinds))]
			var l, h, v string
			switch kind {
			case "int32", "int64":
				l, h = rangeBoundsSigned[r.Intn(len(rangeBoundsSigned))], rangeBoundsSigned[r.Intn(len(rangeBoundsSigned))]
				x := valsSigned[r.Intn(len(valsSigned))]
				if kind == "int32" {
					x = int64(int32(x))
				}
				v = strconv.FormatInt(x, 10)
			case "uint32", "uint64":
				l, h = rangeBoundsUnsigned[r.Intn(len(rangeBoundsUnsigned))], rangeBoundsUnsigned[r.Intn(len(rangeBoundsUnsigned))]
				x := valsUnsigned[r.Intn(len(valsUnsigned))]
				if kind == "uint32" {
					x = uint64(uint32(x))
				}
				v = strconv.FormatUint(x, 10)
			default:
				l, h = strconv.Itoa(r.Intn(6)), strconv.Itoa(r.Intn(12))
				v = encStr(valsString[r.Intn(len(valsString))])
			}
			rg := l + "," + h
			if r.Intn(5) == 0 {
				rg = " " + l + " ,  " + h + " "
			}
			out(kind, rg, v, r.Intn(8) != 0, r.Intn(4) == 0)
		}
	})
	regImpl("c12.range", func(a []string) string {
		kind := a[0]
		fd := kindFields[kind]
		rng := mustStr(a[1])
		var v protoreflect.Value
		switch kind {
		case "int32":
			v = protoreflect.ValueOfInt32(int32(mustInt(a[2])))
		case "int64":
			v = protoreflect.ValueOfInt64(mustInt(a[2]))
		case "uint32":
			x, _ := strconv.ParseUint(a[2], 10, 64)
			v = protoreflect.ValueOfUint32(uint32(x))
		case "uint64":
			x, _ := strconv.ParseUint(a[2], 10, 64)
			v = protoreflect.ValueOfUint64(x)
		case "string":
			v = protoreflect.ValueOfString(mustStr(a[2]))
		case "bool":
			v = protoreflect.ValueOfBool(a[2] == "1")
		}
		err := verifhook.CheckInRange(&tableaupb.FieldProp{Range: rng, Present: a[4] == "1"}, fd, v, a[3] == "1")
		if err == nil {
			return "ok"
		}
		return "err " + errCode(err)
	})
}

func init() {
	// e2e.C12.contiguity: one horizontal list (scalar or struct elements) or horizontal map, one data row, every
	// presence pattern of its N element slots (exhaustive for N ≤ 5): accepted iff the present elements are a prefix.
	regStream("e2e.C12.contiguity", func(r *rand.Rand, n int, emit func(string, ...string)) {
		count := 0
		for _, shape := range []string{"scalar", "struct", "map"} {
			for N := 1; N <= 5; N++ {
				for mask := 0; mask < 1<<N; mask++ {
					var cells []string
					for i := 0; i < N; i++ {
						if mask&(1<<i) != 0 {
							cells = append(cells, strconv.Itoa(10+i))
						} else {
							cells = append(cells, "")
						}
					}
					emit("c12.contig", append([]string{shape, strconv.Itoa(N)}, encAll(cells)...)...)
					count++
				}
			}
		}
		for count < n {
			shape := []string{"scalar", "struct", "map"}[r.Intn(3)]
			N := 1 + r.Intn(8)
			var cells []string
			for i := 0; i < N; i++ {
				if r.Intn(3) != 0 {
					cells = append(cells, strconv.Itoa(1+r.Intn(50)+100*i))
				} else {
					cells = append(cells, "")
				}
			}
			emit("c12.contig", append([]string{shape, strconv.Itoa(N)}, encAll(cells)...)...)
			count++
		}
	})
	regImpl("c12.contig", func(a []string) string {
		opts, desc, grid := contigCase(a)
		return implTableParse([]string{opts, desc, grid})
	})
}

func encAll(ss []string) []string {
	var out []string
	for _, s := range ss {
		out = append(out, encStr(s))
	}
	return out
}

// contigCase builds the sheet of a contiguity case (the Lean driver builds the same one from the same args).
func contigCase(a []string) (opts, desc, grid string) {
	shape := a[0]
	N := int(mustInt(a[1]))
	var cells []string
	for _, c := range a[2:] {
		cells = append(cells, mustStr(c))
	}
	o := tpOpts{nr: 1, tr: 2, nor: 3, dr: 4}
	var f *tField
	var names []string
	switch shape {
	case "scalar":
		f = &tField{num: 1, name: "Item", card: 'l', layout: 'h', kind: "i32", protoName: "item_list"}
		for i := 1; i <= N; i++ {
			names = append(names, "Item"+strconv.Itoa(i))
		}
	case "struct":
		f = &tField{num: 1, name: "Item", card: 'l', layout: 'h', kind: "m", protoName: "item_list",
			sub: []*tField{{num: 1, name: "ID", card: 'o', layout: 'd', kind: "i32", protoName: "id"}}}
		for i := 1; i <= N; i++ {
			names = append(names, "Item"+strconv.Itoa(i)+"ID")
		}
	default:
		f = &tField{num: 1, name: "Item", key: "ID", card: 'm', layout: 'h', kind: "m", protoName: "item_map",
			sub: []*tField{{num: 1, name: "ID", card: 'o', layout: 'd', kind: "i32", protoName: "id"}}}
		for i := 1; i <= N; i++ {
			names = append(names, "Item"+strconv.Itoa(i)+"ID")
		}
	}
	var dt []string
	tdescTokens([]*tField{f}, &dt)
	typ := make([]string, N)
	note := make([]string, N)
	for i := range typ {
		typ[i], note[i] = "type", "note"
	}
	return o.token(), strings.Join(dt, " "), encGrid([][]string{names, typ, note, cells})
}
