package main

import (
	"fmt"
	"math/rand"
	"strconv"
	"strings"

	"github.com/tableauio/tableau/proto/tableaupb"
	"github.com/tableauio/tableau/verifhook"
	"github.com/tableauio/tableau/xerrors"
	"google.golang.org/protobuf/proto"
	"google.golang.org/protobuf/reflect/protodesc"
	"google.golang.org/protobuf/reflect/protoreflect"
	"google.golang.org/protobuf/types/descriptorpb"
)

// one message with a field of every scalar kind (proto3, no presence)
var kindFields = map[string]protoreflect.FieldDescriptor{}

func init() {
	type f struct {
		name     string
		typ      descriptorpb.FieldDescriptorProto_Type
		typeName string
	}
	fs := []f{
		{"int32", descriptorpb.FieldDescriptorProto_TYPE_INT32, ""},
		{"sint32", descriptorpb.FieldDescriptorProto_TYPE_SINT32, ""},
		{"sfixed32", descriptorpb.FieldDescriptorProto_TYPE_SFIXED32, ""},
		{"uint32", descriptorpb.FieldDescriptorProto_TYPE_UINT32, ""},
		{"fixed32", descriptorpb.FieldDescriptorProto_TYPE_FIXED32, ""},
		{"int64", descriptorpb.FieldDescriptorProto_TYPE_INT64, ""},
		{"sint64", descriptorpb.FieldDescriptorProto_TYPE_SINT64, ""},
		{"sfixed64", descriptorpb.FieldDescriptorProto_TYPE_SFIXED64, ""},
		{"uint64", descriptorpb.FieldDescriptorProto_TYPE_UINT64, ""},
		{"fixed64", descriptorpb.FieldDescriptorProto_TYPE_FIXED64, ""},
		{"bool", descriptorpb.FieldDescriptorProto_TYPE_BOOL, ""},
		{"float", descriptorpb.FieldDescriptorProto_TYPE_FLOAT, ""},
		{"double", descriptorpb.FieldDescriptorProto_TYPE_DOUBLE, ""},
		{"string", descriptorpb.FieldDescriptorProto_TYPE_STRING, ""},
		{"bytes", descriptorpb.FieldDescriptorProto_TYPE_BYTES, ""},
		{"timestamp", descriptorpb.FieldDescriptorProto_TYPE_MESSAGE, ".google.protobuf.Timestamp"},
		{"duration", descriptorpb.FieldDescriptorProto_TYPE_MESSAGE, ".google.protobuf.Duration"},
		{"fraction", descriptorpb.FieldDescriptorProto_TYPE_MESSAGE, ".tableau.Fraction"},
		{"comparator", descriptorpb.FieldDescriptorProto_TYPE_MESSAGE, ".tableau.Comparator"},
		{"enum", descriptorpb.FieldDescriptorProto_TYPE_ENUM, ".verifkinds.Color"},
	}
	msg := &descriptorpb.DescriptorProto{Name: proto.String("Kinds")}
	for i, x := range fs {
		fp := &descriptorpb.FieldDescriptorProto{
			Name: proto.String("f_" + x.name), Number: proto.Int32(int32(i + 1)), Type: x.typ.Enum(),
			Label: descriptorpb.FieldDescriptorProto_LABEL_OPTIONAL.Enum(),
		}
		if x.typeName != "" {
			fp.TypeName = proto.String(x.typeName)
		}
		msg.Field = append(msg.Field, fp)
	}
	fdp := &descriptorpb.FileDescriptorProto{
		Name: proto.String("verif_kinds.proto"), Package: proto.String("verifkinds"), Syntax: proto.String("proto3"),
		Dependency:  []string{"tableau/protobuf/tableau.proto", "google/protobuf/timestamp.proto", "google/protobuf/duration.proto", "tableau/protobuf/wellknown.proto"},
		MessageType: []*descriptorpb.DescriptorProto{msg},
		EnumType: []*descriptorpb.EnumDescriptorProto{{Name: proto.String("Color"), Value: []*descriptorpb.EnumValueDescriptorProto{
			c03EnumValue("COLOR_UNKNOWN", 0, ""), c03EnumValue("COLOR_RED", 1, "Red"), c03EnumValue("COLOR_BLUE", 2, "Blue"),
			c03EnumValue("COLOR_X", 7, "X"), c03EnumValue("COLOR_NEG", -3, "Neg")}}},
	}
	fd, err := protodesc.NewFile(fdp, globalFilesResolver{})
	if err != nil {
		panic(err)
	}
	for i, x := range fs {
		kindFields[x.name] = fd.Messages().Get(0).Fields().Get(i)
	}
	_ = tableaupb.E_Field
}

func c03EnumValue(name string, num int32, alias string) *descriptorpb.EnumValueDescriptorProto {
	v := &descriptorpb.EnumValueDescriptorProto{Name: proto.String(name), Number: proto.Int32(num)}
	if alias != "" {
		o := &descriptorpb.EnumValueOptions{}
		proto.SetExtension(o, tableaupb.E_Evalue, &tableaupb.EnumValueOptions{Name: alias})
		v.Options = o
	}
	return v
}

// the kinds the Lean model knows, and the Go kinds of the same family
var modelKinds = []string{"int32", "uint32", "int64", "uint64", "bool"}
var familyOf = map[string][]string{
	"int32": {"int32", "sint32", "sfixed32"}, "uint32": {"uint32", "fixed32"},
	"int64": {"int64", "sint64", "sfixed64"}, "uint64": {"uint64", "fixed64"}, "bool": {"bool"},
}

func errCode(err error) string {
	c := xerrors.NewDesc(err).ErrCode()
	if strings.HasPrefix(c, "E") {
		return strings.TrimLeft(c[1:], "0")
	}
	return "0"
}

func implParseScalar(kind, raw string) string {
	fd := kindFields[kind]
	v, present, err := verifhook.ParseFieldValue(fd, raw, "")
	if err != nil {
		return "err " + errCode(err)
	}
	if !present {
		return "absent"
	}
	switch fd.Kind() {
	case protoreflect.EnumKind:
		return "ok " + strconv.FormatInt(int64(v.Enum()), 10)
	case protoreflect.BoolKind:
		if v.Bool() {
			return "ok 1"
		}
		return "ok 0"
	case protoreflect.Uint32Kind, protoreflect.Fixed32Kind, protoreflect.Uint64Kind, protoreflect.Fixed64Kind:
		return "ok " + strconv.FormatUint(v.Uint(), 10)
	default:
		return "ok " + strconv.FormatInt(v.Int(), 10)
	}
}

var litAlphabet = []string{"0", "1", "9", "-", "+", ".", "e", "x", "_", "N", "a", "n", "I", "f", "t", "T", " "}

var boundaryInts = []string{
	"-2147483649", "-2147483648", "-2147483647", "-1", "0", "1", "2147483646", "2147483647", "2147483648",
	"4294967294", "4294967295", "4294967296",
	"-9223372036854775809", "-9223372036854775808", "-9223372036854775807", "9223372036854775806", "9223372036854775807", "9223372036854775808",
	"18446744073709551614", "18446744073709551615", "18446744073709551616", "99999999999999999999999999999999",
}

var oddLits = []string{
	"NaN", "nan", "NAN", "+nan", "-nan", "Inf", "inf", "+Inf", "-inf", "Infinity", "-INFINITY", "infin", "in",
	"1.0", "1.00", "0.0", "x1.0", "1.0.0", "-1.0", "+1.0", "01.0", "1.", ".5", ".", "1e3", "1E3", "1e", "1e+", "1e-2", "1.5e1", "12.5", "2147483647.5", "-2147483648.5", "4294967295.9",
	"0x10", "0X1p4", "1_000", "_1", "1_", "0b1", "0o7", "07", "007", "010", "0100", "0755", "-017", "00", "08", "09", "000123", "-0", "+0", "-0.0", "-0.4", "- 1", "1 2", "１", "٣", "1 ", "　1", "\t7\n", "true", "TRUE", "True", "tRUE", "t", "T", "f", "F", "false", "False", "FALSE", "yes", "no", "on", "2", "-1", "1.5", "0.5",
	"abc", "1a", "a1", "1-", "--1", "+-1", "1+1", "", " ", "  ",
}

func init() {
	// corr.xproto.parseFieldValue: all modelled kinds × (exhaustive strings over the literal alphabet up to
	// a length bound, boundary tables, odd literals, random digit strings)
	regStream("corr.xproto.parseFieldValue", func(r *rand.Rand, n int, emit func(string, ...string)) {
		count := 0
		out := func(kind, s string) {
			emit("c03.parse", kind, encStr(s))
			count++
		}
		for _, k := range modelKinds {
			for _, fam := range familyOf[k] {
				for _, s := range boundaryInts {
					out(fam, s)
				}
				for _, s := range oddLits {
					out(fam, s)
				}
			}
		}
		// exhaustive short strings over the alphabet: length ≤ 3 always; length 4 when the budget allows
		maxLen := 3
		if n >= 400000 {
			maxLen = 4
		}
		var rec func(prefix string, depth int)
		rec = func(prefix string, depth int) {
			if depth > 0 {
				for _, k := range modelKinds {
					out(k, prefix)
				}
			}
			if depth == maxLen {
				return
			}
			for _, a := range litAlphabet {
				rec(prefix+a, depth+1)
			}
		}
		rec("", 0)
		for count < n {
			k := modelKinds[r.Intn(len(modelKinds))]
			fam := familyOf[k][r.Intn(len(familyOf[k]))]
			var s string
			switch r.Intn(6) {
			case 0: // canonical integer near a boundary
				base := boundaryInts[r.Intn(len(boundaryInts))]
				s = base
				if r.Intn(2) == 0 && len(s) > 1 {
					b := []byte(s)
					b[len(b)-1] = byte('0' + r.Intn(10))
					s = string(b)
				}
			case 1: // random digits
				l := 1 + r.Intn(22)
				var sb strings.Builder
				if r.Intn(3) == 0 {
					sb.WriteByte('-')
				}
				for i := 0; i < l; i++ {
					sb.WriteByte(byte('0' + r.Intn(10)))
				}
				s = sb.String()
			case 2: // decimal with fraction / exponent
				s = fmt.Sprintf("%d.%0*d", r.Intn(100000)-50000, 1+r.Intn(4), r.Intn(3)*r.Intn(1000))
				if r.Intn(3) == 0 {
					s += fmt.Sprintf("e%d", r.Intn(12)-3)
				}
			case 3: // alphabet soup
				l := 1 + r.Intn(7)
				for i := 0; i < l; i++ {
					s += litAlphabet[r.Intn(len(litAlphabet))]
				}
			case 4: // a literal with garbage around it
				s = oddLits[r.Intn(len(oddLits))]
				switch r.Intn(3) {
				case 0:
					s = " " + s + "\t"
				case 1:
					s = s + "x"
				case 2:
					s = "y" + s
				}
			default:
				s = oddLits[r.Intn(len(oddLits))]
			}
			out(fam, s)
		}
	})
	regImpl("c03.parse", func(a []string) string { return implParseScalar(a[0], mustStr(a[1])) })
}

// --- fraction and comparator cells ---------------------------------------------------------------------

func implFraction(raw string) string {
	fd := kindFields["fraction"]
	v, present, err := verifhook.ParseFieldValue(fd, raw, "")
	if err != nil {
		return "err " + errCode(err)
	}
	if !present {
		return "absent"
	}
	m := v.Message()
	md := m.Descriptor()
	return "ok " + strconv.FormatInt(m.Get(md.Fields().ByName("num")).Int(), 10) + " " + strconv.FormatInt(m.Get(md.Fields().ByName("den")).Int(), 10)
}

func implComparator(raw string) string {
	fd := kindFields["comparator"]
	v, present, err := verifhook.ParseFieldValue(fd, raw, "")
	if err != nil {
		return "err " + errCode(err)
	}
	if !present {
		return "absent"
	}
	m := v.Message()
	md := m.Descriptor()
	val := m.Get(md.Fields().ByName("value")).Message()
	vd := val.Descriptor()
	return "ok " + strconv.Itoa(int(m.Get(md.Fields().ByName("sign")).Enum())) + " " +
		strconv.FormatInt(val.Get(vd.Fields().ByName("num")).Int(), 10) + " " + strconv.FormatInt(val.Get(vd.Fields().ByName("den")).Int(), 10)
}

var fracTokens = []string{"0", "1", "7", "12", "-", "+", "/", "%", "‰", "‱", " ", ".", "x", "2147483647", "2147483648", "-2147483648", "-2147483649", "007"}
var cmpSigns = []string{"==", "!=", "<", "<=", ">", ">=", "=", "=>", "<>", "", "≥", "~"}

func init() {
	regStream("corr.xproto.fraction", func(r *rand.Rand, n int, emit func(string, ...string)) {
		count := 0
		// exhaustive token sequences up to length 4, then random longer ones
		var rec func(p string, d int)
		rec = func(p string, d int) {
			emit("c03.frac", encStr(p))
			count++
			if d == 3 {
				return
			}
			for _, t := range fracTokens {
				rec(p+t, d+1)
			}
		}
		rec("", 0)
		for count < n {
			switch r.Intn(3) {
			case 0:
				l := 1 + r.Intn(6)
				p := ""
				for i := 0; i < l; i++ {
					p += fracTokens[r.Intn(len(fracTokens))]
				}
				emit("c03.frac", encStr(p))
			case 1:
				sp := func() string { return []string{"", "", "", " ", "  "}[r.Intn(5)] }
				frac := ""
				for i := 1 + r.Intn(4); i > 0; i-- {
					frac += fracTokens[r.Intn(len(fracTokens))]
				}
				emit("c03.cmp", encStr(sp()+cmpSigns[r.Intn(len(cmpSigns))]+sp()+frac+sp()))
			default:
				// canonical literals
				a, b := r.Intn(4000)-2000, r.Intn(4000)-2000
				lit := []string{strconv.Itoa(a), strconv.Itoa(a) + "/" + strconv.Itoa(b), strconv.Itoa(a) + "%", strconv.Itoa(a) + "‰", strconv.Itoa(a) + "‱",
					strconv.Itoa(a) + "/" + strconv.Itoa(b) + "/" + strconv.Itoa(a)}[r.Intn(6)]
				if r.Intn(2) == 0 {
					emit("c03.frac", encStr(lit))
				} else {
					emit("c03.cmp", encStr(cmpSigns[r.Intn(6)]+lit))
				}
			}
			count++
		}
	})
	regImpl("c03.frac", func(a []string) string { return implFraction(mustStr(a[0])) })
	regImpl("c03.cmp", func(a []string) string { return implComparator(mustStr(a[0])) })
}

// corr.xproto.enum: enum cells (number / name / alias / junk) against Model.EnumLit and Spec.C03Enum
func init() {
	table := "0:" + encStr("COLOR_UNKNOWN") + ":" + encStr("") + ";1:" + encStr("COLOR_RED") + ":" + encStr("Red") + ";2:" + encStr("COLOR_BLUE") + ":" + encStr("Blue") +
		";7:" + encStr("COLOR_X") + ":" + encStr("X") + ";-3:" + encStr("COLOR_NEG") + ":" + encStr("Neg")
	regStream("corr.xproto.enum", func(r *rand.Rand, n int, emit func(string, ...string)) {
		fixed := []string{"", " ", "0", "1", "2", "7", "-3", "3", "-1", "8", "Red", "Blue", "X", "Neg", "red", "RED", "COLOR_RED", "COLOR_UNKNOWN", "COLOR_X", "color_red", " Red", "Red ", "Re d",
			"1.0", "1.9", "2.5", "0.9", "-0.4", "1e0", "7e0", "70e-1", "+1", "+7", "-3.0", "NaN", "Inf", "-Inf", "nan", "inf", "Infinity", "0x1", "0x1p0", "1_0", "4294967297", "2147483648", "-2147483649",
			"1e400", "Unknown", "COLOR", "x", "X1", "7X", "Red,Blue", "Red|Blue", "１", "红"}
		count := 0
		for _, s := range fixed {
			emit("c03.enum", table, encStr(s))
			count++
		}
		toks := []string{"Red", "Blue", "X", "Neg", "COLOR_", "RED", "0", "1", "2", "7", "-", "+", ".", "e", " ", "_", "a", "N", "n", "I", "f"}
		for count < n {
			var sb strings.Builder
			for k := 1 + r.Intn(3); k > 0; k-- {
				sb.WriteString(toks[r.Intn(len(toks))])
			}
			emit("c03.enum", table, encStr(sb.String()))
			count++
		}
	})
	regImpl("c03.enum", func(a []string) string { return implParseScalar("enum", mustStr(a[1])) })
}
