package main

import (
	"strconv"
	"strings"
)

// encStr encodes a Go string as u<hex>.<hex>… over its code points.
func encStr(s string) string {
	var b strings.Builder
	b.WriteByte('u')
	first := true
	for _, r := range s {
		if !first {
			b.WriteByte('.')
		}
		first = false
		b.WriteString(strconv.FormatInt(int64(r), 16))
	}
	return b.String()
}

func decStr(s string) (string, bool) {
	if !strings.HasPrefix(s, "u") {
		return "", false
	}
	body := s[1:]
	if body == "" {
		return "", true
	}
	var b strings.Builder
	for _, h := range strings.Split(body, ".") {
		v, err := strconv.ParseInt(h, 16, 32)
		if err != nil {
			return "", false
		}
		b.WriteRune(rune(v))
	}
	return b.String(), true
}

func mustStr(s string) string {
	v, ok := decStr(s)
	if !ok {
		panic("bad string encoding: " + s)
	}
	return v
}

func mustInt(s string) int64 {
	v, err := strconv.ParseInt(s, 10, 64)
	if err != nil {
		panic("bad int: " + s)
	}
	return v
}

func itoa(i int64) string { return strconv.FormatInt(i, 10) }
