package main

import (
	"fmt"
	"regexp"
	"math/rand"
	"os"
	"path/filepath"
	"strconv"
	"strings"

	"github.com/xuri/excelize/v2"
)

// ---------------------------------------------------------------------------
// A structured workbook generator: schema trees -> header columns + data rows
// that are valid for that schema (mostly), used by the container (C08), schema
// stability (C15), closure (C02) and origin-loading (C19) streams.
// ---------------------------------------------------------------------------

type snode struct {
	kind  string // scalar incellList incellMap incellStruct struct hlist hscalar hmap
	name  string // variable name (column name part)
	typ   string // scalar type / element type
	sname string // struct type name
	n     int    // horizontal element count
	sub   []*snode
	prop  string
	keyed bool
}

type sgen struct {
	r      *rand.Rand
	seq    int
	noSize bool // no size / fixed properties (streams that need every element column to be read)
	// imported: the run passes an imported proto file (importedProto) — cross-cell structs of its message .Prize,
	// whose fields are declared in another order than their numbers, may be generated
	imported bool
}

// importedProto: a hand-written proto file handed to the generators through ProtoFiles
const importedProto = `syntax = "proto3";
package protoconf;
import "tableau/protobuf/tableau.proto";
message Prize {
  string name = 3 [(tableau.field).name = "Name"];
  uint32 id = 1 [(tableau.field).name = "ID"];
  int32 num = 2 [(tableau.field).name = "Num"];
}
`

var sgScalars = []string{"int32", "uint32", "int64", "uint64", "string", "bool", "float", "double", "datetime", "duration", "fraction", "comparator", "enum<.FruitType>", "sint32", "bytes"}

func (g *sgen) vname() string {
	g.seq++
	return hWords[g.r.Intn(len(hWords))] + string(rune('A'+g.seq%26)) + string(rune('a'+(g.seq/26)%26))
}

func (g *sgen) scalar() string { return sgScalars[g.r.Intn(len(sgScalars))] }

func (g *sgen) tname() string {
	g.seq++
	return []string{"Item", "Reward", "Prop", "Hero", "Cost", "Attr"}[g.r.Intn(6)] + string(rune('A'+g.seq%26))
}

// sizeProp: an explicit cardinality on a horizontal aggregate of n column groups — smaller, equal or LARGER than n
// (a larger size pads with empty elements; protogen never compares it with the header) — or fixed:true
func (g *sgen) sizeProp(n int) string {
	if g.noSize || g.r.Intn(5) != 0 {
		return ""
	}
	switch g.r.Intn(4) {
	case 0:
		return "fixed:true"
	case 1: // both: the explicit size wins over the number of element columns
		return "fixed:true size:" + strconv.Itoa(1+g.r.Intn(n+2))
	}
	return "size:" + strconv.Itoa(1+g.r.Intn(n+2))
}

func (g *sgen) node(depth int) *snode {
	k := g.r.Intn(15)
	if depth <= 0 && k >= 8 && k < 14 {
		k = g.r.Intn(8)
	}
	switch k {
	case 14:
		// a cross-cell struct of a predefined type: from the struct type sheet (Reward) or a message nested in the
		// union type sheet (Target.PVP) of the base book; the column prefix is the field's own name, not the type's
		if g.imported && g.r.Intn(3) == 0 {
			return &snode{kind: "predefStruct", name: g.vname(), sname: ".Prize"}
		}
		if g.r.Intn(2) == 0 {
			return &snode{kind: "predefStruct", name: g.vname(), sname: ".Reward"}
		}
		return &snode{kind: "predefStruct", name: g.vname(), sname: ".Target.PVP"}
	default:
		n := &snode{kind: "scalar", name: g.vname(), typ: g.scalar()}
		if g.r.Intn(5) == 0 {
			n.prop = []string{"optional:true", "present:false"}[g.r.Intn(2)]
			if n.typ == "int32" || n.typ == "uint32" {
				n.prop = `range:"~,1000000"`
			}
		}
		return n
	case 5:
		return &snode{kind: "incellList", name: g.vname(), typ: []string{"int32", "string", "uint32", "int64", "bool", "float"}[g.r.Intn(6)]}
	case 6:
		return &snode{kind: "incellMap", name: g.vname(), typ: []string{"int32", "string", "uint32"}[g.r.Intn(3)], sname: []string{"int32", "string", "bool"}[g.r.Intn(3)]}
	case 7:
		sn := g.tname()
		if g.r.Intn(2) == 0 {
			sn = "Pair" // the same nested type name in several scopes / several times in one scope
		}
		return &snode{kind: "incellStruct", name: g.vname(), sname: sn}
	case 8, 9:
		sn := g.tname()
		n := &snode{kind: "struct", name: sn, sname: sn}
		for i := 1 + g.r.Intn(3); i > 0; i-- {
			n.sub = append(n.sub, g.node(depth-1))
		}
		return n
	case 10, 11:
		n := &snode{kind: "hlist", name: g.vname(), sname: g.tname(), n: 1 + g.r.Intn(3)}
		n.prop = g.sizeProp(n.n)
		n.sub = append(n.sub, &snode{kind: "scalar", name: "ID", typ: []string{"int32", "uint32", "string"}[g.r.Intn(3)]})
		for i := g.r.Intn(3); i > 0; i-- {
			n.sub = append(n.sub, g.node(depth-1))
		}
		return n
	case 12:
		n := &snode{kind: "hscalar", name: g.vname(), typ: []string{"int32", "string", "uint32", "int64", "datetime", "duration", "fraction", "comparator"}[g.r.Intn(8)], n: 1 + g.r.Intn(3)}
		n.prop = g.sizeProp(n.n)
		return n
	case 13:
		n := &snode{kind: "hmap", name: g.vname(), sname: g.tname(), n: 1 + g.r.Intn(3)}
		n.prop = g.sizeProp(n.n)
		n.sub = append(n.sub, &snode{kind: "scalar", name: "Key", typ: []string{"uint32", "int32", "string"}[g.r.Intn(3)]})
		for i := g.r.Intn(3); i > 0; i-- {
			n.sub = append(n.sub, g.node(depth-1))
		}
		return n
	}
}

func propSfx(p string) string {
	if p == "" {
		return ""
	}
	return "|{" + p + "}"
}

// columns returns the header columns of a node; `wrap` is prepended to the first column's type
func (n *snode) columns(prefix string) []hcol {
	switch n.kind {
	case "scalar":
		return []hcol{{prefix + n.name, n.typ + propSfx(n.prop)}}
	case "incellList":
		return []hcol{{prefix + n.name, "[]" + n.typ}}
	case "incellMap":
		return []hcol{{prefix + n.name, "map<" + n.typ + ", " + n.sname + ">"}}
	case "incellStruct":
		return []hcol{{prefix + n.name, "{int32 ID, string Name}" + n.sname}}
	case "emptyStruct": // a local struct type without members: the nested message exists, it has no fields
		return []hcol{{prefix + n.name, "{" + n.sname + "}"}}
	case "predefStruct":
		if n.sname == ".Prize" {
			return []hcol{{prefix + n.name + "Name", "{.Prize}string"}, {prefix + n.name + "ID", "uint32"}, {prefix + n.name + "Num", "int32"}}
		}
		if n.sname == ".Reward" {
			return []hcol{{prefix + n.name + "ID", "{.Reward}uint32"}, {prefix + n.name + "Num", "int32"}}
		}
		return []hcol{{prefix + n.name + "BattleID", "{.Target.PVP}int32"}, {prefix + n.name + "Damage", "int64"}}
	case "struct":
		var cols []hcol
		for _, s := range n.sub {
			cols = append(cols, s.columns(prefix+n.name)...)
		}
		cols[0].typ = "{" + n.sname + "}" + cols[0].typ
		return cols
	case "hlist", "hmap":
		var cols []hcol
		for e := 1; e <= n.n; e++ {
			var ec []hcol
			for _, s := range n.sub {
				ec = append(ec, s.columns(prefix+n.name+strconv.Itoa(e))...)
			}
			if e == 1 {
				if n.kind == "hlist" {
					if n.keyed {
						ec[0].typ = "[" + n.sname + "]<" + ec[0].typ + ">"
					} else {
						ec[0].typ = "[" + n.sname + "]" + ec[0].typ
					}
				} else {
					ec[0].typ = "map<" + n.sub[0].typ + ", " + n.sname + ">"
				}
				ec[0].typ += propSfx(n.prop)
			}
			cols = append(cols, ec...)
		}
		return cols
	case "hscalar":
		var cols []hcol
		for e := 1; e <= n.n; e++ {
			t := n.typ
			if e == 1 {
				t = "[]" + n.typ + propSfx(n.prop)
			}
			cols = append(cols, hcol{prefix + n.name + strconv.Itoa(e), t})
		}
		return cols
	}
	panic("kind " + n.kind)
}

func (g *sgen) value(typ string, uniq int) string {
	r := g.r
	switch typ {
	case "int32", "sint32":
		return strconv.Itoa(r.Intn(2001) - 1000)
	case "uint32":
		return strconv.Itoa(r.Intn(5000))
	case "int64":
		return strconv.FormatInt(int64(r.Intn(1<<30))*int64(1+r.Intn(1000))-5, 10)
	case "uint64":
		return strconv.FormatUint(uint64(r.Intn(1<<30))*uint64(1+r.Intn(1000)), 10)
	case "string":
		return []string{"abc", "x", "hello world", "007", "1.50", "tRue", "a b", "é", "true", "0.0000001", "9007199254740993", " lead", "trail "}[r.Intn(13)]
	case "bytes":
		return []string{"abc", "x", "00"}[r.Intn(3)]
	case "bool":
		return []string{"true", "false", "1", "0"}[r.Intn(4)]
	case "float", "double":
		return []string{"1.5", "0.25", "-3", "100", "2.50", "0.3333333333333333", "0.0000001", "123456789.125"}[r.Intn(8)]
	case "datetime":
		return []string{"2024-01-02 03:04:05", "2023-12-31 23:59:59", "2024-02-29"}[r.Intn(3)]
	case "duration":
		return []string{"1h2m3s", "45s", "12:30:00"}[r.Intn(3)]
	case "fraction":
		return []string{"1/2", "10%", "3", "7/8"}[r.Intn(4)]
	case "comparator":
		return []string{">=1/2", "<10%", "==3"}[r.Intn(3)]
	case "enum<.FruitType>":
		return []string{"Apple", "Pear", "1", "FRUIT_TYPE_PEAR"}[r.Intn(4)]
	}
	return "1"
}

// cells returns the data cells of a node for one row; blank with probability for optional parts
func (g *sgen) cells(n *snode, uniq int) []string {
	r := g.r
	switch n.kind {
	case "scalar":
		if n.name == "ID" || n.name == "Key" {
			if n.typ == "string" {
				return []string{"k" + strconv.Itoa(uniq)}
			}
			return []string{strconv.Itoa(uniq)}
		}
		if r.Intn(6) == 0 {
			return []string{""}
		}
		return []string{g.value(n.typ, uniq)}
	case "incellList":
		var parts []string
		for i := r.Intn(4); i > 0; i-- {
			v := g.value(n.typ, uniq)
			if n.typ == "string" {
				v = []string{"a", "bb", "c c"}[r.Intn(3)]
			}
			parts = append(parts, v)
		}
		return []string{strings.Join(parts, ",")}
	case "incellMap":
		var parts []string
		for i, k := 0, r.Intn(3); i < k; i++ {
			key := strconv.Itoa(i + 1)
			if n.typ == "string" {
				key = "k" + key
			}
			v := g.value(n.sname, uniq)
			if n.sname == "string" {
				v = "v" + strconv.Itoa(i)
			}
			parts = append(parts, key+":"+v)
		}
		return []string{strings.Join(parts, ",")}
	case "incellStruct":
		if r.Intn(4) == 0 {
			return []string{""}
		}
		return []string{strconv.Itoa(r.Intn(100)) + ",n" + strconv.Itoa(r.Intn(10))}
	case "emptyStruct":
		return []string{""}
	case "predefStruct":
		if n.sname == ".Prize" {
			return []string{"p" + strconv.Itoa(r.Intn(50)), strconv.Itoa(1 + r.Intn(500)), strconv.Itoa(r.Intn(9000))}
		}
		if r.Intn(5) == 0 {
			return []string{"", ""}
		}
		return []string{strconv.Itoa(1 + r.Intn(500)), strconv.Itoa(r.Intn(9000))}
	case "struct":
		var out []string
		for _, s := range n.sub {
			out = append(out, g.cells(s, uniq)...)
		}
		return out
	case "hlist", "hmap":
		var out []string
		filled := r.Intn(n.n + 1)
		for e := 1; e <= n.n; e++ {
			for _, s := range n.sub {
				c := g.cells(s, uniq*10+e)
				if e > filled {
					for i := range c {
						c[i] = ""
					}
				}
				out = append(out, c...)
			}
		}
		return out
	case "hscalar":
		var out []string
		filled := r.Intn(n.n + 1)
		for e := 1; e <= n.n; e++ {
			if e > filled {
				out = append(out, "")
			} else {
				out = append(out, g.value(n.typ, uniq))
			}
		}
		return out
	}
	panic("kind " + n.kind)
}

type genSheetOut struct {
	spec  sheetSpec
	nodes []*snode
	vkind string // "" | "map" | "list": first column opens a vertical aggregate
}

// sheet generates a default-mode worksheet. With `vertical`, the first column declares a vertical map/list
// over all columns (the usual shape).
func (g *sgen) sheet(name string, nfields, nrows int, last ...*snode) genSheetOut {
	out := genSheetOut{}
	var nodes []*snode
	for i := 0; i < nfields; i++ {
		nodes = append(nodes, g.node(2))
	}
	nodes = append(nodes, last...)
	var cols []hcol
	switch g.r.Intn(4) {
	case 0, 1:
		out.vkind = "map"
		kt := []string{"uint32", "int32", "int64", "string"}[g.r.Intn(4)]
		cols = append(cols, hcol{"ID", "map<" + kt + ", " + name + "Item>"})
		nodes = append([]*snode{{kind: "scalar", name: "ID", typ: kt}}, nodes...)
	case 2:
		out.vkind = "list"
		cols = append(cols, hcol{"ID", "[" + name + "Item]uint32"})
		nodes = append([]*snode{{kind: "scalar", name: "ID", typ: "uint32"}}, nodes...)
	}
	for i, n := range nodes {
		if i == 0 && out.vkind != "" {
			continue
		}
		cols = append(cols, n.columns("")...)
	}
	names, types, notes := []string{}, []string{}, []string{}
	for _, c := range cols {
		names = append(names, c.name)
		types = append(types, c.typ)
		notes = append(notes, "note")
	}
	rows := [][]string{names, types, notes}
	if out.vkind == "" {
		nrows = 1
	}
	for i := 0; i < nrows; i++ {
		var row []string
		for _, n := range nodes {
			row = append(row, g.cells(n, i+1)...)
		}
		rows = append(rows, row)
	}
	out.spec = sheetSpec{Name: name, Rows: rows}
	out.nodes = nodes
	return out
}

// baseBook defines the predefined enum and struct the generated sheets may refer to.
func baseBook() bookSpec {
	return bookSpec{Name: "Base", Sheets: []sheetSpec{
		{Name: "FruitType", Rows: [][]string{{"Number", "Name", "Alias"}, {"1", "FRUIT_TYPE_APPLE", "Apple"}, {"2", "FRUIT_TYPE_PEAR", "Pear"}}, Meta: map[string]string{"Mode": "MODE_ENUM_TYPE"}},
		{Name: "Reward", Rows: [][]string{{"Name", "Type"}, {"ID", "uint32"}, {"Num", "int32"}}, Meta: map[string]string{"Mode": "MODE_STRUCT_TYPE"}},
		{Name: "Target", Rows: [][]string{{"Name", "Alias", "Field1", "Field2"}, {"PVP", "TargetPVP", "BattleID\nint32", "Damage\nint64"}, {"PVE", "TargetPVE", "HeroID\nint32", ""}},
			Meta: map[string]string{"Mode": "MODE_UNION_TYPE"}},
	}}
}

// --- XLSX writer -------------------------------------------------------------------------------

// writeXLSXBook writes <subdir>/<Book>.xlsx. Blank cells are not written at all (so trailing blanks and
// blank rows are absent from the file); with `numeric`, cells whose text is a plain decimal number are
// stored as numbers.
func (w *workspace) writeXLSXBook(subdir string, b bookSpec, numeric bool) {
	dir := filepath.Join(w.In, subdir)
	if err := os.MkdirAll(dir, 0o755); err != nil {
		panic(err)
	}
	f := excelize.NewFile()
	first := true
	put := func(sheet string, rows [][]string) {
		if first {
			f.SetSheetName("Sheet1", sheet)
			first = false
		} else {
			f.NewSheet(sheet)
		}
		for ri, row := range rows {
			for ci, cell := range row {
				if cell == "" {
					continue
				}
				axis, _ := excelize.CoordinatesToCellName(ci+1, ri+1)
				if numeric && ri >= 3 && sheet != b.metaName() {
					if n, err := strconv.ParseInt(cell, 10, 64); err == nil && strconv.FormatInt(n, 10) == cell && n > -(1<<50) && n < (1<<50) {
						f.SetCellInt(sheet, axis, int(n))
						continue
					}
					if plainDecimalRe.MatchString(cell) {
						if fl, err := strconv.ParseFloat(cell, 64); err == nil {
							f.SetCellValue(sheet, axis, fl)
							continue
						}
					}
					if cell == "true" || cell == "false" {
						f.SetCellBool(sheet, axis, cell == "true")
						continue
					}
				}
				f.SetCellStr(sheet, axis, cell)
			}
		}
	}
	for _, s := range b.Sheets {
		put(s.Name, s.Rows)
	}
	if !b.NoMeta {
		put(b.metaName(), metasheetRows(b))
	}
	if err := f.SaveAs(filepath.Join(dir, b.Name+".xlsx")); err != nil {
		panic(err)
	}
}

var plainDecimalRe = regexp.MustCompile(`^-?[0-9]+(\.[0-9]+)?$`)

// csvTwinOf reads an .xlsx file back with excelize (formatted cell text, the way a spreadsheet program
// exports it) and returns the workbook as CSV sheets: the CSV twin of exactly that file.
func csvTwinOf(path string, b bookSpec) bookSpec {
	f, err := excelize.OpenFile(path)
	if err != nil {
		panic(err)
	}
	defer f.Close()
	out := bookSpec{Name: b.Name, NoMeta: true}
	for _, name := range f.GetSheetList() {
		rows, err := f.GetRows(name)
		if err != nil {
			panic(err)
		}
		out.Sheets = append(out.Sheets, sheetSpec{Name: name, Rows: rows})
	}
	return out
}

func debugBook(b bookSpec) string {
	var sb strings.Builder
	for _, s := range b.Sheets {
		fmt.Fprintf(&sb, "[%s %v]", s.Name, s.Meta)
		for _, r := range s.Rows {
			sb.WriteString(strings.Join(r, "¦") + "⏎")
		}
	}
	return sb.String()
}
