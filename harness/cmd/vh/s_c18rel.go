package main

import (
	"fmt"
	"math/rand"
	"os"
	"sort"
	"strconv"
	"strings"

	"github.com/tableauio/tableau"
	"github.com/tableauio/tableau/format"
	"github.com/tableauio/tableau/options"
)

// ---------------------------------------------------------------------------
// e2e.C18.related: the workbook index behind incremental generation. A generated tree — primary books whose sheets
// merge source books (explicit and glob specifiers, sources shared by several primaries, a primary that is also a
// source of another), unrelated books — goes through the real GenProto; then the real incremental
// Generate(<one path>) writes into an EMPTY conf directory: exactly the conf files of the primary books that read
// that path must appear (Model.Incremental.genWorkbook).
//
//   c18.related <seed> <named path> <books: name|sources|outputs ; …>
// ---------------------------------------------------------------------------

type c18Book struct {
	name    string   // file path of the workbook's main sheet as the index names it, e.g. "Prim1#*.csv"
	sources []string // index paths of the books its merger resolves to
	outputs []string // conf files
}

type c18Tree2 struct {
	books   []c18Book
	paths   []string // every path one may name
	write   func(w *workspace)
	nbSrc   int
	nbPrims int
}

// c18Dir: every fourth tree lives in a sub-directory whose name contains '#' (the character that separates book and
// sheet in CSV file names)
var c18Dir string

func c18BookPath(book string) string { return c18Dir + book + "#*.csv" }

func genC18Related(seed int64) c18Tree2 {
	r := rand.New(rand.NewSource(seed))
	nsrc := 1 + r.Intn(3)
	nprim := 2 + r.Intn(3)
	t := c18Tree2{nbSrc: nsrc, nbPrims: nprim}
	c18Dir = ""
	if seed%4 == 0 {
		c18Dir = "set#2/"
	}
	dir := strings.TrimSuffix(c18Dir, "/")
	type prim struct {
		book, sheet string
		specs       []string
		srcBooks    []string
	}
	var prims []prim
	for i := 1; i <= nprim; i++ {
		p := prim{book: "Prim" + strconv.Itoa(i), sheet: "Conf" + strconv.Itoa(i)}
		switch r.Intn(4) {
		case 0: // no merger
		case 1: // every source book
			p.specs = []string{"Src*.csv#Zone"}
			for j := 1; j <= nsrc; j++ {
				p.srcBooks = append(p.srcBooks, "Src"+strconv.Itoa(j))
			}
		default: // one or two explicit source books
			for _, j := range r.Perm(nsrc)[:1+r.Intn(min(2, nsrc))] {
				p.specs = append(p.specs, "Src"+strconv.Itoa(j+1)+"#*.csv#Zone")
				p.srcBooks = append(p.srcBooks, "Src"+strconv.Itoa(j+1))
			}
		}
		// a primary that also reads the main sheet of an earlier primary (that book is then both primary and source)
		if i > 1 && r.Intn(3) == 0 {
			o := prims[r.Intn(len(prims))]
			p.specs = append(p.specs, o.book+"#*.csv#"+o.sheet)
			p.srcBooks = append(p.srcBooks, o.book)
		}
		prims = append(prims, p)
	}
	for _, p := range prims {
		b := c18Book{name: c18BookPath(p.book), outputs: []string{p.sheet + ".json"}}
		seen := map[string]bool{}
		for _, s := range p.srcBooks {
			if !seen[s] {
				seen[s] = true
				b.sources = append(b.sources, c18BookPath(s))
			}
		}
		t.books = append(t.books, b)
		t.paths = append(t.paths, b.name)
	}
	for j := 1; j <= nsrc; j++ {
		t.paths = append(t.paths, c18BookPath("Src"+strconv.Itoa(j)))
	}
	t.write = func(w *workspace) {
		row := func(id int) []string { return []string{strconv.Itoa(id), "n" + strconv.Itoa(id)} }
		for i, p := range prims {
			rows := [][]string{{"ID", "Name"}, {"map<uint32, Item" + strconv.Itoa(i+1) + ">", "string"}, {"id", "name"}, row(1000*(i+1) + 1), row(1000*(i+1) + 2)}
			meta := map[string]string{}
			if len(p.specs) > 0 {
				meta["Merger"] = strings.Join(p.specs, ",")
			}
			w.writeCSVBook(dir, bookSpec{Name: p.book, Sheets: []sheetSpec{{Name: p.sheet, Rows: rows, Meta: meta}}})
		}
		for j := 1; j <= nsrc; j++ {
			rows := [][]string{{"ID", "Name"}, {"t", "t"}, {"n", "n"}, row(100*j + 1), row(100*j + 2)}
			w.writeCSVBook(dir, bookSpec{Name: "Src" + strconv.Itoa(j), Sheets: []sheetSpec{{Name: "Zone", Rows: rows}}, NoMeta: true})
		}
	}
	return t
}

func encC18Books(bs []c18Book) string {
	var parts []string
	for _, b := range bs {
		parts = append(parts, encStr(b.name)+"|"+strings.Join(encAll(b.sources), ",")+"|"+strings.Join(encAll(b.outputs), ","))
	}
	return strings.Join(parts, ";")
}

func init() {
	regStream("e2e.C18.related", func(r *rand.Rand, n int, emit func(string, ...string)) {
		for i := 0; i < n; i++ {
			seed := r.Int63n(1 << 40)
			t := genC18Related(seed)
			emit("c18.related", itoa(seed), encStr(t.paths[r.Intn(len(t.paths))]), encC18Books(t.books))
		}
	})
	regImpl("c18.related", func(a []string) string {
		t := genC18Related(mustInt(a[0]))
		path := mustStr(a[1])
		w := newWorkspace()
		defer w.cleanup()
		t.write(w)
		ro := runOpts{}
		if err := w.genProto(ro); err != nil {
			return "err proto " + errCode(err)
		}
		co := &options.ConfOption{
			Input:  &options.ConfInputOption{ProtoPaths: []string{w.Proto}, ProtoFiles: []string{w.Proto + "/*.proto"}, Formats: []format.Format{format.CSV}},
			Output: &options.ConfOutputOption{Formats: []format.Format{format.JSON}},
		}
		gen := tableau.NewConfGenerator("protoconf", w.In, w.Conf, options.Conf(co), options.Log(quietLog), options.LocationName("UTC"))
		if err := gen.Generate(path); err != nil {
			if strings.Contains(err.Error(), "primary workbook not found") {
				return "err unknown-workbook"
			}
			return "err conf " + errCode(err)
		}
		ents, _ := os.ReadDir(w.Conf)
		var files []string
		for _, e := range ents {
			files = append(files, e.Name())
		}
		sort.Strings(files)
		return fmt.Sprintf("files %s", strings.Join(encAll(files), ","))
	})
}
