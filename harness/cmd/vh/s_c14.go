package main

import (
	"fmt"
	"math/rand"

	"github.com/tableauio/tableau/options"
	"github.com/tableauio/tableau/proto/tableaupb"
	"github.com/tableauio/tableau/verifhook"
)

// level = the eight header options at one level
type level struct {
	nr, tr, nor, dr, nl, tl int32
	sep, subsep            string
}

func (l level) args() []string {
	return []string{itoa(int64(l.nr)), itoa(int64(l.tr)), itoa(int64(l.nor)), itoa(int64(l.dr)), itoa(int64(l.nl)), itoa(int64(l.tl)), encStr(l.sep), encStr(l.subsep)}
}

func decLevel(a []string) level {
	return level{int32(mustInt(a[0])), int32(mustInt(a[1])), int32(mustInt(a[2])), int32(mustInt(a[3])), int32(mustInt(a[4])), int32(mustInt(a[5])), mustStr(a[6]), mustStr(a[7])}
}

func (l level) sheet() *tableaupb.WorksheetOptions {
	return &tableaupb.WorksheetOptions{Namerow: l.nr, Typerow: l.tr, Noterow: l.nor, Datarow: l.dr, Nameline: l.nl, Typeline: l.tl, Sep: l.sep, Subsep: l.subsep}
}
func (l level) book() *tableaupb.WorkbookOptions {
	return &tableaupb.WorkbookOptions{Namerow: l.nr, Typerow: l.tr, Noterow: l.nor, Datarow: l.dr, Nameline: l.nl, Typeline: l.tl, Sep: l.sep, Subsep: l.subsep}
}
func (l level) global() *options.HeaderOption {
	return &options.HeaderOption{NameRow: l.nr, TypeRow: l.tr, NoteRow: l.nor, DataRow: l.dr, NameLine: l.nl, TypeLine: l.tl, Sep: l.sep, Subsep: l.subsep}
}

func encHeader(h *verifhook.Header) string {
	return fmt.Sprintf("%d %d %d %d %d %d %s %s", h.NameRow, h.TypeRow, h.NoteRow, h.DataRow, h.NameLine, h.TypeLine, encStr(h.Sep), encStr(h.Subsep))
}

var sepPool = []string{"", ",", ";", ":", "|", "#", "、", " ", "::"}

// genLevel: each option independently present (pairwise distinct values per
// level so that a wrong level is visible) or absent.
func genLevel(r *rand.Rand, base int32, mask int) level {
	pick := func(bit int, v int32) int32 {
		if mask&(1<<bit) != 0 {
			return v
		}
		return 0
	}
	l := level{
		nr: pick(0, base+1), tr: pick(1, base+2), nor: pick(2, base+3), dr: pick(3, base+4),
		nl: pick(4, base+5), tl: pick(5, base+6),
	}
	if mask&(1<<6) != 0 {
		l.sep = sepPool[1+r.Intn(len(sepPool)-1)] + string(rune('a'+base%26))
	}
	if mask&(1<<7) != 0 {
		l.subsep = sepPool[1+r.Intn(len(sepPool)-1)] + string(rune('A'+base%26))
	}
	return l
}

func init() {
	// corr.parseroptions.mergeHeader: exhaustive over the 2^3 level-presence
	// patterns per option (all options share the pattern) first, then random
	// independent masks, negative and large values.
	regStream("corr.parseroptions.mergeHeader", func(r *rand.Rand, n int, emit func(string, ...string)) {
		count := 0
		one := func(s, b level, hasG bool, g level) {
			args := append(append([]string{}, s.args()...), b.args()...)
			if hasG {
				args = append(args, "1")
			} else {
				args = append(args, "0")
			}
			args = append(args, g.args()...)
			emit("c14.merge", args...)
			count++
		}
		for sm := 0; sm < 2; sm++ {
			for bm := 0; bm < 2; bm++ {
				for gm := 0; gm < 3; gm++ { // 0: nil global, 1: zero global, 2: set global
					s := genLevel(r, 10, 0xff*sm)
					b := genLevel(r, 20, 0xff*bm)
					g := genLevel(r, 30, 0xff*(gm/2))
					one(s, b, gm > 0, g)
				}
			}
		}
		for count < n {
			s := genLevel(r, int32(10+r.Intn(5)), r.Intn(256))
			b := genLevel(r, int32(20+r.Intn(5)), r.Intn(256))
			g := genLevel(r, int32(30+r.Intn(5)), r.Intn(256))
			if r.Intn(10) == 0 {
				s.nr = -int32(r.Intn(3))
				b.tr = int32(r.Intn(1 << 30))
			}
			one(s, b, r.Intn(4) != 0, g)
		}
	})
	regImpl("c14.merge", func(a []string) string {
		s, b, g := decLevel(a[0:8]), decLevel(a[8:16]), decLevel(a[17:25])
		var gp *options.HeaderOption
		if a[16] == "1" {
			gp = g.global()
		}
		return encHeader(verifhook.MergeHeader(s.sheet(), b.book(), gp))
	})

	regStream("corr.confgen.fieldSep", func(r *rand.Rand, n int, emit func(string, ...string)) {
		count := 0
		for _, f := range []string{"", "|"} {
			for _, s := range []string{"", ";"} {
				for _, b := range []string{"", "#"} {
					emit("c14.fieldsep", encStr(f), encStr(s), encStr(b))
					emit("c14.fieldsubsep", encStr(f), encStr(s), encStr(b))
					count += 2
				}
			}
		}
		for count < n {
			f, s, b := sepPool[r.Intn(len(sepPool))], sepPool[r.Intn(len(sepPool))], sepPool[r.Intn(len(sepPool))]
			emit("c14.fieldsep", encStr(f), encStr(s), encStr(b))
			emit("c14.fieldsubsep", encStr(f), encStr(s), encStr(b))
			count += 2
		}
	})
	fieldSeps := func(a []string, sub bool) string {
		f, s, b := mustStr(a[0]), mustStr(a[1]), mustStr(a[2])
		var prop *tableaupb.FieldProp
		if sub {
			prop = &tableaupb.FieldProp{Subsep: f}
		} else {
			prop = &tableaupb.FieldProp{Sep: f}
		}
		fd := scalarFieldWithProp(prop)
		var sheet *tableaupb.WorksheetOptions
		var bk *tableaupb.WorkbookOptions
		if sub {
			sheet, bk = &tableaupb.WorksheetOptions{Subsep: s}, &tableaupb.WorkbookOptions{Subsep: b}
		} else {
			sheet, bk = &tableaupb.WorksheetOptions{Sep: s}, &tableaupb.WorkbookOptions{Sep: b}
		}
		sep, subsep := verifhook.FieldSeps(bk, sheet, fd)
		if sub {
			return encStr(subsep)
		}
		return encStr(sep)
	}
	regImpl("c14.fieldsep", func(a []string) string { return fieldSeps(a, false) })
	regImpl("c14.fieldsubsep", func(a []string) string { return fieldSeps(a, true) })

	// what protogen records for confgen (global header merged with the metasheet '#' row)
	regStream("corr.protogen.record", func(r *rand.Rand, n int, emit func(string, ...string)) {
		for i := 0; i < n; i++ {
			s := genLevel(r, 10, r.Intn(256))
			bm := genLevel(r, 20, r.Intn(256))
			g := genLevel(r, 30, r.Intn(256))
			args := append([]string{}, s.args()...)
			if r.Intn(3) != 0 {
				args = append(args, "1")
			} else {
				args = append(args, "0")
				bm = level{}
			}
			args = append(args, bm.args()...)
			if r.Intn(4) != 0 {
				args = append(args, "1")
			} else {
				args = append(args, "0")
			}
			args = append(args, g.args()...)
			emit("c14.record", args...)
		}
	})
	// the same for a document (YAML/XML) workbook: only the separators matter there
	regStream("corr.protogen.recordDoc", func(r *rand.Rand, n int, emit func(string, ...string)) {
		for i := 0; i < n; i++ {
			bm := genLevel(r, 20, r.Intn(256))
			g := genLevel(r, 30, r.Intn(256))
			var args []string
			if r.Intn(3) != 0 {
				args = append(args, "1")
			} else {
				args = append(args, "0")
				bm = level{}
			}
			args = append(args, bm.args()...)
			if r.Intn(4) != 0 {
				args = append(args, "1")
			} else {
				args = append(args, "0")
			}
			args = append(args, g.args()...)
			emit("c14.recorddoc", args...)
		}
	})
	regImpl("c14.recorddoc", func(a []string) string {
		bm := decLevel(a[1:9])
		g := decLevel(a[10:18])
		var gp *options.HeaderOption
		if a[9] == "1" {
			gp = g.global()
		}
		var bp *tableaupb.WorkbookOptions
		if a[0] == "1" {
			bp = bm.book()
		}
		rb := verifhook.RecordedDocOptions(gp, bp)
		return encStr(rb.Sep) + " " + encStr(rb.Subsep)
	})
	regImpl("c14.record", func(a []string) string {
		s := decLevel(a[0:8])
		bm := decLevel(a[9:17])
		g := decLevel(a[18:26])
		var gp *options.HeaderOption
		if a[17] == "1" {
			gp = g.global()
		}
		var bp *tableaupb.WorkbookOptions
		if a[8] == "1" {
			bp = bm.book()
		}
		rb := verifhook.RecordedBookOptions(gp, bp)
		enc := func(l level) string {
			return fmt.Sprintf("%d %d %d %d %d %d %s %s", l.nr, l.tr, l.nor, l.dr, l.nl, l.tl, encStr(l.sep), encStr(l.subsep))
		}
		rbl := level{rb.Namerow, rb.Typerow, rb.Noterow, rb.Datarow, rb.Nameline, rb.Typeline, rb.Sep, rb.Subsep}
		return enc(rbl) + " / " + enc(s)
	})
}
