package main

import (
	"fmt"
	"math/rand"
	"os"
	"path/filepath"
	"regexp"
	"strconv"
	"strings"
	"time"

	"github.com/tableauio/tableau/format"
)

// ---------------------------------------------------------------------------
// e2e.C05.documents: DOCUMENT workbooks (YAML) converted concurrently, four of them with a value that cannot be
// parsed three structs deep (the error travels up through every level while the other books' goroutines keep parsing):
// GenProto once, GenConf several times under a watchdog. Every run must return, and return the same rendered error —
// what the error says about the failing field is that field's, not another goroutine's. Under the race-detector build
// an unsynchronised access on this path ends the worker.
//   c05.docs <good books> <entries per good book> <runs>   → returned | HANG | differ …
// ---------------------------------------------------------------------------

func c05GoodDoc(i, entries int) string {
	var sb strings.Builder
	sb.WriteString("\"@sheet\": \"@TABLEAU\"\n---\n")
	fmt.Fprintf(&sb, "\"@sheet\": \"@GoodConf%02d\"\n", i)
	sb.WriteString("Entry:\n  \"@type\": \"map<uint32, Entry>\"\n  \"@struct\":\n    Name: string\n    Num: \"int32|{range:\\\"0,100000\\\"}\"\n    Pos:\n      \"@type\": \"{Pos}\"\n      X: int32\n      Y: int32\n    Items:\n      \"@type\": \"[Item]\"\n      \"@struct\":\n        Name: string\n        Num: int32\n---\n")
	fmt.Fprintf(&sb, "\"@sheet\": GoodConf%02d\nEntry:\n", i)
	for k := 1; k <= entries; k++ {
		fmt.Fprintf(&sb, "  %d:\n    Name: n%d\n    Num: %d\n    Pos:\n      X: %d\n      Y: %d\n    Items:\n      - Name: a\n        Num: 1\n      - Name: b\n        Num: 2\n", k, k, k, k, k)
	}
	return sb.String()
}

const c05BadDoc = "\"@sheet\": \"@TABLEAU\"\n---\n\"@sheet\": \"@BadConf%d\"\nID: uint32\nOuter:\n  \"@type\": \"{Outer}\"\n  ID: uint32\n  Mid:\n    \"@type\": \"{Mid}\"\n    ID: uint32\n    Inner:\n      \"@type\": \"{Inner}\"\n      ID: uint32\n      Val: \"int32|{range:\\\"1,9\\\"}\"\n---\n\"@sheet\": BadConf%d\nID: 1\nOuter:\n  ID: 2\n  Mid:\n    ID: 3\n    Inner:\n      ID: 4\n      Val: not-a-number\n"

var c05BadNumRe = regexp.MustCompile(`(?i)(bad(?:_?conf)?)[0-9]+`)

func init() {
	regStream("e2e.C05.documents", func(r *rand.Rand, n int, emit func(string, ...string)) {
		for i := 0; i < n; i++ {
			emit("c05.docs", strconv.Itoa(4+r.Intn(6)), strconv.Itoa(100+r.Intn(300)), strconv.Itoa(4+r.Intn(4)))
		}
	})
	regImpl("c05.docs", func(a []string) string {
		good, entries, runs := int(mustInt(a[0])), int(mustInt(a[1])), int(mustInt(a[2]))
		done := make(chan string, 1)
		go func() {
			w := newWorkspace()
			defer w.cleanup()
			for i := 1; i <= good; i++ {
				if err := os.WriteFile(filepath.Join(w.In, fmt.Sprintf("Good%02d.yaml", i)), []byte(c05GoodDoc(i, entries)), 0o644); err != nil {
					panic(err)
				}
			}
			// several failing books of one shape: whichever fails first, the rendered error is the same up to its number
			for i := 1; i <= 4; i++ {
				if err := os.WriteFile(filepath.Join(w.In, fmt.Sprintf("Bad%d.yaml", i)), []byte(fmt.Sprintf(c05BadDoc, i, i)), 0o644); err != nil {
					panic(err)
				}
			}
			ro := runOpts{Formats: []format.Format{format.YAML}}
			if err := w.genProto(ro); err != nil {
				done <- "protoerr " + errCode(err)
				return
			}
			first := ""
			for k := 0; k < runs; k++ {
				err := w.genConf(ro)
				if err == nil {
					done <- "accepted"
					return
				}
				text := c05BadNumRe.ReplaceAllString(strings.ReplaceAll(err.Error(), w.Root, "<ROOT>"), "${1}#")
				if k == 0 {
					first = text
				} else if text != first {
					if os.Getenv("VERIF_DEBUG") != "" {
						println("FIRST", first, "\nTHIS ", text)
					}
					done <- "differ run " + strconv.Itoa(k)
					return
				}
			}
			done <- "returned"
		}()
		select {
		case s := <-done:
			return s
		case <-time.After(60 * time.Second):
			return "HANG"
		}
	})
}
