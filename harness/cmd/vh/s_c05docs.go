package main

import (
	"fmt"
	"math/rand"
	"os"
	"path/filepath"
	"strconv"
	"strings"
	"time"

	"github.com/tableauio/tableau/format"
)

// ---------------------------------------------------------------------------
// e2e.C05.documents: DOCUMENT workbooks (YAML) converted concurrently, one of them with a value that cannot be parsed
// three structs deep (the error travels up through every level while the other books' goroutines keep parsing):
// GenProto once, GenConf several times under a watchdog. Every run must return, and return the same rendered error —
// what the error says about the failing field is that field's, not another goroutine's. Under the race-detector build
// an unsynchronised access on this path ends the worker.
//   c05.docs <good books> <entries per good book> <runs>   → returned | HANG | differ …
// ---------------------------------------------------------------------------

func c05GoodDoc(i, entries int) string {
	var sb strings.Builder
	sb.WriteString("\"@sheet\": \"@TABLEAU\"\n---\n")
	fmt.Fprintf(&sb, "\"@sheet\": \"@GoodConf%02d\"\n", i)
	sb.WriteString("Entry:\n  \"@type\": \"map<uint32, Entry>\"\n  \"@struct\":\n    Name: string\n    Num: \"int32|{range:\\\"0,100000\\\"}\"\n    Pos:\n      \"@type\": \"{Pos}\"\n      X: int32\n      Y: int32\n    Items:\n      \"@type\": \"[Item]\"\n      \"@struct\":\n        Name: string\n        Num: int32\n---\n")
	fmt.Fprintf(&sb, "\"@sheet\": GoodConf%02d\nEntry:\n", i)
	for k := 1; k <= entries; k++ {
		fmt.Fprintf(&sb, "  %d:\n    Name: n%d\n    Num: %d\n    Pos:\n      X: %d\n      Y: %d\n    Items:\n      - Name: a\n        Num: 1\n      - Name: b\n        Num: 2\n", k, k, k, k, k)
	}
	return sb.String()
}

const c05BadDoc = "\"@sheet\": \"@TABLEAU\"\n---\n\"@sheet\": \"@BadConf\"\nID: uint32\nOuter:\n  \"@type\": \"{Outer}\"\n  ID: uint32\n  Mid:\n    \"@type\": \"{Mid}\"\n    ID: uint32\n    Inner:\n      \"@type\": \"{Inner}\"\n      ID: uint32\n      Val: \"int32|{range:\\\"1,9\\\"}\"\n---\n\"@sheet\": BadConf\nID: 1\nOuter:\n  ID: 2\n  Mid:\n    ID: 3\n    Inner:\n      ID: 4\n      Val: not-a-number\n"

func init() {
	regStream("e2e.C05.documents", func(r *rand.Rand, n int, emit func(string, ...string)) {
		for i := 0; i < n; i++ {
			emit("c05.docs", strconv.Itoa(4+r.Intn(6)), strconv.Itoa(100+r.Intn(300)), strconv.Itoa(4+r.Intn(4)))
		}
	})
	regImpl("c05.docs", func(a []string) string {
		good, entries, runs := int(mustInt(a[0])), int(mustInt(a[1])), int(mustInt(a[2]))
		done := make(chan string, 1)
		go func() {
			w := newWorkspace()
			defer w.cleanup()
			for i := 1; i <= good; i++ {
				if err := os.WriteFile(filepath.Join(w.In, fmt.Sprintf("Good%02d.yaml", i)), []byte(c05GoodDoc(i, entries)), 0o644); err != nil {
					panic(err)
				}
			}
			if err := os.WriteFile(filepath.Join(w.In, "Bad.yaml"), []byte(c05BadDoc), 0o644); err != nil {
				panic(err)
			}
			ro := runOpts{Formats: []format.Format{format.YAML}}
			if err := w.genProto(ro); err != nil {
				done <- "protoerr " + errCode(err)
				return
			}
			first := ""
			for k := 0; k < runs; k++ {
				err := w.genConf(ro)
				if err == nil {
					done <- "accepted"
					return
				}
				text := strings.ReplaceAll(err.Error(), w.Root, "<ROOT>")
				if k == 0 {
					first = text
				} else if text != first {
					done <- "differ run " + strconv.Itoa(k)
					return
				}
			}
			done <- "returned"
		}()
		select {
		case s := <-done:
			return s
		case <-time.After(60 * time.Second):
			return "HANG"
		}
	})
}
