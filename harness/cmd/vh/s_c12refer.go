package main

import (
	"math/rand"
	"os"
	"strconv"
	"strings"

	"github.com/tableauio/tableau/options"
)

// ---------------------------------------------------------------------------
// e2e.C12.refer: the `refer` constraint through the real GenProto + GenConf: the referred column stands at any
// index of its sheet (also beyond the sheet's row count), the referred sheet may be merged from a second
// workbook whose columns are ordered differently; the referring cells hold values inside / outside the referred
// column (also values that only occur in OTHER columns of the referred sheet).
//
//   c12.refer <ids of the referred column, primary.merged> <referring values> <k columns> <j index of ID>
//             <perm of the merged book's columns | -> <lang>
// ---------------------------------------------------------------------------

func implC12Refer(a []string) string {
	split := func(s string) []string {
		if s == "" {
			return nil
		}
		return strings.Split(s, ".")
	}
	parts := strings.SplitN(a[0], "/", 2)
	primIDs, mergedIDs := split(parts[0]), split(parts[1])
	values := split(a[1])
	k, j := int(mustInt(a[2])), int(mustInt(a[3]))
	names := make([]string, k)
	types := make([]string, k)
	for c := 0; c < k; c++ {
		names[c], types[c] = "Num"+strconv.Itoa(c), "int32"
	}
	// column 0 opens the vertical map over the whole row; the referred column ID stands at index j >= 1
	names[0], types[0] = "Key", "map<uint32, Item>"
	names[j], types[j] = "ID", "uint32"
	if j >= 2 && (k+len(values))%3 == 0 {
		// a blank-named column (a remark column) BEFORE the referred one: blank-named columns may stand anywhere
		names[1], types[1] = "", ""
	}
	rowOf := func(id string, order []int) []string {
		row := make([]string, k)
		for pos, c := range order {
			switch c {
			case j:
				row[pos] = id
			case 0:
				row[pos] = "7" + id // the map key
			default:
				row[pos] = "9" + id + strconv.Itoa(c) // values of other columns never collide with ids (ids < 90)
			}
		}
		return row
	}
	ident := make([]int, k)
	for c := range ident {
		ident[c] = c
	}
	mk := func(order []int, ids []string) [][]string {
		hn, ht, no := make([]string, k), make([]string, k), make([]string, k)
		for pos, c := range order {
			hn[pos], ht[pos], no[pos] = names[c], types[c], "n"
		}
		rows := [][]string{hn, ht, no}
		for _, id := range ids {
			rows = append(rows, rowOf(id, order))
		}
		return rows
	}
	w := newWorkspace()
	defer w.cleanup()
	// where the header rows stand: default | moved down one line for every sheet by the global header options |
	// moved down for the referred workbook only by its book-level ('#') metasheet row. The refer check reads the
	// referred sheet a second time and must find the same rows.
	variant := (k + j + len(values) + len(primIDs)) % 3
	ro := runOpts{Lang: a[5]}
	shift := func(rows [][]string) [][]string { return append([][]string{{"# banner"}}, rows...) }
	itemShift, allShift := variant == 2, variant == 1
	if allShift {
		ro.Header = &options.HeaderOption{NameRow: 2, TypeRow: 3, NoteRow: 4, DataRow: 5}
	}
	mk0 := mk
	mk = func(order []int, ids []string) [][]string {
		if itemShift || allShift {
			return shift(mk0(order, ids))
		}
		return mk0(order, ids)
	}
	item := sheetSpec{Name: "ItemConf", Rows: mk(ident, primIDs)}
	if a[4] != "-" {
		item.Meta = map[string]string{"Merger": "Item*.csv"}
		var order []int
		for _, t := range strings.Split(a[4], ".") {
			order = append(order, int(mustInt(t)))
		}
		w.writeCSVBook("", bookSpec{Name: "ItemB", Sheets: []sheetSpec{{Name: "ItemConf", Rows: mk(order, mergedIDs)}}, NoMeta: true})
	}
	itemBook := bookSpec{Name: "Item", Sheets: []sheetSpec{item}}
	if itemShift {
		itemBook.BookMeta = map[string]string{"Namerow": "2", "Typerow": "3", "Noterow": "4", "Datarow": "5"}
	}
	w.writeCSVBook("", itemBook)
	award := [][]string{{"ID", "ItemID"}, {"map<uint32, Award>", `uint32|{refer:"ItemConf.ID"}`}, {"n", "n"}}
	for i, v := range values {
		award = append(award, []string{strconv.Itoa(i + 1), v})
	}
	if allShift {
		award = shift(award)
	}
	w.writeCSVBook("", bookSpec{Name: "Award", Sheets: []sheetSpec{{Name: "AwardConf", Rows: award}}})
	if err := w.genProto(ro); err != nil {
		return "protoerr " + errCode(err)
	}
	if err := w.genConf(ro); err != nil {
		if os.Getenv("VERIF_DEBUG") != "" {
			println("CONFERR", err.Error())
		}
		return "err " + errCode(err)
	}
	return "ok"
}

func init() {
	regStream("e2e.C12.refer", func(r *rand.Rand, n int, emit func(string, ...string)) {
		for i := 0; i < n; i++ {
			k := 2 + r.Intn(6)
			j := 1 + r.Intn(k-1)
			next := 0
			ids := func(max int) []string {
				var out []string
				for c := r.Intn(max + 1); c > 0; c-- {
					next++
					out = append(out, strconv.Itoa(next))
				}
				return out
			}
			prim := ids(4)
			perm := "-"
			var merged []string
			if r.Intn(3) == 0 {
				p := r.Perm(k)
				var ps []string
				for _, c := range p {
					ps = append(ps, strconv.Itoa(c))
				}
				perm = strings.Join(ps, ".")
				merged = ids(3)
			}
			all := append(append([]string{}, prim...), merged...)
			var vals []string
			for c := r.Intn(4); c > 0; c-- {
				switch {
				case len(all) > 0 && r.Intn(4) != 0:
					vals = append(vals, all[r.Intn(len(all))])
				case len(all) > 0 && k > 2 && r.Intn(2) == 0:
					// a value of ANOTHER column of the referred sheet
					c2 := 1 + (j+r.Intn(k-2))%(k-1)
					if c2 == j {
						c2 = 1 + c2%(k-1)
					}
					vals = append(vals, "9"+all[r.Intn(len(all))]+strconv.Itoa(c2))
				case len(all) > 0 && r.Intn(2) == 0:
					vals = append(vals, "7"+all[r.Intn(len(all))]) // a map key of the referred sheet, not an ID
				default:
					vals = append(vals, strconv.Itoa(50+r.Intn(30)))
				}
			}
			emit("c12.refer", strings.Join(prim, ".")+"/"+strings.Join(merged, "."), strings.Join(vals, "."), strconv.Itoa(k), strconv.Itoa(j), perm, []string{"en", "zh"}[r.Intn(2)])
		}
	})
	regImpl("c12.refer", implC12Refer)
}
