package main

import (
	"fmt"
	"math/rand"
	"os"
	"strconv"
	"sync"
	"sync/atomic"
	"time"

	"github.com/tableauio/tableau"
	"github.com/tableauio/tableau/format"
	"github.com/tableauio/tableau/options"
	"github.com/tableauio/tableau/verifhook"
	"google.golang.org/protobuf/reflect/protoreflect"
)

func init() {
	// replay.C05.typeinfos: readers (TypeInfos.Get) against writers (TypeInfos.Put) under a watchdog.
	// A re-entrant RLock in Get deadlocks as soon as a writer announces itself between the two RLocks.
	regStream("replay.C05.typeinfos", func(r *rand.Rand, n int, emit func(string, ...string)) {
		for i := 0; i < n; i++ {
			emit("c05.typeinfos", strconv.Itoa(2+r.Intn(6)), strconv.Itoa(1+r.Intn(3)), strconv.Itoa(20000+r.Intn(20000)))
		}
	})
	regImpl("c05.typeinfos", func(a []string) string {
		readers, writers, iters := int(mustInt(a[0])), int(mustInt(a[1])), int(mustInt(a[2]))
		ti := verifhook.NewTypeInfos("protoconf")
		ti.Put(&verifhook.TypeInfo{FullName: "protoconf.Item"})
		var wg sync.WaitGroup
		var progress, torn int64
		for i := 0; i < readers; i++ {
			wg.Add(1)
			go func() {
				defer wg.Done()
				for k := 0; k < iters; k++ {
					// what a reader got from the registry is its own: it reads the fields after the lock is released
					if info := ti.Get(".Item"); info != nil && info.ParentFilename != "" {
						if (info.ParentFilename == "a.proto") != (info.FirstFieldOptionName == "A") {
							atomic.AddInt64(&torn, 1)
						}
					}
					atomic.AddInt64(&progress, 1)
				}
			}()
		}
		// one writer registers the SAME type again and again with two different descriptions (a type sheet whose name
		// equals an imported type, the same type sheet in two workbooks)
		wg.Add(1)
		go func() {
			defer wg.Done()
			for k := 0; k < iters; k++ {
				if k%2 == 0 {
					ti.Put(&verifhook.TypeInfo{FullName: "protoconf.Item", ParentFilename: "a.proto", FirstFieldOptionName: "A"})
				} else {
					ti.Put(&verifhook.TypeInfo{FullName: "protoconf.Item", ParentFilename: "b.proto", FirstFieldOptionName: "B"})
				}
			}
		}()
		for i := 0; i < writers; i++ {
			wg.Add(1)
			go func(i int) {
				defer wg.Done()
				for k := 0; k < iters; k++ {
					ti.Put(&verifhook.TypeInfo{FullName: protoreflect.FullName(fmt.Sprintf("protoconf.T%d_%d", i, k%7))})
					atomic.AddInt64(&progress, 1)
				}
			}(i)
		}
		done := make(chan struct{})
		go func() { wg.Wait(); close(done) }()
		select {
		case <-done:
			if atomic.LoadInt64(&torn) > 0 {
				return "TORN"
			}
			return "ok"
		case <-time.After(8 * time.Second):
			p1 := atomic.LoadInt64(&progress)
			time.Sleep(500 * time.Millisecond)
			if atomic.LoadInt64(&progress) == p1 {
				return "DEADLOCK"
			}
			<-done
			return "ok"
		}
	})
}

func init() {
	// e2e.C05: whole GenProto+GenConf runs under a watchdog: table books defining types, sheets referring
	// to columns of other sheets (good and broken refers, several at once), several workbooks in parallel,
	// and a second call in the same process after a failed one.
	regStream("e2e.C05", func(r *rand.Rand, n int, emit func(string, ...string)) {
		for i := 0; i < n; i++ {
			emit("c05.gen", strconv.Itoa(i%16), strconv.Itoa(2+r.Intn(4)), strconv.Itoa(r.Intn(1000)))
		}
	})
	regImpl("c05.gen", func(a []string) string {
		variant, nbooks := int(mustInt(a[0])), int(mustInt(a[1]))
		done := make(chan string, 1)
		go func() {
			w := newWorkspace()
			defer w.cleanup()
			// Item book: the referred sheet
			w.writeCSVBook("", bookSpec{Name: "Item", Sheets: []sheetSpec{{Name: "ItemConf", Rows: [][]string{
				{"ID", "Name"}, {"map<uint32, Item>", "string"}, {"id", "name"}, {"1", "a"}, {"2", "b"}, {"3", "c"}}}}})
			// an enum type sheet; in variants with bit 8 two of its values share one alias (E2021 when an alias is looked up)
			enumRows := [][]string{{"Number", "Name", "Alias"}, {"1", "FRUIT_TYPE_APPLE", "Apple"}, {"2", "FRUIT_TYPE_PEAR", "Pear"}}
			if variant&8 == 8 {
				enumRows = append(enumRows, []string{"3", "FRUIT_TYPE_CRAB_APPLE", "Apple"})
			}
			w.writeCSVBook("", bookSpec{Name: "Base", Sheets: []sheetSpec{{Name: "FruitType", Rows: enumRows, Meta: map[string]string{"Mode": "MODE_ENUM_TYPE"}}}})
			for b := 0; b < nbooks; b++ {
				// several books look the alias up, concurrently
				w.writeCSVBook("", bookSpec{Name: fmt.Sprintf("Fruit%d", b), Sheets: []sheetSpec{{Name: fmt.Sprintf("Fruit%dConf", b), Rows: [][]string{
					{"ID", "Kind", "At", "Day"}, {fmt.Sprintf("map<uint32, Fruit%d>", b), "enum<.FruitType>", "datetime", "date"}, {"id", "kind", "at", "day"},
					{"1", "Apple", "2024-03-02 10:00:00", "2024-03-02"}, {"2", "Pear", "2023-11-05 01:30:00", "2023-11-05"}, {"3", "Apple", "2024-06-01 00:00:00", "2024-06-01"}}}}})
			}
			for b := 0; b < nbooks; b++ {
				refer := "ItemConf.ID"
				// variants: broken refers in one or several books (unknown sheet / unknown column)
				if variant&1 == 1 && b == 0 {
					refer = "NoSuchConf.ID"
				}
				if variant&2 == 2 && b == 1 {
					refer = "ItemConf.NoSuchColumn"
				}
				if variant&4 == 4 && b >= 2 {
					refer = "NoSuchConf.Other"
				}
				name := fmt.Sprintf("Reward%d", b)
				w.writeCSVBook("", bookSpec{Name: name, Sheets: []sheetSpec{{Name: name + "Conf", Rows: [][]string{
					{"ID", "ItemID"}, {"map<uint32, " + name + ">", "uint32|{refer:\"" + refer + "\"}"}, {"id", "item"},
					{"1", "1"}, {"2", "3"}, {"3", "2"}}}}})
			}
			// the workbooks' datetime cells are read in a named location by every per-workbook goroutine
			ro := runOpts{LocationName: []string{"Asia/Shanghai", "America/New_York", ""}[variant%3]}
			if err := w.genProto(ro); err != nil {
				done <- "returned"
				return
			}
			_ = w.genConf(ro)
			ro.LocationName = []string{"Europe/London", "Asia/Kolkata", "Asia/Shanghai"}[variant%3]
			_ = w.genConf(ro)
			// a second call in the same process, on good books only (the caches are process-wide)
			w2 := newWorkspace()
			defer w2.cleanup()
			w2.writeCSVBook("", bookSpec{Name: "Item", Sheets: []sheetSpec{{Name: "ItemConf", Rows: [][]string{
				{"ID", "Name"}, {"map<uint32, Item>", "string"}, {"id", "name"}, {"1", "a"}}}}})
			w2.writeCSVBook("", bookSpec{Name: "Base", Sheets: []sheetSpec{{Name: "FruitType", Rows: [][]string{{"Number", "Name", "Alias"}, {"1", "FRUIT_TYPE_APPLE", "Apple"}}, Meta: map[string]string{"Mode": "MODE_ENUM_TYPE"}}}})
			w2.writeCSVBook("", bookSpec{Name: "Fruit", Sheets: []sheetSpec{{Name: "FruitConf", Rows: [][]string{
				{"ID", "Kind"}, {"map<uint32, Fruit>", "enum<.FruitType>"}, {"id", "kind"}, {"1", "Apple"}}}}})
			w2.writeCSVBook("", bookSpec{Name: "Reward", Sheets: []sheetSpec{{Name: "RewardConf", Rows: [][]string{
				{"ID", "ItemID"}, {"map<uint32, Reward>", "uint32|{refer:\"ItemConf.ID\"}"}, {"id", "item"}, {"1", "1"}}}}})
			if err := w2.genProto(ro); err == nil {
				_ = w2.genConf(ro)
			}
			// one generator asked for the same workbook several times: in one call (the path named twice, next to
			// another book) and in a second call on the same generator
			if variant&3 == 0 {
				po := &options.ProtoOption{Input: &options.ProtoInputOption{ProtoPaths: []string{w2.Proto}, Formats: []format.Format{format.CSV}}, Output: &options.ProtoOutputOption{}}
				gen := tableau.NewProtoGenerator("protoconf", w2.In, w2.Proto, options.Proto(po), options.Log(quietLog))
				if e := gen.Generate("Item#ItemConf.csv", "Reward#RewardConf.csv", "Item#ItemConf.csv", "Item#ItemConf.csv"); e != nil && os.Getenv("VERIF_DEBUG") != "" { fmt.Fprintln(os.Stderr, "dup generate:", e) }
				_ = gen.Generate("Item#ItemConf.csv")
				_ = gen.Generate("Fruit#FruitConf.csv", "Base#FruitType.csv", "Fruit#FruitConf.csv")
			}
			done <- "returned"
		}()
		select {
		case s := <-done:
			return s
		case <-time.After(10 * time.Second):
			return "HANG"
		}
	})
}
