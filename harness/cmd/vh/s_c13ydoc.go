package main

import (
	"encoding/json"
	"fmt"
	"math/rand"
	"os"
	"path/filepath"
	"sort"
	"strconv"
	"strings"

	"github.com/tableauio/tableau/format"
	"github.com/tableauio/tableau/load"
	"github.com/tableauio/tableau/options"
	"google.golang.org/protobuf/encoding/protojson"
	"google.golang.org/protobuf/types/dynamicpb"
)

// ---------------------------------------------------------------------------
// e2e.C13.docPatch: patching a DOCUMENT worksheet (YAML): a PATCH_MERGE sheet `ShopConf` with a scattered overlay
// book; its field `Label` is a cross-cell map<uint32, string>. An entry the overlay states replaces main's entry of
// that key whatever its value is — the empty string included; other keys are kept; new keys are added. Both the DryRun
// "patch" preview and what a loader obtains from the generated main + patch files must show that map.
//
//   c13.ydoc <main entries> <overlay entries>      entries: k=v joined by '.', v may be empty
//   → dry=<k=v…> load=<k=v…>      (sorted by key)
// ---------------------------------------------------------------------------

func init() {
	regStream("e2e.C13.docPatch", func(r *rand.Rand, n int, emit func(string, ...string)) {
		words := []string{"apple", "pear", "kiwi", "", "", "fig"}
		entries := func(max int) string {
			var out []string
			for _, k := range r.Perm(6)[:r.Intn(max+1)] {
				out = append(out, strconv.Itoa(k+1)+"="+words[r.Intn(len(words))])
			}
			sort.Strings(out)
			return strings.Join(out, ".")
		}
		for i := 0; i < n; i++ {
			emit("c13.ydoc", entries(4), entries(4))
		}
	})
	regImpl("c13.ydoc", func(a []string) string {
		yamlMap := func(s string) string {
			if s == "" {
				return ""
			}
			out := "Label:\n"
			for _, e := range strings.Split(s, ".") {
				kv := strings.SplitN(e, "=", 2)
				out += fmt.Sprintf("  %s: %q\n", kv[0], kv[1])
			}
			return out
		}
		w := newWorkspace()
		defer w.cleanup()
		schema := "\"@sheet\": \"@TABLEAU\"\n\"ShopConf\":\n  Patch: PATCH_MERGE\n  Optional: true\n  Scatter: \"Overlay*.yaml\"\n---\n\"@sheet\": \"@ShopConf\"\nName: string\nLabel: \"map<uint32, string>\"\n---\n"
		if err := os.WriteFile(filepath.Join(w.In, "Base.yaml"), []byte(schema+"\"@sheet\": ShopConf\nName: base\n"+yamlMap(a[0])), 0o644); err != nil {
			panic(err)
		}
		if err := os.WriteFile(filepath.Join(w.In, "Overlay.yaml"), []byte("\"@sheet\": ShopConf\nName: over\n"+yamlMap(a[1])), 0o644); err != nil {
			panic(err)
		}
		ro := runOpts{Formats: []format.Format{format.YAML}}
		if err := w.genProto(ro); err != nil {
			return "protoerr " + errCode(err)
		}
		if err := w.genConf(ro); err != nil {
			return "conferr " + errCode(err)
		}
		dryDir := filepath.Join(w.Root, "dry")
		os.MkdirAll(dryDir, 0o755)
		saved := w.Conf
		w.Conf = dryDir
		ro.DryRun = options.DryRunPatch
		err := w.genConf(ro)
		w.Conf = saved
		if err != nil {
			return "dryerr " + errCode(err)
		}
		show := func(data []byte) string {
			var got struct {
				Label map[string]string `json:"label"`
			}
			if err := json.Unmarshal(data, &got); err != nil {
				return "badjson"
			}
			var out []string
			for k, v := range got.Label {
				out = append(out, k+"="+v)
			}
			sort.Strings(out)
			return strings.Join(out, ".")
		}
		dry, err := os.ReadFile(filepath.Join(dryDir, "Overlay_ShopConf.json"))
		if err != nil {
			return "nodryfile"
		}
		descs, perr := parseProtoDir(w.Proto)
		if perr != nil {
			return "protoinvalid"
		}
		md := descs["protoconf.ShopConf"]
		if md == nil {
			return "nomessage"
		}
		loaded := dynamicpb.NewMessage(md.UnwrapMessage())
		if err := load.Load(loaded, w.Conf, format.JSON,
			load.Paths(map[string]string{"ShopConf": filepath.Join(w.Conf, "Base_ShopConf.json")}),
			load.PatchPaths(map[string][]string{"ShopConf": {filepath.Join(w.Conf, "Overlay_ShopConf.json")}})); err != nil {
			return "loaderr " + errCode(err)
		}
		lj, _ := protojson.Marshal(loaded)
		return "dry=" + show(dry) + " load=" + show(lj)
	})
}
