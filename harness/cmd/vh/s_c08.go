package main

import (
	"strconv"
	"math/rand"
	"os"
	"path/filepath"
	"regexp"
	"sort"
	"strings"

	"github.com/tableauio/tableau/format"
)

// ---------------------------------------------------------------------------
// C08: the same table as XLSX (string-typed / number-typed cells) or as CSV.
// ---------------------------------------------------------------------------

var wbNameRe = regexp.MustCompile(`(option \(tableau\.workbook\) = \{name:")[^"]*(")`)

// protoBodies returns file -> content with the recorded workbook file name masked
func protoBodies(dir string) map[string]string {
	res := map[string]string{}
	ents, _ := os.ReadDir(dir)
	for _, e := range ents {
		if e.IsDir() {
			continue
		}
		b, _ := os.ReadFile(filepath.Join(dir, e.Name()))
		res[e.Name()] = wbNameRe.ReplaceAllString(string(b), "${1}BOOK${2}")
	}
	return res
}

func fileBodies(dir string) map[string]string {
	res := map[string]string{}
	filepath.Walk(dir, func(p string, info os.FileInfo, err error) error {
		if err != nil || info.IsDir() {
			return nil
		}
		b, _ := os.ReadFile(p)
		rel, _ := filepath.Rel(dir, p)
		res[filepath.ToSlash(rel)] = string(b)
		return nil
	})
	return res
}

func diffMaps(what string, a, b map[string]string) string {
	var ks []string
	seen := map[string]bool{}
	for k := range a {
		ks = append(ks, k)
		seen[k] = true
	}
	for k := range b {
		if !seen[k] {
			ks = append(ks, k)
		}
	}
	sort.Strings(ks)
	for _, k := range ks {
		va, oka := a[k]
		vb, okb := b[k]
		if !oka || !okb {
			return what + ":" + k + ":missing"
		}
		if va != vb {
			if os.Getenv("VERIF_DEBUG") != "" {
				println("DIFF", what, k, "\n--- a\n"+va+"\n--- b\n"+vb)
			}
			return what + ":" + k
		}
	}
	return ""
}

type twinBook struct {
	book    bookSpec
	lastOne bool // the last named header column of some sheet is a first-element ("...1") column
	wide    bool // some data row is wider than the header (CSV: trailing blank header cells)
}

// genTwinBook: a workbook with 1-2 generated sheets; options exercised on both containers alike.
func genTwinBook(r *rand.Rand, allowKnown bool) twinBook {
	g := &sgen{r: r}
	tb := twinBook{}
	b := bookSpec{Name: "Fuzz"}
	for si, n := 0, 1+r.Intn(2); si < n; si++ {
		name := []string{"HeroConf", "ItemConf", "ZoneConf"}[si]
		nf := 1 + r.Intn(5)
		if r.Intn(4) == 0 {
			nf = 6 + r.Intn(4) // more columns than the importers' schema window of 10 lines (matters when transposed)
		}
		gs := g.sheet(name, nf, r.Intn(7))
		meta := map[string]string{}
		if r.Intn(5) == 0 {
			meta["OrderedMap"] = "true"
		}
		if r.Intn(8) == 0 {
			meta["Sep"] = ","
		}
		names := gs.spec.Rows[0]
		last := names[len(names)-1]
		lastOne := strings.Contains(last[1:], "1")
		rows := gs.spec.Rows
		// a repeated key in a vertical map (key uniqueness is deduced from the layout: both containers must refuse, or both
		// merge, the same rows)
		if r.Intn(5) == 0 && gs.vkind != "" && len(rows) > 4 && len(rows[3]) > 0 && len(rows[4]) > 0 {
			dup := append([]string{}, rows[4]...)
			dup[0] = rows[3][0]
			rows = append(append([][]string{}, rows...), dup)
		}
		// trailing blank data rows (XLSX drops them, CSV keeps them): harmless unless row properties (D35, not generated here)
		if r.Intn(6) == 0 && gs.vkind == "" {
			rows = append(rows, make([]string, len(names)))
		}
		// an ignored column at the end: it has a name ("Remark") but no type — the XLSX type row is then shorter than
		// the name row (trailing blank cells are not stored), the CSV type row is not
		if r.Intn(5) == 0 && gs.vkind != "" {
			withParam := r.Intn(2) == 0 // … right after a one-element horizontal list (its layout is decided by a look-ahead)
			for i := range rows {
				row := append([]string{}, rows[i]...)
				for len(row) < len(names) {
					row = append(row, "")
				}
				switch i {
				case 0:
					if withParam {
						row = append(row, "ParamZz1")
					}
					row = append(row, "Remark")
				case 1:
					if withParam {
						row = append(row, "[]int32")
					}
					row = append(row, "")
				case 2:
					if withParam {
						row = append(row, "")
					}
					row = append(row, "")
				default:
					if withParam {
						row = append(row, strconv.Itoa(i))
					}
					row = append(row, "r"+strconv.Itoa(i))
				}
				rows[i] = row
			}
			names = rows[0]
		}
		// AdjacentKey (blank key cells take the key of the line above), with trailing blank lines in the CSV twin
		if r.Intn(5) == 0 {
			meta["AdjacentKey"] = "true"
			for k := 1 + r.Intn(2); k > 0; k-- {
				rows = append(rows, make([]string, len(names)))
			}
		}
		// a remark cell right of the table in a data row: CSV header rows get trailing blank cells
		if r.Intn(5) == 0 && len(rows) > 3 && (allowKnown || !lastOne) && len(meta) >= 0 {
			k := 3 + r.Intn(len(rows)-3)
			row := append([]string{}, rows[k]...)
			for len(row) < len(names) {
				row = append(row, "")
			}
			rows[k] = append(row, "remark")
			tb.wide = true
			if lastOne {
				tb.lastOne = true
			}
		}
		// header rows anywhere in the top-10 window, free-form remark lines in between
		if r.Intn(4) == 0 {
			pos := r.Perm(10)[:3]
			nr, tr, no := pos[0]+1, pos[1]+1, pos[2]+1
			mx := nr
			if tr > mx {
				mx = tr
			}
			if no > mx {
				mx = no
			}
			dr := mx + 1 + r.Intn(2)
			var out [][]string
			for i := 1; i < dr; i++ {
				switch i {
				case nr:
					out = append(out, rows[0])
				case tr:
					out = append(out, rows[1])
				case no:
					out = append(out, rows[2])
				default:
					out = append(out, []string{"# remark line"})
				}
			}
			rows = append(out, rows[3:]...)
			meta["Namerow"], meta["Typerow"], meta["Noterow"], meta["Datarow"] = itoa(int64(nr)), itoa(int64(tr)), itoa(int64(no)), itoa(int64(dr))
		}
		// one corrupted data cell: both containers must fail alike
		if r.Intn(10) == 0 && len(rows) > 0 {
			k := r.Intn(len(rows))
			if len(rows[k]) > 0 && rows[k][0] != "# remark line" && k >= 3 {
				row := append([]string{}, rows[k]...)
				row[r.Intn(len(row))] = fuzzJunk[r.Intn(len(fuzzJunk))]
				rows[k] = row
			}
		}
		// the whole sheet transposed (fields run down the rows): both containers must read every field row
		if _, relocated := meta["Namerow"]; !relocated && !tb.wide && r.Intn(5) == 0 {
			rows = transposeRows(rows)
			meta["Transpose"] = "true"
		}
		gs.spec.Rows = rows
		gs.spec.Meta = meta
		b.Sheets = append(b.Sheets, gs.spec)
	}
	if r.Intn(4) == 0 {
		// a refer between two sheets: the referred column is the last one and has blank cells (XLSX rows end before
		// them), the referring column has a blank cell too and, with FieldPresence, that blank is a present value
		ref := [][]string{{"ID", "Tag"}, {"map<uint32, RefItem>", "string"}, {"id", "tag"}}
		use := [][]string{{"ID", "RefTag"}, {"map<uint32, UseItem>", `string|{refer:"RefConf.Tag"}`}, {"id", "ref tag"}}
		for i := 1; i <= 2+r.Intn(4); i++ {
			tag := "t" + strconv.Itoa(i)
			if r.Intn(3) == 0 {
				tag = ""
			}
			ref = append(ref, []string{strconv.Itoa(i), tag})
			use = append(use, []string{strconv.Itoa(i), tag})
		}
		b.Sheets = append(b.Sheets, sheetSpec{Name: "RefConf", Rows: ref}, sheetSpec{Name: "UseConf", Rows: use, Meta: map[string]string{"FieldPresence": "true"}})
	}
	if r.Intn(5) == 0 {
		// a worksheet whose name contains '#' (legal in a spreadsheet; its CSV twin is the file <Book>#Zeta#1.csv; sheet files sort as the sheets are ordered),
		// named by an alias in the schema
		b.Sheets = append(b.Sheets, sheetSpec{Name: "Zeta#1", Meta: map[string]string{"Alias": "ZetaOne"},
			Rows: [][]string{{"ID", "Num"}, {"map<uint32, Zeta>", "int32"}, {"id", "num"}, {"1", "10"}, {"2", strconv.Itoa(r.Intn(100))}}})
	}
	if r.Intn(6) == 0 {
		// a custom metasheet name (an option of the run: the base book uses it too) and a type sheet longer than the
		// importers' ten-row schema window
		b.MetaName = "@META"
		rows := [][]string{{"Number", "Name", "Alias"}}
		for i := 1; i <= 12+r.Intn(3); i++ {
			rows = append(rows, []string{strconv.Itoa(i), "Z_KIND_K" + strconv.Itoa(i), "K" + strconv.Itoa(i)})
		}
		b.Sheets = append(b.Sheets, sheetSpec{Name: "ZzKind", Rows: rows, Meta: map[string]string{"Mode": "MODE_ENUM_TYPE"}})
	}
	tb.book = b
	return tb
}

type twinResult struct {
	protoErr, confErr bool
	protos, confs     map[string]string
}

func runTwin(tb twinBook, container string) twinResult {
	w := newWorkspace()
	defer w.cleanup()
	ro := runOpts{OutFormats: []format.Format{format.JSON, format.Bin}, MetasheetName: tb.book.MetaName}
	baseBook := func() bookSpec {
		bb := baseBook()
		bb.MetaName = tb.book.MetaName
		return bb
	}
	switch container {
	case "csv":
		w.writeCSVBook("", baseBook())
		w.writeCSVBook("", tb.book)
		ro.Formats = []format.Format{format.CSV}
	case "xlsx-str":
		w.writeXLSXBook("", baseBook(), false)
		w.writeXLSXBook("", tb.book, false)
		ro.Formats = []format.Format{format.Excel}
	case "xlsx-num":
		w.writeXLSXBook("", baseBook(), false)
		w.writeXLSXBook("", tb.book, true)
		ro.Formats = []format.Format{format.Excel}
	case "csv-of-xlsx-num":
		// the CSV export of the number-typed XLSX file: what a spreadsheet program shows in each cell
		tmp := newWorkspace()
		tmp.writeXLSXBook("", tb.book, true)
		twin := csvTwinOf(filepath.Join(tmp.In, tb.book.Name+".xlsx"), tb.book)
		tmp.cleanup()
		w.writeCSVBook("", baseBook())
		w.writeCSVBook("", twin)
		ro.Formats = []format.Format{format.CSV}
	}
	res := twinResult{}
	if err := w.genProto(ro); err != nil {
		res.protoErr = true
		return res
	}
	res.protos = protoBodies(w.Proto)
	if err := w.genConf(ro); err != nil {
		res.confErr = true
		if os.Getenv("VERIF_DEBUG") != "" {
			println("CONFERR", container, err.Error())
			if container == "csv" {
				println(debugBook(tb.book))
				for k, v := range res.protos {
					if k != "base.proto" {
						println(v)
					}
				}
			}
		}
		return res // which files were written before the failure depends on the schedule
	}
	res.confs = fileBodies(w.Conf)
	return res
}

func compareTwin(a, b twinResult, tag string) string {
	if a.protoErr != b.protoErr {
		return tag + ":protogen-error-parity"
	}
	if a.protoErr {
		return ""
	}
	if d := diffMaps(tag+":proto", a.protos, b.protos); d != "" {
		return d
	}
	if a.confErr != b.confErr {
		return tag + ":confgen-error-parity"
	}
	if d := diffMaps(tag+":conf", a.confs, b.confs); d != "" {
		return d
	}
	return ""
}

// the fixed witness of D16b: the last named column opens a one-element horizontal scalar list and a data row
// has a remark cell right of the table (so the rectangular CSV header rows end in a blank cell)
func twinWitnessBook(kind string) twinBook {
	rows := [][]string{{"ID", "Name", "Param1"}, {"map<uint32, Item>", "string", "[]int32"}, {"", "", ""},
		{"1", "a", "5"}, {"2", "b", "6", "remark"}}
	if kind == "map" {
		rows[0][2], rows[1][2] = "Attr1", "map<int32, string>"
		rows[3][2], rows[4][2] = "1:x", "2:y"
	}
	return twinBook{book: bookSpec{Name: "Fuzz", Sheets: []sheetSpec{{Name: "ItemConf", Rows: rows}}}, wide: true, lastOne: true}
}

func init() {
	regImpl("c08.known", func(a []string) string {
		tb := twinWitnessBook(a[0])
		csv := runTwin(tb, "csv")
		xs := runTwin(tb, "xlsx-str")
		if d := compareTwin(csv, xs, "csv/xlsx-str"); d != "" {
			if os.Getenv("VERIF_DEBUG") != "" {
				println(debugBook(tb.book))
				for k, v := range csv.confs {
					if strings.HasSuffix(k, ".json") && v != xs.confs[k] {
						println("CSV ", k, v)
						println("XLSX", k, xs.confs[k])
					}
				}
			}
			return "differ " + d
		}
		return "same ok"
	})
	regStream("e2e.C08.twins", func(r *rand.Rand, n int, emit func(string, ...string)) {
		for i := 0; i < n; i++ {
			emit("c08.twin", itoa(r.Int63n(1<<40)), "0")
		}
	})
	regImpl("c08.twin", func(a []string) string {
		r := rand.New(rand.NewSource(mustInt(a[0])))
		tb := genTwinBook(r, a[1] == "1")
		csv := runTwin(tb, "csv")
		xs := runTwin(tb, "xlsx-str")
		xn := runTwin(tb, "xlsx-num")
		cn := runTwin(tb, "csv-of-xlsx-num")
		status := "ok"
		if csv.protoErr {
			status = "protoerr"
		} else if csv.confErr {
			status = "conferr"
		}
		if d := compareTwin(csv, xs, "csv/xlsx-str"); d != "" {
			if os.Getenv("VERIF_DEBUG") != "" {
				println(debugBook(tb.book))
				for k, v := range csv.confs {
					if strings.HasSuffix(k, ".json") && v != xs.confs[k] {
						println("CSV ", k, v)
						println("XLSX", k, xs.confs[k])
					}
				}
			}
			return "differ " + d
		}
		if d := compareTwin(cn, xn, "csv-of-xlsx-num/xlsx-num"); d != "" {
			return "differ " + d
		}
		return "same " + status
	})
}
