package main

import (
	"encoding/json"
	"fmt"
	"math/rand"
	"os"
	"path/filepath"
	"reflect"
	"strconv"
	"strings"

	"github.com/tableauio/tableau/format"
	"github.com/tableauio/tableau/options"
)

// resolve per the property statement: most specific non-zero, else default
func firstNZ(d int32, vs ...int32) int32 {
	for _, v := range vs {
		if v != 0 {
			return v
		}
	}
	return d
}
func firstNE(d string, vs ...string) string {
	for _, v := range vs {
		if v != "" {
			return v
		}
	}
	return d
}

func init() {
	// e2e.C14: a sheet physically laid out according to the RESOLVED header rows and separators
	// (sheet > book '#' > global > default). Real GenProto + GenConf must read it back exactly.
	regStream("e2e.C14", func(r *rand.Rand, n int, emit func(string, ...string)) {
		seps := []string{",", ";", "|", "#"}
		subseps := []string{":", "=", "~"}
		for i := 0; i < n; i++ {
			var lv [3]level
			// rows: choose three distinct candidate layouts, one per level, then mask each option per level
			for l := 0; l < 3; l++ {
				perm := r.Perm(5)
				lv[l] = level{nr: int32(perm[0] + 1), tr: int32(perm[1] + 1), nor: int32(perm[2] + 1), dr: int32(6 + r.Intn(3))}
				lv[l].sep = seps[r.Intn(len(seps))]
				lv[l].subsep = subseps[r.Intn(len(subseps))]
				mask := r.Intn(64)
				if i < 8 { // the 2^3 level-presence patterns with all options together
					if i&(1<<l) != 0 {
						mask = 63
					} else {
						mask = 0
					}
				}
				if mask&1 == 0 {
					lv[l].nr = 0
				}
				if mask&2 == 0 {
					lv[l].tr = 0
				}
				if mask&4 == 0 {
					lv[l].nor = 0
				}
				if mask&8 == 0 {
					lv[l].dr = 0
				}
				if mask&16 == 0 {
					lv[l].sep = ""
				}
				if mask&32 == 0 {
					lv[l].subsep = ""
				}
			}
			hasBook, hasGlobal := "1", "1"
			if r.Intn(4) == 0 && i >= 8 {
				hasBook = "0"
				lv[1] = level{}
			}
			if r.Intn(5) == 0 && i >= 8 {
				hasGlobal = "0"
				lv[2] = level{}
			}
			// the resolved layout must be a usable one: name/type/note rows pairwise distinct and below the data row
			nr := firstNZ(1, lv[0].nr, lv[1].nr, lv[2].nr)
			tr := firstNZ(2, lv[0].tr, lv[1].tr, lv[2].tr)
			nor := firstNZ(3, lv[0].nor, lv[1].nor, lv[2].nor)
			dr := firstNZ(4, lv[0].dr, lv[1].dr, lv[2].dr)
			sep := firstNE(",", lv[0].sep, lv[1].sep, lv[2].sep)
			subsep := firstNE(":", lv[0].subsep, lv[1].subsep, lv[2].subsep)
			if nr == tr || nr == nor || tr == nor || dr <= nr || dr <= tr || dr <= nor || sep == subsep {
				i--
				continue
			}
			args := append([]string{}, lv[0].args()...)
			args = append(args, hasBook)
			args = append(args, lv[1].args()...)
			args = append(args, hasGlobal)
			args = append(args, lv[2].args()...)
			emit("c14.e2e", args...)
		}
	})
	regImpl("c14.e2e", func(a []string) string {
		s, b, g := decLevel(a[0:8]), decLevel(a[9:17]), decLevel(a[18:26])
		hasBook, hasGlobal := a[8] == "1", a[17] == "1"
		nr := firstNZ(1, s.nr, b.nr, g.nr)
		tr := firstNZ(2, s.tr, b.tr, g.tr)
		nor := firstNZ(3, s.nor, b.nor, g.nor)
		dr := firstNZ(4, s.dr, b.dr, g.dr)
		sep := firstNE(",", s.sep, b.sep, g.sep)
		subsep := firstNE(":", s.subsep, b.subsep, g.subsep)

		w := newWorkspace()
		defer w.cleanup()
		const ncols = 4
		nrows := int(dr) - 1 + 3
		rows := make([][]string, nrows)
		for i := range rows {
			rows[i] = []string{"junk" + strconv.Itoa(i), "junk", "junk", "junk"}
		}
		rows[nr-1] = []string{"ID", "Name", "Tags", "Attrs"}
		rows[tr-1] = []string{"map<uint32, Item>", "string", "[]int32", "map<int32, string>"}
		rows[nor-1] = []string{"id", "name", "tags", "attrs"}
		expected := map[string]any{}
		items := map[string]any{}
		for k := 0; k < 3; k++ {
			id := k + 1
			tags := []any{float64(10 + k), float64(20 + k)}
			rows[int(dr)-1+k] = []string{strconv.Itoa(id), "n" + strconv.Itoa(id),
				fmt.Sprintf("%d%s%d", 10+k, sep, 20+k),
				fmt.Sprintf("1%sa%s2%sb", subsep, sep, subsep)}
			items[strconv.Itoa(id)] = map[string]any{"id": float64(id), "name": "n" + strconv.Itoa(id), "tagsList": tags,
				"attrsMap": map[string]any{"1": "a", "2": "b"}}
		}
		expected["itemMap"] = items
		meta := func(l level) map[string]string {
			m := map[string]string{}
			put := func(k string, v int32) {
				if v != 0 {
					m[k] = strconv.Itoa(int(v))
				}
			}
			put("Namerow", l.nr)
			put("Typerow", l.tr)
			put("Noterow", l.nor)
			put("Datarow", l.dr)
			if l.sep != "" {
				m["Sep"] = l.sep
			}
			if l.subsep != "" {
				m["Subsep"] = l.subsep
			}
			return m
		}
		bk := bookSpec{Name: "Book", Sheets: []sheetSpec{{Name: "ItemConf", Rows: rows, Meta: meta(s)}}}
		if hasBook {
			bk.BookMeta = meta(b)
		}
		w.writeCSVBook("", bk)
		ro := runOpts{}
		if hasGlobal {
			ro.Header = g.global()
		}
		if err := w.genProto(ro); err != nil {
			return "bad"
		}
		if err := w.genConf(ro); err != nil {
			return "bad"
		}
		data, err := os.ReadFile(filepath.Join(w.Conf, "ItemConf.json"))
		if err != nil {
			return "bad"
		}
		var got map[string]any
		if err := json.Unmarshal(data, &got); err != nil {
			return "bad"
		}
		if !reflect.DeepEqual(got, expected) {
			return "bad"
		}
		// name line / type line: name and type share one header cell (line 1 / line 2); the lines are configured at the
		// sheet, book or global level; AdjacentKey fills blank key cells only when the TYPE line was found
		if r := c14LineTwin(int(s.nr+b.tr+g.dr) % 3); r != "ok" {
			return r
		}
		// the same resolution for a document workbook (YAML): sheet > book '#' > global > default separators
		if r := c14YAMLTwin(s, b, g, hasBook, hasGlobal, sep, subsep); r != "ok" {
			return r
		}
		return "ok"
	})
}

func c14YAMLTwin(s, b, g level, hasBook, hasGlobal bool, sep, subsep string) string {
	w := newWorkspace()
	defer w.cleanup()
	// the field level: an in-cell list of predefined structs with its own sep and / or subsep (the most specific level)
	fieldMask := (int(s.nr) + int(b.dr) + len(g.sep) + int(s.dr)) % 4
	fprop, fsep, fsubsep := "", sep, subsep
	if fieldMask&1 != 0 {
		fsep = "!"
		fprop += `sep:\"!\"`
	}
	if fieldMask&2 != 0 {
		fsubsep = "^"
		if fprop != "" {
			fprop += " "
		}
		fprop += `subsep:\"^\"`
	}
	if fprop != "" {
		fprop = "|{" + fprop + "}"
	}
	var sb strings.Builder
	q := func(v string) string { return strconv.Quote(v) }
	sb.WriteString("\"@sheet\": \"@TABLEAU\"\n")
	opts := func(name string, l level) {
		if l.sep == "" && l.subsep == "" {
			if name != "\"#\"" {
				sb.WriteString(name + ":\n")
			}
			return
		}
		sb.WriteString(name + ":\n")
		if l.sep != "" {
			sb.WriteString("  Sep: " + q(l.sep) + "\n")
		}
		if l.subsep != "" {
			sb.WriteString("  Subsep: " + q(l.subsep) + "\n")
		}
	}
	if hasBook {
		opts("\"#\"", b)
	}
	opts("ItemConf", s)
	sb.WriteString("---\n\"@sheet\": \"@ItemConf\"\nItem:\n  \"@type\": \"map<uint32, Item>\"\n  \"@struct\":\n    Name: string\n" +
		"    Tags:\n      \"@type\": \"[int32]\"\n      \"@incell\": true\n    Attrs:\n      \"@type\": \"map<int32, string>\"\n      \"@incell\": true\n"+
		"    Labels:\n      \"@type\": \"[.Label]"+fprop+"\"\n      \"@incell\": true\n")
	sb.WriteString("---\n\"@sheet\": ItemConf\nItem:\n")
	items := map[string]any{}
	for k := 0; k < 3; k++ {
		id := strconv.Itoa(k + 1)
		sb.WriteString("  " + id + ":\n    Name: n" + id + "\n    Tags: " + q(fmt.Sprintf("%d%s%d", 10+k, sep, 20+k)) +
			"\n    Attrs: " + q(fmt.Sprintf("1%sa%s2%sb", subsep, sep, subsep)) +
			"\n    Labels: " + q(fmt.Sprintf("a%sx%sb%sz", fsubsep, fsep, fsubsep)) + "\n")
		items[id] = map[string]any{"key": float64(k + 1), "name": "n" + id, "tags": []any{float64(10 + k), float64(20 + k)}, "attrs": map[string]any{"1": "a", "2": "b"},
			"labels": []any{map[string]any{"name": "a", "text": "x"}, map[string]any{"name": "b", "text": "z"}}}
	}
	if err := os.WriteFile(filepath.Join(w.In, "Book.yaml"), []byte(sb.String()), 0o644); err != nil {
		panic(err)
	}
	ro := docBase(w)
	ro.Formats = []format.Format{format.YAML}
	if hasGlobal {
		ro.Header = g.global()
	}
	if err := w.genProto(ro); err != nil {
		if os.Getenv("VERIF_DEBUG") != "" {
			println("YAML protoerr", err.Error(), sb.String())
		}
		return "bad-yaml-proto"
	}
	if err := w.genConf(ro); err != nil {
		if os.Getenv("VERIF_DEBUG") != "" {
			println("YAML conferr", err.Error(), sb.String())
		}
		return "bad-yaml-conf"
	}
	data, err := os.ReadFile(filepath.Join(w.Conf, "ItemConf.json"))
	if err != nil {
		return "bad-yaml-nofile"
	}
	var got map[string]any
	if err := json.Unmarshal(data, &got); err != nil {
		return "bad-yaml-json"
	}
	if !reflect.DeepEqual(got, map[string]any{"item": items}) {
		if os.Getenv("VERIF_DEBUG") != "" {
			println("YAML got", string(data), sb.String())
		}
		return "bad-yaml"
	}
	return "ok"
}

// c14LineTwin: the same data in the default layout and in a one-row header (name on line 1, type on line 2 of each
// header cell) whose options are set at `where` (0 sheet, 1 book '#', 2 global): identical conf output.
func c14LineTwin(where int) string {
	names := []string{"ID", "PropID", "Value"}
	types := []string{"map<uint32, Item>", "map<int32, Prop>", "int32"}
	data := [][]string{{"1", "1", "10"}, {"", "2", "20"}, {"2", "1", "30"}, {"", "2", "40"}, {"", "3", "50"}}
	run := func(lines bool) (string, string) {
		w := newWorkspace()
		defer w.cleanup()
		meta := map[string]string{"AdjacentKey": "true"}
		var rows [][]string
		ro := runOpts{}
		bk := bookSpec{Name: "Book"}
		if lines {
			hdr := make([]string, len(names))
			for i := range names {
				hdr[i] = names[i] + "\n" + types[i]
			}
			rows = append(rows, hdr, []string{"n", "n", "n"})
			opt := map[string]string{"Namerow": "1", "Typerow": "1", "Noterow": "2", "Datarow": "3", "Nameline": "1", "Typeline": "2"}
			switch where {
			case 0:
				for k, v := range opt {
					meta[k] = v
				}
			case 1:
				bk.BookMeta = opt
			default:
				ro.Header = &options.HeaderOption{NameRow: 1, TypeRow: 1, NoteRow: 2, DataRow: 3, NameLine: 1, TypeLine: 2}
			}
		} else {
			rows = append(rows, names, types, []string{"n", "n", "n"})
		}
		rows = append(rows, data...)
		bk.Sheets = []sheetSpec{{Name: "ItemConf", Rows: rows, Meta: meta}}
		w.writeCSVBook("", bk)
		if err := w.genProto(ro); err != nil {
			return "", "protoerr " + errCode(err)
		}
		if err := w.genConf(ro); err != nil {
			return "", "conferr " + errCode(err)
		}
		b, err := os.ReadFile(filepath.Join(w.Conf, "ItemConf.json"))
		if err != nil {
			return "", "nofile"
		}
		return string(b), ""
	}
	want, e1 := run(false)
	got, e2 := run(true)
	if e1 != "" {
		return "bad default-layout " + e1
	}
	if e2 != "" {
		return "bad lines " + e2
	}
	if want != got {
		return "bad lines-differ"
	}
	return "ok"
}
