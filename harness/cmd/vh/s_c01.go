package main

import (
	"math/rand"
	"sort"
	"strconv"
	"strings"
)

// ---- canonical, well-formed values of a TDesc (for the C01 round trip) --------------------
//
// The generator only chooses WHAT the sheet says (a message); HOW it is written as a worksheet is the
// Lean specification `Spec.C01.write` (driver op `w.c01.case`).

type vGen struct {
	r *rand.Rand
	H int
}

func (g *vGen) scalar(kind string, allowZero bool) string {
	r := g.r
	switch kind {
	case "b":
		if allowZero && r.Intn(3) == 0 {
			return "i0"
		}
		return "i1"
	case "s":
		return encStr([]string{"a", "b", "hello", "x y", "值", "Z9", "q"}[r.Intn(7)])
	case "u32":
		if allowZero && r.Intn(5) == 0 {
			return "i0"
		}
		return "i" + []string{"1", "2", "7", "4294967295", "10"}[r.Intn(5)]
	case "u64":
		if allowZero && r.Intn(5) == 0 {
			return "i0"
		}
		return "i" + []string{"1", "3", "18446744073709551615", "42"}[r.Intn(4)]
	case "i32":
		if allowZero && r.Intn(5) == 0 {
			return "i0"
		}
		return "i" + []string{"1", "-1", "2147483647", "-2147483648", "5"}[r.Intn(5)]
	default:
		if allowZero && r.Intn(5) == 0 {
			return "i0"
		}
		return "i" + []string{"1", "-7", "9223372036854775807", "-9223372036854775808", "12"}[r.Intn(5)]
	}
}

func (g *vGen) keys(kind string, n int) []string {
	var pool []string
	if kind == "s" {
		pool = []string{"a", "b", "c", "k", "zz", "d", "e", "f", "g", "h", "m", "n", "p"}
	} else {
		pool = []string{"1", "2", "3", "5", "9", "11", "12", "13", "14", "15", "16", "17", "18"}
	}
	perm := g.r.Perm(len(pool))
	if n > len(pool) {
		n = len(pool)
	}
	var ks []string
	for i := 0; i < n; i++ {
		ks = append(ks, pool[perm[i]])
	}
	if kind == "s" {
		sort.Strings(ks)
	} else {
		sort.Slice(ks, func(i, j int) bool { a, _ := strconv.Atoi(ks[i]); b, _ := strconv.Atoi(ks[j]); return a < b })
	}
	return ks
}

func keyTok(kind, k string) string {
	if kind == "s" {
		return encStr(k)
	}
	return "i" + k
}

// msg generates the populated fields of a message; withKey forces the key sub-field to the given value.
// nonEmpty: at least one populated field.
func (g *vGen) msg(fs []*tField, keyName, keyVal string, nonEmpty bool) []string {
	type fv struct {
		num  int
		toks []string
	}
	var out []fv
	for _, f := range fs {
		var toks []string
		switch {
		case f.card == 'o' && f.kind != "m":
			if keyName != "" && f.name == keyName {
				toks = []string{keyTok(f.kind, keyVal)}
			} else if g.r.Intn(4) != 0 {
				t := g.scalar(f.kind, false)
				if f.kind == "s" && f.prop.optional && g.r.Intn(2) == 0 {
					t = ""
				}
				if t != "" {
					toks = []string{t}
				}
			}
		case f.card == 'o' && f.incell:
			if g.r.Intn(4) != 0 {
				toks = g.flatStruct(f.sub)
			}
		case f.card == 'o':
			if g.r.Intn(5) != 0 {
				sub := g.msg(f.sub, "", "", false)
				if sub[0] != "M0" {
					toks = sub
				}
			}
		case f.card == 'l' && f.layout == 'i':
			n := g.r.Intn(4)
			if n > 0 {
				toks = []string{"L" + strconv.Itoa(n)}
				for i := 0; i < n; i++ {
					toks = append(toks, g.scalar(f.kind, f.kind != "s"))
				}
			}
		case f.card == 'm' && f.layout == 'i':
			ks := g.keys(f.keyKind, g.r.Intn(4))
			if len(ks) > 0 {
				toks = []string{"P" + strconv.Itoa(len(ks))}
				for _, k := range ks {
					v := g.scalar(f.kind, f.kind != "s")
					if f.kind == "s" && g.r.Intn(4) == 0 {
						// the value of an in-cell map item is everything after the FIRST sub-separator: it may contain one
						v = encStr([]string{"http://a.example/x", "12:30:45", "k=v", "a~b", "x:"}[g.r.Intn(5)])
					}
					toks = append(toks, keyTok(f.keyKind, k), v)
				}
			}
		case f.card == 'l' && f.layout == 'v':
			n := g.r.Intn(4)
			var elems [][]string
			if f.key != "" {
				kk := ""
				for _, s := range f.sub {
					if s.name == f.key {
						kk = s.kind
					}
				}
				for _, k := range g.keys(kk, n) {
					elems = append(elems, g.msg(f.sub, f.key, k, true))
				}
			} else {
				for i := 0; i < n; i++ {
					elems = append(elems, g.msg(f.sub, "", "", true))
				}
			}
			if len(elems) > 0 {
				toks = []string{"L" + strconv.Itoa(len(elems))}
				for _, e := range elems {
					toks = append(toks, e...)
				}
			}
		case f.card == 'l': // horizontal
			n := g.r.Intn(g.H + 1)
			if n > 0 {
				toks = []string{"L" + strconv.Itoa(n)}
				for i := 0; i < n; i++ {
					switch {
					case f.kind != "m":
						toks = append(toks, g.scalar(f.kind, false))
					case f.incell:
						toks = append(toks, g.flatStruct(f.sub)...)
					default:
						toks = append(toks, g.msg(f.sub, "", "", true)...)
					}
				}
			}
		case f.card == 'm': // vertical or horizontal map of structs
			kk := ""
			for _, s := range f.sub {
				if s.name == f.key {
					kk = s.kind
				}
			}
			max := 3
			if f.layout == 'h' {
				max = g.H
			}
			ks := g.keys(kk, g.r.Intn(max+1))
			if len(ks) > 0 {
				toks = []string{"P" + strconv.Itoa(len(ks))}
				for _, k := range ks {
					toks = append(toks, keyTok(kk, k))
					toks = append(toks, g.msg(f.sub, f.key, k, true)...)
				}
			}
		}
		if len(toks) > 0 {
			out = append(out, fv{f.num, toks})
		}
	}
	if nonEmpty && len(out) == 0 {
		// populate the first scalar sub-field
		for _, f := range fs {
			if f.card == 'o' && f.kind != "m" {
				out = append(out, fv{f.num, []string{g.scalar(f.kind, false)}})
				break
			}
		}
	}
	res := []string{"M" + strconv.Itoa(len(out))}
	for _, x := range out {
		res = append(res, "#"+strconv.Itoa(x.num))
		res = append(res, x.toks...)
	}
	return res
}

// flatStruct: an in-cell struct value: a non-empty prefix of the fields is populated (no holes that
// would be absent parts followed by present ones are needed: holes are fine, trailing blanks trimmed)
func (g *vGen) flatStruct(sub []*tField) []string {
	var parts []string
	n := 0
	for _, s := range sub {
		if g.r.Intn(4) != 0 || n == 0 {
			parts = append(parts, "#"+strconv.Itoa(s.num), g.scalar(s.kind, false))
			n++
		}
	}
	return append([]string{"M" + strconv.Itoa(n)}, parts...)
}

// roundTripOK: shapes the round-trip statement covers (see DESIGN.md C01): no field properties that
// constrain data, separators not occurring in data, unkeyed vertical lists without nested vertical aggregates.
func stripProps(fs []*tField, insideUnkeyedVList bool) bool {
	for _, f := range fs {
		opt := f.prop.optional
		sep := f.prop.sep
		f.prop = tProp{optional: opt, sep: sep}
		vertical := (f.card == 'm' && (f.layout == 'd' || f.layout == 'v')) || (f.card == 'l' && f.layout == 'v')
		if vertical && insideUnkeyedVList {
			return false
		}
		if f.kind == "m" {
			inner := insideUnkeyedVList || (f.card == 'l' && f.layout == 'v' && f.key == "")
			if !stripProps(f.sub, inner) {
				return false
			}
		}
		// strings inside in-cell aggregates must not contain the separators: the pool has none of , : ; | =
	}
	return true
}

func init() {
	// e2e.C01.roundtrip: (schema, message) cases; the Lean spec writes the worksheet, the real table parser
	// must give back exactly the message.
	regStream("e2e.C01.roundtrip", func(r *rand.Rand, n int, emit func(string, ...string)) {
		tg := &tGen{r: r}
		for i := 0; i < n; {
			fs := tg.sheet()
			if !stripProps(fs, false) {
				continue
			}
			var dt []string
			tdescTokens(fs, &dt)
			for j := 0; j < 5 && i < n; j++ {
				vg := &vGen{r: r, H: hSlots(r)}
				o := tpOpts{nr: 1, tr: 2, nor: 3, dr: 4}
				if r.Intn(8) == 0 {
					o.sheetSep = ";"
				}
				if r.Intn(8) == 0 {
					o.sheetSubsep = "="
				}
				if r.Intn(10) == 0 {
					o.bookSep = "|"
				}
				val := vg.msg(fs, "", "", false)
				hd := strconv.Itoa(vg.H)
				if r.Intn(3) == 0 {
					hd += "d" // continuation rows written away from the row that opened their entry
				}
				emit("c01.case", o.token(), hd, strings.Join(dt, " "), strings.Join(val, " "))
				i++
			}
		}
	})
	// e2e.C07.corrupt: a valid written sheet with exactly one numeric/bool data cell replaced by "x!"
	regStream("e2e.C07.corrupt", func(r *rand.Rand, n int, emit func(string, ...string)) {
		tg := &tGen{r: r}
		for i := 0; i < n; {
			fs := tg.sheet()
			if !stripProps(fs, false) {
				continue
			}
			var dt []string
			tdescTokens(fs, &dt)
			for j := 0; j < 5 && i < n; j++ {
				vg := &vGen{r: r, H: hSlots(r)}
				o := tpOpts{nr: 1, tr: 2, nor: 3, dr: 4}
				val := vg.msg(fs, "", "", false)
				emit("c07.case", o.token(), strconv.Itoa(vg.H), strings.Join(dt, " "), strings.Join(val, " "), strconv.Itoa(r.Intn(1000)))
				i++
			}
		}
	})
	regImpl("c07.corrupt", func(a []string) string { return implTableParse([]string{a[0], a[1], a[2]}) })
	regImpl("c07.skip", func(a []string) string { return "skip" })
	regImpl("c01.rt", func(a []string) string {
		// a: opts desc grid val
		return implTableParse([]string{a[0], a[1], a[2]})
	})
}

// hSlots: the number of element slots of horizontal lists and maps; now and then two-digit element numbers
func hSlots(r *rand.Rand) int {
	if r.Intn(8) == 0 {
		return 10 + r.Intn(3)
	}
	return 1 + r.Intn(3)
}
