package main

import (
	"math/rand"
	"os"
	"path/filepath"
	"strconv"
	"strings"

	"github.com/tableauio/tableau/format"
	"github.com/tableauio/tableau/load"
	"github.com/tableauio/tableau/proto/tableaupb"
	"google.golang.org/protobuf/encoding/protojson"
	"google.golang.org/protobuf/encoding/prototext"
	"google.golang.org/protobuf/proto"
	"google.golang.org/protobuf/reflect/protoreflect"
	"google.golang.org/protobuf/types/dynamicpb"
)

// ---------------------------------------------------------------------------
// e2e.C13.load: load.Load over generated main / patch files — every patch type,
// load mode, PatchDirs / PatchPaths, file format, existing and missing files,
// empty patch messages anywhere in the order.
//
//   c13.load <schema> <n|r|m> <a|m|p> <d|p> <j|t|b> <main> <spec|spec|…>     spec = - | <j|t|b>:<message>
// ---------------------------------------------------------------------------

var c13Formats = map[string]format.Format{"j": format.JSON, "t": format.Text, "b": format.Bin}

func c13Marshal(m proto.Message, f string) []byte {
	var b []byte
	var err error
	switch f {
	case "j":
		b, err = protojson.Marshal(m)
	case "t":
		b, err = prototext.Marshal(m)
	default:
		b, err = proto.Marshal(m)
	}
	if err != nil {
		panic(err)
	}
	return b
}

func implC13Load(a []string) string {
	pos := 0
	schema := parseSchema(strings.Fields(a[0]), &pos)
	descSheetPatch = map[string]tableaupb.Patch{"n": tableaupb.Patch_PATCH_NONE, "r": tableaupb.Patch_PATCH_REPLACE, "m": tableaupb.Patch_PATCH_MERGE}[a[1]]
	md := buildDescriptor(schema)
	descSheetPatch = tableaupb.Patch_PATCH_NONE
	dec := func(s string) protoreflect.Message {
		p := 0
		return decMessage(md, strings.Fields(s), &p)
	}
	w := newWorkspace()
	defer w.cleanup()
	mainFmt := a[4]
	ext := format.Format2Ext(c13Formats[mainFmt])
	if err := os.WriteFile(filepath.Join(w.Conf, "Root"+ext), c13Marshal(dec(a[5]).Interface(), mainFmt), 0o644); err != nil {
		panic(err)
	}
	var dirs, paths []string
	if a[6] != "" {
		for i, spec := range strings.Split(a[6], "|") {
			dir := filepath.Join(w.Root, "patch"+strconv.Itoa(i))
			if spec == "-" {
				dirs = append(dirs, dir)
				paths = append(paths, filepath.Join(dir, "Root"+ext))
				continue
			}
			f, msg := spec[:1], spec[2:]
			if err := os.MkdirAll(dir, 0o755); err != nil {
				panic(err)
			}
			path := filepath.Join(dir, "Root"+format.Format2Ext(c13Formats[f]))
			data := c13Marshal(dec(msg).Interface(), f)
			if (i+len(msg))%3 == 0 {
				// the patch file is published as a symbolic link (mounted config volumes): still a readable file
				real := filepath.Join(dir, "..data", filepath.Base(path))
				if err := os.MkdirAll(filepath.Dir(real), 0o755); err != nil {
					panic(err)
				}
				if err := os.WriteFile(real, data, 0o644); err != nil {
					panic(err)
				}
				if err := os.Symlink(filepath.Join("..data", filepath.Base(path)), path); err != nil {
					panic(err)
				}
			} else if err := os.WriteFile(path, data, 0o644); err != nil {
				panic(err)
			}
			dirs = append(dirs, dir)
			paths = append(paths, path)
		}
	}
	opts := []load.Option{load.Mode(map[string]load.LoadMode{"a": load.ModeDefault, "m": load.ModeOnlyMain, "p": load.ModeOnlyPatch}[a[2]])}
	if a[3] == "d" {
		opts = append(opts, load.PatchDirs(dirs...))
	} else {
		opts = append(opts, load.PatchPaths(map[string][]string{"Root": paths}))
	}
	got := dynamicpb.NewMessage(md)
	if err := load.Load(got, w.Conf, c13Formats[mainFmt], opts...); err != nil {
		return "err " + errCode(err)
	}
	return msgString(got)
}

func init() {
	regStream("e2e.C13.load", func(r *rand.Rand, n int, emit func(string, ...string)) {
		for i := 0; i < n; {
			schema := genSchema(r, 2)
			md := buildDescriptor(schema)
			var dt []string
			schema.tokens(&dt)
			for j := 0; j < 6 && i < n; j++ {
				pt := []string{"m", "m", "r", "n"}[r.Intn(4)]
				mode := []string{"a", "a", "p", "m"}[r.Intn(4)]
				via := []string{"d", "p"}[r.Intn(2)]
				mainFmt := []string{"j", "t", "b"}[r.Intn(3)]
				main := genMessage(r, schema, md, []int{0, 50, 90}[r.Intn(3)])
				var specs []string
				for k := r.Intn(5); k > 0; k-- {
					if r.Intn(5) == 0 {
						specs = append(specs, "-")
						continue
					}
					f := mainFmt // PatchDirs look for <Name><ext of the main format>
					if via == "p" {
						f = []string{"j", "t", "b"}[r.Intn(3)]
					}
					// empty patches (the identity) are as likely as full ones
					density := []int{0, 0, 30, 60, 100}[r.Intn(5)]
					specs = append(specs, f+":"+msgString(genMessage(r, schema, md, density)))
				}
				emit("c13.load", strings.Join(dt, " "), pt, mode, via, mainFmt, msgString(main), strings.Join(specs, "|"))
				i++
			}
		}
	})
	regImpl("c13.load", implC13Load)
}
