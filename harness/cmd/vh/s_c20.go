package main

import (
	"fmt"
	"math/rand"
	"strings"
	"time"

	"github.com/tableauio/tableau/verifhook"
)

var c20Zones = []string{"UTC", "Asia/Shanghai", "Asia/Kolkata", "Asia/Kathmandu", "America/New_York", "Europe/Berlin",
	"Australia/Sydney", "Australia/Lord_Howe", "America/St_Johns", "Pacific/Apia", "Africa/Casablanca", "America/Sao_Paulo",
	"Asia/Tehran", "Europe/London", "Pacific/Chatham", "America/Caracas", "Asia/Pyongyang", "Pacific/Kiritimati", "Etc/GMT+12", "Local"}

type zoneTab struct {
	name  string
	loc   *time.Location
	trans []int64 // transition instants (starts of entries 1..)
	enc   string
}

var zoneCache = map[string]*zoneTab{}

// zoneTable enumerates the transitions of a location through the real time
// package (Time.ZoneBounds) between 1940 and 2036 (explicit transitions of the zone database); generated wall clocks stay inside 1951 … 2035.
func zoneTable(name string) *zoneTab {
	if z, ok := zoneCache[name]; ok {
		return z
	}
	loc, err := time.LoadLocation(name)
	if err != nil {
		panic(err)
	}
	z := &zoneTab{name: name, loc: loc}
	t := time.Date(1950, 1, 1, 0, 0, 0, 0, time.UTC).In(loc)
	limit := time.Date(2036, 1, 1, 0, 0, 0, 0, time.UTC)
	var parts []string
	_, off := t.Zone()
	parts = append(parts, fmt.Sprintf("0:%d", off))
	for {
		_, end := t.ZoneBounds()
		if end.IsZero() || end.After(limit) || !end.After(t) {
			break
		}
		t = end
		_, off := t.Zone()
		z.trans = append(z.trans, end.Unix())
		parts = append(parts, fmt.Sprintf("%d:%d", end.Unix(), off))
	}
	z.enc = strings.Join(parts, ",")
	zoneCache[name] = z
	return z
}

func init() {
	// corr.xproto.parseTime: zones with half-hour / 45-minute offsets and DST; wall clocks at every
	// transition ± a few hours (datetime), the dates of transitions (date-only), random instants,
	// all three documented spellings, plus malformed texts.
	regStream("corr.xproto.parseTime", func(r *rand.Rand, n int, emit func(string, ...string)) {
		count := 0
		out := func(z *zoneTab, s string) {
			emit("c20.ts", z.name, z.enc, encStr(s))
			count++
		}
		spell := func(z *zoneTab, t time.Time, which int) {
			switch which {
			case 0:
				out(z, t.Format("2006-01-02 15:04:05"))
			case 1:
				out(z, t.Format("2006-01-02"))
			default:
				out(z, t.Format("20060102"))
			}
		}
		bad := []string{"2021-1-1", "2021-13-01", "2021-02-30", "2021-02-29", "2020-02-29", "2021-01-01 24:00:00", "2021-01-01 23:60:00", "2021-01-01 23:59:60",
			"2021-01-01T10:00:00", "2021/01/01", "20210", "202101011", "2021-01-01 10:00", "abc", "2021-01-01 10:00:00 ", " 2021-01-01", "2021-01-01  10:00:00",
			"0000-01-01", "0001-01-01", "9999-12-31 23:59:59", "2021-01-01 10:00:00.5", "２０２１-01-01", "1969-12-31 23:59:59", "1970-01-01"}
		for _, zn := range c20Zones {
			z := zoneTable(zn)
			for _, s := range bad {
				if zn != "UTC" && (strings.HasPrefix(s, "0") || strings.HasPrefix(s, "19")) {
					continue // before 1940 the zones are on local mean time, which the tables do not carry
				}
				out(z, s)
			}
			// every 3rd transition (all when few): wall clocks around it as the zone shows them before/after
			step := 1
			if len(z.trans) > 40 {
				step = len(z.trans) / 40
			}
			for i := 0; i < len(z.trans); i += step {
				tr := z.trans[i]
				for _, d := range []int64{-7200, -3601, -3600, -1800, -1, 0, 1, 1799, 1800, 3599, 3600, 7200} {
					base := time.Unix(tr+d, 0)
					// wall clocks as shown by the zone, and the same reading taken in UTC (may fall in a gap/overlap)
					spell(z, base.In(z.loc), 0)
					spell(z, base.UTC(), 0)
				}
				spell(z, time.Unix(tr, 0).In(z.loc), 1)
				spell(z, time.Unix(tr, 0).In(z.loc), 2)
				spell(z, time.Unix(tr-86400, 0).In(z.loc), 1)
			}
		}
		for count < n {
			z := zoneTable(c20Zones[r.Intn(len(c20Zones))])
			t := time.Unix(r.Int63n(2600000000)-590000000, 0) // ~1951 … ~2033
			spell(z, t.In(z.loc), r.Intn(3))
		}
	})
	regImpl("c20.ts", func(a []string) string {
		fd := kindFields["timestamp"]
		v, present, err := verifhook.ParseFieldValue(fd, mustStr(a[2]), a[0])
		if err != nil {
			return "err"
		}
		if !present {
			return "absent"
		}
		m := v.Message()
		sec := m.Get(m.Descriptor().Fields().ByName("seconds")).Int()
		nanos := m.Get(m.Descriptor().Fields().ByName("nanos")).Int()
		if nanos != 0 {
			return fmt.Sprintf("okn %d %d", sec, nanos)
		}
		return fmt.Sprintf("ok %d", sec)
	})
}
