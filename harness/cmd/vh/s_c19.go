package main

import (
	"time"
	"math/rand"
	"os"
	"path/filepath"
	"strings"

	"github.com/jhump/protoreflect/desc"
	"github.com/tableauio/tableau/format"
	"github.com/tableauio/tableau/load"
	"github.com/tableauio/tableau/xerrors"
	"google.golang.org/protobuf/proto"
	"google.golang.org/protobuf/reflect/protoregistry"
	"google.golang.org/protobuf/types/dynamicpb"
)

// ---------------------------------------------------------------------------
// C19: load.Load from the origin workbook == load.Load of the generated conf.
// ---------------------------------------------------------------------------

type c19Case struct {
	container string // csv | xlsx
	subdir    string // "" or the subdir recorded in the schema
	rewriteTo string // "" or the subdir the inputs really are in (SubdirRewrites)
	merger    bool
	location  string
	corrupt   bool
	book      bookSpec   // primary
	mergers   []bookSpec // merger sources (same sheet, other rows)
	sheet     string
	refer     bool     // a column of the sheet refers to a column of another workbook's sheet
	referBook bookSpec // the referred workbook
	cleanBook bookSpec // corrupt cases: the workbook before the one cell was spoilt
}

func genC19Case(r *rand.Rand, uniq string) c19Case {
	c := c19Case{container: []string{"csv", "xlsx"}[r.Intn(2)], sheet: "HeroConf" + uniq, location: []string{"", "Asia/Shanghai", "America/New_York"}[r.Intn(3)]}
	g := &sgen{r: r}
	// a vertical map (merger sources contribute disjoint keys) or a vertical list (merged lists are appended book by
	// book: both paths must append in the same order)
	var gs genSheetOut
	for {
		gs = g.sheet(c.sheet, 1+r.Intn(4), 1+r.Intn(4))
		if gs.vkind == "map" || gs.vkind == "list" {
			break
		}
	}
	if r.Intn(3) == 0 {
		c.subdir = "excel/"
		switch r.Intn(4) {
		case 0, 1:
			c.rewriteTo = "alt/"
		case 2:
			c.rewriteTo = "excel/v2/" // the new subdir starts with the old one: rewriting must happen exactly once
		}
	}
	c.merger = r.Intn(3) == 0
	meta := map[string]string{}
	if c.merger {
		if c.container == "csv" {
			meta["Merger"] = "Extra*.csv#" + c.sheet
		} else {
			meta["Merger"] = "Extra*.xlsx#" + c.sheet
		}
		for m := 1 + r.Intn(2); m > 0; m-- {
			rows := [][]string{gs.spec.Rows[0], gs.spec.Rows[1], gs.spec.Rows[2]}
			for k := 0; k < 1+r.Intn(3); k++ {
				var row []string
				for _, n := range gs.nodes {
					row = append(row, g.cells(n, 100*m+k)...)
				}
				rows = append(rows, row)
			}
			c.mergers = append(c.mergers, bookSpec{Name: "Extra" + itoa(int64(m)), Sheets: []sheetSpec{{Name: c.sheet, Rows: rows}}, NoMeta: true})
		}
	}
	gs.spec.Meta = meta
	if r.Intn(3) == 0 && !c.merger {
		// a refer column: its values must exist in a column of another workbook (found through the same rewrites)
		c.refer = true
		itemSheet := "ItemConf" + uniq
		rows := gs.spec.Rows
		rows[0] = append(rows[0], "ItemRef")
		rows[1] = append(rows[1], `uint32|{refer:"`+itemSheet+`.ID"}`)
		rows[2] = append(rows[2], "note")
		for k := 3; k < len(rows); k++ {
			for len(rows[k]) < len(rows[0])-1 {
				rows[k] = append(rows[k], "")
			}
			rows[k] = append(rows[k], itoa(int64(1+r.Intn(5))))
		}
		irows := [][]string{{"ID", "Name"}, {"map<uint32, " + itemSheet + "Item>", "string"}, {"", ""}}
		for id := 1; id <= 5; id++ {
			irows = append(irows, []string{itoa(int64(id)), "item"})
		}
		c.referBook = bookSpec{Name: "Item" + uniq, Sheets: []sheetSpec{{Name: itemSheet, Rows: irows}}}
	}
	bookName := "Fuzz" + uniq
	if r.Intn(4) == 0 {
		bookName += ".v2" // a dot inside the workbook's name (the container is still told by the extension)
	}
	c.book = bookSpec{Name: bookName, Sheets: []sheetSpec{gs.spec}}
	if gs.vkind == "map" && !c.merger && len(gs.spec.Rows) > 4 && r.Intn(6) == 0 {
		// a repeated key in a vertical map whose key uniqueness is deduced: both paths refuse it alike
		c.corrupt = true
		clean := gs.spec
		clean.Rows = make([][]string, len(gs.spec.Rows))
		for i, row := range gs.spec.Rows {
			clean.Rows[i] = append([]string{}, row...)
		}
		c.cleanBook = bookSpec{Name: bookName, Sheets: []sheetSpec{clean}}
		rows := c.book.Sheets[0].Rows
		dup := append([]string{}, rows[4]...)
		dup[0] = rows[3][0]
		c.book.Sheets[0].Rows = append(rows, dup)
	} else if r.Intn(6) == 0 {
		c.corrupt = true
		// the sheet as generated, before the one cell is spoilt
		clean := gs.spec
		clean.Rows = make([][]string, len(gs.spec.Rows))
		for i, row := range gs.spec.Rows {
			clean.Rows[i] = append([]string{}, row...)
		}
		c.cleanBook = bookSpec{Name: bookName, Sheets: []sheetSpec{clean}}
		rows := c.book.Sheets[0].Rows
		if len(rows) > 3 {
			k := 3 + r.Intn(len(rows)-3)
			if len(rows[k]) > 1 {
				rows[k][1+r.Intn(len(rows[k])-1)] = []string{"x,y:z", "99999999999999999999", "2024-13-45", "}"}[r.Intn(4)]
			}
		}
	}
	return c
}

func errCore(err error) string {
	if err == nil {
		return "ok"
	}
	d := xerrors.NewDesc(err)
	get := func(k string) string {
		v, _ := d.GetValue(k).(string)
		return v
	}
	return "err " + d.ErrCode() + "|" + get(xerrors.KeySheetName) + "|" + get(xerrors.KeyDataCellPos) + "|" + get(xerrors.KeyDataCell) + "|" + get(xerrors.KeyColumnName)
}

// c19CleanConverts: the workbook without the spoilt cell (same mergers, refer book) passes GenProto + GenConf
func c19CleanConverts(c c19Case) bool {
	w := newWorkspace()
	defer w.cleanup()
	write := func(b bookSpec) {
		if c.container == "xlsx" {
			w.writeXLSXBook("", b, false)
		} else {
			w.writeCSVBook("", b)
		}
	}
	ro := runOpts{LocationName: c.location, Package: "pc" + strings.TrimPrefix(c.sheet, "HeroConf")}
	if c.container == "xlsx" {
		ro.Formats = []format.Format{format.Excel}
	}
	write(baseBook())
	write(c.cleanBook)
	for _, m := range c.mergers {
		write(m)
	}
	if c.refer {
		write(c.referBook)
	}
	return w.genProto(ro) == nil && w.genConf(ro) == nil
}

func runC19(c c19Case) string {
	// the machine's own zone is not UTC: an empty LocationName still means UTC on both paths
	if mz, err := time.LoadLocation("Asia/Kolkata"); err == nil {
		saved := time.Local
		time.Local = mz
		defer func() { time.Local = saved }()
	}
	w := newWorkspace()
	defer w.cleanup()
	// half of the XLSX cases store plain numbers as number-typed cells (what a spreadsheet program does): both
	// paths must read the same text from them
	numeric := len(c.sheet)%2 == 0
	write := func(sub string, b bookSpec) {
		if c.container == "xlsx" {
			w.writeXLSXBook(sub, b, numeric)
		} else {
			w.writeCSVBook(sub, b)
		}
	}
	ro := runOpts{LocationName: c.location, LocationRaw: true, Package: "pc" + strings.TrimPrefix(c.sheet, "HeroConf")}
	if c.container == "xlsx" {
		ro.Formats = []format.Format{format.Excel}
	}
	// schema generation sees the books in the recorded subdir
	write("", baseBook())
	write(c.subdir, c.book)
	for _, m := range c.mergers {
		write(c.subdir, m)
	}
	if c.refer {
		write(c.subdir, c.referBook)
	}
	if err := w.genProto(ro); err != nil {
		return "same protoerr"
	}
	var rewrites map[string]string
	if c.rewriteTo != "" {
		// the inputs move: conf generation and origin loading read them from the rewritten subdir
		tmp := filepath.Join(w.Root, "moving")
		if err := os.Rename(filepath.Join(w.In, c.subdir), tmp); err != nil {
			panic(err)
		}
		if err := os.MkdirAll(filepath.Dir(filepath.Join(w.In, filepath.Clean(c.rewriteTo))), 0o755); err != nil {
			panic(err)
		}
		if err := os.Rename(tmp, filepath.Join(w.In, filepath.Clean(c.rewriteTo))); err != nil {
			panic(err)
		}
		rewrites = map[string]string{c.subdir: c.rewriteTo}
		ro.SubdirRewrites = rewrites
	}
	confErr := w.genConf(ro)
	if confErr != nil && os.Getenv("VERIF_DEBUG") != "" {
		println("CONFERR", confErr.Error())
	}
	descs, err := parseProtoDir(w.Proto)
	if err != nil {
		return "same protoinvalid"
	}
	md := descs[ro.pkg()+"."+c.sheet]
	if md == nil {
		return "same nomessage"
	}
	if c.refer {
		// load.Load resolves refer targets through protoregistry.GlobalFiles (names are unique per case)
		if rm := descs[ro.pkg()+"."+c.referBook.Sheets[0].Name]; rm != nil {
			_ = protoregistry.GlobalFiles.RegisterFile(rm.GetFile().UnwrapFile())
		}
	}
	// the location is handed over as it is, also when empty ("" = UTC)
	opts := []load.Option{load.LocationName(c.location)}
	if rewrites != nil {
		opts = append(opts, load.SubdirRewrites(rewrites))
	}
	fromOrigin := dynamicpb.NewMessage(md.UnwrapMessage())
	inFmt := format.CSV
	if c.container == "xlsx" {
		inFmt = format.Excel
	}
	originErr := load.Load(fromOrigin, w.In, inFmt, opts...)
	if confErr != nil || originErr != nil {
		if (confErr != nil) != (originErr != nil) {
			return "differ error-parity conf=" + errCore(confErr) + " origin=" + errCore(originErr)
		}
		if errCore(confErr) != errCore(originErr) {
			// "the same errors for the same bad cells": decided when the spoilt cell is the input's only bad cell,
			// i.e. the workbook converts without it. Several bad cells (generated merger rows may carry their own,
			// e.g. two blank map keys) are reported first-come by each path: which one comes first is not stated.
			if c.corrupt && c19CleanConverts(c) {
				return "differ error-desc conf=" + errCore(confErr) + " origin=" + errCore(originErr)
			}
			return "same err-several"
		}
		return "same err"
	}
	fromConf := dynamicpb.NewMessage(md.UnwrapMessage())
	if err := load.Load(fromConf, w.Conf, format.JSON, opts...); err != nil {
		return "differ conf-unloadable"
	}
	if !proto.Equal(fromOrigin, fromConf) {
		return "differ message"
	}
	return "same ok"
}

var _ = desc.LoadFileDescriptor

func init() {
	regStream("e2e.C19.origin", func(r *rand.Rand, n int, emit func(string, ...string)) {
		for i := 0; i < n; i++ {
			emit("c19.origin", itoa(r.Int63n(1<<40)))
		}
	})
	regImpl("c19.origin", func(a []string) string {
		r := rand.New(rand.NewSource(mustInt(a[0])))
		c := genC19Case(r, a[0])
		res := runC19(c)
		var tags []string
		tags = append(tags, c.container)
		if c.merger {
			tags = append(tags, "merger")
		}
		if c.rewriteTo == "excel/v2/" {
			tags = append(tags, "rewrite-into-self")
		} else if c.rewriteTo != "" {
			tags = append(tags, "rewrite")
		} else if c.subdir != "" {
			tags = append(tags, "subdir")
		}
		if c.location != "" {
			tags = append(tags, "loc")
		}
		if c.corrupt {
			tags = append(tags, "corrupt")
		}
		if c.refer {
			tags = append(tags, "refer")
		}
		return res + " [" + strings.Join(tags, ",") + "]"
	})
}
