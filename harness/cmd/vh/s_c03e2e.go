package main

import (
	"math/rand"
	"os"
	"path/filepath"
	"regexp"
	"strconv"
	"strings"
)

// ---------------------------------------------------------------------------
// e2e.C03.reject: one data cell of a valid generated worksheet is replaced by a text that is no literal of its
// column's type — any layout (plain column, struct member, horizontal list / map element incl. well-known
// element types, in-cell aggregates, vertical keys). The real GenConf must fail and write no conf file for
// that worksheet.
// ---------------------------------------------------------------------------

var firstTypeRe = regexp.MustCompile(`enum<[^>]*>|uint32|uint64|sint32|int32|int64|bool|float|double|datetime|duration|fraction|comparator|string|bytes`)

func junkFor(typ string) string {
	switch {
	case strings.HasPrefix(typ, "enum<"):
		return "NoSuchFruit"
	case typ == "bool":
		return "maybe"
	case typ == "datetime":
		return "2024-13-45"
	case typ == "duration":
		return "soon"
	case typ == "comparator":
		return "=>5"
	case typ == "string" || typ == "bytes":
		return ""
	}
	return "abc" // integers, floats, fractions
}

func runC03Reject(seed int64) string {
	r := rand.New(rand.NewSource(seed))
	g := &sgen{r: r, noSize: true}
	// every fifth sheet ends in a horizontal list of ten or more elements: the spoilt cell is its last element
	var wide []*snode
	if r.Intn(5) == 0 {
		wide = []*snode{{kind: "hscalar", name: "Wide", typ: []string{"int32", "uint32", "bool"}[r.Intn(3)], n: 10 + r.Intn(3)}}
	}
	gs := g.sheet("HeroConf", 1+r.Intn(5), 1+r.Intn(3), wide...)
	rows := gs.spec.Rows
	if len(rows) < 4 {
		return "unspec no-data"
	}
	// the element type of every column: its own type cell, or (later elements of a horizontal aggregate carry a
	// bare element type already)
	k := 3 + r.Intn(len(rows)-3)
	var cands []int
	for j := range rows[0] {
		if j < len(rows[1]) && j < len(rows[k]) {
			if t := firstTypeRe.FindString(rows[1][j]); t != "" && junkFor(t) != "" {
				cands = append(cands, j)
			}
		}
	}
	if len(cands) == 0 {
		return "unspec no-typed-column"
	}
	j := cands[r.Intn(len(cands))]
	if wide != nil {
		// all elements before the last one are populated, so that the last one is read
		for c, n := range rows[0] {
			if strings.HasPrefix(n, "Wide") && c < len(rows[k]) {
				rows[k][c] = map[string]string{"bool": "true"}[wide[0].typ]
				if rows[k][c] == "" {
					rows[k][c] = strconv.Itoa(c + 1)
				}
				j = c
			}
		}
	}
	typ := firstTypeRe.FindString(rows[1][j])
	junk := junkFor(typ)
	if strings.HasPrefix(rows[1][j], "[]") && r.Intn(2) == 0 {
		// an aggregate cell: the malformed element comes after a valid one and an empty one (seed C03-4: the
		// element's error was examined only after the "no element may follow an empty one" test)
		valid := strings.SplitN(rows[k][j], ",", 2)[0]
		if valid == "" {
			valid = map[string]string{"bool": "true", "string": "x", "float": "1.5"}[typ]
			if valid == "" {
				valid = "1"
			}
		}
		junk = valid + ",," + junk
	}

	w := newWorkspace()
	defer w.cleanup()
	w.writeCSVBook("", baseBook())
	// in half of the cases the workbook has other, well-formed worksheets before and after the one that gets spoilt
	// (a failure of one worksheet must fail the run whatever is converted after it)
	var before, after []sheetSpec
	if r.Intn(2) == 0 {
		before = []sheetSpec{{Name: "AlphaConf", Rows: [][]string{{"ID", "Name"}, {"map<uint32, Alpha>", "string"}, {"id", "name"}, {"1", "a"}, {"2", "b"}}}}
		after = []sheetSpec{{Name: "OmegaConf", Rows: [][]string{{"ID", "Num"}, {"map<uint32, Omega>", "int32"}, {"id", "num"}, {"1", "10"}}},
			{Name: "ZetaConf", Rows: [][]string{{"ID"}, {"[Zeta]uint32"}, {"id"}, {"5"}}}}
	}
	sheetsWith := func(mid sheetSpec) []sheetSpec {
		return append(append(append([]sheetSpec{}, before...), mid), after...)
	}
	w.writeCSVBook("", bookSpec{Name: "Fuzz", Sheets: sheetsWith(gs.spec)})
	ro := runOpts{}
	if err := w.genProto(ro); err != nil {
		return "unspec protogen-rejects"
	}
	if err := w.genConf(ro); err != nil {
		return "unspec valid-sheet-rejected " + errCode(err)
	}
	// the same book with the one cell spoilt, converted into a fresh output directory
	bad := make([][]string, len(rows))
	for i := range rows {
		bad[i] = append([]string{}, rows[i]...)
	}
	bad[k][j] = junk
	w.writeCSVBook("", bookSpec{Name: "Fuzz", Sheets: sheetsWith(sheetSpec{Name: "HeroConf", Rows: bad})})
	os.RemoveAll(w.Conf)
	os.MkdirAll(w.Conf, 0o755)
	err := w.genConf(ro)
	_, statErr := os.Stat(filepath.Join(w.Conf, "HeroConf.json"))
	layout := "plain"
	switch {
	case strings.Contains(rows[1][j], "map<"):
		layout = "map"
	case strings.HasPrefix(rows[1][j], "[") || strings.Contains(rows[1][j], "}["):
		layout = "list"
	case strings.HasPrefix(rows[1][j], "{"):
		layout = "struct"
	}
	tag := " [" + typ + "," + layout + "]"
	if before != nil {
		tag = " [" + typ + "," + layout + ",sheets]"
	}
	if err == nil {
		return "ACCEPTED " + encStr(junk) + " in " + encStr(rows[0][j]) + ":" + encStr(rows[1][j]) + tag
	}
	if statErr == nil {
		return "CONF-WRITTEN-DESPITE-ERROR" + tag
	}
	return "rejected " + errCode(err) + tag
}

func init() {
	regStream("e2e.C03.reject", func(r *rand.Rand, n int, emit func(string, ...string)) {
		for i := 0; i < n; i++ {
			emit("c03.reject", itoa(r.Int63n(1<<40)))
		}
	})
	regImpl("c03.reject", func(a []string) string { return runC03Reject(mustInt(a[0])) })
}
