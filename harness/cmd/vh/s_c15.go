package main

import (
	"fmt"
	"math/rand"
	"os"
	"path/filepath"
	"sort"
	"strings"

	"github.com/jhump/protoreflect/desc"
	"github.com/jhump/protoreflect/desc/protoparse"
	"github.com/tableauio/tableau/format"
	"github.com/tableauio/tableau/verifhook"
	"google.golang.org/protobuf/encoding/protojson"
	"google.golang.org/protobuf/proto"
	"google.golang.org/protobuf/reflect/protoreflect"
	"google.golang.org/protobuf/types/dynamicpb"
)

// ---------------------------------------------------------------------------
// C15: the schema depends only on headers and is stable under appending.
// ---------------------------------------------------------------------------

func renderHeaderResult(pkg string, nested bool, names, types []string) string {
	fields, _, err := verifhook.ParseHeader(pkg, c17Infos, names, types, nested)
	if err != nil {
		return "err"
	}
	var sb strings.Builder
	sb.WriteString("ok ")
	for _, f := range fields {
		sb.WriteString(renderPField(f))
	}
	return sb.String()
}

// lastIsFirstElem: the last named column opens a first-element ("…1…") list or map (the D16 class)
func lastIsFirstElem(names, types []string) bool {
	for i := len(names) - 1; i >= 0; i-- {
		if strings.TrimSpace(names[i]) == "" {
			continue
		}
		t := ""
		if i < len(types) {
			t = strings.TrimSpace(types[i])
		}
		// the list/map declaration may be wrapped: `{Reward}[]uint64` opens a struct whose first column is the list
		return strings.Contains(names[i][1:], "1") && (strings.Contains(t, "[") || strings.Contains(t, "map<"))
	}
	return false
}

func init() {
	// spec.C15.append: the header parser on (H, H ++ C); the oracle judges "every existing field unchanged".
	regStream("spec.C15.append", func(r *rand.Rand, n int, emit func(string, ...string)) {
		for i := 0; i < n; {
			g := &hgen{r: r, nested: r.Intn(5) == 0}
			cols := g.fields("", 2, 1+r.Intn(4), true)
			var names, types []string
			for _, c := range cols {
				names = append(names, c.name)
				types = append(types, c.typ)
			}
			if r.Intn(5) == 0 {
				// remark columns (a name, no type) right of the typed columns: they are columns for the layout
				// look-ahead, not fields
				for k := 1 + r.Intn(2); k > 0; k-- {
					names = append(names, "Remark"+string(rune('A'+k)))
					types = append(types, "")
				}
			}
			if lastIsFirstElem(names, types) {
				continue // D16 (known finding) has its own witness
			}
			// the appended columns: fresh fields, or columns continuing the last name's prefix
			var add []hcol
			switch r.Intn(4) {
			case 0:
				last := names[len(names)-1]
				cut := len(last) - r.Intn(len(last)/2+1)
				add = []hcol{{last[:cut] + "Zz", g.scalarType()}}
			default:
				add = g.fields("", 1, 1+r.Intn(3), true)
			}
			var an, at []string
			for _, c := range add {
				an = append(an, c.name)
				at = append(at, c.typ)
			}
			emit("c15.append", encStr("protoconf"), encInfos(c17Infos), encBool(g.nested), encParts(names), encParts(types), encParts(an), encParts(at))
			i++
		}
	})
	regImpl("c15.append", func(a []string) string {
		names, types, an, at := decParts(a[3]), decParts(a[4]), decParts(a[5]), decParts(a[6])
		for len(types) < len(names) {
			types = append(types, "")
		}
		nested := a[2] == "1"
		old := renderHeaderResult(mustStr(a[0]), nested, names, types)
		ext := renderHeaderResult(mustStr(a[0]), nested, append(append([]string{}, names...), an...), append(append([]string{}, types...), at...))
		return old + " ## " + ext
	})
}

// --- e2e: two versions of a workbook through the real GenProto ------------------------------------

func parseProtoDir(dir string, extra ...string) (map[string]*desc.MessageDescriptor, error) {
	ents, _ := os.ReadDir(dir)
	var files []string
	for _, e := range ents {
		if strings.HasSuffix(e.Name(), ".proto") {
			files = append(files, e.Name())
		}
	}
	sort.Strings(files)
	p := protoparse.Parser{ImportPaths: append([]string{dir}, extra...), LookupImport: desc.LoadFileDescriptor}
	fds, err := p.ParseFiles(files...)
	if err != nil {
		return nil, err
	}
	res := map[string]*desc.MessageDescriptor{}
	var walk func(m *desc.MessageDescriptor)
	walk = func(m *desc.MessageDescriptor) {
		res[m.GetFullyQualifiedName()] = m
		for _, n := range m.GetNestedMessageTypes() {
			walk(n)
		}
	}
	for _, fd := range fds {
		for _, m := range fd.GetMessageTypes() {
			walk(m)
		}
	}
	return res, nil
}

// schemaExtends: every message of the old schema exists in the new one and every old field is still there with
// the same name, number, label, type and options
func schemaExtends(old, new map[string]*desc.MessageDescriptor) string {
	var names []string
	for n := range old {
		names = append(names, n)
	}
	sort.Strings(names)
	for _, n := range names {
		om := old[n]
		nm, ok := new[n]
		if !ok {
			return "message-gone:" + n
		}
		if !proto.Equal(om.GetMessageOptions(), nm.GetMessageOptions()) {
			return "message-options:" + n
		}
		for _, of := range om.GetFields() {
			nf := nm.FindFieldByNumber(of.GetNumber())
			if nf == nil {
				return "field-gone:" + n + "." + of.GetName()
			}
			if nf.GetName() != of.GetName() || nf.GetLabel() != of.GetLabel() || nf.GetType() != of.GetType() || nf.GetJSONName() != of.GetJSONName() {
				return "field-changed:" + n + "." + of.GetName()
			}
			otn, ntn := "", ""
			if of.GetMessageType() != nil {
				otn = of.GetMessageType().GetFullyQualifiedName()
			}
			if nf.GetMessageType() != nil {
				ntn = nf.GetMessageType().GetFullyQualifiedName()
			}
			if of.GetEnumType() != nil {
				otn = of.GetEnumType().GetFullyQualifiedName()
			}
			if nf.GetEnumType() != nil {
				ntn = nf.GetEnumType().GetFullyQualifiedName()
			}
			if otn != ntn {
				return "field-type:" + n + "." + of.GetName()
			}
			if !proto.Equal(of.GetFieldOptions(), nf.GetFieldOptions()) {
				return "field-options:" + n + "." + of.GetName()
			}
		}
	}
	return ""
}

type c15Case struct {
	v1, v2 bookSpec
	kind   string // data | columns | sheets
}

func genC15Case(r *rand.Rand, kind string) c15Case {
	g := &sgen{r: r}
	var last []*snode
	if kind == "data" && r.Intn(3) == 0 {
		// the last named column opens a one-element horizontal scalar list / map: its layout is decided by a
		// look-ahead, which must not see anything but header cells
		if r.Intn(2) == 0 {
			last = []*snode{{kind: "hscalar", name: g.vname(), typ: []string{"int32", "string", "uint32"}[r.Intn(3)], n: 1}}
		} else {
			last = []*snode{{kind: "incellMap", name: g.vname() + "1", typ: "int32", sname: "string"}}
		}
	}
	nf := 1 + r.Intn(4)
	// appended sheets after a TRANSPOSED sheet with more fields than the importers' schema window of 10 lines
	wideTransposed := kind == "sheets" && r.Intn(2) == 0
	if wideTransposed {
		nf = 9 + r.Intn(3)
	}
	// appended TYPE sheet: a union whose value is named like an existing top-level type (Reward, the struct type sheet
	// of the base book), while the existing sheet uses that type as a cross-cell struct
	unionAppend := kind == "sheets" && !wideTransposed && r.Intn(2) == 0
	if unionAppend {
		last = append(last, &snode{kind: "predefStruct", name: g.vname(), sname: ".Reward"})
	}
	// a horizontal struct list of nine elements as the last field: the appended columns are its tenth (and eleventh)
	// element — columns of a NEW element extend the sheet, they belong to no existing element
	growList := kind == "columns" && r.Intn(3) == 0
	if growList {
		hl := &snode{kind: []string{"hlist", "hmap"}[r.Intn(2)], name: "Slot", sname: "Slot", n: 9}
		hl.sub = []*snode{{kind: "scalar", name: "ID", typ: "uint32"}, {kind: "scalar", name: "Num", typ: "int32"}}
		last = append(last, hl)
	}
	// appended TYPE sheet named like a LOCAL type of the existing sheet (a member-less struct `{Skill}` nested in the
	// sheet's message): the existing field keeps its own nested type
	localAppend := kind == "sheets" && !wideTransposed && !unionAppend && r.Intn(2) == 0
	if localAppend {
		last = append(last, &snode{kind: "emptyStruct", name: "Skill", sname: "Skill"})
	}
	gs := g.sheet("HeroConf", nf, 2+r.Intn(5), last...)
	v1 := bookSpec{Name: "Fuzz", Sheets: []sheetSpec{gs.spec}}
	rows2 := make([][]string, len(gs.spec.Rows))
	for i, row := range gs.spec.Rows {
		rows2[i] = append([]string{}, row...)
	}
	s2 := sheetSpec{Name: "HeroConf", Rows: rows2}
	v2 := bookSpec{Name: "Fuzz", Sheets: []sheetSpec{s2}}
	names := gs.spec.Rows[0]
	switch kind {
	case "data":
		// edits confined to data rows: change cells, delete a row, add rows, a remark cell right of the table
		for e := 1 + r.Intn(3); e > 0; e-- {
			rows := v2.Sheets[0].Rows
			switch r.Intn(6) {
			case 4:
				rows = rows[:3] // all data rows deleted: the header is all that is left
			case 5:
				if len(rows) > 3 {
					rows = rows[:4] // a single data row left
				}
			case 0:
				if len(rows) > 3 {
					k := 3 + r.Intn(len(rows)-3)
					c := r.Intn(len(rows[k]))
					if c > 0 {
						rows[k][c] = ""
					}
				}
			case 1:
				if len(rows) > 4 {
					k := 3 + r.Intn(len(rows)-3)
					rows = append(rows[:k], rows[k+1:]...)
				}
			case 2:
				var row []string
				for _, n := range gs.nodes {
					row = append(row, g.cells(n, 50+e)...)
				}
				rows = append(rows, row)
			case 3:
				if len(rows) > 3 {
					k := 3 + r.Intn(len(rows)-3)
					row := rows[k]
					for len(row) < len(names) {
						row = append(row, "")
					}
					rows[k] = append(row, "remark")
				}
			}
			v2.Sheets[0].Rows = rows
		}
	case "columns":
		// new columns after the existing ones (they join the vertical map/list element, or the sheet message)
		extra := g.node(1)
		cols := extra.columns("")
		if growList {
			extra = &snode{kind: "struct", name: "Slot10", sub: []*snode{{kind: "scalar", name: "ID", typ: "uint32"}, {kind: "scalar", name: "Num", typ: "int32"}}}
			cols = []hcol{{"Slot10ID", "uint32"}, {"Slot10Num", "int32"}}
			if r.Intn(2) == 0 {
				extra.sub = append(extra.sub, &snode{kind: "scalar", name: "ID", typ: "uint32"}, &snode{kind: "scalar", name: "Num", typ: "int32"})
				cols = append(cols, hcol{"Slot11ID", "uint32"}, hcol{"Slot11Num", "int32"})
			}
		}
		rows := v2.Sheets[0].Rows
		for _, c := range cols {
			rows[0] = append(rows[0], c.name)
			rows[1] = append(rows[1], c.typ)
			rows[2] = append(rows[2], "note")
		}
		for k := 3; k < len(rows); k++ {
			for len(rows[k]) < len(names) {
				rows[k] = append(rows[k], "")
			}
			rows[k] = append(rows[k], g.cells(extra, k)...)
		}
	case "sheets":
		if unionAppend {
			v2.Sheets = append(v2.Sheets, sheetSpec{Name: "Bonus", Meta: map[string]string{"Mode": "MODE_UNION_TYPE"},
				Rows: [][]string{{"Name", "Alias", "Field1", "Field2"}, {"Reward", "BonusReward", "Gold\nint32", "Gem\nint32"}, {"Other", "BonusOther", "Tip\nstring", ""}}})
		} else if localAppend {
			v2.Sheets = append(v2.Sheets, sheetSpec{Name: "Skill", Meta: map[string]string{"Mode": "MODE_STRUCT_TYPE"},
				Rows: [][]string{{"Name", "Type"}, {"ID", "uint32"}, {"Damage", "int32"}}})
		} else {
			gs2 := g.sheet("ZoneConf", 1+r.Intn(3), 1+r.Intn(3))
			v2.Sheets = append(v2.Sheets, gs2.spec)
		}
	}
	if wideTransposed {
		for _, b := range []*bookSpec{&v1, &v2} {
			b.Sheets[0].Rows = transposeRows(b.Sheets[0].Rows)
			b.Sheets[0].Meta = map[string]string{"Transpose": "true"}
		}
	} else if r.Intn(3) == 0 {
		if kind == "data" && len(v2.Sheets[0].Rows) > 3 {
			// one more data edit: the first data line is rewritten
			var row []string
			for _, n := range gs.nodes {
				row = append(row, g.cells(n, 77)...)
			}
			v2.Sheets[0].Rows[3] = row
		}
		// a header layout of its own with a row of blank cells inside the header region (notes not written yet):
		// name row 1, note row 2 (blank), type row 3, data from row 4 — rows are addressed by their position in the file
		relayout := func(b *bookSpec) {
			for i := range b.Sheets {
				rows := b.Sheets[i].Rows
				out := [][]string{rows[0], make([]string, len(rows[0])), rows[1]}
				out = append(out, rows[3:]...)
				b.Sheets[i].Rows = out
				meta := map[string]string{}
				for k, v := range b.Sheets[i].Meta {
					meta[k] = v
				}
				meta["Namerow"], meta["Noterow"], meta["Typerow"], meta["Datarow"] = "1", "2", "3", "4"
				b.Sheets[i].Meta = meta
			}
		}
		relayout(&v1)
		relayout(&v2)
	}
	return c15Case{v1: v1, v2: v2, kind: kind}
}

func runC15(c c15Case, container string) string {
	write := func(w *workspace, b bookSpec) {
		if container == "xlsx" {
			w.writeXLSXBook("", baseBook(), false)
			w.writeXLSXBook("", b, false)
		} else {
			w.writeCSVBook("", baseBook())
			w.writeCSVBook("", b)
		}
	}
	ro := runOpts{OutFormats: []format.Format{format.JSON, format.Bin}}
	if container == "xlsx" {
		ro.Formats = []format.Format{format.Excel}
	}
	w1, w2 := newWorkspace(), newWorkspace()
	defer w1.cleanup()
	defer w2.cleanup()
	write(w1, c.v1)
	write(w2, c.v2)
	e1, e2 := w1.genProto(ro), w2.genProto(ro)
	if e1 != nil || e2 != nil {
		// data edits: the outcome must be the same; appended columns / sheets: an accepted workbook stays accepted
		if ((e1 != nil) != (e2 != nil) && c.kind == "data") || (e1 == nil && e2 != nil) {
			// what was appended must be acceptable in itself: the appended sheets as a workbook of their own, the appended
			// columns behind the sheet's first column alone. A generated addition that protogen refuses on its own (a
			// generator slip, e.g. a member whose name starts with its sibling's name) says nothing about the old part
			if e1 == nil && c.kind != "data" && len(c.v1.Sheets) > 0 {
				var alone bookSpec
				if c.kind == "sheets" && len(c.v2.Sheets) > len(c.v1.Sheets) {
					alone = bookSpec{Name: "Fuzz", Sheets: c.v2.Sheets[len(c.v1.Sheets):]}
				} else if c.kind == "columns" {
					r1, r2 := c.v1.Sheets[0].Rows, c.v2.Sheets[0].Rows
					if len(r1) > 0 && len(r2) > 0 && c.v2.Sheets[0].Meta["Transpose"] == "" {
						var rows [][]string
						for i := range r2 {
							row := []string{""}
							if len(r2[i]) > 0 {
								row[0] = r2[i][0]
							}
							if len(r2[i]) > len(r1[0]) {
								row = append(row, r2[i][len(r1[0]):]...)
							}
							rows = append(rows, row)
						}
						alone = bookSpec{Name: "Fuzz", Sheets: []sheetSpec{{Name: c.v2.Sheets[0].Name, Rows: rows, Meta: c.v2.Sheets[0].Meta}}}
					}
				}
				if len(alone.Sheets) > 0 {
					w3 := newWorkspace()
					write(w3, alone)
					e3 := w3.genProto(ro)
					w3.cleanup()
					// … for the one reason the generator is known to slip on (a member named like the start of its
					// sibling yields an empty field name); any other refusal of the extended workbook is judged
					slip := "is not a valid protobuf identifier"
					if e3 != nil && strings.Contains(fmt.Sprintf("%+v", e3), slip) && strings.Contains(fmt.Sprintf("%+v", e2), slip) {
						return "same appended-part-refused-on-its-own"
					}
				}
			}
			if os.Getenv("VERIF_DEBUG") != "" {
				println("PARITY e1=", fmt.Sprint(e1), "\ne2=", fmt.Sprint(e2), "\nV1", debugBook(c.v1), "\nV2", debugBook(c.v2))
			}
			return "differ protogen-error-parity"
		}
		return "same protoerr"
	}
	if c.kind == "data" {
		if d := diffMaps("proto", protoBodies(w1.Proto), protoBodies(w2.Proto)); d != "" {
			return "differ " + d
		}
		return "same ok"
	}
	old, err1 := parseProtoDir(w1.Proto)
	neu, err2 := parseProtoDir(w2.Proto)
	if err1 != nil || err2 != nil {
		return "same protoinvalid"
	}
	if d := schemaExtends(old, neu); d != "" {
		return "differ " + d
	}
	// old binary conf files stay decodable under the new schema, with the same content
	if err := w1.genConf(ro); err != nil {
		return "same conferr"
	}
	for _, sh := range c.v1.Sheets {
		bin, err := os.ReadFile(filepath.Join(w1.Conf, sh.Name+".bin"))
		if err != nil {
			continue
		}
		om, nm := old["protoconf."+sh.Name], neu["protoconf."+sh.Name]
		if om == nil || nm == nil {
			return "differ message-gone:" + sh.Name
		}
		oldMsg := dynamicpb.NewMessage(om.UnwrapMessage())
		newMsg := dynamicpb.NewMessage(nm.UnwrapMessage())
		if err := proto.Unmarshal(bin, oldMsg); err != nil {
			return "differ old-bin-undecodable-by-old-schema"
		}
		if err := proto.Unmarshal(bin, newMsg); err != nil {
			return "differ old-bin-undecodable:" + sh.Name
		}
		if len(newMsg.GetUnknown()) != 0 || hasUnknown(newMsg) {
			return "differ old-bin-unknown-fields:" + sh.Name
		}
		oj, _ := protojson.MarshalOptions{UseProtoNames: true}.Marshal(oldMsg)
		nj, _ := protojson.MarshalOptions{UseProtoNames: true}.Marshal(newMsg)
		if canonJSON(oj) != canonJSON(nj) {
			return "differ old-bin-content:" + sh.Name
		}
	}
	return "same ok"
}

func hasUnknown(m protoreflect.Message) bool {
	if len(m.GetUnknown()) != 0 {
		return true
	}
	found := false
	m.Range(func(fd protoreflect.FieldDescriptor, v protoreflect.Value) bool {
		switch {
		case fd.IsMap():
			if fd.MapValue().Message() != nil {
				v.Map().Range(func(_ protoreflect.MapKey, mv protoreflect.Value) bool {
					if hasUnknown(mv.Message()) {
						found = true
					}
					return !found
				})
			}
		case fd.IsList():
			if fd.Message() != nil {
				for i := 0; i < v.List().Len(); i++ {
					if hasUnknown(v.List().Get(i).Message()) {
						found = true
					}
				}
			}
		case fd.Message() != nil:
			if hasUnknown(v.Message()) {
				found = true
			}
		}
		return !found
	})
	return found
}

func canonJSON(b []byte) string {
	// protojson output is deliberately unstable in whitespace only
	return strings.Join(strings.Fields(string(b)), "")
}

func init() {
	regStream("e2e.C15.versions", func(r *rand.Rand, n int, emit func(string, ...string)) {
		kinds := []string{"data", "data", "columns", "sheets"}
		for i := 0; i < n; i++ {
			emit("c15.versions", kinds[i%4], []string{"csv", "xlsx"}[(i/4)%2], itoa(r.Int63n(1<<40)))
		}
	})
	regImpl("c15.versions", func(a []string) string {
		r := rand.New(rand.NewSource(mustInt(a[2])))
		c := genC15Case(r, a[0])
		if a[0] == "columns" {
			// D16 (known finding): the last named column opens a first-element scalar list/map
			rows := c.v1.Sheets[0].Rows
			types := rows[1]
			if c.v1.Sheets[0].Meta["Typerow"] == "3" {
				types = rows[2]
			}
			if lastIsFirstElem(rows[0], types) {
				return "same skipped-d16"
			}
		}
		return runC15(c, a[1])
	})
	// the fixed witness of D16
	regImpl("c15.known", func(a []string) string {
		if len(a) > 0 && a[0] == "onecol-blank-note-row" {
			// D46 (fixed): a one-column CSV sheet with a blank note row above the type row; v2 = v1 minus its data rows
			meta := map[string]string{"Namerow": "1", "Noterow": "2", "Typerow": "3", "Datarow": "4"}
			v1 := bookSpec{Name: "Fuzz", Sheets: []sheetSpec{{Name: "HeroConf", Meta: meta, Rows: [][]string{{"Ratio"}, {""}, {"double"}, {"0.5"}}}}}
			v2 := bookSpec{Name: "Fuzz", Sheets: []sheetSpec{{Name: "HeroConf", Meta: meta, Rows: [][]string{{"Ratio"}, {""}, {"double"}}}}}
			return runC15(c15Case{v1: v1, v2: v2, kind: "data"}, "csv")
		}
		v1 := bookSpec{Name: "Fuzz", Sheets: []sheetSpec{{Name: "HeroConf", Rows: [][]string{{"ID", "Param1"}, {"map<uint32, Hero>", "[]int32"}, {"", ""}, {"1", "5"}}}}}
		v2 := bookSpec{Name: "Fuzz", Sheets: []sheetSpec{{Name: "HeroConf", Rows: [][]string{{"ID", "Param1", "Extra"}, {"map<uint32, Hero>", "[]int32", "string"}, {"", "", ""}, {"1", "5", "x"}}}}}
		return runC15(c15Case{v1: v1, v2: v2, kind: "columns"}, "csv")
	})
}
