package main

import (
	"encoding/json"
	"math/rand"
	"os"
	"path/filepath"
	"sort"
	"strconv"
	"strings"

	"github.com/tableauio/tableau/format"
	"github.com/tableauio/tableau/xerrors"
)

// ---------------------------------------------------------------------------
// e2e.C11.specifiers: a Merger / Scatter option made of several sheet specifiers
// (a glob, explicit books, explicit book#sheet — also several sheets of ONE
// secondary book), CSV and XLSX containers. Observation: every written conf file
// with its entries.
//
//   c11.spec <m|s|S> <c|x> <specifiers> <main rows> <books>
// ---------------------------------------------------------------------------

func c11Rows(s string) [][]string {
	rows := [][]string{{"ID", "Name"}, {"map<uint32, Item>", "string"}, {"id", "name"}}
	if s != "" {
		for _, r := range strings.Split(s, ".") {
			f := strings.SplitN(r, ":", 2)
			rows = append(rows, []string{f[0], f[1]})
		}
	}
	return rows
}

// c11Setup writes the books of a specifier case; `spoil` (optional) = target ("main" or "p<i>/<Sheet>"), data row
// index and the text to put into the ID cell of that row
func c11Setup(w *workspace, a []string, spoil ...string) runOpts {
	kind, container := a[0], a[1]
	ext := map[string]string{"c": ".csv", "x": ".xlsx"}[container]
	var specs []string
	if a[2] != "" {
		for _, s := range strings.Split(a[2], ",") {
			switch {
			case s == "g":
				specs = append(specs, "Part*"+ext)
			case s[0] == 'b':
				if container == "c" {
					// "Part1#*.csv" alone would be read as book "Part1", sheet "*.csv": name the sheet
					specs = append(specs, "Part.v"+s[1:]+"#*"+ext+"#Conf")
				} else {
					specs = append(specs, "Part.v"+s[1:]+ext)
				}
			case s[0] == 's':
				f := strings.SplitN(s[1:], "/", 2)
				if container == "c" {
					specs = append(specs, "Part.v"+f[0]+"#*"+ext+"#"+f[1])
				} else {
					specs = append(specs, "Part.v"+f[0]+ext+"#"+f[1])
				}
			}
		}
	}
	spoilRows := func(target string, rows [][]string) [][]string {
		if len(spoil) == 3 && spoil[0] == target {
			k := 3 + int(mustInt(spoil[1]))
			if k < len(rows) {
				rows[k] = append([]string{spoil[2]}, rows[k][1:]...)
			}
		}
		return rows
	}
	write := func(b bookSpec) {
		if container == "x" {
			w.writeXLSXBook("", b, false)
		} else {
			w.writeCSVBook("", b)
		}
	}
	meta := map[string]string{}
	if kind == "m" {
		meta["Merger"] = strings.Join(specs, ",")
	} else {
		meta["Scatter"] = strings.Join(specs, ",")
		if kind == "S" {
			meta["ScatterWithoutBookName"] = "true"
		}
	}
	write(bookSpec{Name: "Main", Sheets: []sheetSpec{{Name: "Conf", Rows: spoilRows("main", c11Rows(a[3])), Meta: meta}}})
	if a[4] != "" {
		for i, b := range strings.Split(a[4], ";") {
			// a dot in the book name: output files are named <Book>_<Sheet>, whatever the book is called
			bk := bookSpec{Name: "Part.v" + strconv.Itoa(i+1), NoMeta: true}
			for _, sh := range strings.Split(b, "&") {
				f := strings.SplitN(sh, "=", 2)
				bk.Sheets = append(bk.Sheets, sheetSpec{Name: f[0], Rows: spoilRows("p"+strconv.Itoa(i+1)+"/"+f[0], c11Rows(f[1]))})
			}
			write(bk)
		}
	}
	ro := runOpts{}
	if container == "x" {
		ro.Formats = []format.Format{format.Excel}
	}
	return ro
}

func implC11Spec(a []string) string {
	w := newWorkspace()
	defer w.cleanup()
	// an earlier conversion in this process read other contents from the very same paths (every row named w… instead
	// of n…): what a conversion reads is what the files hold now
	warm := append([]string{}, a...)
	warm[3] = strings.ReplaceAll(warm[3], ":n", ":w")
	warm[4] = strings.ReplaceAll(warm[4], ":n", ":w")
	wro := c11Setup(w, warm)
	if err := w.genProto(wro); err == nil {
		_ = w.genConf(wro)
	}
	os.RemoveAll(w.Conf)
	os.MkdirAll(w.Conf, 0o755)
	ro := c11Setup(w, a)
	if err := w.genProto(ro); err != nil {
		return "protoerr " + errCode(err)
	}
	if err := w.genConf(ro); err != nil {
		return "err " + errCode(err)
	}
	ents, _ := os.ReadDir(w.Conf)
	var files []string
	for _, e := range ents {
		if !strings.HasSuffix(e.Name(), ".json") {
			continue
		}
		data, _ := os.ReadFile(filepath.Join(w.Conf, e.Name()))
		var got struct {
			ItemMap map[string]struct {
				Name string `json:"name"`
			} `json:"itemMap"`
		}
		if err := json.Unmarshal(data, &got); err != nil {
			return "badjson " + e.Name()
		}
		var es []string
		for k, v := range got.ItemMap {
			es = append(es, k+"="+v.Name)
		}
		sort.Strings(es)
		files = append(files, strings.Replace(strings.TrimSuffix(e.Name(), ".json"), "Part.v", "Part", 1)+"{"+strings.Join(es, ",")+"}")
	}
	sort.Strings(files)
	return "ok " + strings.Join(files, ";")
}

func init() {
	regStream("e2e.C11.specifiers", func(r *rand.Rand, n int, emit func(string, ...string)) {
		for i := 0; i < n; i++ {
			next := 0
			rows := func(max int) string {
				var rs []string
				for k := r.Intn(max + 1); k > 0; k-- {
					next++
					rs = append(rs, strconv.Itoa(next)+":n"+strconv.Itoa(next))
				}
				return strings.Join(rs, ".")
			}
			nparts := 1 + r.Intn(3)
			extraNames := []string{"Extra", "More"}
			var books []string
			sheetsOf := make([][]string, nparts)
			for b := 0; b < nparts; b++ {
				sh := []string{"Conf=" + rows(3)}
				for _, en := range extraNames {
					if r.Intn(2) == 0 {
						sh = append(sh, en+"="+rows(3))
						sheetsOf[b] = append(sheetsOf[b], en)
					}
				}
				books = append(books, strings.Join(sh, "&"))
			}
			// specifiers: the Conf sheets through the glob or through explicit books (never both: one pair once),
			// plus any of the further sheets, in any order
			var specs []string
			switch r.Intn(3) {
			case 0:
				specs = append(specs, "g")
			case 1:
				for b := 0; b < nparts; b++ {
					if r.Intn(3) > 0 {
						specs = append(specs, "b"+strconv.Itoa(b+1))
					}
				}
			}
			for b := 0; b < nparts; b++ {
				for _, en := range sheetsOf[b] {
					if r.Intn(3) > 0 {
						specs = append(specs, "s"+strconv.Itoa(b+1)+"/"+en)
					}
				}
			}
			r.Shuffle(len(specs), func(x, y int) { specs[x], specs[y] = specs[y], specs[x] })
			if len(specs) == 0 {
				specs = []string{"g"}
			}
			kind := []string{"m", "m", "s", "s"}[r.Intn(4)]
			if kind == "s" && len(specs) == 1 && specs[0][0] == 's' && r.Intn(2) == 0 {
				kind = "S" // file names without the book name: unambiguous with one further sheet only
			}
			emit("c11.spec", kind, []string{"c", "x"}[r.Intn(2)], strings.Join(specs, ","), rows(3), strings.Join(books, ";"))
		}
	})
	regImpl("c11.spec", implC11Spec)

	// e2e.C07.book: the same workspaces with ONE spoilt ID cell in the primary or in a merged / scattered book:
	// the error must name that workbook (not the primary), the sheet, the A1 position and the content, in en and zh
	regStream("e2e.C07.book", func(r *rand.Rand, n int, emit func(string, ...string)) {
		gen := streams["e2e.C11.specifiers"].gen
		gen(r, n, func(fn string, args ...string) {
			// candidates: the primary sheet and every specified (book, sheet) pair with at least one data row
			type cand struct {
				target string
				nrows  int
			}
			count := func(rows string) int {
				if rows == "" {
					return 0
				}
				return len(strings.Split(rows, "."))
			}
			var cands []cand
			if c := count(args[3]); c > 0 {
				cands = append(cands, cand{"main", c})
			}
			books := []string{}
			if args[4] != "" {
				books = strings.Split(args[4], ";")
			}
			sheetRows := func(b int, sheet string) int {
				for _, sh := range strings.Split(books[b], "&") {
					f := strings.SplitN(sh, "=", 2)
					if f[0] == sheet {
						return count(f[1])
					}
				}
				return 0
			}
			for _, sp := range strings.Split(args[2], ",") {
				switch {
				case sp == "g":
					for b := range books {
						if c := sheetRows(b, "Conf"); c > 0 {
							cands = append(cands, cand{"p" + strconv.Itoa(b+1) + "/Conf", c})
						}
					}
				case sp[0] == 'b':
					b := int(mustInt(sp[1:])) - 1
					if c := sheetRows(b, "Conf"); c > 0 {
						cands = append(cands, cand{"p" + sp[1:] + "/Conf", c})
					}
				case sp[0] == 's':
					f := strings.SplitN(sp[1:], "/", 2)
					b := int(mustInt(f[0])) - 1
					if c := sheetRows(b, f[1]); c > 0 {
						cands = append(cands, cand{"p" + f[0] + "/" + f[1], c})
					}
				}
			}
			if len(cands) == 0 {
				return
			}
			c := cands[r.Intn(len(cands))]
			emit("c07.book", append(append([]string{}, args...), c.target, strconv.Itoa(r.Intn(c.nrows)), []string{"en", "zh"}[r.Intn(2)])...)
		})
	})
	regImpl("c07.book", func(a []string) string {
		w := newWorkspace()
		defer w.cleanup()
		ro := c11Setup(w, a[:5], a[5], a[6], "abc")
		ro.Lang = a[7]
		// a valid AdjacentKey sheet next to the spoilt book: its blank key cells are filled from the line above, and
		// its row cells go back to the process-wide pool carrying that mark (a recycled cell must not show it)
		adj := [][]string{{"ID", "PropID", "Value"}, {"map<uint32, Adj>", "map<int32, Prop>", "int32"}, {"id", "prop", "value"}}
		for i := 0; i < 40; i++ {
			id := ""
			if i%8 == 0 {
				id = strconv.Itoa(1 + i/8)
			}
			adj = append(adj, []string{id, strconv.Itoa(1 + i%8), strconv.Itoa(i)})
		}
		w.writeCSVBook("", bookSpec{Name: "Adj", Sheets: []sheetSpec{{Name: "AdjConf", Rows: adj, Meta: map[string]string{"AdjacentKey": "true"}}}})
		if err := w.genProto(ro); err != nil {
			return "protoerr " + errCode(err)
		}
		err := w.genConf(ro)
		if err == nil {
			return "accepted"
		}
		d := xerrors.NewDesc(err)
		get := func(k string) string {
			v, _ := d.GetValue(k).(string)
			return v
		}
		return "err " + d.ErrCode() + "|" + bookKey(get(xerrors.KeyBookName)) + "|" + get(xerrors.KeySheetName) + "|" + get(xerrors.KeyDataCellPos) + "|" + get(xerrors.KeyDataCell)
	})
}
