package main

import (
	"encoding/json"
	"math/rand"
	"os"
	"path/filepath"
	"sort"
	"strconv"
	"strings"

	"github.com/tableauio/tableau/format"
)

// ---------------------------------------------------------------------------
// e2e.C11.specifiers: a Merger / Scatter option made of several sheet specifiers
// (a glob, explicit books, explicit book#sheet — also several sheets of ONE
// secondary book), CSV and XLSX containers. Observation: every written conf file
// with its entries.
//
//   c11.spec <m|s|S> <c|x> <specifiers> <main rows> <books>
// ---------------------------------------------------------------------------

func c11Rows(s string) [][]string {
	rows := [][]string{{"ID", "Name"}, {"map<uint32, Item>", "string"}, {"id", "name"}}
	if s != "" {
		for _, r := range strings.Split(s, ".") {
			f := strings.SplitN(r, ":", 2)
			rows = append(rows, []string{f[0], f[1]})
		}
	}
	return rows
}

func implC11Spec(a []string) string {
	kind, container := a[0], a[1]
	ext := map[string]string{"c": ".csv", "x": ".xlsx"}[container]
	var specs []string
	if a[2] != "" {
		for _, s := range strings.Split(a[2], ",") {
			switch {
			case s == "g":
				specs = append(specs, "Part*"+ext)
			case s[0] == 'b':
				if container == "c" {
					// "Part1#*.csv" alone would be read as book "Part1", sheet "*.csv": name the sheet
					specs = append(specs, "Part"+s[1:]+"#*"+ext+"#Conf")
				} else {
					specs = append(specs, "Part"+s[1:]+ext)
				}
			case s[0] == 's':
				f := strings.SplitN(s[1:], "/", 2)
				if container == "c" {
					specs = append(specs, "Part"+f[0]+"#*"+ext+"#"+f[1])
				} else {
					specs = append(specs, "Part"+f[0]+ext+"#"+f[1])
				}
			}
		}
	}
	w := newWorkspace()
	defer w.cleanup()
	write := func(b bookSpec) {
		if container == "x" {
			w.writeXLSXBook("", b, false)
		} else {
			w.writeCSVBook("", b)
		}
	}
	meta := map[string]string{}
	if kind == "m" {
		meta["Merger"] = strings.Join(specs, ",")
	} else {
		meta["Scatter"] = strings.Join(specs, ",")
		if kind == "S" {
			meta["ScatterWithoutBookName"] = "true"
		}
	}
	write(bookSpec{Name: "Main", Sheets: []sheetSpec{{Name: "Conf", Rows: c11Rows(a[3]), Meta: meta}}})
	if a[4] != "" {
		for i, b := range strings.Split(a[4], ";") {
			bk := bookSpec{Name: "Part" + strconv.Itoa(i+1), NoMeta: true}
			for _, sh := range strings.Split(b, "&") {
				f := strings.SplitN(sh, "=", 2)
				bk.Sheets = append(bk.Sheets, sheetSpec{Name: f[0], Rows: c11Rows(f[1])})
			}
			write(bk)
		}
	}
	ro := runOpts{}
	if container == "x" {
		ro.Formats = []format.Format{format.Excel}
	}
	if err := w.genProto(ro); err != nil {
		return "protoerr " + errCode(err)
	}
	if err := w.genConf(ro); err != nil {
		return "err " + errCode(err)
	}
	ents, _ := os.ReadDir(w.Conf)
	var files []string
	for _, e := range ents {
		if !strings.HasSuffix(e.Name(), ".json") {
			continue
		}
		data, _ := os.ReadFile(filepath.Join(w.Conf, e.Name()))
		var got struct {
			ItemMap map[string]struct {
				Name string `json:"name"`
			} `json:"itemMap"`
		}
		if err := json.Unmarshal(data, &got); err != nil {
			return "badjson " + e.Name()
		}
		var es []string
		for k, v := range got.ItemMap {
			es = append(es, k+"="+v.Name)
		}
		sort.Strings(es)
		files = append(files, strings.TrimSuffix(e.Name(), ".json")+"{"+strings.Join(es, ",")+"}")
	}
	sort.Strings(files)
	return "ok " + strings.Join(files, ";")
}

func init() {
	regStream("e2e.C11.specifiers", func(r *rand.Rand, n int, emit func(string, ...string)) {
		for i := 0; i < n; i++ {
			next := 0
			rows := func(max int) string {
				var rs []string
				for k := r.Intn(max + 1); k > 0; k-- {
					next++
					rs = append(rs, strconv.Itoa(next)+":n"+strconv.Itoa(next))
				}
				return strings.Join(rs, ".")
			}
			nparts := 1 + r.Intn(3)
			extraNames := []string{"Extra", "More"}
			var books []string
			sheetsOf := make([][]string, nparts)
			for b := 0; b < nparts; b++ {
				sh := []string{"Conf=" + rows(3)}
				for _, en := range extraNames {
					if r.Intn(2) == 0 {
						sh = append(sh, en+"="+rows(3))
						sheetsOf[b] = append(sheetsOf[b], en)
					}
				}
				books = append(books, strings.Join(sh, "&"))
			}
			// specifiers: the Conf sheets through the glob or through explicit books (never both: one pair once),
			// plus any of the further sheets, in any order
			var specs []string
			switch r.Intn(3) {
			case 0:
				specs = append(specs, "g")
			case 1:
				for b := 0; b < nparts; b++ {
					if r.Intn(3) > 0 {
						specs = append(specs, "b"+strconv.Itoa(b+1))
					}
				}
			}
			for b := 0; b < nparts; b++ {
				for _, en := range sheetsOf[b] {
					if r.Intn(3) > 0 {
						specs = append(specs, "s"+strconv.Itoa(b+1)+"/"+en)
					}
				}
			}
			r.Shuffle(len(specs), func(x, y int) { specs[x], specs[y] = specs[y], specs[x] })
			if len(specs) == 0 {
				specs = []string{"g"}
			}
			kind := []string{"m", "m", "s", "s"}[r.Intn(4)]
			if kind == "s" && len(specs) == 1 && specs[0][0] == 's' && r.Intn(2) == 0 {
				kind = "S" // file names without the book name: unambiguous with one further sheet only
			}
			emit("c11.spec", kind, []string{"c", "x"}[r.Intn(2)], strings.Join(specs, ","), rows(3), strings.Join(books, ";"))
		}
	})
	regImpl("c11.spec", implC11Spec)
}
