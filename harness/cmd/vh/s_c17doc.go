package main

import (
	"math/rand"
	"os"
	"path/filepath"
	"strings"

	"github.com/tableauio/tableau/format"
)

// ---------------------------------------------------------------------------
// e2e.C17.docfuzz: totality on document workbooks. A valid generated YAML workbook in which the value of one
// data field is replaced by another YAML shape (empty sequence / mapping, null, a scalar where a mapping is
// expected, a sequence where a scalar is expected, …). The generators must return — success or an error —
// never panic or hang.
// ---------------------------------------------------------------------------

var yamlJunk = []string{"[]", "{}", "null", "~", `""`, "x", "1", "[1]", "[1, 2]", "[[]]", "[{}]", "{a: 1}", "{1: {}}", "- 1", "!!binary aGk=", "&a 1", "[x, {}]", "{\"@type\": x}", "0x1F", "1e400",
	// anchors and aliases, also an alias inside the node its own anchor marks (yaml.v3 builds the cycle)
	"&b [1, *b]", "&c {k: *c}", "&d [{ID: 1}, *d]", "*nowhere", "&e [1, 2]", "[&f 1, *f]"}

func mutateYAMLData(r *rand.Rand, text string) string {
	lines := strings.Split(text, "\n")
	// the data document starts after the last "---"
	start := 0
	for i, l := range lines {
		if l == "---" {
			start = i + 1
		}
	}
	var cands []int
	for i := start + 1; i < len(lines); i++ {
		t := strings.TrimLeft(lines[i], " -")
		if j := strings.Index(t, ":"); j > 0 && !strings.HasPrefix(t, "\"@") {
			cands = append(cands, i)
		}
	}
	if len(cands) == 0 {
		return text
	}
	i := cands[r.Intn(len(cands))]
	// half of the time a key that opens a nested block (a struct, a list of structs, a map): the shapes below then
	// stand where an aggregate is expected
	if r.Intn(2) == 0 {
		var blocks []int
		for _, c := range cands {
			if strings.HasSuffix(strings.TrimRight(lines[c], " "), ":") {
				blocks = append(blocks, c)
			}
		}
		if len(blocks) > 0 {
			i = blocks[r.Intn(len(blocks))]
		}
	}
	l := lines[i]
	indent := len(l) - len(strings.TrimLeft(l, " "))
	key := l[:strings.Index(l, ":")+1]
	// drop the nested block of this key (deeper-indented lines that follow)
	j := i + 1
	for j < len(lines) {
		lj := lines[j]
		ind := len(lj) - len(strings.TrimLeft(lj, " "))
		if strings.TrimSpace(lj) == "" || ind > indent || (ind == indent && strings.HasPrefix(strings.TrimLeft(lj, " "), "- ") && !strings.HasPrefix(strings.TrimLeft(l, " "), "- ")) {
			j++
			continue
		}
		break
	}
	out := append([]string{}, lines[:i]...)
	junk := yamlJunk[r.Intn(len(yamlJunk))]
	if r.Intn(3) == 0 {
		junk = []string{"[]", "{}", "null", "~", `""`}[r.Intn(5)] // the empty shapes, more often
	}
	out = append(out, key+" "+junk)
	out = append(out, lines[j:]...)
	return strings.Join(out, "\n")
}

// mutateYAMLSchema spoils one type text of the schema document (the document between "@sheet": "@DocConf" and the
// next "---"): blanks around it, truncations, doubled text, another construct's brackets
func mutateYAMLSchema(r *rand.Rand, text string) string {
	lines := strings.Split(text, "\n")
	in := false
	var cands []int
	for i, l := range lines {
		if strings.HasPrefix(l, "\"@sheet\": \"@") && !strings.Contains(l, "@TABLEAU") {
			in = true
			continue
		}
		if l == "---" {
			in = false
		}
		if in && strings.Contains(l, ": '") && strings.HasSuffix(l, "'") {
			cands = append(cands, i)
		}
	}
	if len(cands) == 0 {
		return text
	}
	i := cands[r.Intn(len(cands))]
	l := lines[i]
	k := strings.Index(l, ": '")
	head, t := l[:k+3], l[k+3:len(l)-1]
	var nt string
	switch r.Intn(12) {
	case 0:
		nt = " " + t
	case 1:
		nt = "\t" + t
	case 2:
		nt = t + " "
	case 3:
		nt = " "
	case 4:
		nt = ""
	case 5:
		nt = t + t
	case 6:
		nt = "[" + t
	case 7:
		nt = "map<" + t
	case 8:
		nt = "{" + t
	case 9:
		if len(t) > 1 {
			nt = t[:len(t)-1]
		}
	case 10:
		nt = "  " + t + "  "
	default:
		nt = "\n" + t
	}
	if strings.HasPrefix(nt, "\t") || strings.HasPrefix(nt, "\n") {
		// control characters need a double-quoted YAML scalar
		lines[i] = head[:len(head)-1] + "\"" + strings.ReplaceAll(strings.ReplaceAll(strings.ReplaceAll(nt, "\\", "\\\\"), "\t", "\\t"), "\n", "\\n") + "\""
	} else {
		lines[i] = head + nt + "'"
	}
	return strings.Join(lines, "\n")
}

func init() {
	regStream("e2e.C17.docfuzz", func(r *rand.Rand, n int, emit func(string, ...string)) {
		for i := 0; i < n; i++ {
			emit("c17.docfuzz", itoa(r.Int63n(1<<40)))
		}
	})
	regImpl("c17.docfuzz", func(a []string) string {
		r := rand.New(rand.NewSource(mustInt(a[0])))
		nodes, vals := genDoc(r, false)
		text := renderYAML(nodes, vals)
		if r.Intn(3) == 0 {
			text = mutateYAMLSchema(r, text) // the schema side: protogen's document parser must return as well
		} else {
			text = mutateYAMLData(r, text)
		}
		w := newWorkspace()
		defer w.cleanup()
		ro := docBase(w)
		if err := os.WriteFile(filepath.Join(w.In, "Doc.yaml"), []byte(text), 0o644); err != nil {
			panic(err)
		}
		ro.Formats = []format.Format{format.YAML}
		if err := w.genProto(ro); err != nil {
			return "returned" // the schema documents are untouched; a rejection is still a return
		}
		_ = w.genConf(ro)
		return "returned"
	})
}
