package main

import (
	"github.com/tableauio/tableau/proto/tableaupb"
	"google.golang.org/protobuf/proto"
	"google.golang.org/protobuf/reflect/protodesc"
	"google.golang.org/protobuf/reflect/protoreflect"
	"google.golang.org/protobuf/types/descriptorpb"
)

// scalarFieldWithProp builds a one-field message descriptor whose field
// carries the given tableau field property and returns the field descriptor.
func scalarFieldWithProp(prop *tableaupb.FieldProp) protoreflect.FieldDescriptor {
	fopts := &descriptorpb.FieldOptions{}
	proto.SetExtension(fopts, tableaupb.E_Field, &tableaupb.FieldOptions{Name: "X", Prop: prop})
	fdp := &descriptorpb.FileDescriptorProto{
		Name:       proto.String("verif_tmp.proto"),
		Package:    proto.String("veriftmp"),
		Syntax:     proto.String("proto3"),
		Dependency: []string{"tableau/protobuf/tableau.proto"},
		MessageType: []*descriptorpb.DescriptorProto{{
			Name: proto.String("M"),
			Field: []*descriptorpb.FieldDescriptorProto{{
				Name:    proto.String("x"),
				Number:  proto.Int32(1),
				Type:    descriptorpb.FieldDescriptorProto_TYPE_STRING.Enum(),
				Label:   descriptorpb.FieldDescriptorProto_LABEL_OPTIONAL.Enum(),
				Options: fopts,
			}},
		}},
	}
	fd, err := protodesc.NewFile(fdp, globalFilesResolver{})
	if err != nil {
		panic(err)
	}
	return fd.Messages().Get(0).Fields().Get(0)
}
