package main

import (
	"os/exec"
	"math/rand"
	"os"
	"path/filepath"
	"sort"
	"strings"

	"github.com/tableauio/tableau/options"
	"github.com/tableauio/tableau/verifhook"
)

var c18Names = []string{"base.proto", "common.proto", "item.proto", "hero_conf.proto", "notes.txt", "README", "x.proto.bak", "a.proto"}
var c18Spell = []string{"%s", "./%s", ".//%s", "x/../%s", "common/%s", "./common/%s", "%s/", "../%s"}

func init() {
	// corr.protogen.prepareOutdir: a proto output dir with stale files + a subdir, and import paths in several
	// spellings; after prepareOutdir: which top-level entries are left.
	regStream("corr.protogen.prepareOutdir", func(r *rand.Rand, n int, emit func(string, ...string)) {
		for i := 0; i < n; i++ {
			var files, imports []string
			for _, nm := range c18Names {
				if r.Intn(2) == 0 {
					files = append(files, nm)
				}
			}
			k := r.Intn(4)
			for j := 0; j < k; j++ {
				nm := c18Names[r.Intn(4)]
				sp := c18Spell[r.Intn(len(c18Spell))]
				imports = append(imports, strings.Replace(sp, "%s", nm, 1))
			}
			if i%5 == 4 {
				// a non-empty DIRECTORY whose name ends in .proto at the top level: the cleanup removes files by name
				// at the top level only — it must fail on the directory (or leave it), never descend into it
				emit("c18.prep", strings.Join(encAll(files), ","), strings.Join(encAll(imports), ","), "dir")
				continue
			}
			emit("c18.prep", strings.Join(encAll(files), ","), strings.Join(encAll(imports), ","))
		}
	})
	regImpl("c18.prep", func(a []string) string {
		decList := func(s string) []string {
			if s == "" {
				return nil
			}
			var out []string
			for _, t := range strings.Split(s, ",") {
				out = append(out, mustStr(t))
			}
			return out
		}
		files, imports := decList(a[0]), decList(a[1])
		w := newWorkspace()
		defer w.cleanup()
		for _, f := range files {
			os.WriteFile(filepath.Join(w.Proto, f), []byte("x"), 0o644)
		}
		os.MkdirAll(filepath.Join(w.Proto, "common"), 0o755)
		os.WriteFile(filepath.Join(w.Proto, "common", "base.proto"), []byte("sub"), 0o644)
		outside := filepath.Join(w.Root, "outside.proto")
		os.WriteFile(outside, []byte("o"), 0o644)
		withDir := len(a) > 2 && a[2] == "dir"
		if withDir {
			os.MkdirAll(filepath.Join(w.Proto, "zz.legacy.proto", "v1"), 0o755)
			os.WriteFile(filepath.Join(w.Proto, "zz.legacy.proto", "README.md"), []byte("r"), 0o644)
			os.WriteFile(filepath.Join(w.Proto, "zz.legacy.proto", "v1", "api.proto"), []byte("a"), 0o644)
		}
		if err := verifhook.PrepareOutdir(w.Proto, imports, true); err != nil {
			if withDir {
				if _, e := os.Stat(filepath.Join(w.Proto, "zz.legacy.proto", "v1", "api.proto")); e != nil {
					return "err NESTED-REMOVED"
				}
			}
			return "err"
		}
		if withDir {
			if _, e := os.Stat(filepath.Join(w.Proto, "zz.legacy.proto", "v1", "api.proto")); e != nil {
				return "NESTED-REMOVED"
			}
		}
		ents, _ := os.ReadDir(w.Proto)
		var left []string
		for _, e := range ents {
			if !e.IsDir() {
				left = append(left, e.Name())
			}
		}
		sort.Strings(left)
		extra := ""
		if _, err := os.Stat(filepath.Join(w.Proto, "common", "base.proto")); err != nil {
			extra += " SUBDIR-FILE-REMOVED"
		}
		if _, err := os.Stat(outside); err != nil {
			extra += " OUTSIDE-FILE-REMOVED"
		}
		return strings.Join(encAll(left), ",") + extra
	})
}

func init() {
	// corr.xfs.clean: the path cleaning the import comparison relies on, exhaustive over {a, b, ., /} up to length 7
	regStream("corr.xfs.clean", func(r *rand.Rand, n int, emit func(string, ...string)) {
		alpha := []string{"a", "b", ".", "/"}
		count := 0
		var rec func(p string, d int)
		rec = func(p string, d int) {
			emit("c18.clean", encStr(p))
			count++
			if d == 7 {
				return
			}
			for _, a := range alpha {
				rec(p+a, d+1)
			}
		}
		rec("", 0)
		for count < n {
			l := 1 + r.Intn(16)
			p := ""
			for i := 0; i < l; i++ {
				p += []string{"a", "b", ".", "/", "..", "/", "x.proto"}[r.Intn(7)]
			}
			emit("c18.clean", encStr(p))
			count++
		}
	})
	regImpl("c18.clean", func(a []string) string { return encStr(verifhook.CleanSlashPath(mustStr(a[0]))) })
}

// c18Tree writes the input tree of the incremental-generation cases; `edited` names the book whose data
// gets one more row (version 2 of the input).
//
// `kind` says what else version 2 changes in the edited book: "data" nothing, "shrink" version 1 had two more
// columns (the schema file gets shorter), "grow" version 2 has two more columns.
func c18Tree(w *workspace, edited string, kind ...string) {
	k := "data"
	if len(kind) > 0 {
		k = kind[0]
	}
	v2 := edited != "" && !strings.HasPrefix(edited, "v1:")
	target := strings.TrimPrefix(edited, "v1:")
	extra := func(book string, row []string) [][]string {
		if book == target && v2 {
			return [][]string{row}
		}
		return nil
	}
	curBook := ""
	mapRows := func(name string, ids []int, more [][]string) [][]string {
		rows := [][]string{{"ID", "Name"}, {"map<uint32, " + name + "Item>", "string"}, {"id", "name"}}
		for _, id := range ids {
			rows = append(rows, []string{itoa(int64(id)), "n" + itoa(int64(id))})
		}
		rows = append(rows, more...)
		if curBook == target && ((k == "shrink" && !v2) || (k == "grow" && v2)) {
			rows[0] = append(rows[0], "Description", "ReleaseTime")
			rows[1] = append(rows[1], "string", "datetime")
			rows[2] = append(rows[2], "a long note about the description column", "when it was released")
			for i := 3; i < len(rows); i++ {
				rows[i] = append(rows[i], "d", "2024-01-02 03:04:05")
			}
		}
		return rows
	}
	bookRows := func(book, name string, ids []int, more [][]string) [][]string {
		curBook = book
		return mapRows(name, ids, more)
	}
	w.writeCSVBook("", bookSpec{Name: "Item", Sheets: []sheetSpec{{Name: "ItemConf", Rows: bookRows("Item", "ItemConf", []int{1, 2}, extra("Item", []string{"100", "New"}))}}})
	w.writeCSVBook("", bookSpec{Name: "Hero", Sheets: []sheetSpec{{Name: "HeroConf", Rows: bookRows("Hero", "HeroConf", []int{1}, extra("Hero", []string{"100", "New"}))}}})
	za := sheetSpec{Name: "ZoneA", Rows: bookRows("ZoneA", "ZoneA", []int{1}, extra("ZoneA", []string{"100", "New"})), Meta: map[string]string{"Merger": "Shared*.csv#Extra"}}
	zb := sheetSpec{Name: "ZoneB", Rows: bookRows("ZoneB", "ZoneB", []int{2}, extra("ZoneB", []string{"100", "New"})), Meta: map[string]string{"Merger": "Shared*.csv#Extra"}}
	w.writeCSVBook("", bookSpec{Name: "ZoneA", Sheets: []sheetSpec{za}})
	w.writeCSVBook("", bookSpec{Name: "ZoneB", Sheets: []sheetSpec{zb}})
	shared := [][]string{{"ID", "Name"}, {"t", "t"}, {"n", "n"}, {"50", "Old"}}
	shared = append(shared, extra("Shared", []string{"101", "Newer"})...)
	w.writeCSVBook("", bookSpec{Name: "Shared", Sheets: []sheetSpec{{Name: "Extra", Rows: shared}}, NoMeta: true})
}

func init() {
	// e2e.C18.incremental: full run on version 1; one book edited; incremental run naming that book on top of the
	// old outputs vs. a fresh full run on version 2: same files, byte for byte; inputs untouched; stale top-level
	// proto removed only by the full run, files in sub-directories and imports never.
	regStream("e2e.C18.incremental", func(r *rand.Rand, n int, emit func(string, ...string)) {
		books := []string{"Item", "Hero", "ZoneA", "ZoneB", "Shared", "Twins"}
		kinds := []string{"data", "shrink", "grow"}
		for i := 0; i < n; i++ {
			b := books[i%len(books)]
			k := kinds[(i/len(books))%len(kinds)]
			if b == "Shared" || b == "Twins" || strings.HasPrefix(b, "Zone") {
				k = "data" // a merger source has no schema of its own; the merged sheets share their columns with it
			}
			emit("c18.incr", b, k)
		}
	})
	regImpl("c18.incr", func(a []string) string {
		if a[0] == "Twins" {
			return runC18Twins()
		}
		edited := a[0]
		kind := "data"
		if len(a) > 1 {
			kind = a[1]
		}
		w := newWorkspace()
		defer w.cleanup()
		ro := runOpts{}
		// version 1, full run
		c18Tree(w, "v1:"+edited, kind)
		os.WriteFile(filepath.Join(w.Proto, "stale.proto"), []byte("syntax = \"proto3\";\n"), 0o644)
		os.MkdirAll(filepath.Join(w.Proto, "keep"), 0o755)
		os.WriteFile(filepath.Join(w.Proto, "keep", "other.proto"), []byte("x"), 0o644)
		os.WriteFile(filepath.Join(w.Conf, "unrelated.json"), []byte("{}"), 0o644)
		if err := w.genProto(ro); err != nil {
			return "err full-proto " + errCode(err)
		}
		if err := w.genConf(ro); err != nil {
			return "err full-conf " + errCode(err)
		}
		if _, err := os.Stat(filepath.Join(w.Proto, "stale.proto")); err == nil {
			return "STALE-NOT-REMOVED"
		}
		if _, err := os.Stat(filepath.Join(w.Proto, "keep", "other.proto")); err != nil {
			return "SUBDIR-FILE-REMOVED"
		}
		// version 2 of the input
		c18Tree(w, edited, kind)
		inBefore := snapString(snapshot(w.In))
		spec := edited + "#" + map[string]string{"Item": "ItemConf", "Hero": "HeroConf", "ZoneA": "ZoneA", "ZoneB": "ZoneB", "Shared": "Extra"}[edited] + ".csv"
		if edited != "Shared" { // the schema does not change, but run the incremental protogen too
			if err := w.genProto(ro, spec); err != nil {
				return "err incr-proto " + errCode(err)
			}
		}
		if err := w.genConf(ro, spec); err != nil {
			return "err incr-conf " + errCode(err)
		}
		if snapString(snapshot(w.In)) != inBefore {
			return "INPUT-MODIFIED"
		}
		incr := snapString(snapshot(w.Proto)) + "|" + snapString(snapshot(w.Conf))
		// fresh full run on version 2
		w2 := newWorkspace()
		defer w2.cleanup()
		c18Tree(w2, edited, kind)
		os.MkdirAll(filepath.Join(w2.Proto, "keep"), 0o755)
		os.WriteFile(filepath.Join(w2.Proto, "keep", "other.proto"), []byte("x"), 0o644)
		os.WriteFile(filepath.Join(w2.Conf, "unrelated.json"), []byte("{}"), 0o644)
		if err := w2.genProto(ro); err != nil {
			return "err full2-proto " + errCode(err)
		}
		if err := w2.genConf(ro); err != nil {
			return "err full2-conf " + errCode(err)
		}
		full := snapString(snapshot(w2.Proto)) + "|" + snapString(snapshot(w2.Conf))
		if incr == full {
			return "same"
		}
		// name a differing file
		mi, mf := map[string]string{}, map[string]string{}
		for _, kv := range strings.FieldsFunc(incr, func(c rune) bool { return c == ';' || c == '|' }) {
			if i := strings.Index(kv, "="); i > 0 {
				mi[kv[:i]] = kv[i+1:]
			}
		}
		for _, kv := range strings.FieldsFunc(full, func(c rune) bool { return c == ';' || c == '|' }) {
			if i := strings.Index(kv, "="); i > 0 {
				mf[kv[:i]] = kv[i+1:]
			}
		}
		var diffs []string
		for f, h := range mf {
			if mi[f] != h {
				diffs = append(diffs, f)
			}
		}
		for f := range mi {
			if _, ok := mf[f]; !ok {
				diffs = append(diffs, "+"+f)
			}
		}
		sort.Strings(diffs)
		return "differ " + strings.Join(diffs, ",")
	})
}

// runC18Twins: two workbooks of one name in different sub-directories (legal with FilenameWithSubdirPrefix); an
// incremental protogen + confgen run naming sheet files of both must write what the full run writes.
func runC18Twins() string {
	tree := func(w *workspace) {
		sheet := func(name string, ids ...int) sheetSpec {
			rows := [][]string{{"ID", "Name"}, {"map<uint32, " + name + "Item>", "string"}, {"id", "name"}}
			for _, id := range ids {
				rows = append(rows, []string{itoa(int64(id)), "n" + itoa(int64(id))})
			}
			return sheetSpec{Name: name, Rows: rows}
		}
		w.writeCSVBook("a", bookSpec{Name: "Item", Sheets: []sheetSpec{sheet("HeroConf", 1, 2)}})
		w.writeCSVBook("b", bookSpec{Name: "Item", Sheets: []sheetSpec{sheet("PetConf", 3)}})
		w.writeCSVBook("", bookSpec{Name: "Other", Sheets: []sheetSpec{sheet("OtherConf", 9)}})
	}
	ro := runOpts{ProtoOut: &options.ProtoOutputOption{FilenameWithSubdirPrefix: true}}
	full, incr := newWorkspace(), newWorkspace()
	defer full.cleanup()
	defer incr.cleanup()
	tree(full)
	tree(incr)
	if err := full.genProto(ro); err != nil {
		return "err full-proto " + errCode(err)
	}
	if err := full.genConf(ro); err != nil {
		return "err full-conf " + errCode(err)
	}
	paths := []string{"a/Item#HeroConf.csv", "b/Item#PetConf.csv", "Other#OtherConf.csv"}
	if err := incr.genProto(ro, paths...); err != nil {
		return "err incr-proto " + errCode(err)
	}
	if err := incr.genConf(ro, paths...); err != nil {
		return "err incr-conf " + errCode(err)
	}
	f := snapString(snapshot(full.Proto)) + "|" + snapString(snapshot(full.Conf))
	i := snapString(snapshot(incr.Proto)) + "|" + snapString(snapshot(incr.Conf))
	if f != i {
		return "differ twins"
	}
	// the same incremental run through the command line (the tableauc binary built from the current tree)
	if bin := os.Getenv("VERIF_TABLEAUC"); bin != "" {
		cli := newWorkspace()
		defer cli.cleanup()
		tree(cli)
		cfg := filepath.Join(cli.Root, "config.yaml")
		protoDir := filepath.ToSlash(cli.Proto)
		os.WriteFile(cfg, []byte("lang: en\nlocationName: UTC\nlog:\n  level: ERROR\n  mode: SIMPLE\n  sink: CONSOLE\nproto:\n  input:\n    formats: [\"csv\"]\n    protoPaths: [\""+protoDir+"\"]\n  output:\n    subdir: proto\n    filenameWithSubdirPrefix: true\nconf:\n  input:\n    protoPaths: [\""+protoDir+"\"]\n    protoFiles: [\""+protoDir+"/*.proto\"]\n    formats: [\"csv\"]\n  output:\n    subdir: conf\n    formats: [\"json\"]\n"), 0o644)
		args := append([]string{"-p", "protoconf", "-i", cli.In, "-o", cli.Root, "-c", cfg}, paths...)
		cmd := exec.Command(bin, args...)
		if out, err := cmd.CombinedOutput(); err != nil {
			if os.Getenv("VERIF_DEBUG") != "" {
				println("CLI", string(out))
			}
			return "err cli"
		}
		c := snapString(snapshot(cli.Proto)) + "|" + snapString(snapshot(cli.Conf))
		if c != f {
			return "differ cli"
		}
	}
	return "same"
}
