package main

import (
	"math/rand"
	"os"
	"path/filepath"
	"strings"

	"github.com/tableauio/tableau"
	"github.com/tableauio/tableau/verifhook"
)

// ---------------------------------------------------------------------------
// corr.xfs.csvNames: naming a CSV workbook by one of its sheet files — the real xfs.ParseCSVFilenamePattern and
// xfs.ParseCSVBooknamePatternFrom against Model.CsvName on generated paths: directories, books and sheet names from pools
// that contain '#', '.', several levels; files without a sheet part.
//   csv.name <path>  → file <book> <sheet> | err         csv.book <path>  → key <pattern> | err
// ---------------------------------------------------------------------------

var csvNameDirs = []string{"", "", "conf", "a/b", "conf#v2", "x.y", "set#2/sub", "in/a.b/c#d", "/abs", "/abs/x#y", "v1.2"}
var csvNameBooks = []string{"Item", "Hero2", "Shop", "A", "Item_v2", "Zone3"}
var csvNameSheets = []string{"Item", "@TABLEAU", "Item#1", "a.b", "X#Y#Z", "Conf", "S.csv", "#", ""}

func init() {
	regStream("corr.xfs.csvNames", func(r *rand.Rand, n int, emit func(string, ...string)) {
		for i := 0; i < n; i++ {
			dir, book, sheet := csvNameDirs[r.Intn(len(csvNameDirs))], csvNameBooks[r.Intn(len(csvNameBooks))], csvNameSheets[r.Intn(len(csvNameSheets))]
			file := book + "#" + sheet + ".csv"
			switch r.Intn(8) {
			case 0:
				file = book + ".csv" // no sheet part
			case 1:
				file = book + "#" + sheet // no extension
			}
			path := file
			if dir != "" {
				path = dir + "/" + file
			}
			emit([]string{"csv.name", "csv.book"}[i%2], encStr(path))
		}
	})
	regImpl("csv.name", func(a []string) string {
		book, sheet, err := verifhook.ParseCSVFilenamePattern(mustStr(a[0]))
		if err != nil {
			return "err"
		}
		return "file " + encStr(book) + " " + encStr(sheet)
	})
	regImpl("csv.book", func(a []string) string {
		key, err := verifhook.ParseCSVBooknamePatternFrom(mustStr(a[0]))
		if err != nil {
			return "err"
		}
		return "key " + encStr(strings.ReplaceAll(key, "\\", "/"))
	})
}

// corr.importer.docBookName: the book name of a document workbook (YAML / XML) is its file's base name without the
// extension — whatever letters the name ends in.   doc.bookname <file name>  → name <book>
var docBookStems = []string{"Hero", "HeroArena", "HeroTeam", "Heroml", "HeroLlama", "Hero.v2", "Item.x", "Skill", "HeroSkill", "Max", "Lexml", "a.yaml", "x.xml.bak", "Y"}

func init() {
	regStream("corr.importer.docBookName", func(r *rand.Rand, n int, emit func(string, ...string)) {
		for i := 0; i < n; i++ {
			emit("doc.bookname", encStr(docBookStems[r.Intn(len(docBookStems))]+[]string{".yaml", ".xml", ".yml"}[r.Intn(3)]))
		}
	})
	regImpl("doc.bookname", func(a []string) string {
		name := mustStr(a[0])
		w := newWorkspace()
		defer w.cleanup()
		path := filepath.Join(w.In, name)
		text := "\"@sheet\": \"@TABLEAU\"\n---\n\"@sheet\": \"@Conf\"\nID: uint32\n---\n\"@sheet\": Conf\nID: 1\n"
		if strings.HasSuffix(name, ".xml") {
			text = "<?xml version=\"1.0\" encoding=\"UTF-8\" ?>\n<!--\n<@TABLEAU>\n    <Item Sheet=\"Conf\" />\n</@TABLEAU>\n\n<Conf>\n    <Item ID=\"uint32\"/>\n</Conf>\n-->\n\n<Conf>\n    <Item ID=\"1\"/>\n</Conf>\n"
		}
		if err := os.WriteFile(path, []byte(text), 0o644); err != nil {
			panic(err)
		}
		imp, err := tableau.NewImporter(path)
		if err != nil {
			return "err"
		}
		return "name " + encStr(imp.BookName())
	})
}
