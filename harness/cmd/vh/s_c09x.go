package main

import (
	"strings"

	"github.com/tableauio/tableau/verifhook"
)

type verifhookNode = verifhook.BookNode

func xmlDataToNode(raw string) (*verifhookNode, error) { return verifhook.XMLDataToNode(raw) }

// decXNode decodes the op encoding of an element tree: <name|attrs|text|[children]>
func decXNode(s string) *xnode {
	n, rest := decXNodeAt(s)
	if rest != "" {
		panic("trailing: " + rest)
	}
	return n
}

func decXNodeAt(s string) (*xnode, string) {
	if !strings.HasPrefix(s, "<") {
		panic("bad node: " + s)
	}
	s = s[1:]
	i := strings.Index(s, "|")
	name := mustStr(s[:i])
	s = s[i+1:]
	i = strings.Index(s, "|")
	attrS := s[:i]
	s = s[i+1:]
	i = strings.Index(s, "|")
	text := mustStr(s[:i])
	s = s[i+1:]
	n := &xnode{name: name, text: text}
	if attrS != "" {
		for _, e := range strings.Split(attrS, ",") {
			kv := strings.SplitN(e, "=", 2)
			n.attrs = append(n.attrs, [2]string{mustStr(kv[0]), mustStr(kv[1])})
		}
	}
	if !strings.HasPrefix(s, "[") {
		panic("bad children: " + s)
	}
	s = s[1:]
	for strings.HasPrefix(s, "<") {
		var k *xnode
		k, s = decXNodeAt(s)
		n.kids = append(n.kids, k)
	}
	if !strings.HasPrefix(s, "]>") {
		panic("bad close: " + s)
	}
	return n, s[2:]
}
