// Command vh is the Go side of the verification harness.
//
//	vh gen <stream> <seed> <n>    write generated ops (one per line) to stdout
//	vh impl                       read ops from stdin, run the REAL tableau code, one output line per op
//	vh streams                    list stream names
//
// Built with -tags verif against /repo (see go.mod replace).
package main

import (
	"bufio"
	"fmt"
	"github.com/tableauio/tableau/log"
	"math/rand"
	"os"
	"runtime/debug"
	"sort"
	"strconv"
	"strings"
	"syscall"
	"time"
)

// a stream: a generator of ops and the implementation-side evaluator of one op
type stream struct {
	name string
	gen  func(r *rand.Rand, n int, emit func(fn string, args ...string))
}

var streams = map[string]*stream{}

// implementation-side evaluators, by op name
var impls = map[string]func(args []string) string{}

func regStream(name string, gen func(r *rand.Rand, n int, emit func(fn string, args ...string))) {
	streams[name] = &stream{name: name, gen: gen}
}

func regImpl(fn string, f func(args []string) string) { impls[fn] = f }

func main() {
	if len(os.Args) < 2 {
		fmt.Fprintln(os.Stderr, "usage: vh gen|impl|streams …")
		os.Exit(2)
	}
	switch os.Args[1] {
	case "streams":
		var names []string
		for n := range streams {
			names = append(names, n)
		}
		sort.Strings(names)
		for _, n := range names {
			fmt.Println(n)
		}
	case "gen":
		if len(os.Args) != 5 {
			fmt.Fprintln(os.Stderr, "usage: vh gen <stream> <seed> <n>")
			os.Exit(2)
		}
		s, ok := streams[os.Args[2]]
		if !ok {
			fmt.Fprintln(os.Stderr, "unknown stream", os.Args[2])
			os.Exit(2)
		}
		seed, _ := strconv.ParseInt(os.Args[3], 10, 64)
		n, _ := strconv.Atoi(os.Args[4])
		// generators that consult the code under test (validity filters) must not let its logging into the op stream
		_ = log.Init(quietLog)
		gfd, err := syscall.Dup(1)
		if err != nil {
			panic(err)
		}
		devnull, err := os.OpenFile(os.DevNull, os.O_WRONLY, 0)
		if err != nil {
			panic(err)
		}
		syscall.Dup2(int(devnull.Fd()), 1)
		os.Stdout = devnull
		w := bufio.NewWriterSize(os.NewFile(uintptr(gfd), "gen-out"), 1<<20)
		defer w.Flush()
		r := rand.New(rand.NewSource(seed))
		s.gen(r, n, func(fn string, args ...string) {
			w.WriteString(fn)
			for _, a := range args {
				w.WriteByte('\t')
				w.WriteString(a)
			}
			w.WriteByte('\n')
		})
	case "impl":
		runImpl()
	case "e2e":
		runE2E(os.Args[2:])
	case "c16child":
		runC16Child(os.Args[2:])
	default:
		fmt.Fprintln(os.Stderr, "unknown command", os.Args[1])
		os.Exit(2)
	}
}

// runImpl evaluates ops one per line. Output is flushed per line so that a
// crash (a panic in a goroutine of the code under test cannot be recovered)
// loses nothing: the parent sees how many lines were answered, records PANIC
// for the next one and restarts the worker on the rest.
func runImpl() {
	// an unbounded recursion in the code under test should overflow quickly (default limit: 1 GB)
	debug.SetMaxStack(128 << 20)
	in := bufio.NewReaderSize(os.Stdin, 1<<20)
	// keep the protocol channel private: the code under test logs to os.Stdout
	fd, err := syscall.Dup(1)
	if err != nil {
		panic(err)
	}
	protoOut := os.NewFile(uintptr(fd), "proto-out")
	syscall.Dup2(2, 1)
	os.Stdout = os.Stderr
	out := bufio.NewWriter(protoOut)
	for {
		line, err := in.ReadString('\n')
		if len(line) > 0 {
			line = strings.TrimRight(line, "\n")
			res := evalOpWatched(line)
			out.WriteString(res)
			out.WriteByte('\n')
			if strings.HasPrefix(res, "HANG") || strings.HasPrefix(res, "DEADLOCK") {
				// goroutines of the code under test are stuck (possibly holding process-wide locks):
				// ask the parent for a fresh worker for the remaining ops
				out.WriteString("##RESTART##\n")
				out.Flush()
				os.Exit(0)
			}
			out.Flush()
		}
		if err != nil {
			return
		}
	}
}

// evalOpWatched bounds every op: code under test that does not terminate is reported as HANG (and the
// worker is replaced, see runImpl).
func evalOpWatched(line string) string {
	done := make(chan string, 1)
	go func() { done <- evalOp(line) }()
	select {
	case r := <-done:
		return r
	case <-time.After(60 * time.Second):
		return "HANG"
	}
}

func evalOp(line string) (res string) {
	parts := strings.Split(line, "\t")
	f, ok := impls[parts[0]]
	if !ok {
		return "bad-op"
	}
	defer func() {
		if p := recover(); p != nil {
			res = "PANIC"
			fmt.Fprintf(os.Stderr, "PANIC in op %q: %v\n", line, p)
		}
	}()
	return f(parts[1:])
}
