package main

import (
	"google.golang.org/protobuf/reflect/protoreflect"
	"google.golang.org/protobuf/reflect/protoregistry"
)

// globalFilesResolver resolves imports from the linked-in global registry
// (tableau.proto and the well-known types are registered there).
type globalFilesResolver struct{}

func (globalFilesResolver) FindFileByPath(p string) (protoreflect.FileDescriptor, error) {
	return protoregistry.GlobalFiles.FindFileByPath(p)
}
func (globalFilesResolver) FindDescriptorByName(n protoreflect.FullName) (protoreflect.Descriptor, error) {
	return protoregistry.GlobalFiles.FindDescriptorByName(n)
}
