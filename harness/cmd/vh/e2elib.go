package main

import (
	"crypto/sha256"
	"encoding/hex"
	"fmt"
	"os"
	"path/filepath"
	"sort"
	"strings"
	"sync/atomic"

	"github.com/tableauio/tableau"
	"github.com/tableauio/tableau/format"
	"github.com/tableauio/tableau/log"
	"github.com/tableauio/tableau/options"
)

// --- a tiny workbook writer -------------------------------------------------

type sheetSpec struct {
	Name string
	Rows [][]string
	Meta map[string]string // metasheet columns for this sheet (Transpose, Merger, …)
	// Ragged: CSV records are written with their trailing blank cells trimmed (as a hand-edited CSV or an
	// export of a ragged sheet has them) instead of padded to a rectangle
	Ragged bool
}

type bookSpec struct {
	Name     string // workbook name without extension
	Sheets   []sheetSpec
	BookMeta map[string]string // the '#' row of the metasheet, nil = none
	NoMeta   bool              // do not write a metasheet at all
	MetaName string            // name of the metasheet (default "@TABLEAU")
}

func (b bookSpec) metaName() string {
	if b.MetaName != "" {
		return b.MetaName
	}
	return "@TABLEAU"
}

type workspace struct {
	Root, In, Proto, Conf string
}

var wsCounter int64

func tmpRoot() string {
	d := os.Getenv("VERIF_TMP")
	if d == "" {
		d = os.TempDir()
	}
	return d
}

func newWorkspace() *workspace {
	n := atomic.AddInt64(&wsCounter, 1)
	root := filepath.Join(tmpRoot(), fmt.Sprintf("ws.%d.%d", os.Getpid(), n))
	os.RemoveAll(root)
	w := &workspace{Root: root, In: filepath.Join(root, "in"), Proto: filepath.Join(root, "proto"), Conf: filepath.Join(root, "conf")}
	for _, d := range []string{w.In, w.Proto, w.Conf} {
		if err := os.MkdirAll(d, 0o755); err != nil {
			panic(err)
		}
	}
	return w
}

func (w *workspace) cleanup() { os.RemoveAll(w.Root) }

func writeCSV(path string, rows [][]string) {
	if err := os.MkdirAll(filepath.Dir(path), 0o755); err != nil {
		panic(err)
	}
	f, err := os.Create(path)
	if err != nil {
		panic(err)
	}
	defer f.Close()
	// rectangular, like Table.ExportCSV
	maxc := 0
	for _, r := range rows {
		if len(r) > maxc {
			maxc = len(r)
		}
	}
	var sb strings.Builder
	for _, r := range rows {
		rr := make([]string, maxc)
		copy(rr, r)
		sb.WriteString(csvLine(rr))
	}
	if _, err := f.WriteString(sb.String()); err != nil {
		panic(err)
	}
}

// csvLine writes one record the way spreadsheet programs do (RFC 4180): a field is quoted only when it holds a
// comma, a quote or a line break — blanks at its start or end are written as they are (encoding/csv's writer
// would quote those; seed C01-4 trimmed them in the reader)
func csvLine(rec []string) string {
	var sb strings.Builder
	for i, f := range rec {
		if i > 0 {
			sb.WriteByte(',')
		}
		if strings.ContainsAny(f, ",\"\r\n") {
			sb.WriteString(`"` + strings.ReplaceAll(f, `"`, `""`) + `"`)
		} else {
			sb.WriteString(f)
		}
	}
	sb.WriteByte('\n')
	return sb.String()
}

// writeCSVRagged writes every record without its trailing blank cells (at least one cell)
func writeCSVRagged(path string, rows [][]string) {
	if err := os.MkdirAll(filepath.Dir(path), 0o755); err != nil {
		panic(err)
	}
	f, err := os.Create(path)
	if err != nil {
		panic(err)
	}
	defer f.Close()
	var sb strings.Builder
	for _, r := range rows {
		n := len(r)
		for n > 1 && r[n-1] == "" {
			n--
		}
		rr := append([]string{}, r[:n]...)
		if len(rr) == 0 {
			rr = []string{""}
		}
		sb.WriteString(csvLine(rr))
	}
	if _, err := f.WriteString(sb.String()); err != nil {
		panic(err)
	}
}

func metasheetRows(b bookSpec) [][]string {
	colset := map[string]bool{}
	for _, s := range b.Sheets {
		for k := range s.Meta {
			colset[k] = true
		}
	}
	for k := range b.BookMeta {
		colset[k] = true
	}
	var cols []string
	for k := range colset {
		cols = append(cols, k)
	}
	sort.Strings(cols)
	rows := [][]string{append([]string{"Sheet"}, cols...)}
	if b.BookMeta != nil {
		r := []string{"#"}
		for _, c := range cols {
			r = append(r, b.BookMeta[c])
		}
		rows = append(rows, r)
	}
	for _, s := range b.Sheets {
		r := []string{s.Name}
		for _, c := range cols {
			r = append(r, s.Meta[c])
		}
		rows = append(rows, r)
	}
	return rows
}

// writeCSVBook writes <subdir>/<Book>#<Sheet>.csv files and the metasheet.
func (w *workspace) writeCSVBook(subdir string, b bookSpec) {
	dir := filepath.Join(w.In, subdir)
	for _, s := range b.Sheets {
		if s.Ragged {
			writeCSVRagged(filepath.Join(dir, b.Name+"#"+s.Name+".csv"), s.Rows)
			continue
		}
		writeCSV(filepath.Join(dir, b.Name+"#"+s.Name+".csv"), s.Rows)
	}
	if !b.NoMeta {
		writeCSV(filepath.Join(dir, b.Name+"#"+b.metaName()+".csv"), metasheetRows(b))
	}
}

// --- running the real generators --------------------------------------------

type runOpts struct {
	Header         *options.HeaderOption
	Lang           string
	LocationName   string
	LocationRaw    bool            // hand LocationName to the conf generator as it is (also when empty)
	Formats        []format.Format // input formats (default CSV)
	OutFormats     []format.Format // conf output formats (default JSON)
	Pretty         bool
	EmitUnpop      bool
	EmitTimezones  bool
	UseProtoNames  bool
	UseEnumNumbers bool
	ProtoFiles     []string
	ProtoPaths     []string
	SubdirRewrites map[string]string
	Subdirs        []string
	Package        string // proto package (default "protoconf")
	DryRun         options.DryRun
	ProtoOut       *options.ProtoOutputOption // proto output options (default: none set)
	ConfSubdir     string                     // conf output Subdir (default: none)
	MetasheetName  string                     // custom metasheet name (default: none)
}

func (o runOpts) pkg() string {
	if o.Package != "" {
		return o.Package
	}
	return "protoconf"
}

var quietLog = &log.Options{Mode: "SIMPLE", Level: "FATAL", Sink: "CONSOLE"}

func (w *workspace) genProto(o runOpts, paths ...string) error {
	fmts := o.Formats
	if fmts == nil {
		fmts = []format.Format{format.CSV}
	}
	lang := o.Lang
	if lang == "" {
		lang = "en"
	}
	po := &options.ProtoOption{
		Input:  &options.ProtoInputOption{Header: o.Header, ProtoPaths: append([]string{w.Proto}, o.ProtoPaths...), ProtoFiles: o.ProtoFiles, Formats: fmts, Subdirs: o.Subdirs, SubdirRewrites: o.SubdirRewrites, MetasheetName: o.MetasheetName},
		Output: &options.ProtoOutputOption{},
	}
	if o.ProtoOut != nil {
		po.Output = o.ProtoOut
	}
	setters := []options.Option{options.Proto(po), options.Log(quietLog), options.Lang(lang)}
	if o.LocationName != "" {
		setters = append(setters, options.LocationName(o.LocationName))
	}
	if len(paths) > 0 {
		return tableau.NewProtoGenerator(o.pkg(), w.In, w.Proto, setters...).Generate(paths...)
	}
	return tableau.GenProto(o.pkg(), w.In, w.Proto, setters...)
}

func (w *workspace) genConf(o runOpts, paths ...string) error {
	fmts := o.Formats
	if fmts == nil {
		fmts = []format.Format{format.CSV}
	}
	outf := o.OutFormats
	if outf == nil {
		outf = []format.Format{format.JSON}
	}
	lang := o.Lang
	if lang == "" {
		lang = "en"
	}
	co := &options.ConfOption{
		Input: &options.ConfInputOption{ProtoPaths: append([]string{w.Proto}, o.ProtoPaths...), ProtoFiles: []string{filepath.Join(w.Proto, "*.proto")}, Formats: fmts, Subdirs: o.Subdirs, SubdirRewrites: o.SubdirRewrites},
		Output: &options.ConfOutputOption{Formats: outf, Pretty: o.Pretty, EmitUnpopulated: o.EmitUnpop, EmitTimezones: o.EmitTimezones,
			UseProtoNames: o.UseProtoNames, UseEnumNumbers: o.UseEnumNumbers, DryRun: o.DryRun, Subdir: o.ConfSubdir},
	}
	setters := []options.Option{options.Conf(co), options.Log(quietLog), options.Lang(lang)}
	loc := o.LocationName
	if loc == "" && !o.LocationRaw {
		loc = "UTC"
	}
	setters = append(setters, options.LocationName(loc))
	if len(paths) > 0 {
		return tableau.NewConfGenerator(o.pkg(), w.In, w.Conf, setters...).Generate(paths...)
	}
	return tableau.GenConf(o.pkg(), w.In, w.Conf, setters...)
}

// snapshot returns relative path -> sha256 for every file below dir.
func snapshot(dir string) map[string]string {
	res := map[string]string{}
	filepath.Walk(dir, func(p string, info os.FileInfo, err error) error {
		if err != nil || info.IsDir() {
			return nil
		}
		data, err := os.ReadFile(p)
		if err != nil {
			return nil
		}
		sum := sha256.Sum256(data)
		rel, _ := filepath.Rel(dir, p)
		res[filepath.ToSlash(rel)] = hex.EncodeToString(sum[:8])
		return nil
	})
	return res
}

func snapString(m map[string]string) string {
	var ks []string
	for k := range m {
		ks = append(ks, k)
	}
	sort.Strings(ks)
	var b strings.Builder
	for _, k := range ks {
		b.WriteString(k + "=" + m[k] + ";")
	}
	return b.String()
}
