package main

import (
	"fmt"
	"math"
	"math/rand"
	"sort"
	"strconv"
	"strings"

	"github.com/tableauio/tableau/proto/tableaupb"
	"google.golang.org/protobuf/proto"
	"google.golang.org/protobuf/reflect/protodesc"
	"google.golang.org/protobuf/reflect/protoreflect"
	"google.golang.org/protobuf/types/descriptorpb"
	"google.golang.org/protobuf/types/dynamicpb"
)

// ---------------------------------------------------------------------------
// Generated schemas (trees, no recursion) and their token encoding.
//
//   desc  := D<count> field*
//   field := F<num>:<card o|l|m>:<r0|r1>:<kind>[:<keykind>] [desc]     (desc iff kind == m)
//   val   := i<int> | u<hex bytes> | f<hex bits> | M<count> (#<num> val)* | L<count> val* | P<count> (val val)*
// ---------------------------------------------------------------------------

type gField struct {
	num      int
	card     byte // 'o', 'l', 'm'
	replace  bool
	kind     string // i32 i64 u32 u64 b s y f d e m
	keyKind  string // for maps
	optional bool
	sub      *gMsg
}

type gMsg struct {
	fields []*gField
}

var scalarKinds = []string{"i32", "i64", "u32", "u64", "b", "s", "y", "f", "d", "e"}
var keyKinds = []string{"i32", "i64", "u32", "s", "b"}

// genSchemaWK: like genSchema, but singular / list / map-value fields may also be Timestamp or Duration
var schemaWithWellKnown bool

func genSchema(r *rand.Rand, depth int) *gMsg {
	m := &gMsg{}
	n := 1 + r.Intn(5)
	for i := 0; i < n; i++ {
		f := &gField{num: i + 1}
		switch r.Intn(4) {
		case 0:
			f.card = 'l'
		case 1:
			f.card = 'm'
			f.keyKind = keyKinds[r.Intn(len(keyKinds))]
		default:
			f.card = 'o'
		}
		if depth > 0 && r.Intn(3) == 0 {
			f.kind = "m"
			f.sub = genSchema(r, depth-1)
		} else if schemaWithWellKnown && r.Intn(4) == 0 {
			f.kind = []string{"ts", "du"}[r.Intn(2)]
		} else {
			f.kind = scalarKinds[r.Intn(len(scalarKinds))]
			if f.card == 'o' && r.Intn(4) == 0 {
				f.optional = true
			}
		}
		f.replace = r.Intn(4) == 0
		m.fields = append(m.fields, f)
	}
	return m
}

func (m *gMsg) tokens(out *[]string) {
	*out = append(*out, "D"+strconv.Itoa(len(m.fields)))
	for _, f := range m.fields {
		r := "r0"
		if f.replace {
			r = "r1"
		}
		t := fmt.Sprintf("F%d:%c:%s:%s", f.num, f.card, r, f.kind)
		if f.card == 'm' {
			t += ":" + f.keyKind
		}
		if f.optional {
			t += ":opt"
		}
		*out = append(*out, t)
		if f.kind == "m" {
			f.sub.tokens(out)
		}
	}
}

func parseSchema(toks []string, pos *int) *gMsg {
	t := toks[*pos]
	*pos++
	n, _ := strconv.Atoi(t[1:])
	m := &gMsg{}
	for i := 0; i < n; i++ {
		parts := strings.Split(toks[*pos], ":")
		*pos++
		f := &gField{}
		f.num, _ = strconv.Atoi(parts[0][1:])
		f.card = parts[1][0]
		f.replace = parts[2] == "r1"
		f.kind = parts[3]
		rest := parts[4:]
		if f.card == 'm' {
			f.keyKind = rest[0]
			rest = rest[1:]
		}
		if len(rest) > 0 && rest[0] == "opt" {
			f.optional = true
		}
		if f.kind == "m" {
			f.sub = parseSchema(toks, pos)
		}
		m.fields = append(m.fields, f)
	}
	return m
}

var kindType = map[string]descriptorpb.FieldDescriptorProto_Type{
	"i32": descriptorpb.FieldDescriptorProto_TYPE_INT32, "i64": descriptorpb.FieldDescriptorProto_TYPE_INT64,
	"u32": descriptorpb.FieldDescriptorProto_TYPE_UINT32, "u64": descriptorpb.FieldDescriptorProto_TYPE_UINT64,
	"b": descriptorpb.FieldDescriptorProto_TYPE_BOOL, "s": descriptorpb.FieldDescriptorProto_TYPE_STRING,
	"y": descriptorpb.FieldDescriptorProto_TYPE_BYTES, "f": descriptorpb.FieldDescriptorProto_TYPE_FLOAT,
	"d": descriptorpb.FieldDescriptorProto_TYPE_DOUBLE, "e": descriptorpb.FieldDescriptorProto_TYPE_ENUM,
	"m": descriptorpb.FieldDescriptorProto_TYPE_MESSAGE,
	"ts": descriptorpb.FieldDescriptorProto_TYPE_MESSAGE, "du": descriptorpb.FieldDescriptorProto_TYPE_MESSAGE,
}

// buildDescriptor turns a generated schema into a real message descriptor
// (nested messages, map entries, PATCH_REPLACE field options).
// descSheetPatch: when set, the root message carries worksheet options with this patch type (load.Load reads it)
var descSheetPatch tableaupb.Patch

func buildDescriptor(m *gMsg) protoreflect.MessageDescriptor {
	counter := 0
	var build func(m *gMsg, name string) *descriptorpb.DescriptorProto
	build = func(m *gMsg, name string) *descriptorpb.DescriptorProto {
		dp := &descriptorpb.DescriptorProto{Name: proto.String(name)}
		oneofIdx := int32(0)
		for _, f := range m.fields {
			fname := fmt.Sprintf("f%d", f.num)
			fp := &descriptorpb.FieldDescriptorProto{Name: proto.String(fname), Number: proto.Int32(int32(f.num)),
				Label: descriptorpb.FieldDescriptorProto_LABEL_OPTIONAL.Enum()}
			if f.replace {
				fo := &descriptorpb.FieldOptions{}
				proto.SetExtension(fo, tableaupb.E_Field, &tableaupb.FieldOptions{Name: fname, Prop: &tableaupb.FieldProp{Patch: tableaupb.Patch_PATCH_REPLACE}})
				fp.Options = fo
			}
			setType := func(fp *descriptorpb.FieldDescriptorProto, kind string, sub *gMsg, scope string) {
				fp.Type = kindType[kind].Enum()
				switch kind {
				case "e":
					fp.TypeName = proto.String(".verifgen.Color")
				case "ts":
					fp.TypeName = proto.String(".google.protobuf.Timestamp")
				case "du":
					fp.TypeName = proto.String(".google.protobuf.Duration")
				case "m":
					counter++
					subName := fmt.Sprintf("S%d", counter)
					dp.NestedType = append(dp.NestedType, build(sub, subName))
					fp.TypeName = proto.String(scope + "." + subName)
				}
			}
			scope := ".verifgen." + name
			// nested scope names: we only ever nest one level below the message we are building,
			// so the full name is <full name of this message>.<sub>; compute full name lazily below
			_ = scope
			switch f.card {
			case 'o':
				setType(fp, f.kind, f.sub, "@")
				if f.optional {
					fp.Proto3Optional = proto.Bool(true)
					fp.OneofIndex = proto.Int32(oneofIdx)
					oneofIdx++
					dp.OneofDecl = append(dp.OneofDecl, &descriptorpb.OneofDescriptorProto{Name: proto.String("_" + fname)})
				}
			case 'l':
				fp.Label = descriptorpb.FieldDescriptorProto_LABEL_REPEATED.Enum()
				setType(fp, f.kind, f.sub, "@")
			case 'm':
				fp.Label = descriptorpb.FieldDescriptorProto_LABEL_REPEATED.Enum()
				fp.Type = descriptorpb.FieldDescriptorProto_TYPE_MESSAGE.Enum()
				entryName := fmt.Sprintf("F%dEntry", f.num)
				kf := &descriptorpb.FieldDescriptorProto{Name: proto.String("key"), Number: proto.Int32(1), Label: descriptorpb.FieldDescriptorProto_LABEL_OPTIONAL.Enum(), Type: kindType[f.keyKind].Enum()}
				vf := &descriptorpb.FieldDescriptorProto{Name: proto.String("value"), Number: proto.Int32(2), Label: descriptorpb.FieldDescriptorProto_LABEL_OPTIONAL.Enum()}
				setType(vf, f.kind, f.sub, "@")
				entry := &descriptorpb.DescriptorProto{Name: proto.String(entryName), Field: []*descriptorpb.FieldDescriptorProto{kf, vf},
					Options: &descriptorpb.MessageOptions{MapEntry: proto.Bool(true)}}
				dp.NestedType = append(dp.NestedType, entry)
				fp.TypeName = proto.String("@." + entryName)
			}
			dp.Field = append(dp.Field, fp)
		}
		return dp
	}
	root := build(m, "Root")
	if descSheetPatch != tableaupb.Patch_PATCH_NONE {
		mo := &descriptorpb.MessageOptions{}
		proto.SetExtension(mo, tableaupb.E_Worksheet, &tableaupb.WorksheetOptions{Name: "Root", Patch: descSheetPatch})
		root.Options = mo
	}
	// resolve "@" placeholders to full names
	var fix func(dp *descriptorpb.DescriptorProto, full string)
	fix = func(dp *descriptorpb.DescriptorProto, full string) {
		for _, f := range dp.Field {
			if f.TypeName != nil && strings.HasPrefix(*f.TypeName, "@") {
				f.TypeName = proto.String(full + (*f.TypeName)[1:])
			}
		}
		for _, n := range dp.NestedType {
			// map entry value types refer to siblings of the entry: scope = parent
			if n.GetOptions().GetMapEntry() {
				for _, f := range n.Field {
					if f.TypeName != nil && strings.HasPrefix(*f.TypeName, "@") {
						f.TypeName = proto.String(full + (*f.TypeName)[1:])
					}
				}
			} else {
				fix(n, full+"."+n.GetName())
			}
		}
	}
	fix(root, ".verifgen.Root")
	fdp := &descriptorpb.FileDescriptorProto{
		Name: proto.String("verif_gen.proto"), Package: proto.String("verifgen"), Syntax: proto.String("proto3"),
		Dependency:  []string{"tableau/protobuf/tableau.proto", "google/protobuf/timestamp.proto", "google/protobuf/duration.proto"},
		MessageType: []*descriptorpb.DescriptorProto{root},
		EnumType: []*descriptorpb.EnumDescriptorProto{{Name: proto.String("Color"), Value: []*descriptorpb.EnumValueDescriptorProto{
			{Name: proto.String("COLOR_UNKNOWN"), Number: proto.Int32(0)}, {Name: proto.String("COLOR_RED"), Number: proto.Int32(1)},
			{Name: proto.String("COLOR_BLUE"), Number: proto.Int32(2)}, {Name: proto.String("COLOR_X"), Number: proto.Int32(7)}}}},
	}
	fd, err := protodesc.NewFile(fdp, globalFilesResolver{})
	if err != nil {
		panic(fmt.Sprintf("buildDescriptor: %v", err))
	}
	return fd.Messages().Get(0)
}

// ---- values -----------------------------------------------------------------

var strPool = []string{"", "a", "b", "ab", "hello", " ", "line\n", "cr\r", "crlf\r\n", "\n", "a  b", "\x00", "ÿ", "值", "x\ny", "2021-01-01T00:00:00Z", "zz", "a\u3000b", " lead", "trail ", "tab\there", "q\"uote", "back\\slash", "1970-01-01T00:00:00+08:00", "C:\\data\\", "\\", "two  blanks", "ends\\\"q",
	// long values (a pretty printer may wrap them): every word boundary is a run of blanks or a non-ASCII space
	strings.Repeat("lorem  ipsum\u3000dolor  ", 12), strings.Repeat("ab  ", 60), strings.Repeat("x\u00a0y z  ", 30)}

// genWellKnown builds a Timestamp / Duration value of the given message descriptor
func genWellKnown(r *rand.Rand, kind string, md protoreflect.MessageDescriptor) protoreflect.Value {
	m := dynamicpb.NewMessage(md)
	var secs int64
	var nanos int32
	if kind == "ts" {
		secs = []int64{0, 1, 1640995200, 1582979696, -1, 951782400, 1700000000, 2000000000, -600000000}[r.Intn(9)] // 1950 … 2033: inside the zone tables; local-mean-time eras and year 0001/9999 edges are outside the statement
		nanos = []int32{0, 0, 500000000, 1, 999999999, 10000000}[r.Intn(6)]
	} else {
		secs = []int64{0, 1, 3600, 86399, -5, 315576000000}[r.Intn(6)]
		nanos = []int32{0, 0, 500000000, 1}[r.Intn(4)]
		if secs < 0 {
			nanos = -nanos
		}
	}
	if secs != 0 {
		m.Set(md.Fields().ByName("seconds"), protoreflect.ValueOfInt64(secs))
	}
	if nanos != 0 {
		m.Set(md.Fields().ByName("nanos"), protoreflect.ValueOfInt32(nanos))
	}
	return protoreflect.ValueOfMessage(m)
}

func isWK(kind string) bool { return kind == "ts" || kind == "du" }

func genScalar(r *rand.Rand, kind string, nonzero bool) protoreflect.Value {
	for {
		var v protoreflect.Value
		zero := false
		switch kind {
		case "i32":
			x := []int32{0, 1, -1, 7, math.MaxInt32, math.MinInt32, 42, 10, 13}[r.Intn(9)] // 10 / 13: wire bytes 0a / 0d
			v, zero = protoreflect.ValueOfInt32(x), x == 0
		case "i64":
			x := []int64{0, 1, -1, math.MaxInt64, math.MinInt64, 1 << 40, 10, 13}[r.Intn(8)]
			v, zero = protoreflect.ValueOfInt64(x), x == 0
		case "u32":
			x := []uint32{0, 1, 2, math.MaxUint32, 99, 10, 13}[r.Intn(7)]
			v, zero = protoreflect.ValueOfUint32(x), x == 0
		case "u64":
			x := []uint64{0, 1, math.MaxUint64, 1 << 63}[r.Intn(4)]
			v, zero = protoreflect.ValueOfUint64(x), x == 0
		case "b":
			x := r.Intn(2) == 0
			v, zero = protoreflect.ValueOfBool(x), !x
		case "s":
			x := strPool[r.Intn(len(strPool))]
			if x == "\x00" || x == "ÿ" {
				x = "q" // strings must be valid UTF-8
			}
			v, zero = protoreflect.ValueOfString(x), x == ""
		case "y":
			x := strPool[r.Intn(len(strPool))]
			v, zero = protoreflect.ValueOfBytes([]byte(x)), x == ""
		case "f":
			x := []float32{0, 1.5, -2, 3.25e10}[r.Intn(4)]
			v, zero = protoreflect.ValueOfFloat32(x), x == 0
		case "d":
			x := []float64{0, 1.5, -2, 1e300, 0.1}[r.Intn(5)]
			v, zero = protoreflect.ValueOfFloat64(x), x == 0
		case "e":
			x := []protoreflect.EnumNumber{0, 1, 2, 7}[r.Intn(4)]
			v, zero = protoreflect.ValueOfEnum(x), x == 0
		}
		if !(nonzero && zero) {
			return v
		}
	}
}

// genMessage fills a dynamic message of schema m with random content.
func genMessage(r *rand.Rand, m *gMsg, md protoreflect.MessageDescriptor, density int) protoreflect.Message {
	msg := dynamicpb.NewMessage(md)
	for _, f := range m.fields {
		if r.Intn(100) >= density {
			continue
		}
		fd := md.Fields().ByNumber(protoreflect.FieldNumber(f.num))
		switch f.card {
		case 'o':
			if isWK(f.kind) {
				msg.Set(fd, genWellKnown(r, f.kind, fd.Message()))
			} else if f.kind == "m" {
				sub := genMessage(r, f.sub, fd.Message(), density)
				msg.Set(fd, protoreflect.ValueOfMessage(sub))
			} else {
				msg.Set(fd, genScalar(r, f.kind, false))
			}
		case 'l':
			l := msg.Mutable(fd).List()
			n := 1 + r.Intn(3)
			for i := 0; i < n; i++ {
				if isWK(f.kind) {
					l.Append(genWellKnown(r, f.kind, fd.Message()))
				} else if f.kind == "m" {
					l.Append(protoreflect.ValueOfMessage(genMessage(r, f.sub, fd.Message(), density)))
				} else {
					l.Append(genScalar(r, f.kind, false))
				}
			}
		case 'm':
			mp := msg.Mutable(fd).Map()
			n := 1 + r.Intn(3)
			for i := 0; i < n; i++ {
				k := genScalar(r, f.keyKind, false).MapKey()
				if isWK(f.kind) {
					mp.Set(k, genWellKnown(r, f.kind, fd.MapValue().Message()))
				} else if f.kind == "m" {
					mp.Set(k, protoreflect.ValueOfMessage(genMessage(r, f.sub, fd.MapValue().Message(), density)))
				} else {
					mp.Set(k, genScalar(r, f.kind, false))
				}
			}
		}
	}
	return msg
}

func hexBytes(b []byte) string {
	var sb strings.Builder
	sb.WriteByte('u')
	for i, c := range b {
		if i > 0 {
			sb.WriteByte('.')
		}
		sb.WriteString(strconv.FormatInt(int64(c), 16))
	}
	return sb.String()
}

// encStringsAsRunes: print string values as code points (table-parser stream) instead of UTF-8 bytes
var encStringsAsRunes bool

func encScalar(fd protoreflect.FieldDescriptor, v protoreflect.Value) string {
	if encStringsAsRunes && fd.Kind() == protoreflect.StringKind {
		return encStr(v.String())
	}
	switch fd.Kind() {
	case protoreflect.BoolKind:
		if v.Bool() {
			return "i1"
		}
		return "i0"
	case protoreflect.EnumKind:
		return "i" + strconv.FormatInt(int64(v.Enum()), 10)
	case protoreflect.Uint32Kind, protoreflect.Fixed32Kind, protoreflect.Uint64Kind, protoreflect.Fixed64Kind:
		return "i" + strconv.FormatUint(v.Uint(), 10)
	case protoreflect.StringKind:
		return hexBytes([]byte(v.String()))
	case protoreflect.BytesKind:
		return hexBytes(v.Bytes())
	case protoreflect.FloatKind, protoreflect.DoubleKind:
		return "f" + strconv.FormatUint(math.Float64bits(v.Float()), 16)
	default:
		return "i" + strconv.FormatInt(v.Int(), 10)
	}
}

func keyLess(a, b protoreflect.MapKey) bool {
	switch x := a.Interface().(type) {
	case bool:
		return !x && b.Bool()
	case int32, int64:
		return a.Int() < b.Int()
	case uint32, uint64:
		return a.Uint() < b.Uint()
	case string:
		return x < b.String()
	}
	return false
}

// encMessage prints the canonical token form of a message: populated fields in
// field-number order, map entries in key order.
func encMessage(msg protoreflect.Message, out *[]string) {
	type fv struct {
		fd protoreflect.FieldDescriptor
		v  protoreflect.Value
	}
	var fs []fv
	msg.Range(func(fd protoreflect.FieldDescriptor, v protoreflect.Value) bool {
		fs = append(fs, fv{fd, v})
		return true
	})
	sort.Slice(fs, func(i, j int) bool { return fs[i].fd.Number() < fs[j].fd.Number() })
	*out = append(*out, "M"+strconv.Itoa(len(fs)))
	for _, x := range fs {
		*out = append(*out, "#"+strconv.Itoa(int(x.fd.Number())))
		switch {
		case x.fd.IsList():
			l := x.v.List()
			*out = append(*out, "L"+strconv.Itoa(l.Len()))
			for i := 0; i < l.Len(); i++ {
				if x.fd.Message() != nil {
					encMessage(l.Get(i).Message(), out)
				} else {
					*out = append(*out, encScalar(x.fd, l.Get(i)))
				}
			}
		case x.fd.IsMap():
			mp := x.v.Map()
			var keys []protoreflect.MapKey
			mp.Range(func(k protoreflect.MapKey, _ protoreflect.Value) bool { keys = append(keys, k); return true })
			sort.Slice(keys, func(i, j int) bool { return keyLess(keys[i], keys[j]) })
			*out = append(*out, "P"+strconv.Itoa(len(keys)))
			for _, k := range keys {
				*out = append(*out, encScalar(x.fd.MapKey(), k.Value()))
				if x.fd.MapValue().Message() != nil {
					encMessage(mp.Get(k).Message(), out)
				} else {
					*out = append(*out, encScalar(x.fd.MapValue(), mp.Get(k)))
				}
			}
		case x.fd.Message() != nil:
			encMessage(x.v.Message(), out)
		default:
			*out = append(*out, encScalar(x.fd, x.v))
		}
	}
}

func decScalar(fd protoreflect.FieldDescriptor, tok string) protoreflect.Value {
	switch fd.Kind() {
	case protoreflect.BoolKind:
		return protoreflect.ValueOfBool(tok == "i1")
	case protoreflect.EnumKind:
		n, _ := strconv.ParseInt(tok[1:], 10, 32)
		return protoreflect.ValueOfEnum(protoreflect.EnumNumber(n))
	case protoreflect.Int32Kind, protoreflect.Sint32Kind, protoreflect.Sfixed32Kind:
		n, _ := strconv.ParseInt(tok[1:], 10, 32)
		return protoreflect.ValueOfInt32(int32(n))
	case protoreflect.Int64Kind, protoreflect.Sint64Kind, protoreflect.Sfixed64Kind:
		n, _ := strconv.ParseInt(tok[1:], 10, 64)
		return protoreflect.ValueOfInt64(n)
	case protoreflect.Uint32Kind, protoreflect.Fixed32Kind:
		n, _ := strconv.ParseUint(tok[1:], 10, 32)
		return protoreflect.ValueOfUint32(uint32(n))
	case protoreflect.Uint64Kind, protoreflect.Fixed64Kind:
		n, _ := strconv.ParseUint(tok[1:], 10, 64)
		return protoreflect.ValueOfUint64(n)
	case protoreflect.StringKind, protoreflect.BytesKind:
		var b []byte
		if len(tok) > 1 {
			for _, h := range strings.Split(tok[1:], ".") {
				x, _ := strconv.ParseUint(h, 16, 8)
				b = append(b, byte(x))
			}
		}
		if fd.Kind() == protoreflect.StringKind {
			return protoreflect.ValueOfString(string(b))
		}
		return protoreflect.ValueOfBytes(b)
	case protoreflect.FloatKind:
		bits, _ := strconv.ParseUint(tok[1:], 16, 64)
		return protoreflect.ValueOfFloat32(float32(math.Float64frombits(bits)))
	case protoreflect.DoubleKind:
		bits, _ := strconv.ParseUint(tok[1:], 16, 64)
		return protoreflect.ValueOfFloat64(math.Float64frombits(bits))
	}
	panic("decScalar: kind " + fd.Kind().String())
}

func decMessage(md protoreflect.MessageDescriptor, toks []string, pos *int) protoreflect.Message {
	msg := dynamicpb.NewMessage(md)
	n, _ := strconv.Atoi(toks[*pos][1:])
	*pos++
	for i := 0; i < n; i++ {
		num, _ := strconv.Atoi(toks[*pos][1:])
		*pos++
		fd := md.Fields().ByNumber(protoreflect.FieldNumber(num))
		switch {
		case fd.IsList():
			cnt, _ := strconv.Atoi(toks[*pos][1:])
			*pos++
			l := msg.Mutable(fd).List()
			for j := 0; j < cnt; j++ {
				if fd.Message() != nil {
					l.Append(protoreflect.ValueOfMessage(decMessage(fd.Message(), toks, pos)))
				} else {
					l.Append(decScalar(fd, toks[*pos]))
					*pos++
				}
			}
		case fd.IsMap():
			cnt, _ := strconv.Atoi(toks[*pos][1:])
			*pos++
			mp := msg.Mutable(fd).Map()
			for j := 0; j < cnt; j++ {
				k := decScalar(fd.MapKey(), toks[*pos]).MapKey()
				*pos++
				if fd.MapValue().Message() != nil {
					mp.Set(k, protoreflect.ValueOfMessage(decMessage(fd.MapValue().Message(), toks, pos)))
				} else {
					mp.Set(k, decScalar(fd.MapValue(), toks[*pos]))
					*pos++
				}
			}
		case fd.Message() != nil:
			msg.Set(fd, protoreflect.ValueOfMessage(decMessage(fd.Message(), toks, pos)))
		default:
			msg.Set(fd, decScalar(fd, toks[*pos]))
			*pos++
		}
	}
	return msg
}

func msgString(m protoreflect.Message) string {
	var out []string
	encMessage(m, &out)
	return strings.Join(out, " ")
}
