package main

import (
	"encoding/csv"
	"fmt"
	"math/rand"
	"os"
	"path/filepath"
	"strings"

	"github.com/tableauio/tableau"
	"github.com/xuri/excelize/v2"
)

// ---------------------------------------------------------------------------
// corr.importer.grid: the step before every parser — file bytes → grid of cells. A generated grid is written as a
// CSV file (four writer styles: encoding/csv's quoting, spreadsheet-style minimal quoting, every field quoted, CRLF
// line ends) or as an XLSX sheet of text cells, read back through the REAL importer (tableau.NewImporter, the
// path GenConf takes) and compared with Model.Importer: the cells come back as they were written (leading and
// trailing blanks, quotes, separators and line breaks inside cells included); CSV loses blank lines, XLSX loses
// trailing blank cells and trailing blank rows.
// ---------------------------------------------------------------------------

var gridCells = []string{"", "", "", "a", "abc", " lead", "trail ", " ", "  ", "a,b", ",", `say "hi"`, `"`, `""`, "l1\nl2", "\n", "007", "1.50",
	"é", "\t", "x\ty", " \t", "#c", "'q", "1e3", "true", "-", "中文", "a b", " a , b ", "\"lead", "x\"y"}

func gridText(style string, rows [][]string) string {
	var sb strings.Builder
	switch style {
	case "csv-go":
		cw := csv.NewWriter(&sb)
		for _, r := range rows {
			if err := cw.Write(r); err != nil {
				panic(err)
			}
		}
		cw.Flush()
	case "csv-min":
		for _, r := range rows {
			sb.WriteString(csvLine(r))
		}
	case "csv-crlf":
		for _, r := range rows {
			l := csvLine(r)
			sb.WriteString(l[:len(l)-1] + "\r\n")
		}
	case "csv-all":
		for _, r := range rows {
			for i, f := range r {
				if i > 0 {
					sb.WriteByte(',')
				}
				sb.WriteString(`"` + strings.ReplaceAll(f, `"`, `""`) + `"`)
			}
			sb.WriteByte('\n')
		}
	}
	return sb.String()
}

func runGrid(style string, rows [][]string) string {
	w := newWorkspace()
	defer w.cleanup()
	var path string
	if style == "xlsx" {
		path = filepath.Join(w.In, "Grid.xlsx")
		f := excelize.NewFile()
		f.SetSheetName("Sheet1", "Sheet")
		for ri, row := range rows {
			for ci, cell := range row {
				if cell == "" {
					continue
				}
				axis, _ := excelize.CoordinatesToCellName(ci+1, ri+1)
				f.SetCellStr("Sheet", axis, cell)
			}
		}
		if err := f.SaveAs(path); err != nil {
			panic(err)
		}
	} else {
		path = filepath.Join(w.In, "Grid#Sheet.csv")
		if err := os.WriteFile(path, []byte(gridText(style, rows)), 0o644); err != nil {
			panic(err)
		}
	}
	imp, err := tableau.NewImporter(path)
	if err != nil {
		return "err " + errCode(err)
	}
	sh := imp.GetSheet("Sheet")
	if sh == nil || sh.Table == nil {
		return "nosheet"
	}
	// the table's declared extent bounds every parser loop: it must reach every row and the widest row
	return fmt.Sprintf("rows %s max %dx%d", encGrid(sh.Table.Rows), sh.Table.MaxRow, sh.Table.MaxCol)
}

func init() {
	regStream("corr.importer.grid", func(r *rand.Rand, n int, emit func(string, ...string)) {
		styles := []string{"csv-go", "csv-min", "csv-crlf", "csv-all", "xlsx"}
		for i := 0; i < n; i++ {
			nr := 1 + r.Intn(6)
			rows := make([][]string, nr)
			for k := range rows {
				nc := 1 + r.Intn(5)
				for c := 0; c < nc; c++ {
					rows[k] = append(rows[k], gridCells[r.Intn(len(gridCells))])
				}
			}
			if r.Intn(4) == 0 && len(rows) > 1 {
				rows[0] = rows[0][:1] // a short first row (a title line above the header)
				if rows[0][0] == "" {
					rows[0][0] = "title"
				}
			}
			emit("imp.grid", styles[i%len(styles)], encGrid(rows))
		}
	})
	regImpl("imp.grid", func(a []string) string { return runGrid(a[0], decGrid(a[1])) })
}

// ---------------------------------------------------------------------------
// corr.importer.csvText: file TEXT → rows. Generated CSV texts — assembled from tokens so that every state of the
// reader is met: bare and quoted fields, doubled quotes, quotes in the wrong place, text after a closing quote,
// unterminated quoted fields, CR / LF / CR LF in every position, empty lines anywhere — are read by the real
// importer and by Model.CSV.readRows (result or error).
// ---------------------------------------------------------------------------

var csvTokens = []string{"a", "b c", " ", "x", "1.5", "é", ",", ",", ",", "\n", "\n", "\r\n", "\r", "\"", "\"", "\"\"", "\"a\"", "\"a,b\"", "\"l1\nl2\"",
	"\"l1\r\nl2\"", "\"say \"\"hi\"\"\"", "\"\"", "\t", "#", "\n\n", ",,", "\"x\"y", "a\"b", "\"unterminated", "\r\r\n"}

func runCSVText(text string) string {
	w := newWorkspace()
	defer w.cleanup()
	path := filepath.Join(w.In, "Grid#Sheet.csv")
	if err := os.WriteFile(path, []byte(text), 0o644); err != nil {
		panic(err)
	}
	imp, err := tableau.NewImporter(path)
	if err != nil {
		return "err"
	}
	sh := imp.GetSheet("Sheet")
	if sh == nil || sh.Table == nil {
		return "nosheet"
	}
	return "rows " + encGrid(sh.Table.Rows)
}

func init() {
	regStream("corr.importer.csvText", func(r *rand.Rand, n int, emit func(string, ...string)) {
		for i := 0; i < n; i++ {
			var sb strings.Builder
			if i%3 == 0 {
				// a well-formed file in one of the writer styles, line ends varied
				nr := 1 + r.Intn(5)
				rows := make([][]string, nr)
				for k := range rows {
					for c, nc := 0, 1+r.Intn(4); c < nc; c++ {
						rows[k] = append(rows[k], gridCells[r.Intn(len(gridCells))])
					}
				}
				sb.WriteString(gridText([]string{"csv-go", "csv-min", "csv-crlf", "csv-all"}[r.Intn(4)], rows))
				if r.Intn(3) == 0 { // the last line without its line end
					s := strings.TrimRight(sb.String(), "\r\n")
					sb.Reset()
					sb.WriteString(s)
				}
			} else {
				for k, nt := 0, 1+r.Intn(10); k < nt; k++ {
					sb.WriteString(csvTokens[r.Intn(len(csvTokens))])
				}
			}
			emit("imp.csvtext", encStr(sb.String()))
		}
	})
	regImpl("imp.csvtext", func(a []string) string { return runCSVText(mustStr(a[0])) })
}
