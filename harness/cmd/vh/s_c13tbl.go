package main

import (
	"encoding/json"
	"math/rand"
	"os"
	"path/filepath"
	"strconv"
	"strings"

	"github.com/tableauio/tableau/format"
	"github.com/tableauio/tableau/load"
	"github.com/tableauio/tableau/options"
	"google.golang.org/protobuf/encoding/protojson"
	"google.golang.org/protobuf/types/dynamicpb"
)

// ---------------------------------------------------------------------------
// e2e.C13.table: patching a TABLE worksheet (CSV): a PATCH_MERGE sheet with a scattered overlay workbook; a scalar
// list column and a struct list column (horizontal), each marked `patch:PATCH_REPLACE` or left at the default. The
// DryRun "patch" preview and what a loader obtains from the generated main + patch files must both be: a REPLACE list
// the overlay states = the overlay's elements; otherwise main's elements followed by the overlay's.
//
//   c13.tbl <replace tags 0|1> <replace items 0|1> <main tags> <main items> <overlay tags> <overlay items>   (ids joined by .)
//   → dry=t:<ids>;i:<ids> load=t:<ids>;i:<ids>
// ---------------------------------------------------------------------------

func c13Ids(s string) []string {
	if s == "" {
		return nil
	}
	return strings.Split(s, ".")
}

func init() {
	regStream("e2e.C13.table", func(r *rand.Rand, n int, emit func(string, ...string)) {
		ids := func(max, base int) string {
			var out []string
			for k := r.Intn(max + 1); k > 0; k-- {
				out = append(out, strconv.Itoa(base+len(out)+1))
			}
			return strings.Join(out, ".")
		}
		for i := 0; i < n; i++ {
			emit("c13.tbl", strconv.Itoa(r.Intn(2)), strconv.Itoa(r.Intn(2)), ids(3, 0), ids(2, 10), ids(3, 50), ids(2, 60))
		}
	})
	regImpl("c13.tbl", func(a []string) string {
		prop := func(flag string) string {
			if flag == "1" {
				return "|{patch:PATCH_REPLACE}"
			}
			return ""
		}
		hdr := [][]string{{"Name", "Tags", "Item1ID", "Item1Num", "Item2ID", "Item2Num"},
			{"string", "[]int32" + prop(a[0]), "[Item]uint32" + prop(a[1]), "int32", "uint32", "int32"}, {"n", "t", "i", "n", "i", "n"}}
		row := func(name string, tags, items []string) []string {
			out := []string{name, strings.Join(tags, ",")}
			for e := 0; e < 2; e++ {
				if e < len(items) {
					out = append(out, items[e], items[e]+"0")
				} else {
					out = append(out, "", "")
				}
			}
			return out
		}
		w := newWorkspace()
		defer w.cleanup()
		base := append(append([][]string{}, hdr...), row("base", c13Ids(a[2]), c13Ids(a[3])))
		over := append(append([][]string{}, hdr...), row("", c13Ids(a[4]), c13Ids(a[5])))
		w.writeCSVBook("", bookSpec{Name: "Base", Sheets: []sheetSpec{{Name: "RewardConf", Rows: base, Meta: map[string]string{"Patch": "PATCH_MERGE", "Scatter": "Overlay*.csv", "Optional": "true"}}}})
		w.writeCSVBook("", bookSpec{Name: "Overlay", Sheets: []sheetSpec{{Name: "RewardConf", Rows: over}}, NoMeta: true})
		ro := runOpts{}
		if err := w.genProto(ro); err != nil {
			return "protoerr " + errCode(err)
		}
		if err := w.genConf(ro); err != nil {
			return "conferr " + errCode(err)
		}
		dryDir := filepath.Join(w.Root, "dry")
		os.MkdirAll(dryDir, 0o755)
		saved := w.Conf
		w.Conf = dryDir
		ro.DryRun = options.DryRunPatch
		err := w.genConf(ro)
		w.Conf = saved
		if err != nil {
			return "dryerr " + errCode(err)
		}
		show := func(data []byte) string {
			var got struct {
				Tags  []int `json:"tagsList"`
				Items []struct {
					ID int `json:"id"`
				} `json:"itemList"`
			}
			if err := json.Unmarshal(data, &got); err != nil {
				return "badjson"
			}
			var ts, is []string
			for _, t := range got.Tags {
				ts = append(ts, strconv.Itoa(t))
			}
			for _, it := range got.Items {
				is = append(is, strconv.Itoa(it.ID))
			}
			return "t:" + strings.Join(ts, ".") + ";i:" + strings.Join(is, ".")
		}
		dry, err := os.ReadFile(filepath.Join(dryDir, "Overlay_RewardConf.json"))
		if err != nil {
			return "nodryfile"
		}
		descs, perr := parseProtoDir(w.Proto)
		if perr != nil {
			return "protoinvalid"
		}
		md := descs["protoconf.RewardConf"]
		if md == nil {
			return "nomessage"
		}
		loaded := dynamicpb.NewMessage(md.UnwrapMessage())
		if err := load.Load(loaded, w.Conf, format.JSON,
			load.Paths(map[string]string{"RewardConf": filepath.Join(w.Conf, "Base_RewardConf.json")}),
			load.PatchPaths(map[string][]string{"RewardConf": {filepath.Join(w.Conf, "Overlay_RewardConf.json")}})); err != nil {
			return "loaderr " + errCode(err)
		}
		lj, _ := protojson.Marshal(loaded)
		return "dry=" + show(dry) + " load=" + show(lj)
	})
}
