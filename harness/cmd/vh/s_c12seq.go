package main

import (
	"math/rand"
	"strconv"
	"strings"
)

// ---------------------------------------------------------------------------
// e2e.C12.sequence: the `sequence:N` constraint of a map through the real GenProto + GenConf: the keys must be
// N, N+1, N+2, … in the order of the rows (vertical map) or of the elements (horizontal map). Start values include 0
// (an explicitly set zero) and the usual 1.
//   c12.seq <v|h> <start> <keys joined by .>     → ok | err <code>
// ---------------------------------------------------------------------------

func init() {
	regStream("e2e.C12.sequence", func(r *rand.Rand, n int, emit func(string, ...string)) {
		for i := 0; i < n; i++ {
			start := []int{0, 0, 1, 1, 5, 100}[r.Intn(6)]
			cnt := 1 + r.Intn(4)
			var keys []string
			k := start
			switch r.Intn(4) {
			case 0: // a wrong first key
				k = start + 1 + r.Intn(3)
			case 1:
				if start > 0 && r.Intn(2) == 0 {
					k = start - 1
				}
			}
			for j := 0; j < cnt; j++ {
				keys = append(keys, strconv.Itoa(k))
				k++
				if r.Intn(6) == 0 {
					k++ // a gap
				}
			}
			emit("c12.seq", []string{"v", "h"}[r.Intn(2)], strconv.Itoa(start), strings.Join(keys, "."))
		}
	})
	regImpl("c12.seq", func(a []string) string {
		keys := strings.Split(a[2], ".")
		prop := "|{sequence:" + a[1] + "}"
		var rows [][]string
		if a[0] == "v" {
			rows = [][]string{{"ID", "Name"}, {"map<uint32, Item>" + prop, "string"}, {"id", "name"}}
			for _, k := range keys {
				rows = append(rows, []string{k, "n" + k})
			}
		} else {
			names, types, notes, data := []string{"ID"}, []string{"map<uint32, Hero>"}, []string{"id"}, []string{"1"}
			for e := 1; e <= len(keys); e++ {
				t1 := "uint32"
				if e == 1 {
					t1 = "map<uint32, Item>" + prop
				}
				names = append(names, "Item"+strconv.Itoa(e)+"ID", "Item"+strconv.Itoa(e)+"Name")
				types = append(types, t1, "string")
				notes = append(notes, "i", "n")
				data = append(data, keys[e-1], "n"+keys[e-1])
			}
			rows = [][]string{names, types, notes, data}
		}
		w := newWorkspace()
		defer w.cleanup()
		w.writeCSVBook("", bookSpec{Name: "Book", Sheets: []sheetSpec{{Name: "SeqConf", Rows: rows}}})
		ro := runOpts{}
		if err := w.genProto(ro); err != nil {
			return "protoerr " + errCode(err)
		}
		if err := w.genConf(ro); err != nil {
			return "err " + errCode(err)
		}
		return "ok"
	})

	// c12.redecl: one element type name used by two horizontal lists whose sub-field `ID` carries a range — the same
	// one, or another one per list (protogen may refuse the conflicting redeclaration; if it accepts, each column
	// keeps its own constraint).   c12.redecl <lo1> <hi1> <lo2> <hi2> <v1> <v2>  → protoerr | ok | err <code>
	regStream("e2e.C12.redeclared", func(r *rand.Rand, n int, emit func(string, ...string)) {
		for i := 0; i < n; i++ {
			lo1, hi1 := 1+r.Intn(3), []int{10, 100, 1000}[r.Intn(3)]
			lo2, hi2 := lo1, hi1
			if r.Intn(3) != 0 {
				lo2, hi2 = 1+r.Intn(3), []int{10, 100, 1000}[r.Intn(3)]
			}
			pick := func(lo, hi int) int {
				return []int{lo, hi, lo + r.Intn(hi-lo+1), hi + 1, hi * 5, 500, 50}[r.Intn(7)]
			}
			emit("c12.redecl", strconv.Itoa(lo1), strconv.Itoa(hi1), strconv.Itoa(lo2), strconv.Itoa(hi2), strconv.Itoa(pick(lo1, hi1)), strconv.Itoa(pick(lo2, hi2)))
		}
	})
	regImpl("c12.redecl", func(a []string) string {
		rows := [][]string{
			{"ID", "Item1ID", "Item1Num", "Reward1ID", "Reward1Num"},
			{"map<uint32, Shop>", "[Item]uint32|{range:\"" + a[0] + "," + a[1] + "\"}", "int32", "[Item]uint32|{range:\"" + a[2] + "," + a[3] + "\"}", "int32"},
			{"id", "i", "n", "i", "n"},
			{"1", a[4], "7", a[5], "8"},
		}
		w := newWorkspace()
		defer w.cleanup()
		w.writeCSVBook("", bookSpec{Name: "Book", Sheets: []sheetSpec{{Name: "ShopConf", Rows: rows}}})
		ro := runOpts{}
		if err := w.genProto(ro); err != nil {
			return "protoerr"
		}
		if err := w.genConf(ro); err != nil {
			return "err " + errCode(err)
		}
		return "ok"
	})

	// c12.keyrange: a `range` on the KEY of a struct-valued map, vertical (one entry per row) or horizontal (one entry
	// per column group): every key must lie inside it.   c12.keyrange <v|h> <lo> <hi> <keys joined by .>  → ok | err <code>
	regStream("e2e.C12.keyRange", func(r *rand.Rand, n int, emit func(string, ...string)) {
		for i := 0; i < n; i++ {
			lo, hi := 1+r.Intn(3), []int{5, 10, 100}[r.Intn(3)]
			var keys []string
			seen := map[int]bool{}
			for j, cnt := 0, 1+r.Intn(3); j < cnt; j++ {
				k := []int{lo, hi, lo + r.Intn(hi-lo+1), hi + 1, hi + 7, lo + 1}[r.Intn(6)]
				if seen[k] {
					continue
				}
				seen[k] = true
				keys = append(keys, strconv.Itoa(k))
			}
			emit("c12.keyrange", []string{"v", "h"}[i%2], strconv.Itoa(lo), strconv.Itoa(hi), strings.Join(keys, "."))
		}
	})
	regImpl("c12.keyrange", func(a []string) string {
		keys := strings.Split(a[3], ".")
		prop := "|{range:\"" + a[1] + "," + a[2] + "\"}"
		var rows [][]string
		if a[0] == "v" {
			rows = [][]string{{"ID", "Name"}, {"map<uint32, Item>" + prop, "string"}, {"id", "name"}}
			for _, k := range keys {
				rows = append(rows, []string{k, "n" + k})
			}
		} else {
			names, types, notes, data := []string{"ID"}, []string{"map<uint32, Hero>"}, []string{"id"}, []string{"1"}
			for e := 1; e <= len(keys); e++ {
				t1 := "uint32"
				if e == 1 {
					t1 = "map<uint32, Item>" + prop
				}
				names = append(names, "Item"+strconv.Itoa(e)+"ID", "Item"+strconv.Itoa(e)+"Name")
				types = append(types, t1, "string")
				notes = append(notes, "i", "n")
				data = append(data, keys[e-1], "n"+keys[e-1])
			}
			rows = [][]string{names, types, notes, data}
		}
		w := newWorkspace()
		defer w.cleanup()
		w.writeCSVBook("", bookSpec{Name: "Book", Sheets: []sheetSpec{{Name: "KeyConf", Rows: rows}}})
		ro := runOpts{}
		if err := w.genProto(ro); err != nil {
			return "protoerr " + errCode(err)
		}
		if err := w.genConf(ro); err != nil {
			return "err " + errCode(err)
		}
		return "ok"
	})
}
