package main

import (
	"path/filepath"
	"math/rand"
	"os"
	"regexp"
	"sort"
	"strings"

	"github.com/jhump/protoreflect/desc"
	"github.com/jhump/protoreflect/desc/protoparse"
	"github.com/tableauio/tableau/options"
	"github.com/tableauio/tableau/xerrors"
)

// ---------------------------------------------------------------------------
// C02: whenever protogen accepts a workbook, what it wrote is valid proto3 and
// confgen finds every sheet, column and header position again.
// ---------------------------------------------------------------------------

// data-level error codes: a data cell's content (allowed failures of confgen)
var dataCodes = map[string]bool{"E2000": true, "E2002": true, "E2003": true, "E2004": true, "E2005": true, "E2006": true, "E2007": true,
	"E2008": true, "E2009": true, "E2010": true, "E2011": true, "E2012": true, "E2013": true, "E2016": true, "E2017": true, "E2018": true,
	"E2019": true, "E2020": true, "E2021": true, "E2001": true}

var identRe = regexp.MustCompile(`^[A-Za-z_][A-Za-z0-9_]*$`)

// checkProtos re-parses every written .proto with an independent protoparse run and checks identifier
// legality and uniqueness on the parsed descriptors
func checkProtos(dir string, extra ...string) string {
	ents, _ := os.ReadDir(dir)
	var files []string
	for _, e := range ents {
		if strings.HasSuffix(e.Name(), ".proto") {
			files = append(files, e.Name())
		}
	}
	sort.Strings(files)
	p := protoparse.Parser{ImportPaths: append([]string{dir}, extra...), LookupImport: desc.LoadFileDescriptor}
	fds, err := p.ParseFiles(files...)
	if err != nil {
		msg := err.Error()
		if len(msg) > 120 {
			msg = msg[:120]
		}
		return "INVALID-PROTO " + encStr(msg)
	}
	var walk func(m *desc.MessageDescriptor) string
	walk = func(m *desc.MessageDescriptor) string {
		seen := map[string]bool{}
		jn := map[string]bool{}
		for _, f := range m.GetFields() {
			if !identRe.MatchString(f.GetName()) {
				return "BAD-IDENT " + encStr(f.GetName())
			}
			if seen[f.GetName()] || jn[f.GetJSONName()] {
				return "DUP-FIELD " + encStr(f.GetName())
			}
			seen[f.GetName()] = true
			jn[f.GetJSONName()] = true
		}
		for _, n := range m.GetNestedMessageTypes() {
			if r := walk(n); r != "" {
				return r
			}
		}
		return ""
	}
	for _, fd := range fds {
		for _, m := range fd.GetMessageTypes() {
			if r := walk(m); r != "" {
				return r
			}
		}
	}
	return ""
}

func genC02Book(r *rand.Rand) (bookSpec, *options.HeaderOption) {
	b := bookSpec{Name: "Fuzz"}
	var hdr *options.HeaderOption
	combined := r.Intn(6) == 0 // name and type share one multi-line header cell (global Nameline/Typeline)
	nsheets := 1 + r.Intn(2)
	for si := 0; si < nsheets; si++ {
		name := []string{"HeroConf", "ItemConf"}[si]
		var rows [][]string
		meta := map[string]string{}
		// a structured sheet (valid by construction) with valid data ...
		g := &sgen{r: r, imported: true}
		gs := g.sheet(name, 1+r.Intn(5), r.Intn(5))
		rows = gs.spec.Rows
		// ... and the slips of everyday editing: a blank type or name cell, a repeated name, a blank column, junk in a data cell
		for m := r.Intn(3); m > 0 && r.Intn(2) == 0; m-- {
			ncol := len(rows[0])
			c := r.Intn(ncol)
			switch 2 + r.Intn(3) {
			case 2:
				if src := rows[0][r.Intn(ncol)]; src != "" && rows[0][c] != "" {
					rows[0][c] = src
				}
			case 3:
				for k := range rows {
					row := append([]string{}, rows[k][:min(c, len(rows[k]))]...)
					row = append(row, "")
					if c < len(rows[k]) {
						row = append(row, rows[k][c:]...)
					}
					rows[k] = row
				}
			case 4:
				if len(rows) > 3 {
					k := 3 + r.Intn(len(rows)-3)
					if len(rows[k]) > 0 {
						rows[k][r.Intn(len(rows[k]))] = fuzzJunk[r.Intn(len(fuzzJunk))]
					}
				}
			}
		}
		// sheet-level options that confgen must find again
		if combined {
			for c := range rows[0] {
				t := ""
				if c < len(rows[1]) {
					t = rows[1][c]
				}
				if rows[0][c] != "" || t != "" {
					rows[0][c] = rows[0][c] + "\n" + t
				}
			}
			rows = append([][]string{rows[0]}, rows[2:]...)
		} else if r.Intn(5) == 0 {
			meta["Transpose"] = "true"
			rows = transposeRows(rows)
		}
		if r.Intn(6) == 0 {
			meta["Sep"] = []string{";", "|", ","}[r.Intn(3)]
		}
		if r.Intn(6) == 0 {
			meta["OrderedMap"] = "true"
		}
		if r.Intn(8) == 0 {
			meta["Alias"] = name + "Alias"
		}
		if r.Intn(8) == 0 {
			meta["FieldPresence"] = "true"
		}
		if r.Intn(8) == 0 {
			meta["Optional"] = "true"
		}
		b.Sheets = append(b.Sheets, sheetSpec{Name: name, Rows: rows, Meta: meta})
	}
	if combined {
		hdr = &options.HeaderOption{NameRow: 1, TypeRow: 1, NoteRow: 2, DataRow: 3, NameLine: 1, TypeLine: 2}
		if r.Intn(2) == 0 {
			// the book moves its header rows down by a remark line and keeps relying on the global lines
			b.BookMeta = map[string]string{"Namerow": "2", "Typerow": "2", "Noterow": "3", "Datarow": "4"}
			for i := range b.Sheets {
				b.Sheets[i].Rows = append([][]string{{"# remark"}}, b.Sheets[i].Rows...)
			}
		}
	} else if r.Intn(5) == 0 {
		// book-level ('#') header options: rows shifted down by a remark line
		b.BookMeta = map[string]string{"Namerow": "2", "Typerow": "3", "Noterow": "4", "Datarow": "5"}
		for i := range b.Sheets {
			if b.Sheets[i].Meta["Transpose"] == "true" {
				rows := transposeRows(b.Sheets[i].Rows)
				rows = append([][]string{{"# remark"}}, rows...)
				b.Sheets[i].Rows = transposeRows(rows)
			} else {
				b.Sheets[i].Rows = append([][]string{{"# remark"}}, b.Sheets[i].Rows...)
			}
		}
	}
	return b, hdr
}

func min(a, b int) int {
	if a < b {
		return a
	}
	return b
}

// fixed witnesses of the recorded closure gaps
func c02Witness(kind string) bookSpec {
	switch kind {
	case "incell-map-wellknown-value": // D39
		return bookSpec{Name: "Fuzz", Sheets: []sheetSpec{{Name: "HeroConf", Rows: [][]string{{"ID", "Cooldown"}, {"map<uint32, Hero>", "map<int32, duration>"}, {"", ""}, {"1", "1:5s"}}}}}
	case "later-element-column-missing": // D40
		return bookSpec{Name: "Fuzz", Sheets: []sheetSpec{{Name: "HeroConf", Rows: [][]string{{"ID", "Item1ID", "Item1Num", "Item2ID", ""}, {"map<uint32, Hero>", "[Item]int32", "int32", "int32", "int32"}, {"", "", "", "", ""}, {"1", "5", "6", "7", "8"}}}}}
	case "keyed-list-struct-key": // D42
		return bookSpec{Name: "Fuzz", Sheets: []sheetSpec{{Name: "HeroConf", Rows: [][]string{{"PropID", "PropNum"}, {"[Item]<{Prop}int32>", "int32"}, {"", ""}, {"1", "5"}}}}}
	}
	one := func(names, types, data []string) bookSpec {
		return bookSpec{Name: "Fuzz", Sheets: []sheetSpec{{Name: "HeroConf", Rows: [][]string{names, types, make([]string, len(names)), data}}}}
	}
	switch kind {
	case "illegal-identifier": // D18a (fixed)
		return one([]string{"ID", "Item1ID", "Item1Num"}, []string{"map<uint32, Hero>", "[Item]<string>", "int32"}, []string{"1", "a", "2"})
	case "duplicate-field-name": // D18b (fixed)
		return one([]string{"ID", "ItemID", "ItemId"}, []string{"map<uint32, Hero>", "int32", "int32"}, []string{"1", "2", "3"})
	case "nested-reuse-struct-and-list": // D24a (fixed)
		return one([]string{"ID", "First", "Rest"}, []string{"map<uint32, Hero>", "{int32 ID, string Name}Pair", "[]{int32 ID, string Name}Pair"}, []string{"1", "1,a", "2,b,3,c"})
	case "nested-reuse-json-name": // D24b (fixed)
		return one([]string{"ID", "Reward1ID", "Reward1Num", "Bonus1ID", "Bonus1Num"},
			[]string{"map<uint32, Hero>", "[Reward]int32", `int32|{json_name:"n"}`, "[Reward]int32", `int32|{json_name:"n"}`}, []string{"1", "2", "3", "4", "5"})
	case "duplicate-skipped-column": // D41 (fixed)
		return one([]string{"ID", "Note", "Note"}, []string{"map<uint32, Hero>", "", "string"}, []string{"1", "x", "y"})
	}
	panic("unknown witness " + kind)
}

func runClosure(b bookSpec, hdr ...*options.HeaderOption) string {
	ro := runOpts{}
	if len(hdr) > 0 {
		ro.Header = hdr[0]
	}
	return runClosureRO(b, ro)
}

func runClosureRO(b bookSpec, ro runOpts) string {
	w := newWorkspace()
	defer w.cleanup()
	// an imported proto file with a predefined message (generated sheets may use it as a cross-cell struct)
	impDir := filepath.Join(w.Root, "imported")
	os.MkdirAll(impDir, 0o755)
	os.WriteFile(filepath.Join(impDir, "prize.proto"), []byte(importedProto), 0o644)
	ro.ProtoPaths = append(ro.ProtoPaths, impDir)
	ro.ProtoFiles = append(ro.ProtoFiles, "prize.proto")
	w.writeCSVBook("", baseBook())
	w.writeCSVBook("", b)
	if err := w.genProto(ro); err != nil {
		return "closed rejected"
	}
	if v := checkProtos(w.Proto, impDir); v != "" {
		if os.Getenv("VERIF_DEBUG") != "" {
			println("OPEN", v, debugBook(b))
		}
		return "OPEN " + v
	}
	if err := w.genConf(ro); err != nil {
		code := xerrors.NewDesc(err).ErrCode()
		if dataCodes[code] {
			return "closed data-error " + code
		}
		reason, _ := xerrors.NewDesc(err).GetValue(xerrors.KeyReason).(string)
		// errors about the content of a data cell that carry no code
		for _, pfx := range []string{"unmarshal from text failed", "unmarshal from JSON failed", "map items are not present continuously",
			"list items are not present continuously", "map contains multiple empty keys"} {
			if strings.HasPrefix(reason, pfx) {
				return "closed data-error uncoded"
			}
		}
		if os.Getenv("VERIF_DEBUG") != "" {
			println("OPEN", code, reason, debugBook(b))
		}
		if len(reason) > 100 {
			reason = reason[:100]
		}
		return "OPEN SCHEMA-ERROR " + code + " " + encStr(reason)
	}
	return "closed ok"
}

func init() {
	regImpl("c02.known", func(a []string) string { return runClosure(c02Witness(a[0])) })
	regStream("e2e.C02.closure", func(r *rand.Rand, n int, emit func(string, ...string)) {
		for i := 0; i < n; i++ {
			emit("c02.closure", itoa(r.Int63n(1<<40)))
		}
	})
	regImpl("c02.closure", func(a []string) string {
		r := rand.New(rand.NewSource(mustInt(a[0])))
		b, hdr := genC02Book(r)
		if hdr == nil && b.BookMeta == nil && r.Intn(4) == 0 {
			// a line break inside name cells of sheets whose header layout is the default one (no name line given:
			// the name is the whole cell with its line breaks removed — both generators must read it that way)
			for si := range b.Sheets {
				sh := &b.Sheets[si]
				if len(sh.Meta) > 0 || len(sh.Rows) < 2 {
					continue
				}
				names := append([]string{}, sh.Rows[0]...)
				for c, nm := range names {
					if len(nm) >= 4 && r.Intn(2) == 0 {
						k := 1 + r.Intn(len(nm)-2)
						names[c] = nm[:k] + "\n" + nm[k:]
					}
				}
				sh.Rows = append([][]string{names}, sh.Rows[1:]...)
			}
		}
		ro := runOpts{Header: hdr}
		// proto output options: the written files (and the imports between them) are named with a suffix
		if r.Intn(3) == 0 {
			ro.ProtoOut = &options.ProtoOutputOption{FilenameSuffix: []string{"_conf", "_gen", ".v1"}[r.Intn(3)]}
		}
		return runClosureRO(b, ro)
	})
}
