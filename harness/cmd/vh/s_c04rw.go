package main

import (
	"math/rand"
	"sort"
	"strings"

	"github.com/tableauio/tableau/verifhook"
)

// ---------------------------------------------------------------------------
// corr.xfs.rewriteSubdir: RewriteSubdir on paths and rewrite maps with overlapping rules (one old subdir a
// prefix of another), called repeatedly so that the runtime enumerates the map in different orders: one result,
// equal to Model.Path.rewriteSubdir.
//
//   c04.rewrite <path> <old=new;old=new;…>
// ---------------------------------------------------------------------------

func init() {
	regStream("corr.xfs.rewriteSubdir", func(r *rand.Rand, n int, emit func(string, ...string)) {
		dirs := []string{"excel/", "excel/v2/", "excel", "alt/", "conf/", "excel/v2/sub/", "a/b/", "a/", "./excel/", "excel//v2"}
		files := []string{"Hero.xlsx", "v2/Hero.xlsx", "v2/sub/Item.csv", "b/c.yaml", ""}
		for i := 0; i < n; i++ {
			path := dirs[r.Intn(len(dirs))] + files[r.Intn(len(files))]
			k := r.Intn(4)
			used := map[string]bool{}
			var rules []string
			for len(rules) < k {
				old := dirs[r.Intn(len(dirs))]
				if used[old] {
					continue
				}
				used[old] = true
				rules = append(rules, encStr(old)+"="+encStr(dirs[r.Intn(len(dirs))]))
			}
			emit("c04.rewrite", encStr(path), strings.Join(rules, ";"))
		}
	})
	regImpl("c04.rewrite", func(a []string) string {
		rules := map[string]string{}
		if a[1] != "" {
			for _, kv := range strings.Split(a[1], ";") {
				f := strings.SplitN(kv, "=", 2)
				rules[mustStr(f[0])] = mustStr(f[1])
			}
		}
		seen := map[string]bool{}
		for i := 0; i < 64; i++ {
			seen[verifhook.RewriteSubdir(mustStr(a[0]), rules)] = true
		}
		var outs []string
		for o := range seen {
			outs = append(outs, encStr(o))
		}
		sort.Strings(outs)
		if len(outs) == 1 {
			return "same " + outs[0]
		}
		return "differ " + strings.Join(outs, " ")
	})
}
