package main

import (
	"fmt"
	"math/rand"
	"strconv"
	"sync"

	"github.com/tableauio/tableau/verifhook"
	"google.golang.org/protobuf/proto"
	"google.golang.org/protobuf/reflect/protodesc"
	"google.golang.org/protobuf/reflect/protoreflect"
	"google.golang.org/protobuf/types/descriptorpb"
)

// ---------------------------------------------------------------------------
// replay.C04.enumAlias: the FIRST uses of one enum type's alias table, by several goroutines at once (what the
// per-workbook goroutines of confgen do when their sheets spell the values of a shared enum by alias). A fresh enum
// descriptor (n aliased values, so that filling the table takes a while) is built per case; g goroutines are
// released together and each looks one alias up through the real xproto.ParseFieldValue. Whatever the schedule,
// every lookup returns the value its alias names — the outcome of a conversion is a function of its input.
// ---------------------------------------------------------------------------

var c04AliasSerial int

func c04AliasField(n int) protoreflect.FieldDescriptor {
	c04AliasSerial++
	vals := []*descriptorpb.EnumValueDescriptorProto{c03EnumValue("KIND_UNKNOWN", 0, "")}
	for i := 1; i <= n; i++ {
		vals = append(vals, c03EnumValue(fmt.Sprintf("KIND_V%d", i), int32(i), fmt.Sprintf("Alias%d", i)))
	}
	fdp := &descriptorpb.FileDescriptorProto{
		Name: proto.String(fmt.Sprintf("verif_alias_%d.proto", c04AliasSerial)), Package: proto.String(fmt.Sprintf("verifalias%d", c04AliasSerial)), Syntax: proto.String("proto3"),
		Dependency: []string{"tableau/protobuf/tableau.proto"},
		EnumType:   []*descriptorpb.EnumDescriptorProto{{Name: proto.String("Kind"), Value: vals}},
		MessageType: []*descriptorpb.DescriptorProto{{Name: proto.String("M"), Field: []*descriptorpb.FieldDescriptorProto{{
			Name: proto.String("kind"), Number: proto.Int32(1), Type: descriptorpb.FieldDescriptorProto_TYPE_ENUM.Enum(),
			TypeName: proto.String(fmt.Sprintf(".verifalias%d.Kind", c04AliasSerial)), Label: descriptorpb.FieldDescriptorProto_LABEL_OPTIONAL.Enum()}}}},
	}
	fd, err := protodesc.NewFile(fdp, globalFilesResolver{})
	if err != nil {
		panic(err)
	}
	return fd.Messages().Get(0).Fields().Get(0)
}

func init() {
	regStream("replay.C04.enumAlias", func(r *rand.Rand, n int, emit func(string, ...string)) {
		for i := 0; i < n; i++ {
			emit("c04.alias", strconv.Itoa([]int{3, 40, 400, 3000}[i%4]), strconv.Itoa(2+r.Intn(15)), strconv.Itoa(r.Intn(100000)))
		}
	})
	regImpl("c04.alias", func(a []string) string {
		n, g, k := int(mustInt(a[0])), int(mustInt(a[1])), int(mustInt(a[2]))
		fd := c04AliasField(n)
		var start, done sync.WaitGroup
		start.Add(1)
		res := make([]string, g)
		for i := 0; i < g; i++ {
			done.Add(1)
			go func(i int) {
				defer done.Done()
				want := (k+i*7)%n + 1
				start.Wait()
				v, present, err := verifhook.ParseFieldValue(fd, fmt.Sprintf("Alias%d", want), "")
				switch {
				case err != nil:
					res[i] = fmt.Sprintf("goroutine %d: Alias%d: err %s", i, want, errCode(err))
				case !present || int(v.Enum()) != want:
					res[i] = fmt.Sprintf("goroutine %d: Alias%d: got %d present=%v", i, want, v.Enum(), present)
				}
			}(i)
		}
		start.Done()
		done.Wait()
		for _, x := range res {
			if x != "" {
				return "WRONG " + x
			}
		}
		return "ok"
	})
}
