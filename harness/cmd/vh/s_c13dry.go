package main

import (
	"fmt"
	"math/rand"
	"os"
	"path/filepath"
	"runtime"
	"sort"
	"strings"

	"github.com/tableauio/tableau/format"
	"github.com/tableauio/tableau/load"
	"github.com/tableauio/tableau/options"
	"google.golang.org/protobuf/proto"
	"google.golang.org/protobuf/types/dynamicpb"
)

// ---------------------------------------------------------------------------
// e2e.C13.dryrun: a PATCH_MERGE sheet scattered over 1–4 overlay workbooks (YAML). For every overlay the
// DryRun "patch" preview must equal what a loader obtains from the normally generated main file and that
// overlay's patch file; the previews must be the same bytes on every run and under every GOMAXPROCS (C04), and
// the per-overlay goroutines must not share the main message (C05).
// ---------------------------------------------------------------------------

const c13DryBase = `"@sheet": "@TABLEAU"
"PatchConf":
  Patch: PATCH_MERGE
  Optional: true
  Scatter: "../overlays/*/Env.yaml"
  ScatterWithoutBookName: true
  WithParentDir: true
---
"@sheet": "@PatchConf"
Env: "string"
Level: "int32"
Fruit:
  "@type": "{Fruit}"
  "@struct":
    ID: uint32
    Name: string
ReplacedList: "[int32]|{patch:PATCH_REPLACE}"
Limits:
  "@type": "{Limits}|{patch:PATCH_REPLACE}"
  "@struct":
    MaxConn: uint32
    Burst: uint32
Timeout: "duration|{patch:PATCH_REPLACE}"
ScalarList: "[int32]"
StructList:
  "@type": "[Animal]"
  "@struct":
    ID: uint32
    Name: string
ScalarMap: "map<uint32, string>"
StructMap:
  "@type": "map<uint32, Item>"
  "@struct":
    Name: string
    Num: int32
---
"@sheet": PatchConf
Env: base
Level: 1
Fruit:
  ID: 1
  Name: apple
ReplacedList: [1, 2, 3]
Limits:
  MaxConn: 100
  Burst: 10
Timeout: 30s
ScalarList: [1, 2, 3]
StructList:
  - ID: 1
    Name: dog
ScalarMap:
  1: dog
  2: bird
StructMap:
  1:
    Name: apple
    Num: 10
  2:
    Name: orange
    Num: 20
`

func c13Overlay(r *rand.Rand, name string, k int) string {
	var sb strings.Builder
	sb.WriteString("\"@sheet\": PatchConf\nEnv: " + name + "\n")
	if r.Intn(2) == 0 {
		fmt.Fprintf(&sb, "Level: %d\n", 2+k)
	}
	if r.Intn(2) == 0 {
		fmt.Fprintf(&sb, "Fruit:\n  Name: fruit%d\n", k)
	}
	if r.Intn(2) == 0 {
		fmt.Fprintf(&sb, "ReplacedList: [%d, %d]\n", 10*k, 10*k+1)
	}
	switch r.Intn(4) {
	case 0:
		// a PATCH_REPLACE struct / duration that the overlay states as all-zero: present but empty — it resets the field
		sb.WriteString("Limits:\n  MaxConn: 0\nTimeout: 0s\n")
	case 1:
		fmt.Fprintf(&sb, "Limits:\n  MaxConn: %d\n", 7+k)
	}
	if r.Intn(2) == 0 {
		fmt.Fprintf(&sb, "ScalarList: [%d]\n", 4+k)
	}
	if r.Intn(2) == 0 {
		fmt.Fprintf(&sb, "StructList:\n  - ID: %d\n    Name: animal%d\n", 10+k, k)
	}
	if r.Intn(2) == 0 {
		fmt.Fprintf(&sb, "ScalarMap:\n  %d: extra%d\n", 10+k, k)
	}
	if r.Intn(2) == 0 {
		fmt.Fprintf(&sb, "StructMap:\n  1:\n    Num: %d\n  %d:\n    Name: item%d\n    Num: %d\n", 100+k, 30+k, k, 300+k)
	}
	return sb.String()
}

func runC13Dry(seed int64) string {
	r := rand.New(rand.NewSource(seed))
	n := 1 + r.Intn(4)
	names := []string{"dev", "test", "prod", "stage"}[:n]
	w := newWorkspace()
	defer w.cleanup()
	write := func(rel, content string) {
		p := filepath.Join(w.In, rel)
		if err := os.MkdirAll(filepath.Dir(p), 0o755); err != nil {
			panic(err)
		}
		if err := os.WriteFile(p, []byte(content), 0o644); err != nil {
			panic(err)
		}
	}
	write("base/Env.yaml", c13DryBase)
	for k, name := range names {
		write("overlays/"+name+"/Env.yaml", c13Overlay(r, name, k))
	}
	ro := runOpts{Formats: []format.Format{format.YAML}, Subdirs: []string{"base"}, Pretty: true, EmitUnpop: true}
	if err := w.genProto(ro); err != nil {
		return "protoerr " + errCode(err)
	}
	if err := w.genConf(ro); err != nil {
		return "conferr " + errCode(err)
	}
	descs, err := parseProtoDir(w.Proto)
	if err != nil {
		return "protoinvalid"
	}
	md := descs["protoconf.PatchConf"]
	if md == nil {
		return "nomessage"
	}
	// dry-run previews, several times under different degrees of parallelism
	dro := ro
	dro.DryRun = options.DryRunPatch
	var first map[string]string
	saved := runtime.GOMAXPROCS(0)
	defer runtime.GOMAXPROCS(saved)
	for round, procs := range []int{1, 4, saved} {
		runtime.GOMAXPROCS(procs)
		dry := filepath.Join(w.Root, fmt.Sprintf("dry%d", round))
		w2 := &workspace{Root: w.Root, In: w.In, Proto: w.Proto, Conf: dry}
		os.MkdirAll(dry, 0o755)
		if err := w2.genConf(dro); err != nil {
			return "dryerr " + errCode(err)
		}
		bodies := fileBodies(dry)
		if first == nil {
			first = bodies
			// every preview against the loader's result
			for _, name := range names {
				want := dynamicpb.NewMessage(md.UnwrapMessage())
				if err := load.Load(want, filepath.Join(w.Conf, "base"), format.JSON,
					load.PatchPaths(map[string][]string{"PatchConf": {filepath.Join(w.Conf, name, "PatchConf.json")}})); err != nil {
					return "loaderr " + name
				}
				got := dynamicpb.NewMessage(md.UnwrapMessage())
				if err := load.Load(got, filepath.Join(dry, name), format.JSON, load.Mode(load.ModeOnlyMain)); err != nil {
					return "previewerr " + name
				}
				if !proto.Equal(want, got) {
					return fmt.Sprintf("differ preview-of-%s-is-not-the-loaders-result [%d overlays]", name, n)
				}
			}
		} else if d := diffMaps("dryrun", first, bodies); d != "" {
			return fmt.Sprintf("differ run-to-run %s [%d overlays]", d, n)
		}
	}
	var ks []string
	for k := range first {
		ks = append(ks, k)
	}
	sort.Strings(ks)
	return fmt.Sprintf("same [%d overlays, %d files]", n, len(ks))
}

func init() {
	regStream("e2e.C13.dryrun", func(r *rand.Rand, n int, emit func(string, ...string)) {
		for i := 0; i < n; i++ {
			emit("c13.dry", itoa(r.Int63n(1<<40)))
		}
	})
	regImpl("c13.dry", func(a []string) string { return runC13Dry(mustInt(a[0])) })
}
