package main

import (
	"fmt"
	"math/rand"
	"strconv"
	"strings"

	"github.com/tableauio/tableau/proto/tableaupb"
	"google.golang.org/protobuf/proto"
	"google.golang.org/protobuf/reflect/protodesc"
	"google.golang.org/protobuf/reflect/protoreflect"
	"google.golang.org/protobuf/types/descriptorpb"
)

// ---------------------------------------------------------------------------
// Table-parser descriptors ("TDesc"): what parseFieldDescriptor sees for every
// field, generated as trees and turned into REAL protobuf descriptors carrying
// (tableau.field) options.
//
//   tdesc  := T<count> tfield*
//   tfield := G<num>:<card o|l|m>:<layout d|v|h|i>:<span 0|1>:<kind>:<keykind|->  <name> <key> <keyProto> <protoName> <prop> [tdesc]
//   prop   := p[;u=0|1][;r=<ustr>][;pr][;op][;fx][;sz=<n>][;sq=<int>][;sep=<ustr>][;sub=<ustr>]
// ---------------------------------------------------------------------------

type tProp struct {
	unique   *bool
	rng      string
	present  bool
	optional bool
	fixed    bool
	size     int
	sequence *int64
	sep      string
	subsep   string
}

type tField struct {
	num       int
	name      string // opts.Name
	key       string // opts.Key
	card      byte   // o l m
	layout    byte   // d v h i
	incell    bool   // span inner cell
	kind      string // i32 u32 i64 u64 b s m
	keyKind   string // scalar maps: key kind
	sub       []*tField
	prop      tProp
	protoName string
}

func (f *tField) keyProto() string {
	for _, s := range f.sub {
		if s.name == f.key {
			return s.protoName
		}
	}
	return strings.ToLower(f.key)
}

func (p tProp) token() string {
	parts := []string{"p"}
	if p.unique != nil {
		if *p.unique {
			parts = append(parts, "u=1")
		} else {
			parts = append(parts, "u=0")
		}
	}
	if p.rng != "" {
		parts = append(parts, "r="+encStr(p.rng))
	}
	if p.present {
		parts = append(parts, "pr")
	}
	if p.optional {
		parts = append(parts, "op")
	}
	if p.fixed {
		parts = append(parts, "fx")
	}
	if p.size > 0 {
		parts = append(parts, "sz="+strconv.Itoa(p.size))
	}
	if p.sequence != nil {
		parts = append(parts, "sq="+strconv.FormatInt(*p.sequence, 10))
	}
	if p.sep != "" {
		parts = append(parts, "sep="+encStr(p.sep))
	}
	if p.subsep != "" {
		parts = append(parts, "sub="+encStr(p.subsep))
	}
	return strings.Join(parts, ";")
}

func parseTProp(tok string) tProp {
	var p tProp
	for _, part := range strings.Split(tok, ";")[1:] {
		switch {
		case part == "u=1":
			t := true
			p.unique = &t
		case part == "u=0":
			t := false
			p.unique = &t
		case strings.HasPrefix(part, "r="):
			p.rng = mustStr(part[2:])
		case part == "pr":
			p.present = true
		case part == "op":
			p.optional = true
		case part == "fx":
			p.fixed = true
		case strings.HasPrefix(part, "sz="):
			p.size, _ = strconv.Atoi(part[3:])
		case strings.HasPrefix(part, "sq="):
			v, _ := strconv.ParseInt(part[3:], 10, 64)
			p.sequence = &v
		case strings.HasPrefix(part, "sep="):
			p.sep = mustStr(part[4:])
		case strings.HasPrefix(part, "sub="):
			p.subsep = mustStr(part[4:])
		}
	}
	return p
}

func tdescTokens(fs []*tField, out *[]string) {
	*out = append(*out, "T"+strconv.Itoa(len(fs)))
	for _, f := range fs {
		span := "0"
		if f.incell {
			span = "1"
		}
		kk := f.keyKind
		if kk == "" {
			kk = "-"
		}
		*out = append(*out, fmt.Sprintf("G%d:%c:%c:%s:%s:%s", f.num, f.card, f.layout, span, f.kind, kk),
			encStr(f.name), encStr(f.key), encStr(f.keyProto()), encStr(f.protoName), f.prop.token())
		if f.kind == "m" {
			tdescTokens(f.sub, out)
		}
	}
}

func parseTDesc(toks []string, pos *int) []*tField {
	n, _ := strconv.Atoi(toks[*pos][1:])
	*pos++
	var fs []*tField
	for i := 0; i < n; i++ {
		parts := strings.Split(toks[*pos], ":")
		f := &tField{}
		f.num, _ = strconv.Atoi(parts[0][1:])
		f.card = parts[1][0]
		f.layout = parts[2][0]
		f.incell = parts[3] == "1"
		f.kind = parts[4]
		if parts[5] != "-" {
			f.keyKind = parts[5]
		}
		f.name = mustStr(toks[*pos+1])
		f.key = mustStr(toks[*pos+2])
		f.protoName = mustStr(toks[*pos+4])
		f.prop = parseTProp(toks[*pos+5])
		*pos += 6
		if f.kind == "m" {
			f.sub = parseTDesc(toks, pos)
		}
		fs = append(fs, f)
	}
	return fs
}

var tKindType = map[string]descriptorpb.FieldDescriptorProto_Type{
	"i32": descriptorpb.FieldDescriptorProto_TYPE_INT32, "u32": descriptorpb.FieldDescriptorProto_TYPE_UINT32,
	"i64": descriptorpb.FieldDescriptorProto_TYPE_INT64, "u64": descriptorpb.FieldDescriptorProto_TYPE_UINT64,
	"b": descriptorpb.FieldDescriptorProto_TYPE_BOOL, "s": descriptorpb.FieldDescriptorProto_TYPE_STRING,
}

var layoutEnum = map[byte]tableaupb.Layout{'d': tableaupb.Layout_LAYOUT_DEFAULT, 'v': tableaupb.Layout_LAYOUT_VERTICAL,
	'h': tableaupb.Layout_LAYOUT_HORIZONTAL, 'i': tableaupb.Layout_LAYOUT_INCELL}

func (p tProp) toProto() *tableaupb.FieldProp {
	fp := &tableaupb.FieldProp{Range: p.rng, Present: p.present, Optional: p.optional, Fixed: p.fixed, Size: uint32(p.size), Sep: p.sep, Subsep: p.subsep}
	if p.unique != nil {
		fp.Unique = proto.Bool(*p.unique)
	}
	if p.sequence != nil {
		fp.Sequence = proto.Int64(*p.sequence)
	}
	if proto.Equal(fp, &tableaupb.FieldProp{}) {
		return nil
	}
	return fp
}

// buildTDescriptor turns a TDesc into a real message descriptor "Sheet".
func buildTDescriptor(fs []*tField) protoreflect.MessageDescriptor {
	counter := 0
	var build func(fs []*tField, name, full string) *descriptorpb.DescriptorProto
	build = func(fs []*tField, name, full string) *descriptorpb.DescriptorProto {
		dp := &descriptorpb.DescriptorProto{Name: proto.String(name)}
		for _, f := range fs {
			fp := &descriptorpb.FieldDescriptorProto{Name: proto.String(f.protoName), Number: proto.Int32(int32(f.num)),
				Label: descriptorpb.FieldDescriptorProto_LABEL_OPTIONAL.Enum()}
			fo := &descriptorpb.FieldOptions{}
			topts := &tableaupb.FieldOptions{Name: f.name, Key: f.key, Layout: layoutEnum[f.layout], Prop: f.prop.toProto()}
			if f.incell {
				topts.Span = tableaupb.Span_SPAN_INNER_CELL
			}
			proto.SetExtension(fo, tableaupb.E_Field, topts)
			fp.Options = fo
			subType := func() string {
				counter++
				subName := fmt.Sprintf("M%d", counter)
				dp.NestedType = append(dp.NestedType, build(f.sub, subName, full+"."+subName))
				return full + "." + subName
			}
			switch f.card {
			case 'o':
				if f.kind == "m" {
					fp.Type = descriptorpb.FieldDescriptorProto_TYPE_MESSAGE.Enum()
					fp.TypeName = proto.String(subType())
				} else {
					fp.Type = tKindType[f.kind].Enum()
				}
			case 'l':
				fp.Label = descriptorpb.FieldDescriptorProto_LABEL_REPEATED.Enum()
				if f.kind == "m" {
					fp.Type = descriptorpb.FieldDescriptorProto_TYPE_MESSAGE.Enum()
					fp.TypeName = proto.String(subType())
				} else {
					fp.Type = tKindType[f.kind].Enum()
				}
			case 'm':
				fp.Label = descriptorpb.FieldDescriptorProto_LABEL_REPEATED.Enum()
				fp.Type = descriptorpb.FieldDescriptorProto_TYPE_MESSAGE.Enum()
				entryName := ""
				for _, w := range strings.Split(f.protoName, "_") {
					if w != "" {
						entryName += strings.ToUpper(w[:1]) + w[1:]
					}
				}
				entryName += "Entry"
				kk := f.keyKind
				if f.kind == "m" {
					for _, s := range f.sub {
						if s.name == f.key {
							kk = s.kind
						}
					}
				}
				kf := &descriptorpb.FieldDescriptorProto{Name: proto.String("key"), Number: proto.Int32(1), Label: descriptorpb.FieldDescriptorProto_LABEL_OPTIONAL.Enum(), Type: tKindType[kk].Enum()}
				vf := &descriptorpb.FieldDescriptorProto{Name: proto.String("value"), Number: proto.Int32(2), Label: descriptorpb.FieldDescriptorProto_LABEL_OPTIONAL.Enum()}
				if f.kind == "m" {
					vf.Type = descriptorpb.FieldDescriptorProto_TYPE_MESSAGE.Enum()
					vf.TypeName = proto.String(subType())
				} else {
					vf.Type = tKindType[f.kind].Enum()
				}
				dp.NestedType = append(dp.NestedType, &descriptorpb.DescriptorProto{Name: proto.String(entryName), Field: []*descriptorpb.FieldDescriptorProto{kf, vf},
					Options: &descriptorpb.MessageOptions{MapEntry: proto.Bool(true)}})
				fp.TypeName = proto.String(full + "." + entryName)
			}
			dp.Field = append(dp.Field, fp)
		}
		return dp
	}
	root := build(fs, "Sheet", ".veriftd.Sheet")
	fdp := &descriptorpb.FileDescriptorProto{
		Name: proto.String("verif_td.proto"), Package: proto.String("veriftd"), Syntax: proto.String("proto3"),
		Dependency:  []string{"tableau/protobuf/tableau.proto"},
		MessageType: []*descriptorpb.DescriptorProto{root},
	}
	fd, err := protodesc.NewFile(fdp, globalFilesResolver{})
	if err != nil {
		panic(fmt.Sprintf("buildTDescriptor: %v", err))
	}
	return fd.Messages().Get(0)
}

// ---- generation ---------------------------------------------------------------

var tScalarKinds = []string{"i32", "u32", "i64", "u64", "b", "s"}
var tKeyKinds = []string{"i32", "u32", "i64", "s"}
var tNames = []string{"ID", "Name", "Num", "Desc", "Type", "Val", "Rank", "Cost", "Tag", "Flag"}
var tAggNames = []string{"Item", "Prop", "Attr", "Hero", "Task", "Goods"}

type tGen struct {
	r *rand.Rand
}

func lowerName(s string) string { return strings.ToLower(s) }

func (g *tGen) scalarField(num int, name string) *tField {
	f := &tField{num: num, name: name, card: 'o', layout: 'd', kind: tScalarKinds[g.r.Intn(len(tScalarKinds))], protoName: lowerName(name)}
	switch g.r.Intn(12) {
	case 0:
		if f.kind != "b" {
			f.prop.rng = []string{"1,10", "~,5", "2,~", "0,0", "3"}[g.r.Intn(5)]
		}
	case 1:
		f.prop.present = true
	case 2:
		f.prop.optional = true
	}
	return f
}

// structFields: a few scalar sub-fields (first one usable as a key), optionally a nested aggregate
func (g *tGen) structFields(depth int, withKey bool) []*tField {
	n := 1 + g.r.Intn(3)
	perm := g.r.Perm(len(tNames))
	var fs []*tField
	for i := 0; i < n; i++ {
		name := tNames[perm[i]]
		if i == 0 && withKey {
			name = "ID"
			if perm[0] != 0 && g.r.Intn(3) == 0 {
				name = tNames[perm[0]]
			}
		} else if name == "ID" && withKey {
			name = "Extra"
		}
		f := g.scalarField(i+1, name)
		if i == 0 && withKey {
			f.kind = tKeyKinds[g.r.Intn(len(tKeyKinds))]
			f.prop = tProp{}
		}
		fs = append(fs, f)
	}
	if depth > 0 && g.r.Intn(2) == 0 {
		first := g.aggregate(len(fs)+1, depth-1)
		fs = append(fs, first)
		// sometimes two aggregate children (e.g. a horizontal list, then a nested vertical map): which of them
		// decides whether the parent key may repeat
		if g.r.Intn(2) == 0 {
			second := g.aggregate(len(fs)+1, depth-1)
			if second.name != first.name {
				fs = append(fs, second)
			}
		}
	}
	return fs
}

func (g *tGen) aggregate(num int, depth int) *tField {
	name := tAggNames[g.r.Intn(len(tAggNames))]
	f := &tField{num: num, name: name, layout: 'd', protoName: lowerName(name)}
	switch g.r.Intn(11) {
	case 0: // in-cell scalar list
		f.card, f.layout, f.kind = 'l', 'i', tScalarKinds[g.r.Intn(len(tScalarKinds))]
		f.protoName += "_list"
		if g.r.Intn(4) == 0 {
			f.prop.sep = ";"
		}
		if g.r.Intn(6) == 0 {
			f.prop.size = 2
		}
	case 1: // in-cell scalar map
		f.card, f.layout, f.kind, f.keyKind = 'm', 'i', tScalarKinds[g.r.Intn(len(tScalarKinds))], tKeyKinds[g.r.Intn(len(tKeyKinds))]
		f.key = "Key"
		f.protoName += "_map"
	case 2: // in-cell struct
		f.card, f.kind, f.incell = 'o', "m", true
		f.sub = g.structFields(0, false)
		for _, s := range f.sub {
			s.prop = tProp{}
		}
	case 3: // cross-cell struct
		f.card, f.kind = 'o', "m"
		f.sub = g.structFields(depth, false)
	case 4: // horizontal scalar list
		f.card, f.layout, f.kind = 'l', []byte{'d', 'h'}[g.r.Intn(2)], tScalarKinds[g.r.Intn(len(tScalarKinds))]
		f.protoName += "_list"
		switch g.r.Intn(7) {
		case 0:
			f.prop.fixed = true
		case 1:
			f.prop.size = 1 + g.r.Intn(3)
		case 2: // both: the explicit size wins over the number of element columns
			f.prop.fixed, f.prop.size = true, 1+g.r.Intn(4)
		}
	case 5: // horizontal struct list
		f.card, f.layout, f.kind = 'l', 'h', "m"
		f.protoName += "_list"
		f.sub = g.structFields(0, false)
		switch g.r.Intn(8) {
		case 0:
			f.prop.fixed = true
		case 1:
			f.prop.fixed, f.prop.size = true, 1+g.r.Intn(3)
		}
	case 6: // horizontal in-cell struct list
		f.card, f.layout, f.kind, f.incell = 'l', 'h', "m", true
		f.protoName += "_list"
		f.sub = g.structFields(0, false)
		for _, s := range f.sub {
			s.prop = tProp{}
		}
	case 7: // vertical list (maybe keyed)
		f.card, f.layout, f.kind = 'l', 'v', "m"
		f.protoName += "_list"
		keyed := g.r.Intn(2) == 0
		f.sub = g.structFields(depth, keyed)
		if keyed {
			f.key = f.sub[0].name
		}
	case 8: // horizontal map
		f.card, f.layout, f.kind = 'm', 'h', "m"
		f.protoName += "_map"
		f.sub = g.structFields(0, true)
		f.key = f.sub[0].name
		if g.r.Intn(6) == 0 {
			f.prop.fixed = true
		}
	default: // vertical map
		f.card, f.layout, f.kind = 'm', []byte{'d', 'v'}[g.r.Intn(2)], "m"
		f.protoName += "_map"
		f.sub = g.structFields(depth, true)
		f.key = f.sub[0].name
		switch g.r.Intn(8) {
		case 0:
			t := true
			f.prop.unique = &t
		case 1:
			t := false
			f.prop.unique = &t
		case 2:
			s := int64(1)
			f.prop.sequence = &s
		}
	}
	return f
}

func (g *tGen) sheet() []*tField {
	var fs []*tField
	usedNames := map[string]bool{}
	n := 1 + g.r.Intn(3)
	for i := 0; i < n; i++ {
		var f *tField
		if g.r.Intn(3) == 0 {
			name := tNames[g.r.Intn(len(tNames))]
			f = g.scalarField(i+1, name)
		} else {
			f = g.aggregate(i+1, 1)
		}
		if usedNames[f.name] {
			continue
		}
		usedNames[f.name] = true
		f.num = len(fs) + 1
		fs = append(fs, f)
	}
	if len(fs) == 0 {
		fs = append(fs, g.scalarField(1, "ID"))
	}
	return fs
}

// hsize: number of horizontal elements laid out for a horizontal aggregate
func (g *tGen) columns(fs []*tField, pre string, keyName string, out *[]colSpec) {
	for _, f := range fs {
		switch {
		case f.card == 'o' && f.kind != "m", f.layout == 'i', f.card == 'o' && f.incell:
			*out = append(*out, colSpec{name: pre + f.name, f: f, isKey: keyName != "" && f.name == keyName})
		case f.card == 'o' && f.kind == "m":
			g.columns(f.sub, pre+f.name, "", out)
		case (f.card == 'm' && (f.layout == 'd' || f.layout == 'v')) || (f.card == 'l' && f.layout == 'v'):
			g.columns(f.sub, pre+f.name, f.key, out)
		default: // horizontal list / map
			n := 1 + g.r.Intn(3)
			if g.r.Intn(10) == 0 {
				n = 10 + g.r.Intn(3) // two-digit element numbers
			}
			for i := 1; i <= n; i++ {
				p := pre + f.name + strconv.Itoa(i)
				if f.kind != "m" || f.incell {
					*out = append(*out, colSpec{name: p, f: f, elem: true})
				} else {
					g.columns(f.sub, p, f.key, out)
				}
			}
		}
	}
}

type colSpec struct {
	name  string
	f     *tField
	elem  bool
	isKey bool
}

func (g *tGen) scalarText(kind string, keyish bool) string {
	r := g.r
	if r.Intn(7) == 0 {
		return ""
	}
	if r.Intn(40) == 0 {
		return []string{"abc", "1x", "-", "99999999999999999999", "1.5", "nan", " ", "1 2"}[r.Intn(8)]
	}
	switch kind {
	case "b":
		return []string{"true", "false", "1", "0", "T", "1.0"}[r.Intn(6)]
	case "s":
		if keyish {
			return []string{"a", "b", "c"}[r.Intn(3)]
		}
		return []string{"a", "b", "hello", "x y", "值", "0"}[r.Intn(6)]
	case "u32", "u64":
		if keyish {
			return strconv.Itoa(1 + r.Intn(3))
		}
		return []string{"0", "1", "2", "3", "7", "10", "4294967295", "11"}[r.Intn(8)]
	default:
		if keyish {
			return strconv.Itoa(1 + r.Intn(3))
		}
		return []string{"0", "1", "2", "3", "-1", "10", "2147483647", "5", " 4 "}[r.Intn(9)]
	}
}

func (g *tGen) cellText(c colSpec) string {
	f := c.f
	r := g.r
	sep, subsep := ",", ":"
	if f.prop.sep != "" {
		sep = f.prop.sep
	}
	switch {
	case f.card == 'l' && f.layout == 'i':
		if r.Intn(6) == 0 {
			return ""
		}
		n := 1 + r.Intn(3)
		var parts []string
		for i := 0; i < n; i++ {
			parts = append(parts, g.scalarText(f.kind, false))
		}
		return strings.Join(parts, sep)
	case f.card == 'm' && f.layout == 'i':
		if r.Intn(6) == 0 {
			return ""
		}
		n := 1 + r.Intn(3)
		var parts []string
		for i := 0; i < n; i++ {
			parts = append(parts, g.scalarText(f.keyKind, true)+subsep+g.scalarText(f.kind, false))
		}
		return strings.Join(parts, sep)
	case f.kind == "m" && f.incell:
		if r.Intn(5) == 0 {
			return ""
		}
		var parts []string
		for _, s := range f.sub {
			parts = append(parts, g.scalarText(s.kind, false))
		}
		return strings.Join(parts, sep)
	default:
		return g.scalarText(f.kind, c.isKey)
	}
}

func encGrid(rows [][]string) string {
	maxc := 0
	for _, r := range rows {
		if len(r) > maxc {
			maxc = len(r)
		}
	}
	var sb strings.Builder
	fmt.Fprintf(&sb, "R%dx%d", len(rows), maxc)
	for _, r := range rows {
		sb.WriteString(" ")
		sb.WriteString(strconv.Itoa(len(r)))
		for _, c := range r {
			sb.WriteByte(' ')
			sb.WriteString(encStr(c))
		}
	}
	return sb.String()
}

func decGrid(s string) [][]string {
	toks := strings.Fields(s)
	var nr, nc int
	fmt.Sscanf(toks[0], "R%dx%d", &nr, &nc)
	pos := 1
	rows := make([][]string, nr)
	for i := 0; i < nr; i++ {
		n, _ := strconv.Atoi(toks[pos])
		pos++
		rows[i] = make([]string, n)
		for j := 0; j < n; j++ {
			rows[i][j] = mustStr(toks[pos])
			pos++
		}
	}
	return rows
}
