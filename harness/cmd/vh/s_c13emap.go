package main

import (
	"encoding/json"
	"fmt"
	"math/rand"
	"os"
	"path/filepath"
	"sort"
	"strconv"
	"strings"

	"github.com/tableauio/tableau/format"
	"github.com/tableauio/tableau/load"
	"github.com/tableauio/tableau/options"
	"google.golang.org/protobuf/encoding/protojson"
	"google.golang.org/protobuf/types/dynamicpb"
)

// ---------------------------------------------------------------------------
// e2e.C13.incellMaps: in-cell maps of a PATCH_MERGE table sheet with a scattered overlay — one keyed by an enum
// (map<enum<.FruitType>, int32>), one keyed by int32 — each marked patch:PATCH_REPLACE or left at the default. Dry-run
// preview and loader must both give: a REPLACE map the overlay states = the overlay's entries; otherwise main's entries
// overridden / extended by the overlay's.
//   c13.emap <replace enum map 0|1> <replace int map 0|1> <main enum> <main int> <overlay enum> <overlay int>   (k=v joined by .)
//   → dry=e:<k=v…>;m:<k=v…> load=e:…;m:…
// ---------------------------------------------------------------------------

func init() {
	regStream("e2e.C13.incellMaps", func(r *rand.Rand, n int, emit func(string, ...string)) {
		ents := func(keys []string) string {
			var out []string
			for _, k := range keys {
				if r.Intn(2) == 0 {
					out = append(out, k+"="+strconv.Itoa(1+r.Intn(9)))
				}
			}
			return strings.Join(out, ".")
		}
		for i := 0; i < n; i++ {
			emit("c13.emap", strconv.Itoa(r.Intn(2)), strconv.Itoa(r.Intn(2)), ents([]string{"Apple", "Pear"}), ents([]string{"1", "2", "3"}), ents([]string{"Apple", "Pear"}), ents([]string{"2", "3", "4"}))
		}
	})
	regImpl("c13.emap", func(a []string) string {
		prop := func(flag string) string {
			if flag == "1" {
				return "|{patch:PATCH_REPLACE}"
			}
			return ""
		}
		cell := func(s string) string {
			if s == "" {
				return ""
			}
			return strings.ReplaceAll(strings.ReplaceAll(s, "=", ":"), ".", ",")
		}
		hdr := [][]string{{"Name", "Stock", "Level"}, {"string", "map<enum<.FruitType>, int32>" + prop(a[0]), "map<int32, int32>" + prop(a[1])}, {"n", "s", "l"}}
		w := newWorkspace()
		defer w.cleanup()
		w.writeCSVBook("", baseBook())
		w.writeCSVBook("", bookSpec{Name: "Main", Sheets: []sheetSpec{{Name: "ShopConf", Rows: append(append([][]string{}, hdr...), []string{"main", cell(a[2]), cell(a[3])}),
			Meta: map[string]string{"Patch": "PATCH_MERGE", "Scatter": "Overlay*.csv", "Optional": "true"}}}})
		w.writeCSVBook("", bookSpec{Name: "Overlay", Sheets: []sheetSpec{{Name: "ShopConf", Rows: append(append([][]string{}, hdr...), []string{"", cell(a[4]), cell(a[5])})}}, NoMeta: true})
		ro := runOpts{}
		if err := w.genProto(ro); err != nil {
			return "protoerr " + errCode(err)
		}
		if err := w.genConf(ro); err != nil {
			return "conferr " + errCode(err)
		}
		dryDir := filepath.Join(w.Root, "dry")
		os.MkdirAll(dryDir, 0o755)
		saved := w.Conf
		w.Conf = dryDir
		ro.DryRun = options.DryRunPatch
		err := w.genConf(ro)
		w.Conf = saved
		if err != nil {
			return "dryerr " + errCode(err)
		}
		names := map[string]string{"FRUIT_TYPE_APPLE": "Apple", "FRUIT_TYPE_PEAR": "Pear"}
		one := func(v any) string {
			m, _ := v.(map[string]any)
			var out []string
			for k, x := range m {
				key, val := k, fmt.Sprint(x)
				if obj, ok := x.(map[string]any); ok { // enum-keyed maps are stored as number → {key, value}
					if kn, ok := obj["key"].(string); ok {
						key = names[kn]
					}
					val = fmt.Sprint(obj["value"])
				}
				out = append(out, key+"="+val)
			}
			sort.Strings(out)
			return strings.Join(out, ".")
		}
		show := func(data []byte) string {
			var got map[string]any
			if err := json.Unmarshal(data, &got); err != nil {
				return "badjson"
			}
			return "e:" + one(got["stockMap"]) + ";m:" + one(got["levelMap"])
		}
		dry, err := os.ReadFile(filepath.Join(dryDir, "Overlay_ShopConf.json"))
		if err != nil {
			return "nodryfile"
		}
		descs, perr := parseProtoDir(w.Proto)
		if perr != nil {
			return "protoinvalid"
		}
		md := descs["protoconf.ShopConf"]
		if md == nil {
			return "nomessage"
		}
		loaded := dynamicpb.NewMessage(md.UnwrapMessage())
		if err := load.Load(loaded, w.Conf, format.JSON,
			load.Paths(map[string]string{"ShopConf": filepath.Join(w.Conf, "Main_ShopConf.json")}),
			load.PatchPaths(map[string][]string{"ShopConf": {filepath.Join(w.Conf, "Overlay_ShopConf.json")}})); err != nil {
			return "loaderr " + errCode(err)
		}
		lj, _ := protojson.Marshal(loaded)
		return "dry=" + show(dry) + " load=" + show(lj)
	})
}
