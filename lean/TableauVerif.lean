import TableauVerif.Props.C14
import TableauVerif.Model.Excel
import TableauVerif.Model.Xerrors
import TableauVerif.Model.Importer
import TableauVerif.Props.C01Grid
import TableauVerif.Spec.Grid
import TableauVerif.Spec.C12Doc
