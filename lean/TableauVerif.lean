import TableauVerif.Props.C14
import TableauVerif.Model.Excel
import TableauVerif.Model.Xerrors
