import TableauVerif.Props.C14
import TableauVerif.Model.Excel
import TableauVerif.Model.Xerrors
import TableauVerif.Model.Importer
import TableauVerif.Props.C01Grid
