/-
Shared basics: strings as lists of code points (`Nat`), decimal printing/parsing.
Core Lean only.
-/
namespace TableauVerif

/-- a string as the list of its Unicode code points (Go `[]rune`) -/
abbrev Str := List Nat

namespace Str

def ofString (s : String) : Str := s.toList.map Char.toNat
def toString (s : Str) : String := String.ofList (s.map Char.ofNat)

def isDigit (c : Nat) : Bool := 48 ≤ c && c ≤ 57
def isUpper (c : Nat) : Bool := 65 ≤ c && c ≤ 90
def isLower (c : Nat) : Bool := 97 ≤ c && c ≤ 122

/-- most significant digit first, as code points; `decimalAux n acc` prepends the digits of `n > 0` -/
def decimalPos (fuel n : Nat) (acc : Str) : Str :=
  match fuel with
  | 0 => acc
  | fuel + 1 => if n < 10 then (48 + n) :: acc else decimalPos fuel (n / 10) ((48 + n % 10) :: acc)

/-- `strconv.Itoa` for naturals -/
def decimal (n : Nat) : Str := decimalPos (n + 1) n []

/-- value of a digit string, `none` if empty or a non-digit occurs -/
def parseNatAux : Str → Nat → Option Nat
  | [], acc => some acc
  | c :: cs, acc => if isDigit c then parseNatAux cs (acc * 10 + (c - 48)) else none

def parseNat (s : Str) : Option Nat :=
  match s with
  | [] => none
  | _ => parseNatAux s 0

/-- split on a single code point (Go `strings.Split(s, string(c))`) -/
def splitOn (c : Nat) : Str → List Str
  | [] => [[]]
  | x :: xs =>
    if x = c then [] :: splitOn c xs
    else match splitOn c xs with
      | [] => [[x]]     -- unreachable, splitOn never returns []
      | p :: ps => (x :: p) :: ps

/-- Go `strings.SplitN(s, string(c), 2)` : split at the first occurrence -/
def splitFirst (c : Nat) : Str → Option (Str × Str)
  | [] => none
  | x :: xs =>
    if x = c then some ([], xs)
    else match splitFirst c xs with
      | none => none
      | some (a, b) => some (x :: a, b)

def dropWhileEnd (p : Nat → Bool) (s : Str) : Str := (s.reverse.dropWhile p).reverse

/-- Go `strings.Trim(s, cutset)` for a cutset given as a predicate -/
def trim (p : Nat → Bool) (s : Str) : Str := dropWhileEnd p (s.dropWhile p)

end Str
end TableauVerif
