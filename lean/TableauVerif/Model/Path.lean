/-
Model of slash paths: Go `path.Clean` / `filepath.Clean` on the Unix subset (as used by
`xfs.CleanSlashPath`), and of `protogen.prepareOutdir` as a transformer of a directory listing.
-/
import TableauVerif.Model.Basic
namespace TableauVerif.Model.Path
open TableauVerif

def slash : Nat := 47
def dot : Nat := 46

/-- process the components left to right, keeping a stack of kept components (innermost first);
`rooted` paths drop `..` at the root, relative paths keep leading `..` -/
def cleanGo (rooted : Bool) : List Str → List Str → List Str
  | [], stack => stack.reverse
  | c :: rest, stack =>
    if c.isEmpty || c == [dot] then cleanGo rooted rest stack
    else if c == [dot, dot] then
      match stack with
      | top :: below => if top == [dot, dot] then cleanGo rooted rest (c :: stack) else cleanGo rooted rest below
      | [] => if rooted then cleanGo rooted rest [] else cleanGo rooted rest [c]
    else cleanGo rooted rest (c :: stack)

def joinSlash : List Str → Str
  | [] => []
  | [c] => c
  | c :: rest => c ++ [slash] ++ joinSlash rest

/-- `path.Clean(p)` -/
def clean (p : Str) : Str :=
  if p.isEmpty then [dot] else
  let rooted := p.head? == some slash
  let comps := cleanGo rooted (Str.splitOn slash p) []
  let body := joinSlash comps
  if rooted then slash :: body else if body.isEmpty then [dot] else body

def hasSuffix (s suf : Str) : Bool := suf.isPrefixOf s.reverse |> fun _ => (s.drop (s.length - suf.length)) == suf && suf.length ≤ s.length

def protoExt : Str := [46, 112, 114, 111, 116, 111]   -- ".proto"

/-- a directory listing: (entry name, isDir) of the TOP level of the proto output dir -/
abbrev Listing := List (Str × Bool)

/-- `prepareOutdir(outdir, imports, delExisted=true)` on an existing dir: which top-level entries remain.
An entry is removed iff it ends in `.proto` and its NAME is not the CLEANED path of a configured import
(`imports[filepath.Clean(path)]`, fix D21; before it the spelling was compared verbatim). -/
def prepareOutdir (imports : List Str) (entries : Listing) : Listing :=
  entries.filter fun e => !(hasSuffix e.1 protoExt) || (imports.map clean).contains e.1

/-! ### `xfs.RewriteSubdir` (after fix D10: the rules are tried in a fixed order) -/

/-- lexicographic order on strings (Go `<` on strings compares bytes; the modelled rule keys are ASCII) -/
def strLt : Str → Str → Bool
  | [], [] => false
  | [], _ :: _ => true
  | _ :: _, [] => false
  | a :: as, b :: bs => if a < b then true else if b < a then false else strLt as bs

/-- the order the rules are tried in: longer cleaned old subdir first, then the spelling of the key -/
def ruleLe (a b : Str × Str) : Bool :=
  let la := (clean a.1).length
  let lb := (clean b.1).length
  if la != lb then decide (la > lb) else !(strLt b.1 a.1)

/-- `strings.Replace(s, old, new, 1)` -/
def replaceFirst (old new : Str) : Str → Str
  | [] => if old.isEmpty then new else []
  | c :: cs => if old.isPrefixOf (c :: cs) then new ++ (c :: cs).drop old.length else c :: replaceFirst old new cs

/-- `RewriteSubdir(path, rules)`; `rules` = the entries of the map in whatever order the runtime enumerates them -/
def rewriteSubdir (path : Str) (rules : List (Str × Str)) : Str :=
  if rules.isEmpty then path else
  let p := clean path
  match (rules.mergeSort ruleLe).find? (fun r => (clean r.1).isPrefixOf p) with
  | none => p
  | some r => clean (replaceFirst (clean r.1) (clean r.2) p)

end TableauVerif.Model.Path
