/-
Model of enum cells: `internal/x/xproto/value.go: parseEnumValue` — a number (read with `strconv.ParseFloat`
and truncated, "compatibility with excel number format"), else a value name, else a value alias
(`(tableau.evalue).name`), else E2006.
-/
import TableauVerif.Model.Literal
namespace TableauVerif.Model.EnumLit
open TableauVerif TableauVerif.Model.Literal

/-- one enum value: number, name, alias ("" = none) -/
structure EVal where
  num : Int
  name : Str
  alias : Str
deriving Repr

/-- the float reading of the cell. A text whose first character (after an optional sign) is neither a digit nor
'.' is no float at all — unless it is one of the special spellings — whatever else it contains (underscores
included: value names such as COLOR_RED) -/
def floatOf (v : Str) : FloatLit :=
  let r := splitSign v
  match r.2.1 with
  | c :: _ =>
    if !(Str.isDigit c || c == 46) && !(eqFold r.2.1 "inf" || eqFold r.2.1 "infinity" || eqFold r.2.1 "nan") then .syntaxErr
    else parseFloatLit v
  | [] => parseFloatLit v

def parseEnum (vals : List EVal) (raw : Str) : Res :=
  let v := trimSpace raw
  if v.isEmpty then .absent else
  match floatOf v with
  | .unmodelled => .unmodelled
  | .inf _ | .nan => .unmodelled          -- `int32(±Inf)`, `int32(NaN)`: implementation-defined conversion
  | .num neg mant exp digits intLit =>
    if !intLit && (digits > 15 || exp > 40 || exp < -40) then .unmodelled
    else if magGt mant exp 2147483647 then .unmodelled     -- out of int32: implementation-defined conversion (or ErrRange)
    else
      let n : Int := if neg then -(magTrunc mant exp : Int) else (magTrunc mant exp : Int)
      if vals.any (fun e => e.num == n) then .ok n else .err 2006
  | .syntaxErr =>
    match vals.find? (fun e => e.name == v) with
    | some e => .ok e.num
    | none =>
      match vals.find? (fun e => !e.alias.isEmpty && e.alias == v) with
      | some e => .ok e.num
      | none => .err 2006

end TableauVerif.Model.EnumLit
