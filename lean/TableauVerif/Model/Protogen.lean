/-
Model of protogen's header parser for default-mode table worksheets.

Mirrors (Go): `internal/protogen/table_parser.go` (parseField, parseSubField, parseMapField,
parseListField, parseStructField incl. the layout look-ahead, virtual type cells, nested naming),
`internal/protogen/parser.go` (parseBasicField, parseTypeDescriptor, parseIncellStruct),
`internal/protogen/table_header.go` (getValidNameCell, checkNameConflicts),
`internal/protogen/field_prop.go` (Extract*FieldProp), `internal/strcase/snake.go` (ToSnake without
acronyms), `internal/x/xproto/build.go` (TypeInfos.Get / GetByFullName), and the top-level column loop
of `protogen.go:convertTable`.

The Go parser recurses at the *same* cursor with a shorter virtual type cell, so the model carries a
fuel argument (`fuel` error = the model gave up, reported as `unmodelled` by the driver).

Field properties: the text between `|{` and `}` is prototext of `tableau.FieldProp`; the model parses
the `key:value` vocabulary (booleans `true|false`, decimal integers, double-quoted strings without
escapes, enum names) and answers `unmodelled` for anything else (`prototext` is a trusted library).
Not modelled: union mode (`cross`), acronyms in `ToSnake`, header lines (`Nameline`/`Typeline` ≠ 0).
-/
import TableauVerif.Model.Types
namespace TableauVerif.Model.Protogen
open TableauVerif TableauVerif.Model.Types

/-! ### small string helpers -/

def hasPrefix (s p : Str) : Bool := (stripPrefix p s).isSome
def trimPrefix (s p : Str) : Str := (stripPrefix p s).getD s

def indexOf (c : Nat) : Str → Option Nat
  | [] => none
  | x :: xs => if x = c then some 0 else (indexOf c xs).map (· + 1)

/-- `strings.Index(s, sub)` -/
def indexOfSub (sub : Str) : Str → Option Nat
  | [] => if sub.isEmpty then some 0 else none
  | x :: xs => if hasPrefix (x :: xs) sub then some 0 else (indexOfSub sub xs).map (· + 1)

def containsDot (s : Str) : Bool := s.any (· == 46)

def S (s : String) : Str := Str.ofString s

/-! ### `strcase.ToSnake` (no acronyms) -/

def isSep (c : Nat) : Bool := c == 32 || c == 95 || c == 45 || c == 46
def toLower (c : Nat) : Nat := if Str.isUpper c then c + 32 else c

/-- the byte loop of `ToScreamingDelimited(s, '_', "", false)`; `prevUpper` = the previous input byte is upper case -/
def snakeGo (prevUpper : Bool) : Str → Str
  | [] => []
  | v :: rest =>
    let vU := Str.isUpper v
    let vL := Str.isLower v
    let vD := Str.isDigit v
    let w := toLower v
    match rest with
    | [] => (if isSep w then [95] else [w])
    | next :: _ =>
      let nU := Str.isUpper next
      let nL := Str.isLower next
      let nD := Str.isDigit next
      if (vU && (nL || nD)) || (vL && (nU || nD)) || (vD && (nU || nL)) then
        (if vU && nL && prevUpper then [95] else []) ++ [w] ++ (if vL || vD || nD then [95] else []) ++ snakeGo vU rest
      else
        (if isSep w then 95 else w) :: snakeGo vU rest

def toSnake (s : Str) : Str := snakeGo false (trimSpace s)

/-! ### field properties -/

inductive PErr where
  /-- an error and (once known) the header cursor protogen reports it at -/
  | err (tag : String) (cursor : Option Nat := none)
  | unmodelled
  | fuel
deriving DecidableEq, Repr

abbrev PRes (α : Type) := Except PErr α

/-- attach the cursor to an error that has none yet (`return cursor, …, err` at the site that detected it) -/
def atCur {α : Type} (cur : Nat) : PRes α → PRes α
  | .error (.err t none) => .error (.err t (some cur))
  | r => r

/-- the caller returns its own cursor whatever the callee reported -/
def forceCur {α : Type} (cur : Nat) : PRes α → PRes α
  | .error (.err t _) => .error (.err t (some cur))
  | r => r

/-- a parsed `FieldProp`: populated fields as (field number, canonical value), ascending numbers -/
abbrev Props := List (Nat × Str)
/-- `nil` vs a message -/
abbrev PropV := Option Props

inductive PKind where
  | str | bool | optBool | optInt | uint | int | form | patch
deriving DecidableEq, Repr

def propTable : List (String × Nat × PKind) :=
  [("range", 1, .str), ("unique", 2, .optBool), ("refer", 3, .str), ("sequence", 4, .optInt), ("default", 5, .str),
   ("fixed", 6, .bool), ("size", 7, .uint), ("form", 8, .form), ("json_name", 9, .str), ("present", 10, .bool),
   ("optional", 11, .bool), ("patch", 12, .patch), ("sep", 13, .str), ("subsep", 14, .str), ("cross", 15, .int)]

def lookupProp (key : Str) : Option (Nat × PKind) :=
  (propTable.find? (fun e => S e.1 == key)).map (·.2)

/-- split on U+0020 outside double quotes; `none` if a quote is left open -/
def tokens : Str → Str → Bool → List Str → Option (List Str)
  | [], cur, inq, acc => if inq then none else some ((if cur.isEmpty then acc else cur.reverse :: acc).reverse)
  | c :: cs, cur, inq, acc =>
    if c == 34 then tokens cs (c :: cur) (!inq) acc
    else if c == 32 && !inq then tokens cs [] false (if cur.isEmpty then acc else cur.reverse :: acc)
    else tokens cs (c :: cur) inq acc

def isSimpleDecimal (s : Str) : Bool :=
  match s with
  | [] => false
  | [48] => true
  | c :: cs => 49 ≤ c && c ≤ 57 && cs.all Str.isDigit

/-- canonical value of one `key:value` token: `ok none` = default value (not populated) -/
def propValue (k : PKind) (v : Str) : PRes (Option Str) :=
  match k with
  | .str =>
    match v with
    | 34 :: r =>
      match r.reverse with
      | 34 :: body =>
        let b := body.reverse
        if b.any (fun c => c == 34 || c == 92 || c == 10 || c == 39) then .error .unmodelled
        else .ok (if b.isEmpty then none else some b)
      | _ => .error .unmodelled
    | _ => .error .unmodelled
  | .bool => if v == S "true" then .ok (some v) else if v == S "false" then .ok none else .error .unmodelled
  | .optBool => if v == S "true" || v == S "false" then .ok (some v) else .error .unmodelled
  | .optInt =>
    match v with
    | 45 :: r => if isSimpleDecimal r && r != [48] then .ok (some v) else .error .unmodelled
    | _ => if isSimpleDecimal v then .ok (some v) else .error .unmodelled
  | .uint => if isSimpleDecimal v && v.length ≤ 9 then .ok (if v == [48] then none else some v) else .error .unmodelled
  | .int =>
    match v with
    | 45 :: r => if isSimpleDecimal r && r != [48] && r.length ≤ 9 then .ok (some v) else .error .unmodelled
    | _ => if isSimpleDecimal v && v.length ≤ 9 then .ok (if v == [48] then none else some v) else .error .unmodelled
  | .form =>
    if v == S "FORM_DEFAULT" then .ok none
    else if v == S "FORM_TEXT" || v == S "FORM_JSON" then .ok (some v) else .error .unmodelled
  | .patch =>
    if v == S "PATCH_NONE" then .ok none
    else if v == S "PATCH_REPLACE" || v == S "PATCH_MERGE" then .ok (some v) else .error .unmodelled

def insertProp (n : Nat) (v : Str) : Props → Props
  | [] => [(n, v)]
  | (m, w) :: rest => if n < m then (n, v) :: (m, w) :: rest else (m, w) :: insertProp n v rest

/-- fold the tokens: (numbers seen so far, populated fields) -/
def parseTokens : List Str → List Nat → Props → PRes Props
  | [], _, acc => .ok acc
  | t :: ts, seen, acc =>
    match indexOf 58 t with
    | none => .error .unmodelled
    | some i =>
      let key := t.take i
      let val := t.drop (i + 1)
      if key.isEmpty || !(key.all (fun c => Str.isLower c || c == 95)) then .error .unmodelled
      else
        match lookupProp key with
        | none => .error (.err "prop")           -- unknown field name
        | some (n, k) =>
          if seen.contains n then .error (.err "prop")   -- non-repeated field set twice
          else
            match propValue k val with
            | .error e => .error e
            | .ok none => parseTokens ts (n :: seen) acc
            | .ok (some cv) => parseTokens ts (n :: seen) (insertProp n cv acc)

/-- a brace or bar outside double quotes: prototext rejects the text (no field of `FieldProp` is a message) -/
def strayPunct : Str → Bool → Bool
  | [], _ => false
  | c :: cs, inq =>
    if c == 34 then strayPunct cs (!inq)
    else if !inq && (c == 123 || c == 125 || c == 124) then true
    else strayPunct cs inq

/-- `PropDescriptor.FieldProp()` -/
def parsePropText (text : Str) : PRes PropV :=
  if text.isEmpty then .ok none
  else if strayPunct text false then .error (.err "prop")
  else
    match tokens text [] false [] with
    | none => .error .unmodelled
    | some ts => (parseTokens ts [] []).map some

def keep (allowed : List Nat) (p : PropV) : PropV :=
  match p with
  | none => none
  | some ps =>
    match ps.filter (fun e => allowed.contains e.1) with
    | [] => none
    | l => some l

def extractMap : PropV → PropV := keep [9, 2, 4, 6, 7, 10, 11, 12, 13, 14]
def extractList (p : PropV) (scalarList : Bool) : PropV :=
  keep ([9, 2, 4, 6, 7, 10, 11, 12, 8, 13, 14, 15] ++ (if scalarList then [1, 3] else [])) p
def extractStruct : PropV → PropV := keep [9, 8, 10, 11, 12, 13, 14]
def extractScalar : PropV → PropV := keep [9, 1, 3, 5, 10, 11, 12]
/-- a whole prop; an empty message is rendered like `nil` (the exporter drops it) -/
def wholeProp (p : PropV) : PropV := match p with | some [] => none | x => x

/-- `PropDescriptor.RawProp()` -/
def rawProp (text : Str) : Str := [124, 123] ++ text ++ [125]

/-! ### parsed fields -/

inductive PLayout where
  | dflt | vertical | horizontal | incell
deriving DecidableEq, Repr

structure PField where
  name : Str := []
  typ : Str := []
  fullType : Str := []
  predefined : Bool := false
  optName : Str := []
  optKey : Str := []
  layout : PLayout := .dflt
  spanInner : Bool := false
  prop : PropV := none
  mapEntry : Option (Str × Str × Str) := none
  listEntry : Option (Str × Str) := none
  fields : List PField := []
deriving Repr

structure TypeInfo where
  fullName : Str
  kind : Kind
  firstOpt : Str
deriving Repr

structure Ctx where
  pkg : Str
  infos : List TypeInfo
  nested : Bool
deriving Repr

def Ctx.byFullName (c : Ctx) (full : Str) : Option TypeInfo := c.infos.find? (·.fullName == full)
/-- `TypeInfos.Get` -/
def Ctx.get (c : Ctx) (name : Str) : Option TypeInfo :=
  c.byFullName (if hasPrefix name [46] then c.pkg ++ name else name)

/-- `protoreflect.FullName.Name()` -/
def lastComponent (s : Str) : Str :=
  match lastIdx 46 s with
  | some i => s.drop (i + 1)
  | none => s

/-- protogen's `parseTypeDescriptor` -/
def parseTypeDesc (c : Ctx) (raw : Str) : PRes Descriptor :=
  let raw := match matchEnum raw with | some d => d.typ | none => raw
  if containsDot raw then
    match c.get raw with
    | some ti => .ok ⟨lastComponent ti.fullName, ti.fullName, true, ti.kind⟩
    | none => .error (.err "predefined type not found")
  else .ok (Types.parseTypeDescriptor raw)

/-- `parseBasicField` -/
def parseBasicField (c : Ctx) (name typ : Str) : PRes PField :=
  let (typ, prop) :=
    match matchEnum typ with
    | some d => (d.typ, d.prop)
    | none =>
      match matchScalar typ with
      | some d => (d.typ, d.prop)
      | none => (typ, [])
  match parseTypeDesc c typ with
  | .error e => .error e
  | .ok td =>
    match parsePropText prop with
    | .error e => .error e
    | .ok fp =>
      .ok { name := toSnake (trimPrefix name [64]), typ := td.name, fullType := td.fullName, predefined := td.predefined,
            optName := name, prop := extractScalar fp }

/-- `parseIncellStruct`: `ok none` = cross-cell struct, `ok (some pairs)` = (type, name) pairs -/
def parseIncellStruct (structType : Str) : PRes (Option (List (Str × Str))) :=
  let fields := Str.splitOn 44 structType
  if fields.length == 1 && (Str.splitOn 32 (fields.headD [])).length == 1 then .ok none
  else
    let pairs := fields.map (fun pair => Str.splitOn 32 (trimSpace pair))
    if pairs.all (·.length == 2) then .ok (some (pairs.map (fun kv => (kv.getD 0 [], kv.getD 1 []))))
    else .error (.err "illegal type-variable pair")

def basicFields (c : Ctx) : List (Str × Str) → PRes (List PField)
  | [] => .ok []
  | (t, n) :: rest =>
    match parseBasicField c n t with
    | .error e => .error e
    | .ok f => (basicFields c rest).map (f :: ·)

/-! ### header access -/

structure Header where
  names : List Str
  types : List Str
deriving Repr

/-- `book.ExtractFromCell(cell, 0)`: trimmed, CR/LF removed -/
def cell0 (s : Str) : Str := (trimSpace s).filter (fun ch => ch != 13 && ch != 10)

/-- the header as `getCell` presents it (header lines 0) -/
def Header.ofRows (names types : List Str) : Header := ⟨names.map cell0, types.map cell0⟩

def skipEmpty : List Str → Nat → Nat × Str
  | [], c => (c, [])
  | x :: xs, c => if x.isEmpty then skipEmpty xs (c + 1) else (c, x)

/-- `getValidNameCell(&cursor)`: (new cursor, cell) -/
def Header.validName (h : Header) (cursor : Nat) : Nat × Str := skipEmpty (h.names.drop cursor) cursor
def Header.typeAt (h : Header) (cursor : Nat) : Str := h.types.getD cursor []

abbrev Seen := List (Str × Nat)

/-- `checkNameConflicts`: `none` = E0003 -/
def checkConflict (seen : Seen) (name : Str) (cursor : Nat) : Option Seen :=
  match seen.find? (·.1 == name) with
  | none => some ((name, cursor) :: seen)
  | some (_, c) => if c = cursor then some seen else none

abbrev VT := List (Nat × Str)
def vtLookup (vt : VT) (cursor : Nat) : Str :=
  match vt.find? (·.1 == cursor) with
  | some (_, t) => t
  | none => []

/-- the layout look-ahead shared by maps and lists: the name has a `1` at index > 0; `inner` = the
element may live inside one cell (scalar/enum map value, scalar list element) -/
def lookAhead (h : Header) (cursor : Nat) (pfx : Str) (inner : Bool) (isAgg : Str → Bool) : PLayout :=
  let (nc, nextName) := h.validName (cursor + 1)
  if nextName.isEmpty then .horizontal      -- no real next column (trailing blank name cells do not count)
  else
    match indexOf 50 (trimPrefix nextName pfx) with
    | some (_ + 1) => if isAgg (h.typeAt nc) && inner then .incell else .horizontal
    | _ => if inner then .incell else .horizontal

def mapTypeText (k v : Str) : Str := S "map<" ++ k ++ S ", " ++ v ++ S ">"

/-! ### the parser -/

mutual

/-- `parseField`: (cursor, seen names, parsed field or none) -/
def parseField (fuel : Nat) (h : Header) (c : Ctx) (vt : VT) (seen : Seen) (cursor : Nat) (pfx : Str) :
    PRes (Nat × Seen × Option PField) :=
  match fuel with
  | 0 => .error .fuel
  | fuel + 1 =>
    let (cursor, nameCell) := h.validName cursor
    let typeCell := h.typeAt cursor
    if nameCell.isEmpty || typeCell.isEmpty then .ok (cursor, seen, none)
    else atCur cursor <|
      match checkConflict seen nameCell cursor with
      | none => .error (.err "E0003")
      | some seen =>
        let typeCell := if (vtLookup vt cursor).isEmpty then typeCell else vtLookup vt cursor
        if isMap typeCell then
          match parseMapField fuel h c vt seen cursor pfx nameCell typeCell with
          | .error e => .error e
          | .ok (cur, seen, f) => .ok (cur, seen, some f)
        else if isList typeCell then
          match parseListField fuel h c vt seen cursor pfx nameCell typeCell with
          | .error e => .error e
          | .ok (cur, seen, f) => .ok (cur, seen, some f)
        else if isStruct typeCell then
          match parseStructField fuel h c vt seen cursor pfx nameCell typeCell with
          | .error e => .error e
          | .ok (cur, seen, f) => .ok (cur, seen, some f)
        else
          match parseBasicField c (trimPrefix nameCell pfx) typeCell with
          | .error e => .error e
          | .ok f => .ok (cursor, seen, some f)

/-- `parseSubField`: appends the parsed sub-field to `field.fields` -/
def parseSubField (fuel : Nat) (h : Header) (c : Ctx) (vt : VT) (seen : Seen) (cursor : Nat) (pfx : Str) (field : PField) :
    PRes (Nat × Seen × PField) :=
  match fuel with
  | 0 => .error .fuel
  | fuel + 1 =>
    match parseField fuel h c vt seen cursor pfx with
    | .error e => .error e
    | .ok (cur, seen, none) => .ok (cur, seen, field)
    | .ok (cur, seen, some sub) => .ok (cur, seen, { field with fields := field.fields ++ [sub] })

/-- `for cursor++; cursor < len; cursor++ { [prefix check]; parseSubField }` of vertical aggregates and structs -/
def loopVert (fuel : Nat) (h : Header) (c : Ctx) (vt : VT) (seen : Seen) (cursor : Nat) (pfx : Str) (check : Bool)
    (field : PField) : PRes (Nat × Seen × PField) :=
  match fuel with
  | 0 => .error .fuel
  | fuel + 1 =>
    if cursor < h.names.length then
      let cur := if check then (h.validName cursor).1 else cursor
      if check && !hasPrefix (h.validName cursor).2 pfx then .ok (cur - 1, seen, field)
      else
        match parseSubField fuel h c vt seen cur pfx field with
        | .error e => .error e
        | .ok (cur', seen, field) => loopVert fuel h c vt seen (cur' + 1) pfx check field
    else .ok (cursor, seen, field)

/-- the column loop of horizontal maps and lists; `cross` = first-element columns are parsed -/
def loopHoriz (fuel : Nat) (h : Header) (c : Ctx) (vt : VT) (seen : Seen) (cursor : Nat) (pfx : Str) (cross : Bool)
    (field : PField) : PRes (Nat × Seen × PField) :=
  match fuel with
  | 0 => .error .fuel
  | fuel + 1 =>
    if cursor < h.names.length then
      if (h.typeAt cursor).isEmpty then loopHoriz fuel h c vt seen (cursor + 1) pfx cross field
      else
        let (cur, nameCell) := h.validName cursor
        if cross && belongToFirstElement nameCell pfx then
          match parseSubField fuel h c vt seen cur (pfx ++ [49]) field with
          | .error e => .error e
          | .ok (cur', seen, field) => loopHoriz fuel h c vt seen (cur' + 1) pfx cross field
        else if hasPrefix nameCell pfx then loopHoriz fuel h c vt seen (cur + 1) pfx cross field
        else .ok (cur - 1, seen, field)
    else .ok (cursor, seen, field)

def parseMapField (fuel : Nat) (h : Header) (c : Ctx) (vt : VT) (seen : Seen) (cursor : Nat) (pfx nameCell typeCell : Str) :
    PRes (Nat × Seen × PField) :=
  match fuel with
  | 0 => .error .fuel
  | fuel + 1 =>
    atCur cursor <|
    match matchMap typeCell with
    | none => .error (.err "nil map descriptor")
    | some desc =>
      let parsedKey := if isEnum desc.key then S "int32" else desc.key
      match parseTypeDesc c desc.value with
      | .error e => .error e
      | .ok vtd =>
        let mapType := mapTypeText parsedKey vtd.name
        let fullMapType := mapTypeText parsedKey vtd.fullName
        let inner := vtd.kind == .scalar || vtd.kind == .enum
        let trimmed := trimPrefix nameCell pfx
        let idx1 := indexOf 49 trimmed
        let layout : PLayout :=
          match idx1 with
          | some (_ + 1) => lookAhead h cursor pfx inner isMap
          | _ => if inner then .incell else .vertical
        match layout with
        | .vertical =>
          let pfx' := if c.nested then pfx ++ vtd.name else pfx
          let trimmed' := trimPrefix nameCell pfx'
          match parsePropText desc.prop with
          | .error e => .error e
          | .ok prop =>
            match parseBasicField c trimmed' (desc.key ++ rawProp desc.prop) with
            | .error e => .error e
            | .ok keyField =>
              let field : PField :=
                { name := toSnake vtd.name ++ S "_map", typ := mapType, fullType := fullMapType, predefined := vtd.predefined,
                  mapEntry := some (parsedKey, vtd.name, vtd.fullName),
                  optKey := trimmed', layout := .vertical, prop := extractMap prop,
                  optName := if c.nested then vtd.name else [], fields := [keyField] }
              loopVert fuel h c vt seen (cursor + 1) pfx' c.nested field
        | .horizontal =>
          let mapName := trimmed.take (idx1.getD 0)
          let pfx' := pfx ++ mapName
          let trimmed' := trimPrefix nameCell (pfx' ++ [49])
          match parsePropText desc.prop with
          | .error e => .error e
          | .ok prop =>
            match parseBasicField c trimmed' (desc.key ++ rawProp desc.prop) with
            | .error e => .error e
            | .ok keyField =>
              let field : PField :=
                { name := toSnake mapName ++ S "_map", typ := mapType, fullType := fullMapType, predefined := vtd.predefined,
                  mapEntry := some (parsedKey, vtd.name, vtd.fullName),
                  optName := mapName, optKey := trimmed', layout := .horizontal, prop := extractMap prop,
                  fields := [keyField] }
              loopHoriz fuel h c vt seen (cursor + 1) pfx' true field
        | _ =>
          match parseTypeDesc c desc.key with
          | .error e => .error e
          | .ok ktd =>
            let enumKey := ktd.kind == .enum
            let valueName := if enumKey then trimmed else vtd.name
            let valueFull := if enumKey then trimmed else vtd.fullName
            let mapType := if enumKey then mapTypeText parsedKey trimmed else mapType
            let fullMapType := if enumKey then mapTypeText parsedKey trimmed else fullMapType
            match parsePropText desc.prop with
            | .error e => .error e
            | .ok prop =>
              let field : PField :=
                { name := toSnake trimmed ++ S "_map", typ := mapType, fullType := fullMapType,
                  predefined := if enumKey then false else vtd.predefined,
                  mapEntry := some (parsedKey, valueName, valueFull),
                  optName := trimmed, layout := .incell, prop := wholeProp prop }
              if enumKey then
                match parseBasicField c (S "Key") (desc.key ++ rawProp desc.prop) with
                | .error e => .error e
                | .ok kf =>
                  match parseBasicField c (S "Value") desc.value with
                  | .error e => .error e
                  | .ok vf => .ok (cursor, seen, { field with optKey := S "Key", fields := [kf, vf] })
              else .ok (cursor, seen, field)

def parseListField (fuel : Nat) (h : Header) (c : Ctx) (vt : VT) (seen : Seen) (cursor : Nat) (pfx nameCell typeCell : Str) :
    PRes (Nat × Seen × PField) :=
  match fuel with
  | 0 => .error .fuel
  | fuel + 1 =>
    atCur cursor <|
    match matchList typeCell with
    | none => .error (.err "nil list descriptor")
    | some desc =>
      let trimmed := trimPrefix nameCell pfx
      -- (spanInner, isScalarElement, elemType, pureElemTypeName)
      let elemInfo : PRes (Bool × Bool × Str × Str) :=
        if desc.elem.isEmpty then
          match matchStruct desc.col with
          | some sd =>
            if sd.col.isEmpty then
              match parseTypeDesc c sd.stype with
              | .error e => .error e
              | .ok td => .ok (true, false, sd.stype, td.name)
            else .ok (true, false, sd.col, sd.col)
          | none => .ok (true, true, desc.col, desc.col)
        else
          match parseTypeDesc c desc.elem with
          | .error e => .error e
          | .ok td => .ok (false, false, desc.elem, td.name)
      match elemInfo with
      | .error e => .error e
      | .ok (spanInner, scalarElem, elemType, pureName) =>
        let idx1 := indexOf 49 trimmed
        let layout : PLayout :=
          match idx1 with
          | some (_ + 1) => lookAhead h cursor pfx scalarElem isList
          | _ => if spanInner then .incell else .vertical
        match layout with
        | .vertical =>
          match parseBasicField c trimmed elemType with
          | .error e => .error e
          | .ok sf =>
            match parsePropText desc.prop with
            | .error e => .error e
            | .ok prop =>
              let pfx' := if c.nested then pfx ++ sf.typ else pfx
              let trimmed' := trimPrefix nameCell pfx'
              let keyed := matchKeyedList typeCell
              let colType := match keyed with | some kd => kd.col | none => desc.col
              let field : PField :=
                { sf with typ := S "repeated " ++ sf.typ, fullType := S "repeated " ++ sf.fullType,
                          listEntry := some (sf.typ, sf.fullType), name := toSnake pureName ++ S "_list",
                          optName := if c.nested then sf.typ else [], layout := .vertical,
                          prop := extractList prop (isScalarType sf.typ),
                          optKey := if keyed.isSome then trimmed' else sf.optKey }
              match parseSubField fuel h c ((cursor, colType ++ rawProp desc.prop) :: vt) seen cursor pfx' field with
              | .error e => .error e
              | .ok (cur, seen, field) => loopVert fuel h c vt seen (cur + 1) pfx' c.nested field
        | .horizontal =>
          let listName := trimmed.take (idx1.getD 0)
          let pfx' := pfx ++ listName
          match parseBasicField c trimmed elemType with
          | .error e => .error e
          | .ok sf =>
            match parsePropText desc.prop with
            | .error e => .error e
            | .ok prop =>
              let field : PField :=
                { sf with typ := S "repeated " ++ sf.typ, fullType := S "repeated " ++ sf.fullType,
                          listEntry := some (sf.typ, sf.fullType), name := toSnake listName ++ S "_list",
                          optName := listName, layout := .horizontal, prop := extractList prop (isScalarType sf.typ) }
              let vt' := (cursor, desc.col ++ rawProp desc.prop) :: vt
              if spanInner then
                match forceCur cursor (parseField fuel h c vt' seen cursor (pfx' ++ [49])) with
                | .error e => .error e
                | .ok (_, _, none) => .error (.err "failed to parse list inner cell element")
                | .ok (_, seen, some tf) =>
                  loopHoriz fuel h c vt seen (cursor + 1) pfx' false
                    { field with fields := tf.fields, predefined := tf.predefined, spanInner := tf.spanInner }
              else
                match parseSubField fuel h c vt' seen cursor (pfx' ++ [49]) field with
                | .error e => .error e
                | .ok (cur, seen, field) => loopHoriz fuel h c vt seen (cur + 1) pfx' true field
        | _ =>
          let keyed := matchKeyedList typeCell
          let colType0 := match keyed with | some kd => kd.col | none => desc.col
          let key := if keyed.isSome then trimmed else []
          let pre : PRes (Str × List PField) :=
            if scalarElem then .ok (colType0, [])
            else
              match matchStruct desc.col with
              | some sd =>
                if sd.col.isEmpty then .ok (elemType, [])
                else
                  match parseIncellStruct sd.stype with
                  | .error e => .error e
                  | .ok none => .ok (elemType, [])
                  | .ok (some pairs) =>
                    match basicFields c pairs with
                    | .error e => .error e
                    | .ok fs => .ok (elemType, fs)
              | none => .ok (elemType, [])
          match pre with
          | .error e => .error e
          | .ok (colType, subs) =>
            match parseBasicField c trimmed (colType ++ rawProp desc.prop) with
            | .error e => .error e
            | .ok sf =>
              match parsePropText desc.prop with
              | .error e => .error e
              | .ok prop =>
                .ok (cursor, seen,
                  { sf with fields := subs, name := sf.name ++ S "_list", typ := S "repeated " ++ sf.typ,
                            fullType := S "repeated " ++ sf.fullType, listEntry := some (sf.typ, sf.fullType),
                            optKey := key, prop := extractList prop (isScalarType sf.typ), layout := .incell,
                            spanInner := !scalarElem })

def parseStructField (fuel : Nat) (h : Header) (c : Ctx) (vt : VT) (seen : Seen) (cursor : Nat) (pfx nameCell typeCell : Str) :
    PRes (Nat × Seen × PField) :=
  match fuel with
  | 0 => .error .fuel
  | fuel + 1 =>
    atCur cursor <|
    match matchStruct typeCell with
    | none => .error (.err "nil struct descriptor")
    | some desc =>
      let trimmed := trimPrefix nameCell pfx
      match parsePropText desc.prop with
      | .error e => .error e
      | .ok prop =>
        if desc.col.isEmpty then
          match parseBasicField c trimmed desc.stype with
          | .error e => .error e
          | .ok sf => .ok (cursor, seen, { sf with spanInner := true, prop := extractStruct prop })
        else
          match parseIncellStruct desc.stype with
          | .error e => .error e
          | .ok (some pairs) =>
            match parseBasicField c trimmed desc.col with
            | .error e => .error e
            | .ok sf =>
              match basicFields c pairs with
              | .error e => .error e
              | .ok fs => .ok (cursor, seen, { sf with spanInner := true, prop := extractStruct prop, fields := fs })
          | .ok none =>
            match parseBasicField c trimmed desc.stype with
            | .error e => .error e
            | .ok sf =>
              let structName0 := if desc.custom.isEmpty then sf.typ else desc.custom
              let structName : PRes Str :=
                if sf.predefined then
                  match c.byFullName sf.fullType with
                  | none => .error (.err "predefined type not found")
                  | some ti =>
                    if ti.firstOpt.isEmpty then .error (.err "first field option name not set")
                    else
                      match indexOfSub ti.firstOpt trimmed with
                      | some idx => .ok (trimmed.take idx)
                      | none => .ok structName0
                else .ok structName0
              match structName with
              | .error e => .error e
              | .ok structName =>
                let field : PField :=
                  { sf with name := toSnake structName, optName := structName, optKey := [], layout := .dflt,
                            spanInner := false, prop := extractStruct prop }
                let pfx' := pfx ++ structName
                match parseSubField fuel h c ((cursor, desc.col ++ rawProp desc.prop) :: vt) seen cursor pfx' field with
                | .error e => .error e
                | .ok (cur, seen, field) => loopVert fuel h c vt seen (cur + 1) pfx' true field

end

/-- the column loop of `convertTable` for a default-mode sheet -/
def sheetLoop (fuel : Nat) (h : Header) (c : Ctx) (seen : Seen) (cursor : Nat) (acc : List PField) : PRes (List PField) :=
  match fuel with
  | 0 => .error .fuel
  | fuel + 1 =>
    if cursor < h.names.length then
      match parseField fuel h c [] seen cursor [] with
      | .error e => .error e
      | .ok (cur, seen, none) => sheetLoop fuel h c seen (cur + 1) acc
      | .ok (cur, seen, some f) => sheetLoop fuel h c seen (cur + 1) (acc ++ [f])
    else .ok acc

def defaultFuel (h : Header) : Nat := 4 * h.names.length + 64

/-- the duplicate-name pre-check of `convertTable` over every non-blank name cell: the cursor of the first
repeated name, if any -/
def precheck : List Str → Nat → Seen → Option Nat
  | [], _, _ => none
  | n :: ns, i, seen =>
    if n.isEmpty then precheck ns (i + 1) seen
    else
      match checkConflict seen n i with
      | none => some i
      | some s => precheck ns (i + 1) s

/-- the fields of the worksheet message for header rows (`names`, `types`). (After a successful pre-check no
two non-blank names are equal, so the per-field conflict checks of the loop never fire: the loop starts from
an empty table, which gives the same results.) -/
def parseSheet (c : Ctx) (h : Header) : PRes (List PField) :=
  match precheck h.names 0 [] with
  | none => sheetLoop (defaultFuel h) h c [] 0 []
  | some i => .error (.err "E0003" (some i))

end TableauVerif.Model.Protogen
