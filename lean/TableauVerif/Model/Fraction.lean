/-
Model of the fraction and comparator literals: `internal/x/xproto/value.go: parseFraction,
parseComparator, parseInt32, findFirstDigitOrSignIndex` (cell text already trimmed by `ParseFieldValue`).
Strings containing non-ASCII characters other than the two per-mille suffixes are answered `unmodelled`
(`unicode.IsDigit` decides where a comparator's number starts).
-/
import TableauVerif.Model.Literal
namespace TableauVerif.Model.Fraction
open TableauVerif TableauVerif.Model.Literal

/-- `strconv.ParseInt(s, 10, 32)` followed by the (redundant) range check of `parseInt32` -/
def parseInt32Strict (s : Str) : Option Int :=
  match parseInt64 s with
  | some n => if minInt32 ≤ n && n ≤ maxInt32 then some n else none
  | none => none

inductive FRes where
  | ok (num den : Int)
  | absent
  | err (code : Nat)
  | unmodelled
deriving DecidableEq, Repr

def perMille : Nat := 8240        -- '‰'
def perTenThousand : Nat := 8241  -- '‱'

/-- `parseFraction` on a non-empty text -/
def parseFractionBody (s : Str) : FRes :=
  let split : Option (Str × Option Int) :=
    if s.getLast? == some 37 then some (s.dropLast, some 100)
    else if s.getLast? == some perMille then some (s.dropLast, some 1000)
    else if s.getLast? == some perTenThousand then some (s.dropLast, some 10000)
    else
      match Str.splitFirst 47 s with
      | some (a, b) => some (a, parseInt32Strict b)
      | none => some (s, some 1)
  match split with
  | some (numStr, some den) =>
    match parseInt32Strict numStr with
    | some num => .ok num den
    | none => .err 2019
  | _ => .err 2019

/-- ASCII plus a few non-ASCII characters known not to be Unicode digits (‰ ‱ ≥ é) -/
def asciiOnly (s : Str) : Bool := s.all (fun c => c < 128 || c == perMille || c == perTenThousand || c == 8805 || c == 233)

/-- `ParseFieldValue` on a `tableau.Fraction` field -/
def parseFraction (raw : Str) : FRes :=
  let v := trimSpace raw
  if v.isEmpty then .absent
  else if !asciiOnly v then .unmodelled
  else parseFractionBody v

inductive Sign where
  | eq | ne | lt | le | gt | ge
deriving DecidableEq, Repr

def Sign.number : Sign → Nat
  | .eq => 0 | .ne => 1 | .lt => 2 | .le => 3 | .gt => 4 | .ge => 5

def signOf (s : Str) : Option Sign :=
  if s == [61, 61] then some .eq else if s == [33, 61] then some .ne else if s == [60] then some .lt
  else if s == [60, 61] then some .le else if s == [62] then some .gt else if s == [62, 61] then some .ge else none

inductive CRes where
  | ok (sign : Sign) (num den : Int)
  | absent
  | err (code : Nat)
  | unmodelled
deriving DecidableEq, Repr

/-- `findFirstDigitOrSignIndex` -/
def firstDigitOrSign : Str → Nat → Option Nat
  | [], _ => none
  | c :: cs, i => if Str.isDigit c || c == 45 || c == 43 then some i else firstDigitOrSign cs (i + 1)

/-- `ParseFieldValue` on a `tableau.Comparator` field -/
def parseComparator (raw : Str) : CRes :=
  let v := trimSpace raw
  if v.isEmpty then .absent
  else if !asciiOnly v then .unmodelled
  else
    match firstDigitOrSign v 0 with
    | none => .err 2020
    | some idx =>
      match signOf (trimSpace (v.take idx)) with
      | none => .err 2020
      | some sg =>
        match parseFractionBody (trimSpace (v.drop idx)) with
        | .ok n d => .ok sg n d
        | .err c => .err c
        | .absent => .err 2019
        | .unmodelled => .unmodelled

end TableauVerif.Model.Fraction
