/-
Model of incremental conf generation: `internal/confgen/util.go: buildWorkbookIndex` and
`internal/confgen/confgen.go: GenAll / GenWorkbook`.

A primary book is a generated proto file with workbook options; its *inputs* are its own workbook and the workbooks its
sheets' Merger / Scatter specifiers resolve to (`ResolveSheetSpecifier`, see `Model.Sheets`). The index maps every
input path to the primary books that read it; `GenWorkbook` converts, for every named path, the primary books
indexed under it. Converting a primary book writes the conf files of its sheets: `out b` — a function of the book
and its inputs only (C04: determinism; C16: no hidden history).

Tied to the code by `e2e.C18.related`: generated trees (primary books with merger / scatter sources shared between
several of them, books that are both primary and a source), the real GenProto, then the real incremental
`Generate(path)` into an empty directory: the set of conf files written must be `filesOf (genWorkbook books [path])`.
-/
import TableauVerif.Model.Basic
namespace TableauVerif.Model.Incremental
open TableauVerif

structure PBook where
  name : Str                -- workbook path recorded in the proto file
  sources : List Str        -- paths its Merger / Scatter specifiers resolve to
  outputs : List Str        -- conf files written when it is converted
deriving Repr, DecidableEq

/-- `bookIndexes[path].books`: the primary books that read `path` -/
def related (books : List PBook) (path : Str) : List PBook :=
  books.filter fun b => b.name == path || b.sources.contains path

/-- the books `GenWorkbook(paths…)` converts (a book named twice is converted twice) -/
def genWorkbook (books : List PBook) (paths : List Str) : List PBook := paths.flatMap (related books)

/-- named paths no primary book reads: `GenWorkbook` refuses them ("primary workbook not found") unless
`IgnoreUnknownWorkbook` is set -/
def unknown (books : List PBook) (paths : List Str) : List Str := paths.filter fun p => (related books p).isEmpty

/-- the books `GenAll` converts -/
def genAll (books : List PBook) : List PBook := books

/-- the files a run writes; `content b f` = what converting `b` writes into `f` -/
def written {γ : Type} (content : PBook → Str → γ) (converted : List PBook) : List (Str × γ) :=
  converted.flatMap fun b => b.outputs.map fun f => (f, content b f)

end TableauVerif.Model.Incremental
