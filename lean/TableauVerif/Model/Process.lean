/-
Model of the process-wide caches (C16): enum alias tables (`xproto.EnumCache`), referred value
spaces (`fieldprop.ReferredCache`): lazily filled, never invalidated.

A call has an identity `inp` of its inputs (the proto registry / descriptors and input directory it
runs on). A lookup asks for the table named `name`; the pure loader gives `load inp name`. The cache is
keyed by `keyOf inp name`. Before the D15 fixes the key was the NAME only; after them it contains the
input identity (descriptor pointer / registry pointer + input dir).
-/
namespace TableauVerif.Model.Process

/-- one cache lookup of a call: (inputs identity, table name) -/
abbrev Lookup := Nat × Nat

structure Cache (K T : Type) where
  entries : List (K × T)

def Cache.get? {K T : Type} [DecidableEq K] (c : Cache K T) (k : K) : Option T :=
  (c.entries.find? (fun e => e.1 == k)).map (·.2)

/-- `GetValueByAlias` / `ExistsValue`: use the cached table if the key is present, else load and insert -/
def step {K T : Type} [DecidableEq K] (keyOf : Nat → Nat → K) (load : Nat → Nat → T) (c : Cache K T) (l : Lookup) : Cache K T × T :=
  match c.get? (keyOf l.1 l.2) with
  | some t => (c, t)
  | none => let t := load l.1 l.2; ({ entries := (keyOf l.1 l.2, t) :: c.entries }, t)

/-- run a history of lookups, collecting the tables each lookup worked with -/
def run {K T : Type} [DecidableEq K] (keyOf : Nat → Nat → K) (load : Nat → Nat → T) : Cache K T → List Lookup → Cache K T × List T
  | c, [] => (c, [])
  | c, l :: rest =>
    let (c1, t) := step keyOf load c l
    let (c2, ts) := run keyOf load c1 rest
    (c2, t :: ts)

end TableauVerif.Model.Process
