/-
Model of the confgen table parser.

Mirrors (Go): `internal/confgen/table_parser.go` (Parse, parseMessage, parseField, vertical /
horizontal / in-cell maps and lists, keyed lists, cross-cell and in-cell structs, scalars),
`internal/confgen/parser.go` (parseMapKey, deduceMapKeyUnique, parseIncellMap*, parseListElems,
parseIncellStruct, parseFieldValue with presence/range), `internal/importer/book/cell.go`
(RowCells.Cell, GetCellCountWithPrefix, CellDebugKV, NewCell incl. adjacent-key population),
`internal/importer/book/table.go` (Cell), `ExtractFromCell`.

Design (DESIGN.md C10): the core parser sees a data line only through two accessors
  `dat   : column name → data of that column (none = no such column)`
  `count : prefix → GetCellCountWithPrefix`
and errors carry `(code, innermost column name)`; the reported position is computed afterwards from
the column name (`Row.position`). Layout-invariance theorems are then statements about accessors.

Not modelled (the generators do not produce them): enums, floats, bytes, well-known types, unions,
text/JSON struct forms, refer, default values.
-/
import TableauVerif.Model.Val
import TableauVerif.Model.Literal
import TableauVerif.Model.FieldProp
import TableauVerif.Model.Options
import TableauVerif.Model.Excel
namespace TableauVerif.Model.TableParser
open TableauVerif TableauVerif.Val

/-! ### descriptors as the table parser sees them (`parseFieldDescriptor` view) -/

inductive SKind where
  | int32 | uint32 | int64 | uint64 | bool | string
deriving DecidableEq, Repr

inductive Layout where
  | dflt | vertical | horizontal | incell
deriving DecidableEq, Repr

structure FProp where
  unique : Option Bool := none
  range : Str := []
  present : Bool := false
  optional : Bool := false
  fixed : Bool := false
  size : Nat := 0
  sequence : Option Int := none
deriving DecidableEq, Repr

/-- one field: `opts.Name`, `opts.Key`, cardinality, layout, span, element kind (`some k` scalar,
`none` message with fields `sub`), field property, field-level separators (empty = unset),
`snake(Key)` for keyed lists, and for scalar maps the key kind -/
inductive TField where
  | mk (num : Nat) (name key : Str) (card : Card) (layout : Layout) (incellSpan : Bool)
       (kind : Option SKind) (keyKind : Option SKind) (sub : List TField)
       (prop : FProp) (propSep propSubsep : Str) (keyProto : Str) (protoName : Str)
deriving Repr

namespace TField
def num : TField → Nat | .mk n _ _ _ _ _ _ _ _ _ _ _ _ _ => n
def name : TField → Str | .mk _ n _ _ _ _ _ _ _ _ _ _ _ _ => n
def key : TField → Str | .mk _ _ k _ _ _ _ _ _ _ _ _ _ _ => k
def card : TField → Card | .mk _ _ _ c _ _ _ _ _ _ _ _ _ _ => c
def layout : TField → Layout | .mk _ _ _ _ l _ _ _ _ _ _ _ _ _ => l
def incellSpan : TField → Bool | .mk _ _ _ _ _ s _ _ _ _ _ _ _ _ => s
def kind : TField → Option SKind | .mk _ _ _ _ _ _ k _ _ _ _ _ _ _ => k
def keyKind : TField → Option SKind | .mk _ _ _ _ _ _ _ k _ _ _ _ _ _ => k
def sub : TField → List TField | .mk _ _ _ _ _ _ _ _ s _ _ _ _ _ => s
def prop : TField → FProp | .mk _ _ _ _ _ _ _ _ _ p _ _ _ _ => p
def propSep : TField → Str | .mk _ _ _ _ _ _ _ _ _ _ s _ _ _ => s
def propSubsep : TField → Str | .mk _ _ _ _ _ _ _ _ _ _ _ s _ _ => s
def keyProto : TField → Str | .mk _ _ _ _ _ _ _ _ _ _ _ _ k _ => k
def protoName : TField → Str | .mk _ _ _ _ _ _ _ _ _ _ _ _ _ p => p
end TField

/-- sheet-level context -/
structure Ctx where
  sheetSep : Str := []
  bookSep : Str := []
  sheetSubsep : Str := []
  bookSubsep : Str := []
  sheetOptional : Bool := false
  tableFormat : Bool := true      -- book format is Excel/CSV (`deduceMapKeyUnique` only deduces then)
deriving Repr

def Ctx.sepOf (c : Ctx) (f : TField) : Str :=
  if f.propSep.isEmpty then (if !c.sheetSep.isEmpty then c.sheetSep else if !c.bookSep.isEmpty then c.bookSep else [44]) else f.propSep
def Ctx.subsepOf (c : Ctx) (f : TField) : Str :=
  if f.propSubsep.isEmpty then (if !c.sheetSubsep.isEmpty then c.sheetSubsep else if !c.bookSubsep.isEmpty then c.bookSubsep else [58]) else f.propSubsep

def Ctx.isOptional (c : Ctx) (f : TField) : Bool := c.sheetOptional || f.prop.optional

/-! ### a data line as the core parser sees it -/

structure RowAcc where
  dat : Str → Option Str
  count : Str → Nat

/-- error of the core parser: E-code (0 = uncoded) and the innermost column name attached by a
`CellDebugKV` wrap (the one `NewDesc` shows) -/
structure PErr where
  code : Nat
  col : Option Str := none
deriving DecidableEq, Repr

abbrev M := Except PErr
abbrev Msg := List (Nat × Val)

def unmodelledCode : Nat := 999999

def wrapCol {α : Type} (name : Str) : M α → M α
  | .error e => .error (match e.col with | some _ => e | none => { e with col := some name })
  | .ok a => .ok a

/-- `rc.Cell(name, optional)` -/
def cellOf (acc : RowAcc) (name : Str) (optional : Bool) : M Str :=
  match acc.dat name with
  | some d => .ok d
  | none => if optional then .ok [] else .error { code := 2014 }

/-! ### scalars -/

def toLitKind : SKind → Option Literal.Kind
  | .int32 => some .int32 | .uint32 => some .uint32 | .int64 => some .int64 | .uint64 => some .uint64
  | .bool => some .bool | .string => none

def toRKind : SKind → FieldProp.RKind
  | .int32 | .int64 => .signed
  | .uint32 | .uint64 => .unsigned
  | .string => .strlen
  | .bool => .other

def isZero : Val → Bool
  | .int 0 => true
  | .str [] => true
  | _ => false

def zeroOf : SKind → Val
  | .string => .str []
  | _ => .int 0

/-- `xproto.ParseFieldValue` for the modelled kinds: value and presence -/
def parseLit (k : SKind) (raw : Str) : M (Val × Bool) :=
  match toLitKind k with
  | none => .ok (.str raw, !raw.isEmpty)            -- string: no trimming; present iff non-empty (no field presence)
  | some lk =>
    match Literal.parse lk raw with
    | .ok v => .ok (.int v, true)
    | .absent => .ok (.int 0, false)
    | .err c => .error { code := c }
    | .unmodelled => .error { code := unmodelledCode }

/-- `sheetParser.parseFieldValue`: literal, then (with a field property) presence → range -/
def parseFieldValue (k : SKind) (raw : Str) (p : Option FProp) : M (Val × Bool) := do
  let (v, present) ← parseLit k raw
  match p with
  | none => pure (v, present)
  | some p =>
    if p.present && !present then throw { code := 2011 }
    let iv : Int := match v with | .int i => i | .str s => (s.length : Int) | _ => 0
    match FieldProp.checkInRange p.range (toRKind k) iv present p.present with
    | .ok => pure (v, present)
    | .e2004 => throw { code := 2004 }
    | .invalid => throw { code := 0 }
    | .panic => throw { code := 0 }

/-- `msg.Set(fd, v)` on an implicit-presence scalar: a zero value leaves the field unpopulated -/
def setScalar (m : Msg) (n : Nat) (v : Val) : Msg := if isZero v then delF m n else setF m n v

def getList (m : Msg) (n : Nat) : List Val := match getF m n with | some (.list l) => l | _ => []
def getMap (m : Msg) (n : Nat) : List (Val × Val) := match getF m n with | some (.map l) => l | _ => []
def getMsg (m : Msg) (n : Nat) : Msg := match getF m n with | some (.msg l) => l | _ => []
def setList (m : Msg) (n : Nat) (l : List Val) : Msg := if l.isEmpty then delF m n else setF m n (.list l)
def setMap (m : Msg) (n : Nat) (l : List (Val × Val)) : Msg := if l.isEmpty then delF m n else setF m n (.map l)
def has (m : Msg) (n : Nat) : Bool := (getF m n).isSome

def isFixed (p : FProp) : Bool := FieldProp.isFixed p.fixed p.size
def fixedSize (p : FProp) (detected : Nat) : Nat := FieldProp.getSize p.fixed p.size detected

/-- `strings.Split(s, sep)` for a non-empty separator -/
def splitStr (sep : Str) (s : Str) : List Str :=
  if sep.isEmpty then [s] else go sep s [] s.length
where
  go (sep : Str) (rest : Str) (cur : Str) : Nat → List Str
    | 0 => [cur.reverse ++ rest]
    | fuel + 1 =>
      match rest with
      | [] => [cur.reverse]
      | c :: cs =>
        if sep.isPrefixOf rest then cur.reverse :: go sep (rest.drop sep.length) [] fuel
        else go sep cs (c :: cur) fuel

/-- `strings.SplitN(s, sep, 2)` -/
def splitN2 (sep : Str) (s : Str) : Str × Option Str :=
  if sep.isEmpty then (s, none) else go sep s [] s.length
where
  go (sep : Str) (rest : Str) (cur : Str) : Nat → Str × Option Str
    | 0 => (cur.reverse ++ rest, none)
    | fuel + 1 =>
      match rest with
      | [] => (cur.reverse, none)
      | c :: cs =>
        if sep.isPrefixOf rest then (cur.reverse, some (rest.drop sep.length))
        else go sep cs (c :: cur) fuel

/-! ### in-cell aggregates (`parser.go`) -/

/-- scalar fields of an in-cell struct: (field number, kind) in declaration order -/
def scalarFields (sub : List TField) : List (Nat × SKind) :=
  sub.filterMap fun f => match f.card, f.kind with | .one, some k => some (f.num, k) | _, _ => none

/-- `parseIncellStruct` (default form): split by `sep`, fields by index; every parsed value is `Set`
unconditionally (so a zero stays unpopulated anyway), present iff some part present.
Only structs whose fields are all singular scalars are modelled. -/
def parseIncellStruct (sub : List TField) (cell : Str) (sep : Str) (old : Msg := []) : M (Msg × Bool) :=
  if cell.isEmpty then .ok (old, false) else
  let parts := splitStr sep cell
  let fs := scalarFields sub
  if fs.length != sub.length then .error { code := unmodelledCode } else
  let rec go : List (Nat × SKind) → List Str → Msg → Bool → M (Msg × Bool)
    | [], _, m, p => .ok (m, p)
    | _, [], m, p => .ok (m, p)
    | (n, k) :: fs, part :: parts, m, p => do
      let (v, fp) ← parseFieldValue k part none
      go fs parts (setScalar m n v) (p || fp)
  go fs parts old false

/-- one element of an in-cell list -/
def parseListElem (f : TField) (elem : Str) (subsep : Str) : M (Val × Bool) :=
  match f.kind with
  | some k => parseFieldValue k elem (some f.prop)
  | none => do
    let (m, p) ← parseIncellStruct f.sub elem subsep
    pure (.msg m, p)

def valEq : Val → Val → Bool
  | .int a, .int b => a == b
  | .str a, .str b => a == b
  | .flt a, .flt b => a == b
  | .msg a, .msg b => msgEq a b
  | .list a, .list b => listEq a b
  | .map a, .map b => mapEq a b
  | _, _ => false
where
  msgEq : List (Nat × Val) → List (Nat × Val) → Bool
    | [], [] => true
    | (n, v) :: r, (n', v') :: r' => n == n' && valEq v v' && msgEq r r'
    | _, _ => false
  listEq : List Val → List Val → Bool
    | [], [] => true
    | v :: r, v' :: r' => valEq v v' && listEq r r'
    | _, _ => false
  mapEq : List (Val × Val) → List (Val × Val) → Bool
    | [], [] => true
    | (k, v) :: r, (k', v') :: r' => valEq k k' && valEq v v' && mapEq r r'
    | _, _ => false

/-- `parseListElems`: contiguity (E2016), size squeeze, fixed padding, keyed in-cell de-duplication -/
def parseListElems (f : TField) (subsep : Str) (elems : List Str) (existing : List Val) : M (List Val × Bool) :=
  let detected := elems.length
  let fx := fixedSize f.prop detected
  let size := if fx > 0 && fx < detected then fx else detected
  let rec go : List Str → Nat → Nat → List Val → M (List Val)
    | [], _, _, acc => .ok acc
    | e :: es, i, firstNone, acc =>
      if i > size then .ok acc else do
      let (v, p) ← parseListElem f e subsep
      if firstNone != 0 then
        if p then throw { code := 2016 } else go es (i + 1) firstNone acc
      else if !p && !isFixed f.prop then go es (i + 1) i acc
      else if !f.key.isEmpty then
        if acc.any (fun x => valEq x v) then go es (i + 1) firstNone acc else go es (i + 1) firstNone (acc ++ [v])
      else go es (i + 1) firstNone (acc ++ [v])
  do
    let l ← go elems 1 0 existing
    let empty : Val := match f.kind with | some k => zeroOf k | none => .msg []
    let padded := if isFixed f.prop && l.length < fx then l ++ List.replicate (fx - l.length) empty else l
    pure (padded, !padded.isEmpty)

/-- key field of a map's value message: the sub-field whose option name equals `opts.Key` -/
def findKeyField (f : TField) : Option TField := f.sub.find? (fun s => s.name == f.key)

def keyOfVal (k : SKind) (v : Val) : Val := match k, v with | _, v => v

/-- `parseMapKey`: parse with the map field's property, then the sequence check (E2003) -/
def parseMapKey (f : TField) (entries : List (Val × Val)) (cell : Str) : M (Val × Bool) :=
  match findKeyField f with
  | none => .error { code := 0 }
  | some kf =>
    match kf.kind with
    | none => .error { code := unmodelledCode }
    | some k => do
      let (v, present) ← parseFieldValue k cell (some f.prop)
      match f.prop.sequence with
      | none => pure (v, present)
      | some s =>
        match v with
        | .int i =>
          let keys := entries.filterMap (fun e => match e.1 with | .int j => some j | _ => none)
          if FieldProp.checkSequence (some s) i keys then pure (v, present) else throw { code := 2003 }
        | _ => throw { code := 2003 }

/-- `parseIncellMapWithSimpleKV` -/
def parseIncellMapKV (f : TField) (kk vk : SKind) (sep subsep : Str) (cell : Str) (entries : List (Val × Val)) : M (List (Val × Val)) :=
  if cell.isEmpty then .ok entries else
  let rec go : List Str → List (Val × Val) → M (List (Val × Val))
    | [], acc => .ok acc
    | item :: rest, acc => do
      let (ks, vs) := splitN2 subsep item
      let (kv, kp) ← parseFieldValue kk ks (some f.prop)
      let (vv, vp) ← parseFieldValue vk (vs.getD []) none
      if !kp && !vp then pure acc else go rest (setE acc kv vv)
  go (splitStr sep cell) entries

/-- `parseIncellMapWithValueAsSimpleKVMessage`: value parsed from the WHOLE item -/
def parseIncellMapKVMsg (f : TField) (sep subsep : Str) (cell : Str) (entries : List (Val × Val)) : M (List (Val × Val)) :=
  if cell.isEmpty then .ok entries else
  let rec go : List Str → List (Val × Val) → M (List (Val × Val))
    | [], acc => .ok acc
    | item :: rest, acc => do
      let (ks, _) := splitN2 subsep item
      let (kv, kp) ← parseMapKey f acc ks
      let (vm, vp) ← parseIncellStruct f.sub item subsep
      if !kp && !vp then pure acc else go rest (setE acc kv (.msg vm))
  go (splitStr sep cell) entries

/-! ### `deduceMapKeyUnique` -/
def effLayoutMap (l : Layout) : Layout := if l == .dflt then .vertical else l
def effLayoutList (l : Layout) : Layout := if l == .dflt then .horizontal else l

def deduceUnique (c : Ctx) (f : TField) : Bool :=
  if !c.tableFormat then false
  else if f.layout == .incell then true
  else
    let layout := effLayoutMap f.layout
    !(f.sub.any fun ch =>
        match ch.card with
        | .map => let cl := effLayoutMap ch.layout; cl != .incell && cl == layout
        | .list => let cl := effLayoutList ch.layout; cl != .incell && cl == layout
        | .one => false)

def mustBeUnique (c : Ctx) (f : TField) : Bool :=
  f.prop.unique == some true || (f.prop.unique == none && deduceUnique c f)

/-! ### loops used by the horizontal layouts (outside the mutual block) -/

/-- horizontal list loop over `i = 1..size`; `elemAt i` parses element `i` -/
def hlistLoop (p : FProp) (elemAt : Nat → M (Val × Bool)) (colAt : Nat → Str) :
    Nat → Nat → Nat → List Val → M (List Val)
  | 0, _, _, acc => .ok acc
  | fuel + 1, i, firstNone, acc => do
    let (v, present) ← wrapCol (colAt i) (elemAt i)
    if firstNone != 0 then
      if present then wrapCol (colAt i) (throw { code := 2016 }) else hlistLoop p elemAt colAt fuel (i + 1) firstNone acc
    else if !present && !isFixed p then hlistLoop p elemAt colAt fuel (i + 1) i acc
    else hlistLoop p elemAt colAt fuel (i + 1) firstNone (acc ++ [v])

/-- result of one horizontal-map item: continue with new entries / flag, or stop -/
inductive HStep where
  | next (entries : List (Val × Val)) (checkRemain : Bool)
  | stop (entries : List (Val × Val))

def hmapLoop (itemAt : Nat → List (Val × Val) → Bool → M HStep) :
    Nat → Nat → List (Val × Val) → Bool → M (List (Val × Val))
  | 0, _, es, _ => .ok es
  | fuel + 1, i, es, cr => do
    match ← itemAt i es cr with
    | .next es' cr' => hmapLoop itemAt fuel (i + 1) es' cr'
    | .stop es' => pure es'

/-! ### the recursive descent over the descriptor -/

mutual
  /-- `parseMessage(msg, rc, prefix)`: fields in descriptor order; present iff some field present -/
  def parseFields (c : Ctx) (acc : RowAcc) : List TField → Msg → Str → M (Msg × Bool)
    | [], m, _ => .ok (m, false)
    | f :: rest, m, pre => do
      let (m1, p1) ← parseField c acc f m pre
      let (m2, p2) ← parseFields c acc rest m1 pre
      pure (m2, p1 || p2)

  def parseField (c : Ctx) (acc : RowAcc) : TField → Msg → Str → M (Msg × Bool)
    | .mk num name key card layout incellSpan kind keyKind sub prop propSep propSubsep keyProto protoName, m, pre =>
      let f : TField := .mk num name key card layout incellSpan kind keyKind sub prop propSep propSubsep keyProto protoName
      let opt := c.isOptional f
      match card with
      | .map =>
        match layout with
        | .dflt | .vertical =>
          -- parseVerticalMapField
          if kind.isSome then .error { code := 0 } else
          let keyCol := pre ++ name ++ key
          wrapCol keyCol (do
            let cell ← cellOf acc keyCol opt
            let entries := getMap m num
            let (k, keyPresent) ← parseMapKey f entries cell
            let existing := getE entries k
            if !keyPresent && existing.isSome then
              -- value must be empty if key not present
              let (_, vp) ← parseFields c acc sub [] (pre ++ name)
              if vp then throw { code := 2017 } else pure (m, false)
            else do
              let old : Msg := match existing with | some (.msg l) => l | _ => []
              let (vm, valuePresent) ← parseFields c acc sub old (pre ++ name)
              if existing.isSome && mustBeUnique c f then throw { code := 2005 }
              else if !keyPresent && !valuePresent then
                -- an existing entry was obtained through Mutable: it has been updated in place
                pure (if existing.isSome then setMap m num (setE entries k (.msg vm)) else m, false)
              else pure (setMap m num (setE entries k (.msg vm)), true))
        | .horizontal =>
          if kind.isSome then .error { code := 0 } else
          if has m num then .ok (m, true) else
          let detected := acc.count (pre ++ name)
          if detected == 0 then .error { code := 0 } else
          let fx := fixedSize prop detected
          let size := if fx > 0 && fx < detected then fx else detected
          do
            let es ← hmapLoop (fun i entries checkRemain =>
              let keyCol := pre ++ name ++ Str.decimal i ++ key
              wrapCol keyCol (do
                let cell ← cellOf acc keyCol opt
                let (k, keyPresent) ← parseMapKey f entries cell
                let existing := getE entries k
                if !keyPresent && existing.isSome then
                  let (_, vp) ← parseFields c acc sub [] (pre ++ name ++ Str.decimal i)
                  if vp then throw { code := 2017 } else pure (HStep.stop entries)
                else do
                  let old : Msg := match existing with | some (.msg l) => l | _ => []
                  let (vm, valuePresent) ← parseFields c acc sub old (pre ++ name ++ Str.decimal i)
                  let entries' := if existing.isSome then setE entries k (.msg vm) else entries
                  if checkRemain then
                    if keyPresent || valuePresent then throw { code := 0 } else pure (HStep.next entries' true)
                  else if !keyPresent && !valuePresent && !isFixed prop then pure (HStep.next entries' true)
                  else if existing.isSome && mustBeUnique c f then throw { code := 2005 }
                  else pure (HStep.next (setE entries k (.msg vm)) false)))
              size 1 [] false
            let m' := setMap m num es
            pure (m', has m' num)
        | .incell =>
          let col := pre ++ name
          wrapCol col (do
            let cell ← cellOf acc col opt
            let entries := getMap m num
            let es ← (match kind, keyKind with
              | some vk, some kk => parseIncellMapKV f kk vk (c.sepOf f) (c.subsepOf f) cell entries
              | none, _ =>
                  -- value must be a {Key, Value} struct
                  if sub.length == 2 && (sub.map (·.name)) == [Str.ofString "Key", Str.ofString "Value"]
                  then parseIncellMapKVMsg f (c.sepOf f) (c.subsepOf f) cell entries
                  else throw { code := 0 }
              | _, _ => throw { code := unmodelledCode })
            let m' := setMap m num es
            pure (m', has m' num))
      | .list =>
        match layout with
        | .vertical =>
          if kind.isSome then .error { code := 0 } else
          let l := getList m num
          if !key.isEmpty then
            -- keyed list: an existing element with an equal key is extended in place
            let keyCol := pre ++ name ++ key
            match sub.find? (fun s => s.protoName == keyProto) with
            | none => wrapCol keyCol (.error { code := 0 })
            | some kf =>
              match kf.kind with
              | none => .error { code := unmodelledCode }
              | some kk => do
                let (kv, keyPresent) ← wrapCol keyCol (do
                  let cell ← cellOf acc keyCol opt
                  parseFieldValue kk cell (some prop))
                let kvNorm : Option Val := if isZero kv then none else some kv
                let idx := l.findIdx? (fun e => match e with
                  | .msg fs => (match getF fs kf.num, kvNorm with
                      | none, none => true
                      | some a, some b => valEq a b
                      | _, _ => false)
                  | _ => false)
                let old : Msg := match idx with | some i => (match l.getD i (.msg []) with | .msg fs => fs | _ => []) | none => []
                let (em, elemPresent) ← parseFields c acc sub old (pre ++ name)
                if !keyPresent && !elemPresent then
                  pure (match idx with | some i => setList m num (l.set i (.msg em)) | none => m, false)
                else match idx with
                  | some i => pure (setList m num (l.set i (.msg em)), false)
                  | none => pure (setList m num (l ++ [.msg em]), true)
          else do
            let (em, elemPresent) ← parseFields c acc sub [] (pre ++ name)
            if elemPresent then pure (setList m num (l ++ [.msg em]), true) else pure (m, false)
        | .dflt | .horizontal =>
          if has m num then .ok (m, true) else
          let detected := acc.count (pre ++ name)
          if detected == 0 then .error { code := 0 } else
          let fx := fixedSize prop detected
          let size := if fx > 0 && fx < detected then fx else detected
          let colAt := fun i => pre ++ name ++ Str.decimal i
          do
            let l ← hlistLoop prop (fun i =>
                match kind with
                | some k => do
                  let cell ← cellOf acc (colAt i) opt
                  parseFieldValue k cell (some prop)
                | none =>
                  if incellSpan then do
                    let cell ← cellOf acc (colAt i) opt
                    let (em, p) ← parseIncellStruct sub cell (c.sepOf f)
                    pure (.msg em, p)
                  else do
                    let (em, p) ← parseFields c acc sub [] (colAt i)
                    pure (.msg em, p))
              colAt size 1 0 []
            let empty : Val := match kind with | some k => zeroOf k | none => .msg []
            let padded := if isFixed prop && l.length < fx then l ++ List.replicate (fx - l.length) empty else l
            let m' := setList m num padded
            pure (m', has m' num)
        | .incell =>
          let col := pre ++ name
          wrapCol col (do
            let cell ← cellOf acc col opt
            let (l, present) ← parseListElems f (c.subsepOf f) (splitStr (c.sepOf f) cell) (getList m num)
            pure (setList m num l, present))
      | .one =>
        match kind with
        | some k =>
          -- parseScalarField: first present wins
          if has m num then .ok (m, true) else
          let col := pre ++ name
          wrapCol col (do
            let cell ← cellOf acc col opt
            let (v, present) ← parseFieldValue k cell (some prop)
            pure (if present then setScalar m num v else m, present))
        | none =>
          -- parseStructField
          let col := pre ++ name
          wrapCol col (do
            let old : Msg := getMsg m num
            if incellSpan then do
              let cell ← cellOf acc col opt
              -- an existing struct is written through (Mutable): every parsed part is `Set` on it, zeros included
              let (sm, present) ← parseIncellStruct sub cell (c.sepOf f) old
              pure (if present || has m num then setF m num (.msg sm) else m, present)
            else do
              let (sm, present) ← parseFields c acc sub old (pre ++ name)
              pure (if present || has m num then setF m num (.msg sm) else m, present))
end

/-! ### rows: `NewTable`, `RowCells`, adjacent-key population -/

abbrev Grid := List (List Str)

/-- `Table.Cell(row, col)`: `""` beyond a short row; `none` = out of the table's bounds -/
def Grid.maxCol (g : Grid) : Nat := g.foldl (fun a r => max a r.length) 0
def Grid.cell (g : Grid) (r c : Nat) : Option Str :=
  if r < g.length && c < g.maxCol then some ((g.getD r []).getD c []) else none

/-- `ExtractFromCell` -/
def extractFromCell (cell : Str) (line : Int) : Str :=
  if line == 0 then (Literal.trimSpace cell).filter (fun ch => ch != 13 && ch != 10)
  else
    let lines := Str.splitOn 10 cell
    if (lines.length : Int) ≥ line then Literal.trimSpace (lines.getD (line.toNat - 1) []) else []

/-- one concrete data line: per column (name, data, autoPopulated) -/
structure Row where
  cells : List (Str × Str × Bool)
  index : Nat            -- `RowCells.Row`: sheet row (or sheet column when transposed)
  transposed : Bool := false
deriving Repr

/-- column lookup table: the FIRST column carrying the name (names are unique once `Parse` has
checked for E0003); blank names are not in the table (fix D14) -/
def lookupCells : List (Str × Str × Bool) → Str → Nat → Option (Nat × Str × Bool)
  | [], _, _ => none
  | (n, d, a) :: rest, name, i => if n == name then some (i, d, a) else lookupCells rest name (i + 1)

def Row.lookup (r : Row) (name : Str) : Option (Nat × Str × Bool) :=
  if name.isEmpty then none else lookupCells r.cells name 0

/-- `GetCellCountWithPrefix` -/
def leadingNumber : Str → Nat → Nat
  | [], acc => acc
  | ch :: rest, acc => if Str.isDigit ch then leadingNumber rest (acc * 10 + (ch - 48)) else acc

def cellCount (pre : Str) (sz : Nat) (cell : Str × Str × Bool) : Nat :=
  if pre.isPrefixOf cell.1 then max sz (leadingNumber (cell.1.drop pre.length) 0) else sz

def Row.count (r : Row) (pre : Str) : Nat := r.cells.foldl (cellCount pre) 0

def Row.acc (r : Row) : RowAcc := { dat := fun n => (r.lookup n).map (·.2.1), count := r.count }

/-- A1 text of cell number `col` of this line: column letters come from the sheet column, the number
from the sheet row (for a transposed sheet the line index is the sheet column — fix D13) -/
def Row.a1 (r : Row) (col : Nat) : Str :=
  if r.transposed then Excel.letterAxis r.index ++ Str.decimal (col + 1)
  else Excel.letterAxis col ++ Str.decimal (r.index + 1)

/-- `CellDebugKV(name)`: position text and data text -/
def Row.position (r : Row) (name : Str) : Str × Str :=
  match r.lookup name with
  | some (col, d, auto) => (r.a1 col, if auto then d ++ [126] else d)
  | none =>
    let idxs := (r.cells.zipIdx.filter (fun p => name.isPrefixOf p.1.1)).map (·.2)
    let axis (c : Nat) : Str := if r.transposed then Str.decimal (c + 1) else Excel.letterAxis c
    let fin (colTxt : Str) : Str := if r.transposed then Excel.letterAxis r.index ++ colTxt else colTxt ++ Str.decimal (r.index + 1)
    match idxs.head?, idxs.getLast? with
    | some lo, some hi =>
      let dl := ((r.cells.getD lo ([], [], false)).2.1)
      let dh := ((r.cells.getD hi ([], [], false)).2.1)
      (fin (Str.ofString "[" ++ axis lo ++ Str.ofString "..." ++ axis hi ++ Str.ofString "]"),
       Str.ofString "[" ++ dl ++ Str.ofString "..." ++ dh ++ Str.ofString "]")
    | _, _ => (fin (Str.ofString "?"), [])

structure SheetOpts where
  hdr : Options.Header
  transpose : Bool := false
  adjacentKey : Bool := false
deriving Repr

inductive PRes where
  | ok (m : Msg)
  | err (code : Nat) (pos : Str) (cell : Str) (col : Str)
  | e0003 (name : Str)
  | badTable                       -- a header cell outside the table (uncoded error)
  | unmodelled
deriving Repr

/-- the outcome without the position details (which legitimately move with the columns) -/
inductive Core where
  | ok (m : Msg) | err (code : Nat) (col : Str) | e0003 | badTable | unmodelled
deriving Repr

def PRes.core : PRes → Core
  | .ok m => .ok m
  | .err code _ _ col => .err code col
  | .e0003 _ => .e0003
  | .badTable => .badTable
  | .unmodelled => .unmodelled

/-- data lines of the sheet in parse order with their header names: non-transposed = rows from
`DataRow`, transposed = columns from `DataRow` -/
def lineCount (g : Grid) (o : SheetOpts) : Nat := if o.transpose then g.maxCol else g.length
def lineWidth (g : Grid) (o : SheetOpts) : Nat := if o.transpose then g.length else g.maxCol
def cellAt (g : Grid) (o : SheetOpts) (line pos : Nat) : Option Str :=
  if o.transpose then g.cell pos line else g.cell line pos

/-- first non-blank name occurring at two different positions (E0003), scanning positions in order -/
def firstDupGo : List Str → List Str → Option Str
  | [], _ => none
  | n :: rest, seen => if !n.isEmpty && seen.contains n then some n else firstDupGo rest (n :: seen)

def firstDup (names : List Str) : Option Str := firstDupGo names []

/-- column-major view of the data area: (header name, data of every data line) -/
abbrev Cols := List (Str × List Str)

def Cols.row (cols : Cols) (i : Nat) (index : Nat) (transposed : Bool) : Row :=
  { cells := cols.map (fun c => (c.1, c.2.getD i [], false)), index := index, transposed := transposed }

def finishErr (row : Row) (e : PErr) : PRes :=
  if e.code == unmodelledCode then .unmodelled else
  match e.col with
  | some col => let (pos, d) := row.position col; .err e.code pos d col
  | none => .err e.code [] [] []

/-- a data line whose named columns are all blank (cells under blank name cells belong to no column) -/
def Row.blank (r : Row) : Bool := r.cells.all (fun c => c.1.isEmpty || c.2.1.isEmpty)

/-- every data line parsed, in order, into the same message; `first` = sheet index of data line 0.
A line whose named columns are all blank states nothing and is skipped (fix D35). -/
def parseLines (c : Ctx) (fields : List TField) (cols : Cols) (first : Nat) (transposed : Bool) : Nat → Nat → Msg → PRes
  | 0, _, m => .ok m
  | fuel + 1, i, m =>
    let row := cols.row i (first + i) transposed
    if row.blank then parseLines c fields cols first transposed fuel (i + 1) m else
    match parseFields c row.acc fields m [] with
    | .ok (m', _) => parseLines c fields cols first transposed fuel (i + 1) m'
    | .error e => finishErr row e

def parseCols (c : Ctx) (fields : List TField) (cols : Cols) (nData first : Nat) (transposed : Bool) : PRes :=
  match firstDup (cols.map (·.1)) with
  | some n => .e0003 n
  | none => parseLines c fields cols first transposed nData 0 []

/-- header names and data columns of a grid under the sheet options (`none` = a header cell lies
outside the table: uncoded error) -/
def toCols (o : SheetOpts) (g : Grid) : Option Cols :=
  let first := (o.hdr.dataRow - 1).toNat
  let nLines := lineCount g o
  let width := lineWidth g o
  let nameLine := (o.hdr.nameRow - 1)
  if nameLine < 0 then none else
  if o.hdr.typeRow > 0 && width > 0 && (cellAt g o (o.hdr.typeRow - 1).toNat 0).isNone then none else
  (List.range width).mapM fun p =>
    (cellAt g o nameLine.toNat p).map fun cell =>
      (extractFromCell cell o.hdr.nameLine, (List.range (nLines - first)).map (fun i => (cellAt g o (first + i) p).getD []))

/-- the sheet with rows and columns interchanged (rectangular, blanks for missing cells) -/
def transposeGrid (g : Grid) : Grid :=
  (List.range g.maxCol).map fun col => (List.range g.length).map fun row => (g.getD row []).getD col []

/-- the guards of `Parse` around the line loop `k` -/
def withCols (o : SheetOpts) (g : Grid) (k : Cols → Nat → Nat → PRes) : PRes :=
  let first := (o.hdr.dataRow - 1).toNat
  let nLines := lineCount g o
  if o.adjacentKey then .unmodelled else
  if o.hdr.dataRow < 1 then .unmodelled else
  if first ≥ nLines then .ok [] else
  match toCols o g with
  | none => .badTable
  | some cols => k cols (nLines - first) first

/-- `Parse` -/
def parse (c : Ctx) (fields : List TField) (o : SheetOpts) (g : Grid) : PRes :=
  withCols o g (fun cols n first => parseCols c fields cols n first o.transpose)

end TableauVerif.Model.TableParser
