/-
Model of `internal/excel/excel.go: LetterAxis, Postion`.
-/
import TableauVerif.Model.Basic
namespace TableauVerif.Model.Excel
open TableauVerif

/-- `LetterAxis(index)` for `index ≥ 0` (0-based column → letters). -/
def letterAxis (n : Nat) : Str :=
  if h : n / 26 > 0 then letterAxis (n / 26 - 1) ++ [65 + n % 26] else [65 + n % 26]
termination_by n
decreasing_by omega

/-- `Postion(row, col)` — both 0-based — e.g. `(0,0) ↦ "A1"` -/
def position (row col : Nat) : Str := letterAxis col ++ Str.decimal (row + 1)

/-- independent reading of a column name: bijective base 26, 1-based -/
def decodeCol (s : Str) : Nat := s.foldl (fun acc c => acc * 26 + (c - 64)) 0

end TableauVerif.Model.Excel
