/-
Model of the key/value error text protocol.

Mirrors (Go): `xerrors/errors.go` (`combineKV`, `ErrorKV`, `WrapKV`, `withCode.Error`,
`withMessage.Error`) and `xerrors/desc.go: NewDesc`.
-/
import TableauVerif.Model.Basic
namespace TableauVerif.Model.Xerrors
open TableauVerif

abbrev KV := Str × Str

def pipe : Nat := 124   -- '|'
def colon : Nat := 58   -- ':'
def space : Nat := 32   -- ' '

/-- `combineKV(k1, v1, k2, v2, …)` = `"|k1: v1|k2: v2…"` -/
def combineKV : List KV → Str
  | [] => []
  | (k, v) :: rest => [pipe] ++ k ++ [colon, space] ++ v ++ combineKV rest

def reasonKey : Str := [82, 101, 97, 115, 111, 110]  -- "Reason"

/-- an error value as built by the constructors the code uses -/
inductive Err where
  /-- `ErrorKV(reason, kvs…)` (also `Errorf`, and `renderEcode`, whose kvs are ErrCode/ErrDesc/Help) -/
  | leaf (kvs : List KV) (reason : Str)
  /-- `WrapKV(inner, kvs…)` -/
  | wrap (kvs : List KV) (inner : Err)

/-- `err.Error()` -/
def render : Err → Str
  | .leaf kvs reason =>
      -- withCode{-1, withMessage{msg, base{}}}: "-1" ++ ": " ++ msg ++ ": " ++ ""
      [45, 49, colon, space] ++ combineKV kvs ++ combineKV [(reasonKey, reason)] ++ [colon, space]
  | .wrap kvs inner => combineKV kvs ++ [colon, space] ++ render inner

def isTrimCut (c : Nat) : Bool := c == space || c == colon

/-- one `|`-separated piece: `key: value` (split at the first colon, both sides trimmed) or nothing -/
def pieceSet (piece : Str) : Option KV :=
  match Str.splitFirst colon piece with
  | none => none
  | some (k, v) => some (Str.trim isTrimCut k, Str.trim isTrimCut v)

/-- `NewDesc`: the sequence of `setField(key, val)` calls, in order. -/
def descSets (s : Str) : List KV := (Str.splitOn pipe s).filterMap pieceSet

/-- value of a field after all `setField`s: the last one wins -/
def descGet (sets : List KV) (key : Str) : Option Str :=
  (sets.reverse.find? (fun kv => kv.1 == key)).map (·.2)

def newDescGet (errText : Str) (key : Str) : Option Str := descGet (descSets errText) key

end TableauVerif.Model.Xerrors
