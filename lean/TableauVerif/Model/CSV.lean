/-
Model of `internal/importer/csv.go: readCSVRows` (all rows, `topN = 0`) at the level of the file's text:
`encoding/csv`'s reader as tableau configures it (`Comma = ','`, no comment character, `LazyQuotes = false`,
`TrimLeadingSpace = false`, `FieldsPerRecord = -1`) followed by tableau's own treatment of empty lines (fix D46:
an empty line that precedes a record is a row without cells; empty lines after the last record are not rows).

Tied to the code by `corr.importer.csvText`: generated file texts — well-formed in several quoting styles and
malformed (bare quotes, text after a closing quote, unterminated quoted fields, CR in every position) — are read by
the real `tableau.NewImporter` and by `readRows`.

Text is a list of code points; the reader only looks at `,` `"` CR LF, which are single bytes in UTF-8, so reading
bytes or code points gives the same fields.
-/
import TableauVerif.Model.Basic
namespace TableauVerif.Model.CSV
open TableauVerif

/-- `readLine`: every CR LF is read as LF (inside quoted fields too); a CR that ends the input is dropped -/
def normalize : Str → Str
  | [] => []
  | [13] => []
  | 13 :: 10 :: rest => 10 :: normalize rest
  | c :: rest => c :: normalize rest

/-- an unquoted field runs to the next comma or line end; a quote inside it is `ErrBareQuote` -/
def takeUnquoted : Str → Str → Option (Str × Str)
  | acc, [] => some (acc.reverse, [])
  | acc, c :: rest =>
    if c == 44 || c == 10 then some (acc.reverse, c :: rest)
    else if c == 34 then none
    else takeUnquoted (c :: acc) rest

/-- a quoted field after its opening quote: `""` is a quote; the closing quote must be followed by a comma, a line
end or the end of input (`ErrQuote` otherwise, and when the input ends inside the quotes) -/
def takeQuoted : Str → Str → Option (Str × Str)
  | _, [] => none
  | acc, c :: rest =>
    if c == 34 then
      match rest with
      | [] => some (acc.reverse, [])
      | d :: rest' =>
        if d == 34 then takeQuoted (34 :: acc) rest'
        else if d == 44 || d == 10 then some (acc.reverse, d :: rest')
        else none
    else takeQuoted (c :: acc) rest

def readField : Str → Option (Str × Str)
  | 34 :: t => takeQuoted [] t
  | s => takeUnquoted [] s

/-- the fields of one record (the text starts a record); the rest begins after the record's line end -/
def readRecord : Nat → Str → List Str → Option (List Str × Str)
  | 0, _, _ => none
  | fuel + 1, s, acc =>
    match readField s with
    | none => none
    | some (f, rest) =>
      match rest with
      | [] => some ((f :: acc).reverse, [])
      | d :: rest' =>
        if d == 10 then some ((f :: acc).reverse, rest')
        else readRecord fuel rest' (f :: acc)      -- `d` is the comma

/-- all rows: `pending` counts the empty lines met since the last record -/
def readAll : Nat → Str → Nat → List (List Str) → Option (List (List Str))
  | 0, _, _, _ => none
  | fuel + 1, s, pending, acc =>
    match s with
    | [] => some acc.reverse
    | c :: rest =>
      if c == 10 then readAll fuel rest (pending + 1) acc
      else
        match readRecord (s.length + 1) s [] with
        | none => none
        | some (r, rest') => readAll fuel rest' 0 (r :: (List.replicate pending [] ++ acc))

/-- `readCSVRows(file, 0)`; `none` = an error -/
def readRows (text : Str) : Option (List (List Str)) :=
  let s := normalize text
  readAll (s.length + 1) s 0 []

/-! ### writers (what produces the files: spreadsheet programs, `encoding/csv`'s writer used by `Table.ExportCSV`) -/

/-- a field that cannot be written bare -/
def needsQuote (f : Str) : Bool := f.any fun c => c == 44 || c == 34 || c == 10 || c == 13

def escape (f : Str) : Str := f.flatMap fun c => if c == 34 then [34, 34] else [c]

/-- `q` = the writer's quoting policy (it must quote what `needsQuote`; it may quote more) -/
def writeField (q : Str → Bool) (f : Str) : Str := if q f then 34 :: (escape f ++ [34]) else f

def writeFields (q : Str → Bool) : List Str → Str
  | [] => []
  | [f] => writeField q f
  | f :: fs => writeField q f ++ 44 :: writeFields q fs

def writeRows (q : Str → Bool) (rows : List (List Str)) : Str :=
  rows.flatMap fun r => writeFields q r ++ [10]

/-- the same file with CR LF line ends (what spreadsheet programs write on Windows) -/
def writeRowsCRLF (q : Str → Bool) (rows : List (List Str)) : Str :=
  rows.flatMap fun r => writeFields q r ++ [13, 10]

/-- the rows handed on for a written grid. `bareBlank` = the writer leaves a blank cell bare, so that the record `[[]]`
(one blank cell) is an empty line: it comes back as a row without cells if a record follows, and not at all if
none does (`pending` counts the empty lines since the last record) -/
def keepRows (bareBlank : Bool) : List (List Str) → Nat → List (List Str)
  | [], _ => []
  | r :: rs, pending =>
    if r = [[]] ∧ bareBlank = true then keepRows bareBlank rs (pending + 1)
    else List.replicate pending [] ++ r :: keepRows bareBlank rs 0

end TableauVerif.Model.CSV
