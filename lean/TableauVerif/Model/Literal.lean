/-
Model of scalar literal parsing: `internal/x/xproto/value.go: ParseFieldValue`
(integer families and bool; enum/float/well-known kinds are in their own sections below as they get modelled).

Conventions (see DESIGN.md appendix A.3):
* 32-bit families go through `strconv.ParseFloat(s, 64)`: range check FIRST (E2000), then truncation
  toward zero, then E2012 iff ParseFloat reported a syntax error;
* 64-bit families through `strconv.ParseInt/ParseUint(s, 10, 64)` (E2012 on any error);
* bool: `strconv.ParseBool(purifyInteger(s))` (E2013).
Decimal literals with at most 15 mantissa digits (or integer literals of any length) are modelled
exactly; everything whose float64 rounding could matter, hex floats and `_` separators are answered
`unmodelled` (they belong to the property's explicitly unspecified remainder).
-/
import TableauVerif.Model.Basic
namespace TableauVerif.Model.Literal
open TableauVerif

inductive Kind where
  | int32 | uint32 | int64 | uint64 | bool
deriving DecidableEq, Repr

inductive Res where
  | ok (v : Int)           -- parsed, present
  | absent                 -- empty cell: default value, not present, no error
  | err (code : Nat)       -- rejected with E<code>
  | unmodelled             -- outside the modelled class
deriving DecidableEq, Repr

def Res.isErr : Res → Bool
  | .err _ => true
  | _ => false

/-- Go `unicode.IsSpace` -/
def isSpace (c : Nat) : Bool :=
  c == 9 || c == 10 || c == 11 || c == 12 || c == 13 || c == 32 || c == 0x85 || c == 0xA0 ||
  c == 0x1680 || (0x2000 ≤ c && c ≤ 0x200A) || c == 0x2028 || c == 0x2029 || c == 0x202F ||
  c == 0x205F || c == 0x3000

/-- `strings.TrimSpace` -/
def trimSpace (s : Str) : Str := Str.trim isSpace s

def minInt32 : Int := -2147483648
def maxInt32 : Int := 2147483647
def maxUint32 : Int := 4294967295
def minInt64 : Int := -9223372036854775808
def maxInt64 : Int := 9223372036854775807
def maxUint64 : Int := 18446744073709551615

/-! ### `strconv.ParseInt(s, 10, 64)` / `ParseUint(s, 10, 64)` -/

/-- `ParseUint(s,10,64)`: non-empty, digits only, value ≤ MaxUint64 -/
def parseUint64 (s : Str) : Option Nat :=
  match Str.parseNat s with
  | some n => if (n : Int) ≤ maxUint64 then some n else none
  | none => none

/-- `ParseInt(s,10,64)`: optional single sign, then digits; range checked -/
def parseInt64 (s : Str) : Option Int :=
  match s with
  | [] => none
  | c :: rest =>
    if c = 43 then          -- '+'
      match Str.parseNat rest with
      | some n => if (n : Int) ≤ maxInt64 then some n else none
      | none => none
    else if c = 45 then     -- '-'
      match Str.parseNat rest with
      | some n => if -(n : Int) ≥ minInt64 then some (-(n : Int)) else none
      | none => none
    else
      match Str.parseNat s with
      | some n => if (n : Int) ≤ maxInt64 then some n else none
      | none => none

/-! ### the decimal subset of `strconv.ParseFloat(s, 64)` -/

inductive FloatLit where
  /-- `(-1)^neg * mant * 10^exp`; `digits` = number of mantissa digits read, `intLit` = no '.', no exponent -/
  | num (neg : Bool) (mant : Nat) (exp : Int) (digits : Nat) (intLit : Bool)
  | inf (neg : Bool)
  | nan
  | syntaxErr
  | unmodelled
deriving DecidableEq, Repr

def lower (c : Nat) : Nat := if 65 ≤ c && c ≤ 90 then c + 32 else c

def eqFold (s : Str) (lit : String) : Bool := s.map lower == Str.ofString lit

/-- digits run: returns (value, count, rest) -/
def readDigits : Str → Nat → Nat → Nat × Nat × Str
  | [], acc, cnt => (acc, cnt, [])
  | c :: cs, acc, cnt => if Str.isDigit c then readDigits cs (acc * 10 + (c - 48)) (cnt + 1) else (acc, cnt, c :: cs)

/-- optional single sign: (negative?, rest, signed?) -/
def splitSign : Str → Bool × Str × Bool
  | 43 :: r => (false, r, true)
  | 45 :: r => (true, r, true)
  | s => (false, s, false)

def isHexPrefix : Str → Bool
  | 48 :: x :: _ => lower x == 120
  | _ => false

/-- optional exponent part after the mantissa; `fc` = number of fraction digits already read -/
def parseExp (neg : Bool) (mant : Nat) (fc digits : Nat) (sawDot : Bool) : Str → FloatLit
  | [] => .num neg mant (-(fc : Int)) digits (!sawDot)
  | e :: r3 =>
    if lower e != 101 then .syntaxErr
    else
      let (eneg, r4) := match r3 with
        | 43 :: r => (false, r)
        | 45 :: r => (true, r)
        | _ => (false, r3)
      let (ev, ec, r5) := readDigits r4 0 0
      if ec == 0 || !r5.isEmpty then .syntaxErr
      else .num neg mant ((if eneg then -(ev : Int) else (ev : Int)) - (fc : Int)) digits false

/-- mantissa: digits [ '.' digits ] -/
def parseMantissa (neg : Bool) (body : Str) : FloatLit :=
  let (ip, ic, r1) := readDigits body 0 0
  match r1 with
  | 46 :: r =>
    let (m, fc, r2) := readDigits r ip 0
    if ic + fc == 0 then .syntaxErr else parseExp neg m fc (ic + fc) true r2
  | _ => if ic == 0 then .syntaxErr else parseExp neg ip 0 ic false r1

def parseFloatBody (neg signed : Bool) (body : Str) : FloatLit :=
  -- special values: "inf"/"infinity" (optionally signed), "nan" (unsigned only)
  if eqFold body "inf" || eqFold body "infinity" then .inf neg
  else if !signed && eqFold body "nan" then .nan
  else if body.any (fun c => c == 95) then .unmodelled      -- '_' separators
  else if isHexPrefix body then .unmodelled                 -- hex float
  else parseMantissa neg body

def parseFloatLit (s : Str) : FloatLit :=
  let r := splitSign s
  parseFloatBody r.1 r.2.2 r.2.1

/-- truncation toward zero of `mant * 10^exp` (as a non-negative magnitude) -/
def magTrunc (mant : Nat) (exp : Int) : Nat :=
  if exp ≥ 0 then mant * 10 ^ exp.toNat else mant / 10 ^ (-exp).toNat

/-- is the magnitude `mant * 10^exp` strictly greater than the natural `b`? -/
def magGt (mant : Nat) (exp : Int) (b : Nat) : Bool :=
  if exp ≥ 0 then mant * 10 ^ exp.toNat > b else mant > b * 10 ^ (-exp).toNat

/-- the 32-bit families. `lo`/`hi` = range of the kind. -/
def parseVia64Float (s : Str) (lo hi : Int) : Res :=
  match parseFloatLit s with
  | .unmodelled => .unmodelled
  | .syntaxErr =>
      -- ParseFloat returns (0, err) on a syntax error: 0 is in range ⇒ E2012
      .err 2012
  | .inf _ => .err 2000           -- ±Inf is outside every range ⇒ E2000
  | .nan => .err 2012            -- `math.IsNaN(val)` ⇒ E2012 (fix D3; before it NaN was stored as MinInt32 / 0)
  | .num neg mant exp digits intLit =>
      if !intLit && (digits > 15 || exp > 40 || exp < -40) then .unmodelled
      else if !neg then
        if magGt mant exp hi.toNat then .err 2000 else .ok (magTrunc mant exp)
      else
        -- negative: below lo?  (for unsigned kinds lo = 0: any negative non-zero magnitude is out of range;
        -- "-0" and "-0.4" compare as `val < 0` false only when val == -0)
        if lo == 0 then
          if mant == 0 then .ok 0 else .err 2000
        else if magGt mant exp (-lo).toNat then .err 2000 else .ok (-(magTrunc mant exp : Int))

/-! ### bool -/

/-- `types.MatchBoringInteger` as used by `purifyInteger`: regexp `^([-+]?[0-9]+)\.0+$`
(anchored at both ends since fix D2): the whole text is `sign? digits+ '.' '0'+`; returns the
first capture, else the text unchanged -/
def purifyInteger (s : Str) : Str :=
  let (sign, body) := match s with
    | 43 :: r => ([43], r)
    | 45 :: r => ([45], r)
    | _ => ([], s)
  let digs := body.takeWhile Str.isDigit
  match body.dropWhile Str.isDigit with
  | 46 :: zs => if !digs.isEmpty && !zs.isEmpty && zs.all (· == 48) then sign ++ digs else s
  | _ => s

def parseBoolLit (s : Str) : Option Bool :=
  if s == Str.ofString "1" || s == Str.ofString "t" || s == Str.ofString "T" || s == Str.ofString "TRUE"
     || s == Str.ofString "true" || s == Str.ofString "True" then some true
  else if s == Str.ofString "0" || s == Str.ofString "f" || s == Str.ofString "F" || s == Str.ofString "FALSE"
     || s == Str.ofString "false" || s == Str.ofString "False" then some false
  else none

/-- `ParseFieldValue` for the modelled kinds; `dflt` = the field's `prop.default` ("" when none) -/
def parse (k : Kind) (raw : Str) (dflt : Str := []) : Res :=
  let v0 := trimSpace raw
  let v := if v0.isEmpty then trimSpace dflt else v0
  if v.isEmpty then .absent else
  match k with
  | .int32 => parseVia64Float v minInt32 maxInt32
  | .uint32 => parseVia64Float v 0 maxUint32
  | .int64 => match parseInt64 v with | some n => .ok n | none => .err 2012
  | .uint64 => match parseUint64 v with | some n => .ok n | none => .err 2012
  | .bool => match parseBoolLit (purifyInteger v) with
      | some b => .ok (if b then 1 else 0)
      | none => .err 2013

end TableauVerif.Model.Literal
