/-
Model of the XML importer's data-document conversion: `internal/importer/xml.go: parseXMLNode`
(the confgen branch): an element tree becomes the `book.Node` tree the document parser reads.

* a text-only element is a scalar node (attributes or children next to text are an error);
* otherwise the element is a map node whose children are, in order of FIRST occurrence of their name:
  every attribute (a scalar node) and every child element name; all occurrences of a name are gathered in
  document order wherever they stand among their siblings:
    one scalar occurrence            -> the scalar node itself
    several scalar occurrences       -> a list node of unnamed scalar nodes
    element occurrences (non-text)   -> a list node of unnamed map nodes (even for a single occurrence)
  (a name used both for scalar and for element occurrences is answered `unmodelled`).
-/
import TableauVerif.Model.Basic
namespace TableauVerif.Model.XmlDoc
open TableauVerif

/-- a parsed XML element -/
inductive XNode where
  | mk (name : Str) (attrs : List (Str × Str)) (text : Str) (children : List XNode)
deriving Repr

inductive NKind where
  | scalar | list | map
deriving DecidableEq, Repr

inductive BNode where
  | mk (kind : NKind) (name value : Str) (children : List BNode)
deriving Repr

/-- what one occurrence contributes to its group -/
inductive Item where
  | scalar (v : Str)
  | elem (children : List BNode)
deriving Repr

/-- gather occurrences by name, groups in order of first occurrence, items in document order -/
def addItem {α : Type} (acc : List (Str × List α)) (name : Str) (x : α) : List (Str × List α) :=
  match acc with
  | [] => [(name, [x])]
  | (n, xs) :: rest => if n == name then (n, xs ++ [x]) :: rest else (n, xs) :: addItem rest name x

def gather {α : Type} (items : List (Str × α)) : List (Str × List α) :=
  items.foldl (fun acc p => addItem acc p.1 p.2) []

inductive CErr where
  | err | unmodelled
deriving DecidableEq, Repr

def allScalar : List Item → Option (List Str)
  | [] => some []
  | .scalar v :: rest => (allScalar rest).map (v :: ·)
  | .elem _ :: _ => none

def allElem : List Item → Option (List (List BNode))
  | [] => some []
  | .elem c :: rest => (allElem rest).map (c :: ·)
  | .scalar _ :: _ => none

/-- the node a group of occurrences becomes -/
def represent (name : Str) (items : List Item) : Except CErr BNode :=
  match allScalar items with
  | some [v] => .ok (.mk .scalar name v [])
  | some vs => .ok (.mk .list name [] (vs.map fun v => .mk .scalar [] v []))
  | none =>
    match allElem items with
    | some cs => .ok (.mk .list name [] (cs.map fun c => .mk .map [] [] c))
    | none => .error .unmodelled

def representAll : List (Str × List Item) → Except CErr (List BNode)
  | [] => .ok []
  | (n, items) :: rest =>
    match represent n items with
    | .error e => .error e
    | .ok b =>
      match representAll rest with
      | .error e => .error e
      | .ok bs => .ok (b :: bs)

mutual
/-- `parseXMLNode` (data mode): the node of an element -/
def toBook : XNode → Except CErr BNode
  | .mk name attrs text children =>
    if !text.isEmpty then
      if attrs.isEmpty && children.isEmpty then .ok (.mk .scalar name text []) else .error .err
    else
      match childItems children with
      | .error e => .error e
      | .ok items =>
        match representAll (gather (attrs.map (fun a => (a.1, Item.scalar a.2)) ++ items)) with
        | .error e => .error e
        | .ok bs => .ok (.mk .map name [] bs)
/-- the (name, item) of every child element -/
def childItems : List XNode → Except CErr (List (Str × Item))
  | [] => .ok []
  | c :: cs =>
    match toBook c with
    | .error e => .error e
    | .ok (.mk kind n v ch) =>
      match childItems cs with
      | .error e => .error e
      | .ok rest => .ok ((n, if kind == .scalar then Item.scalar v else Item.elem ch) :: rest)
end

end TableauVerif.Model.XmlDoc
