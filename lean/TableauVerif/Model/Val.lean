/-
Message values and descriptors shared by the models (protoreflect messages as trees).
A message is the list of its POPULATED fields, sorted by field number; a map is the list of its
entries sorted by key; lists are lists.  Core Lean only.
-/
import TableauVerif.Model.Basic
namespace TableauVerif

inductive Val where
  | int (i : Int)                    -- every integer kind, enum numbers, bool as 0/1
  | str (s : List Nat)               -- string / bytes (opaque code units)
  | flt (bits : Nat)                 -- float/double by bit pattern (never compared as text)
  | msg (fs : List (Nat × Val))      -- populated fields, ascending field number
  | list (vs : List Val)
  | map (es : List (Val × Val))      -- entries, ascending key
deriving Repr, Inhabited

namespace Val

/-- order on map keys: ints numerically, strings lexicographically, ints before strings -/
def listLt : List Nat → List Nat → Bool
  | [], [] => false
  | [], _ :: _ => true
  | _ :: _, [] => false
  | a :: as, b :: bs => if a < b then true else if b < a then false else listLt as bs

def keyLt : Val → Val → Bool
  | .int a, .int b => a < b
  | .str a, .str b => listLt a b
  | .int _, .str _ => true
  | _, _ => false

def keyEq : Val → Val → Bool
  | .int a, .int b => a == b
  | .str a, .str b => a == b
  | _, _ => false

/-- field lookup in a sorted field list -/
def getF : List (Nat × Val) → Nat → Option Val
  | [], _ => none
  | (k, v) :: rest, n => if k = n then some v else getF rest n

/-- set (insert or replace) keeping ascending order -/
def setF : List (Nat × Val) → Nat → Val → List (Nat × Val)
  | [], n, v => [(n, v)]
  | (k, w) :: rest, n, v =>
    if n < k then (n, v) :: (k, w) :: rest
    else if n = k then (n, v) :: rest
    else (k, w) :: setF rest n v

def delF : List (Nat × Val) → Nat → List (Nat × Val)
  | [], _ => []
  | (k, w) :: rest, n => if k = n then delF rest n else (k, w) :: delF rest n

def getE : List (Val × Val) → Val → Option Val
  | [], _ => none
  | (k, v) :: rest, key => if keyEq k key then some v else getE rest key

def setE : List (Val × Val) → Val → Val → List (Val × Val)
  | [], key, v => [(key, v)]
  | (k, w) :: rest, key, v =>
    if keyLt key k then (key, v) :: (k, w) :: rest
    else if keyEq key k then (key, v) :: rest
    else (k, w) :: setE rest key v

end Val

inductive Card where
  | one | list | map
deriving DecidableEq, Repr

/-- field descriptor: number, cardinality, `PATCH_REPLACE` flag, whether the (element / map value)
type is a message, and that message's fields -/
inductive FieldDesc where
  | mk (num : Nat) (card : Card) (replace : Bool) (isMsg : Bool) (sub : List FieldDesc)
deriving Repr

namespace FieldDesc
def num : FieldDesc → Nat | .mk n _ _ _ _ => n
def card : FieldDesc → Card | .mk _ c _ _ _ => c
def replace : FieldDesc → Bool | .mk _ _ r _ _ => r
def isMsg : FieldDesc → Bool | .mk _ _ _ m _ => m
def sub : FieldDesc → List FieldDesc | .mk _ _ _ _ s => s

def find : List FieldDesc → Nat → Option FieldDesc
  | [], _ => none
  | fd :: rest, n => if fd.num = n then some fd else find rest n
end FieldDesc

end TableauVerif
