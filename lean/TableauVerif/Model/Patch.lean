/-
Model of `internal/x/xproto/patch.go: PatchMessage / patchMessage / patchList / patchMap`.

`src.Range` enumerates the populated fields (and map entries) "in an undefined order": the model
takes them in the order of the given lists; `Props/C13` proves the result does not depend on it.
-/
import TableauVerif.Model.Val
namespace TableauVerif.Model.Patch
open TableauVerif TableauVerif.Val

/-- scalar (and bytes, enum) singular field: `dst.Set(fd, v)` after the optional `Clear` -/
def patchScalar (d : List FieldDesc) (dst : List (Nat × Val)) (n : Nat) (v : Val) : List (Nat × Val) :=
  match FieldDesc.find d n with
  | some fd =>
    if fd.card == .one && !fd.isMsg then
      let dst' := if fd.replace then delF dst n else dst
      setF dst' n v
    else dst
  | none => dst

mutual
  /-- `patchMessage(dst, src)`: fold over the populated fields of `src` -/
  def patchFields (d : List FieldDesc) (dst : List (Nat × Val)) : List (Nat × Val) → List (Nat × Val)
    | [] => dst
    | (n, v) :: rest => patchFields d (patchField d dst n v) rest

  /-- one iteration of the `src.Range` callback for field number `n` with populated value `v`.
  `PATCH_REPLACE` ⇒ `dst.Clear(fd)` first. Values that are ill-typed for the descriptor (never
  generated) leave `dst` unchanged. -/
  def patchField (d : List FieldDesc) (dst : List (Nat × Val)) (n : Nat) : Val → List (Nat × Val)
    | .list svs =>
      match FieldDesc.find d n with
      | some fd =>
        if fd.card == .list then
          let dst' := if fd.replace then delF dst n else dst
          let old := match getF dst' n with | some (.list l) => l | _ => []
          setF dst' n (.list (old ++ patchElems fd.isMsg fd.sub svs))
        else dst
      | none => dst
    | .map ses =>
      match FieldDesc.find d n with
      | some fd =>
        if fd.card == .map then
          let dst' := if fd.replace then delF dst n else dst
          let old := match getF dst' n with | some (.map l) => l | _ => []
          setF dst' n (.map (patchEntries fd.isMsg fd.sub old ses))
        else dst
      | none => dst
    | .msg sfs =>
      match FieldDesc.find d n with
      | some fd =>
        if fd.card == .one && fd.isMsg then
          let dst' := if fd.replace then delF dst n else dst
          let old := match getF dst' n with | some (.msg l) => l | _ => []
          setF dst' n (.msg (patchFields fd.sub old sfs))
        else dst
      | none => dst
    | .int i => patchScalar d dst n (.int i)
    | .str s => patchScalar d dst n (.str s)
    | .flt b => patchScalar d dst n (.flt b)

  /-- `patchList`: message elements are patched into a fresh element, others appended as they are -/
  def patchElems (isMsg : Bool) (sub : List FieldDesc) : List Val → List Val
    | [] => []
    | .msg efs :: rest => (if isMsg then .msg (patchFields sub [] efs) else .msg efs) :: patchElems isMsg sub rest
    | v :: rest => v :: patchElems isMsg sub rest

  /-- `patchMap`: message values are MERGED into the existing entry (or a new one), others set -/
  def patchEntries (isMsg : Bool) (sub : List FieldDesc) (dst : List (Val × Val)) : List (Val × Val) → List (Val × Val)
    | [] => dst
    | (k, .msg vfs) :: rest =>
      if isMsg then
        let old := match getE dst k with | some (.msg l) => l | _ => []
        patchEntries isMsg sub (setE dst k (.msg (patchFields sub old vfs))) rest
      else patchEntries isMsg sub (setE dst k (.msg vfs)) rest
    | (k, v) :: rest => patchEntries isMsg sub (setE dst k v) rest
end

/-- `PatchMessage(dst, src)` on top-level messages -/
def patch (d : List FieldDesc) (dst src : Val) : Val :=
  match dst, src with
  | .msg dfs, .msg sfs => .msg (patchFields d dfs sfs)
  | _, _ => dst

/-! ### `load.Load` with patch files (`load/load.go: loadWithPatch`) -/

inductive PatchType where | none | replace | merge
deriving DecidableEq, Repr

inductive LoadMode where | all | onlyMain | onlyPatch
deriving DecidableEq, Repr

/-- `loadWithPatch`: `main` = the message of the main file, `patches` = the messages of the patch files in the
given order (`none` = the file does not exist). `f` = the patcher (the model's `patch d`, or the specification's). -/
def loadWith (f : Val → Val → Val) (pt : PatchType) (mode : LoadMode) (main : Val) (patches : List (Option Val)) : Val :=
  if pt == .none || mode == .onlyMain then main
  else
    let existing := patches.filterMap id
    match existing.getLast? with
    | Option.none => if mode == .onlyPatch then .msg [] else main
    | some last =>
      match pt with
      | .replace => last
      | _ => existing.foldl f (if mode == .onlyPatch then .msg [] else main)

def load (d : List FieldDesc) := loadWith (patch d)

end TableauVerif.Model.Patch
