/-
Model of `store/jsonutil.go: formatTimestamp` — what `EmitTimezones` writes for one Timestamp: the instant shown in the
configured location, in Go's layout `2006-01-02T15:04:05.999999999Z07:00` (fraction without trailing zeros, omitted when
zero; `Z` for offset zero, else `±hh:mm` with the offset's seconds dropped).

Tied to the code by `corr.store.emitTimestamp` (the real `store.MarshalToJSON` with `EmitTimezones` on a Timestamp,
zones with half-hour / 45-minute offsets and DST, instants at transitions and around the epoch, nanos of every length).
-/
import TableauVerif.Model.Time
import TableauVerif.Spec.C20
namespace TableauVerif.Model.Rfc3339
open TableauVerif TableauVerif.Model.Time

def pad (w n : Nat) : Str :=
  let d := Str.decimal n
  List.replicate (w - d.length) 48 ++ d

def trimZeros (s : Str) : Str := (s.reverse.dropWhile (· == 48)).reverse

def frac (nanos : Nat) : Str := if nanos == 0 then [] else 46 :: trimZeros (pad 9 nanos)

def offsetText (off : Int) : Str :=
  if off == 0 then [90]
  else
    let mins := off.natAbs / 60
    (if off < 0 then 45 else 43) :: (pad 2 (mins / 60) ++ 58 :: pad 2 (mins % 60))

/-- the fields that are printed: the wall clock the location shows at `t`, and the offset in force -/
def fields (z : Zone) (t : Int) : Wall × Int := (Spec.C20.shows z t, lookupOffset z t)

def format (z : Zone) (t : Int) (nanos : Nat) : Str :=
  let (w, off) := fields z t
  pad 4 w.y.toNat ++ 45 :: pad 2 w.mo.toNat ++ 45 :: pad 2 w.d.toNat ++ 84 :: pad 2 w.h.toNat ++ 58 :: pad 2 w.mi.toNat ++
    58 :: pad 2 w.s.toNat ++ frac nanos ++ offsetText off

end TableauVerif.Model.Rfc3339
