/-
Model of `internal/confgen/fieldprop/prop.go`: CheckInRange (integer kinds and string length),
CheckMapKeySequence, GetSize/IsFixed, CheckPresence.
-/
import TableauVerif.Model.Basic
import TableauVerif.Model.Literal
namespace TableauVerif.Model.FieldProp
open TableauVerif TableauVerif.Model.Literal

inductive RKind where
  | signed      -- int32/sint32/sfixed32/int64/sint64/sfixed64 : `value.Int()`
  | unsigned    -- uint32/fixed32/uint64/fixed64 : `value.Uint()`
  | strlen      -- string: count of code points (fix D5)
  | other       -- kinds the switch ignores (bool, bytes, enum, message): always in range
deriving DecidableEq, Repr

inductive RRes where
  | ok | e2004 | invalid | panic
deriving DecidableEq, Repr

def comma : Nat := 44
def tilde : Str := [126]

/-- bound parser per kind: `ParseInt(…,10,64)` or `ParseUint(…,10,64)` -/
def parseBound (k : RKind) (s : Str) : Option Int :=
  match k with
  | .signed => parseInt64 s
  | _ => (parseUint64 s).map (fun n => (n : Int))

/-- `CheckInRange(prop, fd, value, present)`; `v` is `value.Int()`, `value.Uint()` or the rune count -/
def checkInRange (range : Str) (k : RKind) (v : Int) (present propPresent : Bool) : RRes :=
  if (trimSpace range).isEmpty then .ok
  else if !present && !propPresent then .ok
  else match Str.splitFirst comma range with
    | none => .invalid                        -- no comma (fix D4; before it: index out of range panic)
    | some (l, r) =>
      let ls := trimSpace l
      let rs := trimSpace r
      if k == .other then .ok else
      let leftRes : Option RRes :=
        if ls == tilde then none
        else match parseBound k ls with
          | none => some .invalid
          | some lo => if v < lo then some .e2004 else none
      match leftRes with
      | some res => res
      | none =>
        if rs == tilde then .ok
        else match parseBound k rs with
          | none => .invalid
          | some hi => if v > hi then .e2004 else .ok

/-! ### sequence -/

/-- `CheckMapKeySequence` for a signed 64-bit key: `keys` = keys already in the map -/
def checkSequence (seq : Option Int) (key : Int) (keys : List Int) : Bool :=
  match seq with
  | none => true
  | some s => if keys.isEmpty then s == key else keys.contains (key - 1)

/-! ### size / fixed -/
def isFixed (fixed : Bool) (size : Nat) : Bool := fixed || size > 0
def getSize (fixed : Bool) (size : Nat) (detected : Nat) : Nat :=
  if size > 0 then size else if fixed then detected else 0

end TableauVerif.Model.FieldProp
