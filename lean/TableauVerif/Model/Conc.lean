/-
Lock programs and their static discipline (C05).

`LStmt` is the structured program the extractor regenerates from the Go source for every function
that touches a mutex / errgroup / sync.Once (and their transitive callers). The analyses below are
executable; `Props/C05` states them as obligations over `Generated.Locks.funcs` and proves what they
imply for the abstract thread model.
-/
namespace TableauVerif.Model.Conc

/-- names (functions, mutexes, expressions) are interned by the extractor: `Generated.Locks.names[i]` -/
abbrev Name := Nat

inductive LStmt where
  | lock (m : Name) | rlock (m : Name) | unlock (m : Name) | runlock (m : Name)
  | deferUnlock (m : Name) | deferRUnlock (m : Name)
  | call (f : Name)              -- statically resolved call to a function of the repository
  | dyn (f : Name)               -- call through a function value / interface method
  | ret
  | branch (alts : List (List LStmt))
  | loop (body : List LStmt)
  | spawn (group : Name) (body : List LStmt)     -- errgroup.Go / go statement
  | wait (group : Name)                           -- errgroup.Wait
  | once (o : Name) (body : List LStmt)           -- sync.Once.Do
deriving Repr, Inhabited

/-- a held lock: mutex name and whether it is the write lock -/
abbrev Held := List (Name × Bool)

/-- abstract state of one path through a function -/
structure PState where
  held : Held := []
  deferred : Held := []      -- unlocks registered with defer
  returned : Bool := false
deriving Repr, Inhabited

/-- facts collected along all paths -/
structure Facts where
  exits : List Held := []                         -- locks still held at an exit, after running the defers
  acquires : List (Held × Name × Bool) := []    -- (held before, mutex, isWrite) at every acquisition
  calls : List (Held × Name) := []              -- (held, callee) at every static call
  dyns : List (Held × Name) := []               -- (held, expr) at every dynamic call
  waits : List Held := []                         -- held at errgroup.Wait / Once.Do entry
  badRelease : List Name := []                  -- release of a lock that is not held
  loopLeak : List Held := []                      -- loop body that changes the held set
deriving Repr, Inhabited

def removeFirst (h : Held) (m : Name) (w : Bool) : Option Held :=
  match h with
  | [] => none
  | (m', w') :: rest => if m' == m && w' == w then some rest else (removeFirst rest m w).map ((m', w') :: ·)

def afterDefers (s : PState) : Held :=
  s.deferred.foldl (fun h d => (removeFirst h d.1 d.2).getD h) s.held

def Facts.merge (a b : Facts) : Facts :=
  { exits := a.exits ++ b.exits, acquires := a.acquires ++ b.acquires, calls := a.calls ++ b.calls, dyns := a.dyns ++ b.dyns,
    waits := a.waits ++ b.waits, badRelease := a.badRelease ++ b.badRelease, loopLeak := a.loopLeak ++ b.loopLeak }

mutual
  /-- run a statement list from every state in `ss`; returns the states that fall through and the facts -/
  def runList : List LStmt → List PState → Facts → List PState × Facts
    | [], ss, f => (ss, f)
    | st :: rest, ss, f =>
      let (ss', f') := runStmt st ss f
      runList rest ss' f'

  def runStmt : LStmt → List PState → Facts → List PState × Facts
    | .lock m, ss, f => (ss.map (fun s => { s with held := (m, true) :: s.held }),
        { f with acquires := f.acquires ++ ss.map (fun s => (s.held, m, true)) })
    | .rlock m, ss, f => (ss.map (fun s => { s with held := (m, false) :: s.held }),
        { f with acquires := f.acquires ++ ss.map (fun s => (s.held, m, false)) })
    | .unlock m, ss, f =>
        (ss.map (fun s => { s with held := (removeFirst s.held m true).getD s.held }),
         { f with badRelease := f.badRelease ++ (ss.filter (fun s => (removeFirst s.held m true).isNone)).map (fun _ => m) })
    | .runlock m, ss, f =>
        (ss.map (fun s => { s with held := (removeFirst s.held m false).getD s.held }),
         { f with badRelease := f.badRelease ++ (ss.filter (fun s => (removeFirst s.held m false).isNone)).map (fun _ => m) })
    | .deferUnlock m, ss, f => (ss.map (fun s => { s with deferred := (m, true) :: s.deferred }), f)
    | .deferRUnlock m, ss, f => (ss.map (fun s => { s with deferred := (m, false) :: s.deferred }), f)
    | .call g, ss, f => (ss, { f with calls := f.calls ++ ss.map (fun s => (s.held, g)) })
    | .dyn g, ss, f => (ss, { f with dyns := f.dyns ++ ss.map (fun s => (s.held, g)) })
    | .ret, ss, f => ([], { f with exits := f.exits ++ ss.map afterDefers })
    | .branch alts, ss, f => runAlts alts ss f
    | .loop body, ss, f =>
        -- zero or one iteration; a body that does not restore the held set is recorded
        let (after, f') := runList body ss f
        let leak := after.filter (fun s => !(ss.any (fun s0 => s0.held == s.held)))
        (ss ++ leak, { f' with loopLeak := f'.loopLeak ++ leak.map (·.held) })
    | .spawn _ body, ss, f =>
        -- the goroutine starts with nothing held; the spawner continues
        let (after, f') := runList body [{}] f
        (ss, { f' with exits := f'.exits ++ after.map afterDefers })
    | .wait _, ss, f => (ss, { f with waits := f.waits ++ ss.map (·.held) })
    | .once _ body, ss, f =>
        let (after, f') := runList body ss { f with waits := f.waits ++ ss.map (·.held) }
        (ss ++ after, f')

  def runAlts : List (List LStmt) → List PState → Facts → List PState × Facts
    | [], _, f => ([], f)
    | a :: rest, ss, f =>
      let (s1, f1) := runList a ss f
      let (s2, f2) := runAlts rest ss f1
      (s1 ++ s2, f2)
end

/-- all facts of one function body (falling off the end is an exit) -/
def analyse (body : List LStmt) : Facts :=
  let (ends, f) := runList body [{}] {}
  { f with exits := f.exits ++ ends.map afterDefers }

/-! ### discipline predicates over a whole program -/

abbrev Program := List (Name × List LStmt)

def lookupFn (p : Program) (name : Name) : Option (List LStmt) := (p.find? (·.1 == name)).map (·.2)

/-- every path of every function releases what it acquired -/
def balanced (p : Program) : Bool :=
  p.all fun (_, body) => let f := analyse body; f.exits.all (·.isEmpty) && f.badRelease.isEmpty && f.loopLeak.isEmpty

/-- no function acquires a lock while it already holds one -/
def holdsAtMostOne (p : Program) : Bool :=
  p.all fun (_, body) => (analyse body).acquires.all (fun a => a.1.isEmpty)

/-- mutexes a function may acquire, directly or through static calls (fuel = program size) -/
def acquiresOf (p : Program) : Nat → Name → List Name
  | 0, _ => []
  | fuel + 1, name =>
    match lookupFn p name with
    | none => []
    | some body =>
      let f := analyse body
      f.acquires.map (·.2.1) ++ f.calls.flatMap (fun c => acquiresOf p fuel c.2)

/-- while a lock is held, no statically known callee (transitively) acquires any tableau mutex -/
def noLockedCallAcquires (p : Program) : Bool :=
  p.all fun (_, body) =>
    (analyse body).calls.all fun c => c.1.isEmpty || (acquiresOf p p.length c.2).isEmpty

/-- no errgroup.Wait / Once.Do is entered with a lock held -/
def noLockAcrossWait (p : Program) : Bool :=
  p.all fun (_, body) => (analyse body).waits.all (·.isEmpty)

/-- dynamic calls made while a lock is held (to be justified one by one) -/
def dynCallsUnderLock (p : Program) : List (Name × Name) :=
  p.flatMap fun (name, body) => ((analyse body).dyns.filter (fun d => !d.1.isEmpty)).map (fun d => (name, d.2))

end TableauVerif.Model.Conc
