/-
Model of duration / time-of-day cells.

Mirrors (Go): `internal/x/xproto/value.go: parseDuration` (the rewrites of "HHmm", "HHmmss", "HH:mm", "HH:mm:ss"
into Go duration syntax), `time.ParseDuration` (sign, `<digits><unit>` segments, units ns us µs μs ms s m h, the
overflow checks of `leadingInt` and of the accumulation) and `durationpb.New` (seconds / nanos, truncated
towards zero).

Not modelled (answered `unmodelled`): fractions (`1.5h`), non-ASCII input other than the two micro signs.
-/
import TableauVerif.Model.Literal
namespace TableauVerif.Model.Duration
open TableauVerif

inductive DRes where
  | ok (nanos : Int)
  | absent
  | err
  | unmodelled
deriving DecidableEq, Repr

def maxU : Nat := 9223372036854775808     -- 1 << 63

/-- `leadingInt`: the leading digits as a number and the rest; `none` = overflow -/
def leadingInt : Str → Nat → Option (Nat × Str)
  | [], x => some (x, [])
  | c :: cs, x =>
    if Str.isDigit c then
      if x > maxU / 10 then none
      else
        let x' := x * 10 + (c - 48)
        if x' > maxU then none else leadingInt cs x'
    else some (x, c :: cs)

/-- the unit text: everything up to the next digit or '.' -/
def unitSpan : Str → Str × Str
  | [] => ([], [])
  | c :: cs => if c == 46 || Str.isDigit c then ([], c :: cs) else let (u, r) := unitSpan cs; (c :: u, r)

def unitOf (u : Str) : Option Nat :=
  if u == [110, 115] then some 1                      -- ns
  else if u == [117, 115] then some 1000              -- us
  else if u == [181, 115] then some 1000              -- µs (U+00B5)
  else if u == [956, 115] then some 1000              -- μs (U+03BC)
  else if u == [109, 115] then some 1000000           -- ms
  else if u == [115] then some 1000000000             -- s
  else if u == [109] then some 60000000000            -- m
  else if u == [104] then some 3600000000000          -- h
  else none

/-- the segment loop of `time.ParseDuration`: `none` = error -/
def segments : Nat → Str → Nat → Option Nat
  | 0, _, _ => none
  | _ + 1, [], d => some d
  | fuel + 1, c :: cs, d =>
    if !(c == 46 || Str.isDigit c) then none else
    match leadingInt (c :: cs) 0 with
    | none => none
    | some (v, rest) =>
      if rest.length == (c :: cs).length then none else      -- no digits (a '.' first: fractions are not modelled, see `parseGo`)
      let (u, rest') := unitSpan rest
      if u.isEmpty then none else
      match unitOf u with
      | none => none
      | some unit =>
        if v > maxU / unit then none else
        let d' := d + v * unit
        if d' > maxU then none else segments fuel rest' d'

/-- the optional sign: (negative, rest) -/
def signSplit (s : Str) : Bool × Str :=
  match s with
  | 45 :: r => (true, r)
  | 43 :: r => (false, r)
  | _ => (false, s)

/-- `time.ParseDuration` (without fractions) -/
def parseGo (s : Str) : DRes :=
  if s.contains 46 then .unmodelled else
  let neg := (signSplit s).1
  let body := (signSplit s).2
  if body == [48] then .ok 0
  else if body.isEmpty then .err
  else
    match segments (body.length + 1) body 0 with
    | none => .err
    | some d =>
      if neg then .ok (-(d : Int))
      else if d > maxU - 1 then .err else .ok (d : Int)

def containsAny (s : Str) (set : List Nat) : Bool := s.any (fun c => set.contains c)

/-- `strings.SplitN(s, ":", 3)` -/
def splitColon3 (s : Str) : List Str :=
  match Str.splitFirst 58 s with
  | none => [s]
  | some (a, r) =>
    match Str.splitFirst 58 r with
    | none => [a, r]
    | some (b, c) => [a, b, c]

/-- `parseDuration` -/
def parseDuration (raw : Str) : DRes :=
  let val := Literal.trimSpace raw
  if val.any (fun c => c ≥ 128 && c != 181 && c != 956) then .unmodelled else
  -- ":hmsµu"
  if !containsAny val [58, 104, 109, 115, 181, 117] then
    if val.any (fun c => c ≥ 128) then .unmodelled       -- byte length ≠ rune length
    else if val.length == 4 then parseGo (val.take 2 ++ [104] ++ (val.drop 2).take 2 ++ [109])
    else if val.length == 6 then parseGo (val.take 2 ++ [104] ++ (val.drop 2).take 2 ++ [109] ++ val.drop 4 ++ [115])
    else .err
  else if val.contains 58 then
    match splitColon3 val with
    | [a, b] => parseGo (a ++ [104] ++ b ++ [109])
    | [a, b, c] => parseGo (a ++ [104] ++ b ++ [109] ++ c ++ [115])
    | _ => .err
  else parseGo val

/-- a duration cell (`ParseFieldValue` trims the cell first): blank = absent -/
def parseCell (raw : Str) : DRes :=
  let v := Literal.trimSpace raw
  if v.isEmpty then .absent else parseDuration v

/-- `durationpb.New`: seconds and nanos, truncated towards zero -/
def toSecNanos (d : Int) : Int × Int := (Int.tdiv d 1000000000, Int.tmod d 1000000000)

end TableauVerif.Model.Duration
