/-
Abstract thread model for C05: threads running straight-line lock programs over Go-style RWMutexes
(a pending writer blocks new readers). A `Lock()` is two steps: announce (always possible) and acquire.
-/
namespace TableauVerif.Model.Threads

inductive Op where
  | announce (m : Nat) | acqW (m : Nat) | acqR (m : Nat) | relW (m : Nat) | relR (m : Nat) | other
deriving DecidableEq, Repr

structure Thread where
  held : List (Nat × Bool) := []     -- (mutex, isWrite)
  announced : List Nat := []         -- mutexes this thread is waiting to write-lock
  ops : List Op := []
deriving DecidableEq, Repr

abbrev State := List Thread

def anyHolds (ts : State) (m : Nat) : Bool := ts.any fun t => t.held.any fun h => h.1 == m
def writerHolds (ts : State) (m : Nat) : Bool := ts.any fun t => t.held.any fun h => h.1 == m && h.2
def anyAnnounced (ts : State) (m : Nat) : Bool := ts.any fun t => t.announced.contains m

/-- can thread `t` take its next step in state `ts`? (`false` when it has finished) -/
def enabled (ts : State) (t : Thread) : Bool :=
  match t.ops with
  | [] => false
  | .acqW m :: _ => !anyHolds ts m
  | .acqR m :: _ => !writerHolds ts m && !anyAnnounced ts m
  | _ :: _ => true

/-- effect of the next step on the thread itself -/
def advance (t : Thread) : Thread :=
  match t.ops with
  | [] => t
  | .announce m :: r => { t with announced := m :: t.announced, ops := r }
  | .acqW m :: r => { held := (m, true) :: t.held, announced := t.announced.erase m, ops := r }
  | .acqR m :: r => { t with held := (m, false) :: t.held, ops := r }
  | .relW m :: r => { t with held := t.held.erase (m, true), ops := r }
  | .relR m :: r => { t with held := t.held.erase (m, false), ops := r }
  | .other :: r => { t with ops := r }

/-- thread `i` steps -/
def stepAt (ts : State) (i : Nat) : State := ts.modify i advance

def allDone (ts : State) : Bool := ts.all fun t => t.ops.isEmpty

def remaining (ts : State) : Nat := (ts.map (·.ops.length)).sum

/-- the lock discipline of the code base, as a property of a thread's state and remaining program:
a lock is acquired only when nothing is held, every acquisition is released, `Lock` = announce;acquire. -/
def disc : List (Nat × Bool) → List Nat → List Op → Bool
  | h, a, [] => h.isEmpty && a.isEmpty
  | h, a, .announce m :: r => h.isEmpty && a.isEmpty && disc [] [m] r
  | h, a, .acqW m :: r => h.isEmpty && a == [m] && disc [(m, true)] [] r
  | h, a, .acqR m :: r => h.isEmpty && a.isEmpty && disc [(m, false)] [] r
  | h, a, .relW m :: r => h == [(m, true)] && a.isEmpty && disc [] [] r
  | h, a, .relR m :: r => h == [(m, false)] && a.isEmpty && disc [] [] r
  | h, a, .other :: r => a.isEmpty && disc h a r

def Thread.ok (t : Thread) : Bool := disc t.held t.announced t.ops

end TableauVerif.Model.Threads
