/-
Model of header / separator option resolution.

Mirrors (Go):
* `internal/protogen/parseroptions/header.go: MergeHeader`
* `internal/confgen/parser.go: (*sheetParser).GetSep / GetSubsep`
* `internal/confgen/util.go: parseFieldDescriptor` (sep / subsep part)
* `internal/protogen/parser.go: newBookParser`, `table_parser.go: newTableParser`
  (what protogen records into the generated workbook options)
* `internal/importer/book/sheet.go: ToWorkseet` (sheet options are recorded as written)
* `internal/importer/book/book.go: GetBookOptions` (the `#` row of the metasheet)

Core Lean only.
-/
namespace TableauVerif.Model.Options

/-- The eight header options as they appear at one level (0 / "" = not set). -/
structure Level where
  namerow  : Int := 0
  typerow  : Int := 0
  noterow  : Int := 0
  datarow  : Int := 0
  nameline : Int := 0
  typeline : Int := 0
  sep      : String := ""
  subsep   : String := ""
deriving DecidableEq, Repr

/-- resolved header (`parseroptions.Header`) -/
structure Header where
  nameRow  : Int
  typeRow  : Int
  noteRow  : Int
  dataRow  : Int
  nameLine : Int
  typeLine : Int
  sep      : String
  subsep   : String
deriving DecidableEq, Repr

def defaultNameRow : Int := 1
def defaultTypeRow : Int := 2
def defaultNoteRow : Int := 3
def defaultDataRow : Int := 4
def defaultSep : String := ","
def defaultSubsep : String := ":"

/-- one `if … else if … else` chain of `MergeHeader` for an integer option.
`g = none` is the `globalOpts == nil` case. -/
def pickInt (s b : Int) (g : Option Int) (dflt : Int) : Int :=
  if s != 0 then s
  else if b != 0 then b
  else match g with
    | some gv => if gv != 0 then gv else dflt
    | none => dflt

def pickStr (s b : String) (g : Option String) (dflt : String) : String :=
  if s != "" then s
  else if b != "" then b
  else match g with
    | some gv => if gv != "" then gv else dflt
    | none => dflt

/-- `MergeHeader(sheetOpts, bookOpts, globalOpts)`; a nil `bookOpts` behaves as the all-zero level
(proto getters on nil receivers return zero values). -/
def mergeHeader (s b : Level) (g : Option Level) : Header :=
  { nameRow  := pickInt s.namerow b.namerow (g.map (·.namerow)) defaultNameRow
    typeRow  := pickInt s.typerow b.typerow (g.map (·.typerow)) defaultTypeRow
    noteRow  := pickInt s.noterow b.noterow (g.map (·.noterow)) defaultNoteRow
    dataRow  := pickInt s.datarow b.datarow (g.map (·.datarow)) defaultDataRow
    nameLine := pickInt s.nameline b.nameline (g.map (·.nameline)) 0
    typeLine := pickInt s.typeline b.typeline (g.map (·.typeline)) 0
    sep      := pickStr s.sep b.sep (g.map (·.sep)) defaultSep
    subsep   := pickStr s.subsep b.subsep (g.map (·.subsep)) defaultSubsep }

/-- confgen `sheetParser.GetSep` -/
def getSep (sheetSep bookSep : String) : String :=
  if sheetSep != "" then sheetSep else if bookSep != "" then bookSep else defaultSep

def getSubsep (sheetSubsep bookSubsep : String) : String :=
  if sheetSubsep != "" then sheetSubsep else if bookSubsep != "" then bookSubsep else defaultSubsep

/-- `parseFieldDescriptor`: field-level sep wins, else `GetSep()` -/
def fieldSep (fieldSep sheetSep bookSep : String) : String :=
  if fieldSep == "" then getSep sheetSep bookSep else fieldSep

def fieldSubsep (fieldSubsep sheetSubsep bookSubsep : String) : String :=
  if fieldSubsep == "" then getSubsep sheetSubsep bookSubsep else fieldSubsep

/-- `newBookParser` + `newTableParser`: the **global** header with defaults for the four rows and
the two separators; name/type line are copied as they are. -/
def recordGlobal (g : Option Level) : Level :=
  let h := g.getD {}
  { namerow  := if h.namerow == 0 then defaultNameRow else h.namerow
    typerow  := if h.typerow == 0 then defaultTypeRow else h.typerow
    noterow  := if h.noterow == 0 then defaultNoteRow else h.noterow
    datarow  := if h.datarow == 0 then defaultDataRow else h.datarow
    nameline := h.nameline
    typeline := h.typeline
    sep      := if h.sep == "" then defaultSep else h.sep
    subsep   := if h.subsep == "" then defaultSubsep else h.subsep }

/-- `tableParser.mergeBookOptions` (fix D11): non-zero book-level (`#` row) settings override -/
def mergeBook (o : Level) (bm : Option Level) : Level :=
  match bm with
  | none => o
  | some b =>
    { namerow  := if b.namerow != 0 then b.namerow else o.namerow
      typerow  := if b.typerow != 0 then b.typerow else o.typerow
      noterow  := if b.noterow != 0 then b.noterow else o.noterow
      datarow  := if b.datarow != 0 then b.datarow else o.datarow
      nameline := if b.nameline != 0 then b.nameline else o.nameline
      typeline := if b.typeline != 0 then b.typeline else o.typeline
      sep      := if b.sep != "" then b.sep else o.sep
      subsep   := if b.subsep != "" then b.subsep else o.subsep }

/-- What protogen writes into the generated *workbook* options. -/
def recordBook (g : Option Level) (bookMeta : Option Level) : Level :=
  mergeBook (recordGlobal g) bookMeta

/-- `ToWorkseet`: the sheet's metasheet row is recorded verbatim. -/
def recordSheet (s : Level) : Level := s

/-- header protogen uses to read a sheet: `newTableHeader(ws.Options, bookOpts, gen.InputOpt.Header)`
where `bookOpts` is the `#` row of the metasheet (`none` when there is no such row). -/
def protogenView (sheetMeta : Level) (bookMeta : Option Level) (g : Option Level) : Header :=
  mergeHeader sheetMeta (bookMeta.getD {}) g

/-- header confgen uses: `MergeHeader(sheetOpts, bookOpts, nil)` over the *recorded* options. -/
def confgenView (recSheet recBook : Level) : Header :=
  mergeHeader recSheet recBook none

end TableauVerif.Model.Options
