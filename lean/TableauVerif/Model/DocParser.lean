/-
Model of confgen's document parser (YAML / XML data documents).

Mirrors (Go): `internal/confgen/document_parser.go` — parseMessage (field lookup by option name,
optional fields, E2014), parseField dispatch, parseScalarField, parseStructField (in-cell struct,
cross-cell struct incl. the one-child list node), parseListField (in-cell list and the scalar-node
shortcut, cross-cell scalar and struct lists), parseMapField (in-cell map, scalar maps with simple key /
value and with a {Key, Value} message value, struct maps over map nodes with the virtual key child and
over list nodes with an explicit key child, uniqueness E2005, E2018) — on the node trees of
`Model.XmlDoc` (`book.Node`), reusing the scalar / in-cell / key machinery of `Model.TableParser`.

Not modelled (answered `unmodelled`): unions, well-known message fields, default values, the metabook
work-around.
-/
import TableauVerif.Model.TableParser
import TableauVerif.Model.XmlDoc
namespace TableauVerif.Model.DocParser
open TableauVerif TableauVerif.Val TableauVerif.Model.TableParser TableauVerif.Model.XmlDoc

def BNode.kind : BNode → NKind | .mk k _ _ _ => k
def BNode.name : BNode → Str | .mk _ n _ _ => n
def BNode.value : BNode → Str | .mk _ _ v _ => v
def BNode.children : BNode → List BNode | .mk _ _ _ c => c

/-- `node.FindChild(name)` -/
def findChild (cs : List BNode) (name : Str) : Option BNode := cs.find? (fun b => BNode.name b == name)

/-- errors carry (code, name of the innermost node reported) -/
def errAt (code : Nat) (name : Str) : PErr := { code := code, col := some name }

def wrapNode {α : Type} (n : BNode) : M α → M α := wrapCol (BNode.name n)

/-- `types.CheckMessageWithOnlyKVFields`: option names (Key, Value) or (@key, @value) -/
def isKVNames (names : List Str) : Bool :=
  names == [Str.ofString "Key", Str.ofString "Value"] || names == [Str.ofString "@key", Str.ofString "@value"]

/-- fold a step over the children of a node (the loops of list and map fields) -/
def foldNodes {σ : Type} (step : BNode → σ → M σ) : List BNode → σ → M σ
  | [], s => .ok s
  | b :: bs, s =>
    match step b s with
    | .error e => .error e
    | .ok s' => foldNodes step bs s'

mutual

/-- `parseMessage`: every field of the message against the children of `node` -/
def parseFields (c : Ctx) : List TField → Msg → BNode → M (Msg × Bool)
  | [], m, _ => .ok (m, false)
  | f :: rest, m, node =>
    match findChild (BNode.children node) f.name with
    | none =>
      if c.isOptional f then parseFields c rest m node
      else .error (errAt 2014 (BNode.name node))
    | some fieldNode =>
      match parseField c f m fieldNode with
      | .error e => .error e
      | .ok (m1, p1) =>
        match parseFields c rest m1 node with
        | .error e => .error e
        | .ok (m2, p2) => .ok (m2, p1 || p2)

def parseField (c : Ctx) : TField → Msg → BNode → M (Msg × Bool)
  | .mk num name key card layout incellSpan kind keyKind sub prop propSep propSubsep keyProto protoName, m, node =>
    let f : TField := .mk num name key card layout incellSpan kind keyKind sub prop propSep propSubsep keyProto protoName
    match card with
    | .one =>
      match kind with
      | some k =>
        -- parseScalarField
        wrapNode node (do
          let (v, present) ← parseFieldValue k (BNode.value node) (some prop)
          pure (if present then setScalar m num v else m, present))
      | none =>
        -- parseStructField
        let old : Msg := getMsg m num
        if incellSpan then
          wrapNode node (do
            let (sm, present) ← parseIncellStruct sub (BNode.value node) (c.sepOf f) old
            pure (if present || has m num then setF m num (.msg sm) else m, present))
        else
          let inner : M BNode :=
            if BNode.kind node == .list then
              match BNode.children node with
              | [only] => .ok only
              | _ => .error (errAt 0 (BNode.name node))
            else .ok node
          match inner with
          | .error e => .error e
          | .ok n' =>
            wrapNode n' (do
              let (sm, present) ← parseFields c sub old n'
              pure (if present || has m num then setF m num (.msg sm) else m, present))
    | .list =>
      if layout == .incell || BNode.kind node == .scalar then
        wrapNode node (do
          let (l, present) ← parseListElems f (c.subsepOf f) (splitStr (c.sepOf f) (BNode.value node)) (getList m num)
          pure (setList m num l, present))
      else
        let step (elemNode : BNode) (l : List Val) : M (List Val) :=
          wrapNode elemNode (
            match kind with
            | some k => do
              let (v, p) ← parseFieldValue k (BNode.value elemNode) (some prop)
              pure (if p then l ++ [v] else l)
            | none => do
              let (em, p) ← parseFields c sub [] elemNode
              pure (if p then l ++ [.msg em] else l))
        match foldNodes step (BNode.children node) (getList m num) with
        | .error e => .error e
        | .ok l =>
          let m' := setList m num l
          .ok (m', has m' num)
    | .map =>
      let entries := getMap m num
      if layout == .incell then
        wrapNode node (do
          let es ← (match kind with
            | some vk =>
              match keyKind with
              | some kk => parseIncellMapKV f kk vk (c.sepOf f) (c.subsepOf f) (BNode.value node) entries
              | none => throw { code := unmodelledCode }
            | none =>
                if sub.length == 2 && isKVNames (sub.map (·.name))
                then parseIncellMapKVMsg f (c.sepOf f) (c.subsepOf f) (BNode.value node) entries
                else throw { code := 0 })
          let m' := setMap m num es
          pure (m', has m' num))
      else
        match kind with
        | some vk =>
         match keyKind with
         | none => .error { code := unmodelledCode }
         | some kk =>
          -- parseScalarMapWithSimpleKV
          let step (elemNode : BNode) (es : List (Val × Val)) : M (List (Val × Val)) :=
            wrapNode elemNode (do
              let (kv, kp) ← parseFieldValue kk (BNode.name elemNode) (some prop)
              let (vv, vp) ← parseFieldValue vk (BNode.value elemNode) none
              pure (if !kp && !vp then es else setE es kv vv))
          match wrapNode node (foldNodes step (BNode.children node) entries) with
          | .error e => .error e
          | .ok es =>
            let m' := setMap m num es
            .ok (m', has m' num)
        | none =>
          if incellSpan then
            -- parseScalarMapWithValueAsSimpleKVMessage
            if !(sub.length == 2 && isKVNames (sub.map (·.name))) then .error (errAt 0 (BNode.name node)) else
            let step (elemNode : BNode) (es : List (Val × Val)) : M (List (Val × Val)) :=
              wrapNode elemNode (do
                let item := BNode.name elemNode ++ c.subsepOf f ++ BNode.value elemNode
                let (kv, kp) ← parseMapKey f es (BNode.name elemNode)
                let (vm, vp) ← parseIncellStruct sub item (c.subsepOf f)
                pure (if !kp && !vp then es else setE es kv (.msg vm)))
            match wrapNode node (foldNodes step (BNode.children node) entries) with
            | .error e => .error e
            | .ok es =>
              let m' := setMap m num es
              .ok (m', has m' num)
          else
            -- struct map: one entry per child of the map / list node
            let nk := BNode.kind node
            let step (elemNode : BNode) (es : List (Val × Val)) : M (List (Val × Val)) :=
              let keyInfo : M (Str × BNode) :=
                match nk with
                | .map =>
                  .ok (BNode.name elemNode,
                    .mk (BNode.kind elemNode) (BNode.name elemNode) (BNode.value elemNode)
                      (BNode.children elemNode ++ [.mk .scalar key (BNode.name elemNode) []]))
                | .list =>
                  match findChild (BNode.children elemNode) key with
                  | none => .error (errAt 2018 (BNode.name elemNode))
                  | some kn => .ok (BNode.value kn, elemNode)
                | .scalar => .error (errAt 0 (BNode.name node))
              match keyInfo with
              | .error e => .error e
              | .ok (keyData, elemNode') =>
                wrapNode elemNode (do
                  let (kv, keyPresent) ← parseMapKey f es keyData
                  let existing := getE es kv
                  let old : Msg := match existing with | some (.msg l) => l | _ => []
                  let (vm, valuePresent) ← parseFields c sub old elemNode'
                  if existing.isSome && mustBeUnique c f then throw { code := 2005 }
                  else if !keyPresent && !valuePresent then
                    pure (if existing.isSome then setE es kv (.msg vm) else es)
                  else pure (setE es kv (.msg vm)))
            match foldNodes step (BNode.children node) entries with
            | .error e => .error e
            | .ok es =>
              let m' := setMap m num es
              .ok (m', has m' num)

end

/-- `documentParser.Parse`: the document node has exactly one child, the map node of the sheet -/
def parse (c : Ctx) (fields : List TField) (doc : BNode) : M Msg :=
  match BNode.children doc with
  | [root] => (parseFields c fields [] root).map (·.1)
  | _ => .error { code := 0 }

end TableauVerif.Model.DocParser
