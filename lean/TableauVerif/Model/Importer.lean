/-
Model of the step before every parser: what grid of cells the importers hand on for a written grid
(`internal/importer/csv.go: readCSVRows` → `encoding/csv` with `FieldsPerRecord = -1`; `internal/importer/excel.go`
→ excelize rows). Tied to the code by `corr.importer.grid` (files written in five styles, read by the real
`tableau.NewImporter`).

* CSV: every cell comes back as written. A record written as an empty line (one blank cell, unquoted) comes back
  as a row without cells when a later record follows (fix D46: before, such lines were skipped and later rows
  moved up); empty lines after the last record are not rows.
* XLSX: trailing blank cells of a row and trailing blank rows are not stored; everything else comes back as written.
-/
import TableauVerif.Model.CSV
namespace TableauVerif.Model.Importer
open TableauVerif

def trimRight {α} (p : α → Bool) (l : List α) : List α := (l.reverse.dropWhile p).reverse

/-- what `readCSVRows` hands on for a grid written as CSV (`Model.CSV.keepRows`, which `Props.C01Csv` derives from
the reader at text level); `allQuoted` = the writer quotes every cell, blank ones too -/
def csvGrid (allQuoted : Bool) (rows : List (List Str)) : List (List Str) := CSV.keepRows (!allQuoted) rows 0

def xlsxGrid (rows : List (List Str)) : List (List Str) :=
  trimRight (·.isEmpty) (rows.map (trimRight (·.isEmpty)))

end TableauVerif.Model.Importer
