/-
Model of date/time cells.

Mirrors (Go): `internal/x/xproto/value.go: parseTimeWithLocation` (layout choice, yyyyMMdd rewrite),
Go `time.ParseInLocation` for the two layouts tableau uses (`2006-01-02 15:04:05`, `2006-01-02`)
including `time.Date`'s two-guess zone lookup, and `timestamppb.CheckValid`.
A location is a transition table `[(start, offset)]` (ascending `start`, first entry = -∞).
Fractional seconds in the cell are answered `unmodelled`.
-/
import TableauVerif.Model.Basic
import TableauVerif.Model.Literal
namespace TableauVerif.Model.Time
open TableauVerif

/-! ### proleptic Gregorian calendar (days since 1970-01-01) -/

def isLeap (y : Int) : Bool := (y % 4 == 0 && y % 100 != 0) || y % 400 == 0

def daysInMonth (y : Int) (m : Int) : Int :=
  if m == 2 then (if isLeap y then 29 else 28)
  else if m == 4 || m == 6 || m == 9 || m == 11 then 30 else 31

/-- days from civil (Hinnant) -/
def daysFromCivil (y m d : Int) : Int :=
  let y' := if m ≤ 2 then y - 1 else y
  let era := y' / 400
  let yoe := y' - era * 400
  let mp := if m > 2 then m - 3 else m + 9
  let doy := (153 * mp + 2) / 5 + d - 1
  let doe := yoe * 365 + yoe / 4 - yoe / 100 + doy
  era * 146097 + doe - 719468

def civilFromDays (z0 : Int) : Int × Int × Int :=
  let z := z0 + 719468
  let era := z / 146097
  let doe := z - era * 146097
  let yoe := (doe - doe / 1460 + doe / 36524 - doe / 146096) / 365
  let y := yoe + era * 400
  let doy := doe - (365 * yoe + yoe / 4 - yoe / 100)
  let mp := (5 * doy + 2) / 153
  let d := doy - (153 * mp + 2) / 5 + 1
  let m := if mp < 10 then mp + 3 else mp - 9
  (if m ≤ 2 then y + 1 else y, m, d)

structure Wall where
  y : Int
  mo : Int
  d : Int
  h : Int := 0
  mi : Int := 0
  s : Int := 0
deriving DecidableEq, Repr

/-- the wall clock read as if it were UTC -/
def Wall.asUTC (w : Wall) : Int := daysFromCivil w.y w.mo w.d * 86400 + w.h * 3600 + w.mi * 60 + w.s

def Wall.valid (w : Wall) : Bool :=
  1 ≤ w.mo && w.mo ≤ 12 && 1 ≤ w.d && w.d ≤ daysInMonth w.y w.mo &&
  0 ≤ w.h && w.h < 24 && 0 ≤ w.mi && w.mi < 60 && 0 ≤ w.s && w.s < 60

/-! ### locations -/

/-- transition table: (start instant, UTC offset in seconds), ascending starts;
the FIRST entry applies from -∞ (its recorded start is ignored), the last one to +∞ -/
abbrev Zone := List (Int × Int)

/-- `Location.lookup(sec)` on the rest of the table: `cur` = entry in force so far -/
def lookupFrom (curStart : Option Int) (curOff : Int) : Zone → Int → Int × Option Int × Option Int
  | [], _ => (curOff, curStart, none)
  | (st, off) :: rest, t =>
    if t < st then (curOff, curStart, some st) else lookupFrom (some st) off rest t

/-- offset in force at `t` and its validity interval `[start, end)` (`none` = unbounded) -/
def lookup (z : Zone) (t : Int) : Int × Option Int × Option Int :=
  match z with
  | [] => (0, none, none)
  | (_, off) :: rest => lookupFrom none off rest t

def lookupOffset (z : Zone) (t : Int) : Int := (lookup z t).1

/-- `utc < start || utc >= end` for the interval a lookup returned -/
def outside (r : Int × Option Int × Option Int) (utc : Int) : Bool :=
  (match r.2.1 with | some st => decide (utc < st) | none => false) ||
  (match r.2.2 with | some en => decide (utc ≥ en) | none => false)

/-- `time.Date(…, loc).Unix()`: the two-guess lookup of package time -/
def dateUnix (z : Zone) (w : Wall) : Int :=
  let unix := w.asUTC
  let r := lookup z unix
  let offset := r.1
  if offset != 0 then
    let utc := unix - offset
    -- "If utc is valid for the time zone we found, then we have the right offset.
    --  If not, we get the correct offset by looking up utc in the location."
    let offset' := if outside r utc then lookupOffset z utc else offset
    unix - offset'
  else unix

/-! ### text → wall clock -/

inductive TRes where
  | ok (seconds : Int)
  | err
  | unmodelled
deriving DecidableEq, Repr

/-- exactly `n` digits -/
def fixedNum (n : Nat) (s : Str) : Option (Nat × Str) :=
  let ds := s.take n
  if ds.length = n && ds.all Str.isDigit then (Str.parseNat ds).map (fun v => (v, s.drop n)) else none

def dash : Nat := 45
def colonC : Nat := 58
def spaceC : Nat := 32

/-- layout `2006-01-02` -/
def parseDate (s : Str) : Option (Int × Int × Int × Str) := do
  let (y, r1) ← fixedNum 4 s
  let r1 ← (match r1 with | c :: r => if c == dash then some r else none | [] => none)
  let (m, r2) ← fixedNum 2 r1
  let r2 ← (match r2 with | c :: r => if c == dash then some r else none | [] => none)
  let (d, r3) ← fixedNum 2 r2
  some (y, m, d, r3)

/-- layout ` 15:04:05` after the date -/
def parseClock (s : Str) : Option (Int × Int × Int × Str) := do
  -- a blank in the layout matches one or more blanks of the value
  let r0 ← (match s with | c :: r => if c == spaceC then some (r.dropWhile (· == spaceC)) else none | [] => none)
  let (h, r1) ← fixedNum 2 r0
  let r1 ← (match r1 with | c :: r => if c == colonC then some r else none | [] => none)
  let (mi, r2) ← fixedNum 2 r1
  let r2 ← (match r2 with | c :: r => if c == colonC then some r else none | [] => none)
  let (sec, r3) ← fixedNum 2 r2
  some (h, mi, sec, r3)

def minTs : Int := -62135596800     -- 0001-01-01T00:00:00Z
def maxTs : Int := 253402300799     -- 9999-12-31T23:59:59Z

def finish (z : Zone) (w : Wall) : TRes :=
  if !w.valid then .err
  else
    let t := dateUnix z w
    if t < minTs || t > maxTs then .err else .ok t

/-- `parseTimeWithLocation` + `timestamppb.New(t).CheckValid()` for a loaded location `z` -/
def parseTimestamp (z : Zone) (raw : Str) : TRes :=
  let s := Literal.trimSpace raw
  if s.contains spaceC then
    match parseDate s with
    | none => .err
    | some (y, m, d, rest) =>
      match parseClock rest with
      | none => .err
      | some (h, mi, sec, rest2) =>
        if rest2.isEmpty then finish z { y := y, mo := m, d := d, h := h, mi := mi, s := sec }
        else if rest2.head? == some 46 || rest2.head? == some 44 then .unmodelled   -- fractional seconds
        else .err
  else
    let s' := if s.contains dash then some s
              else if s.length = 8 then some (s.take 4 ++ [dash] ++ (s.drop 4).take 2 ++ [dash] ++ s.drop 6)
              else none
    match s' with
    | none => .err
    | some t =>
      match parseDate t with
      | some (y, m, d, []) => finish z { y := y, mo := m, d := d }
      | _ => .err

end TableauVerif.Model.Time
