/-
Model of the type DSL recognisers of `internal/types/types.go`.

Each Go recogniser is `regexp.FindStringSubmatch` with a `^`-anchored, not end-anchored pattern
(leftmost-first / backtracking-priority semantics), followed by `strings.TrimSpace` of every group.
The functions below are direct recognisers computing the same submatches:

  nested class  N = [0-9A-Za-z _,.<>\[\]{}]     type class T = [0-9A-Za-z _,.<>]     name class = [0-9A-Za-z_]
  prop group    ( *\| *\{(?P<Prop>.+)\})?        (`.` = any code point except U+000A)

  map     ^map<(N+),(N+)>prop         greedy/greedy: key up to the last ',' that leaves a value and a '>'
  list    ^\[(N*?)\](N+)?prop         lazy element: up to the first ']'
  keyed   ^\[(N*?)\]<(N+)>prop        lazy element: up to the first ']' followed by '<' N+ '>'
  struct  ^\{(T*?)(\((name*?)\))?\}(N+)?prop
  enum    ^enum<(T+)>prop
  scalar  ^(T+)prop

They are tied to Go's `regexp` by the stream `corr.types.match` (exhaustive over the DSL alphabet up
to a length bound, plus random longer strings).
-/
import TableauVerif.Model.Basic
import TableauVerif.Model.Literal
namespace TableauVerif.Model.Types
open TableauVerif

def isNameCh (c : Nat) : Bool := Str.isDigit c || Str.isUpper c || Str.isLower c || c == 95
def isTypeCh (c : Nat) : Bool := isNameCh c || c == 32 || c == 44 || c == 46 || c == 60 || c == 62
def isNestedCh (c : Nat) : Bool := isTypeCh c || c == 91 || c == 93 || c == 123 || c == 125

/-- index of the last occurrence of `c` -/
def lastIdx (c : Nat) : Str → Option Nat
  | [] => none
  | x :: xs =>
    match lastIdx c xs with
    | some i => some (i + 1)
    | none => if x = c then some 0 else none

def stripPrefix : Str → Str → Option Str
  | [], s => some s
  | _ :: _, [] => none
  | p :: ps, c :: cs => if p = c then stripPrefix ps cs else none

def trimSpace (s : Str) : Str := Literal.trimSpace s

def dropSpaces (s : Str) : Str := s.dropWhile (· == 32)

/-- the `Prop` submatch (trimmed) of the optional prop group tried at `rest`; `[]` if the group does
not match there -/
def propAt (rest : Str) : Str :=
  match dropSpaces rest with
  | 124 :: r1 =>
    match dropSpaces r1 with
    | 123 :: r2 =>
      let run := r2.takeWhile (· != 10)
      match lastIdx 125 run with
      | some k => if k ≥ 1 then trimSpace (run.take k) else []
      | none => []
    | _ => []
  | _ => []

structure MapD where
  key : Str
  value : Str
  prop : Str
deriving DecidableEq, Repr

def matchMap (s : Str) : Option MapD :=
  match stripPrefix [109, 97, 112, 60] s with
  | none => none
  | some r =>
    let run := r.takeWhile isNestedCh
    match lastIdx 62 run with
    | none => none
    | some j =>
      match lastIdx 44 (run.take (j - 1)) with
      | none => none
      | some i =>
        if i ≥ 1 then
          some ⟨trimSpace (run.take i), trimSpace ((run.take j).drop (i + 1)), propAt (r.drop (j + 1))⟩
        else none

structure ListD where
  elem : Str
  col : Str
  prop : Str
deriving DecidableEq, Repr

def notClose (c : Nat) : Bool := isNestedCh c && c != 93

def matchList (s : Str) : Option ListD :=
  match s with
  | 91 :: r =>
    match r.dropWhile notClose with
    | 93 :: r2 =>
      some ⟨trimSpace (r.takeWhile notClose), trimSpace (r2.takeWhile isNestedCh), propAt (r2.dropWhile isNestedCh)⟩
    | _ => none
  | _ => none

/-- after a `]`: `<` N+ `>` with the greedy column group; returns (column, rest after `>`) -/
def keyedTail (r : Str) : Option (Str × Str) :=
  match r with
  | 60 :: r1 =>
    let run := r1.takeWhile isNestedCh
    match lastIdx 62 run with
    | some j => if j ≥ 1 then some (run.take j, r1.drop (j + 1)) else none
    | none => none
  | _ => none

/-- lazy element group: the first `]` after which the tail matches -/
def keyedScan : Str → Str → Option (Str × Str × Str)
  | [], _ => none
  | c :: cs, acc =>
    if c == 93 then
      match keyedTail cs with
      | some (col, rest) => some (acc.reverse, col, rest)
      | none => keyedScan cs (c :: acc)
    else if isNestedCh c then keyedScan cs (c :: acc)
    else none

def matchKeyedList (s : Str) : Option ListD :=
  match s with
  | 91 :: r =>
    match keyedScan r [] with
    | some (e, col, rest) => some ⟨trimSpace e, trimSpace col, propAt rest⟩
    | none => none
  | _ => none

structure StructD where
  stype : Str
  custom : Str
  col : Str
  prop : Str
deriving DecidableEq, Repr

def matchStruct (s : Str) : Option StructD :=
  match s with
  | 123 :: r =>
    let st := r.takeWhile isTypeCh
    let after : Option (Str × Str) :=
      match r.dropWhile isTypeCh with
      | 125 :: r2 => some ([], r2)
      | 40 :: r2 =>
        match r2.dropWhile isNameCh with
        | 41 :: 125 :: r3 => some (r2.takeWhile isNameCh, r3)
        | _ => none
      | _ => none
    match after with
    | some (custom, r3) =>
      some ⟨trimSpace st, trimSpace custom, trimSpace (r3.takeWhile isNestedCh), propAt (r3.dropWhile isNestedCh)⟩
    | none => none
  | _ => none

structure BasicD where
  typ : Str
  prop : Str
deriving DecidableEq, Repr

def matchEnum (s : Str) : Option BasicD :=
  match stripPrefix [101, 110, 117, 109, 60] s with
  | none => none
  | some r =>
    let run := r.takeWhile isTypeCh
    match lastIdx 62 run with
    | some j => if j ≥ 1 then some ⟨trimSpace (run.take j), propAt (r.drop (j + 1))⟩ else none
    | none => none

def matchScalar (s : Str) : Option BasicD :=
  match s.takeWhile isTypeCh with
  | [] => none
  | run => some ⟨trimSpace run, propAt (s.dropWhile isTypeCh)⟩

/-- `MatchProp`: the unanchored optional group always matches at offset 0 -/
def matchProp (s : Str) : Str := propAt s

def isMap (s : Str) : Bool := (matchMap s).isSome
def isList (s : Str) : Bool := (matchList s).isSome
def isKeyedList (s : Str) : Bool := (matchKeyedList s).isSome
def isStruct (s : Str) : Bool := (matchStruct s).isSome
def isEnum (s : Str) : Bool := (matchEnum s).isSome

/-- `BelongToFirstElement` -/
def belongToFirstElement (name pfx : Str) : Bool :=
  match stripPrefix (pfx ++ [49]) name with
  | some (c :: _) => !Str.isDigit c
  | _ => false

/-- `types.Kind` -/
inductive Kind where
  | scalar | enum | list | map | message
deriving DecidableEq, Repr

def Kind.toNat : Kind → Nat
  | .scalar => 0 | .enum => 1 | .list => 2 | .map => 3 | .message => 4

def scalarNames : List String :=
  ["bool", "int32", "sint32", "uint32", "int64", "sint64", "uint64", "sfixed32", "fixed32", "float",
   "sfixed64", "fixed64", "double", "string", "bytes",
   "google.protobuf.Timestamp", "google.protobuf.Duration", "tableau.Fraction", "tableau.Comparator"]

def isScalarType (s : Str) : Bool := scalarNames.any (fun n => Str.ofString n == s)

def wellKnownNames : List String :=
  ["google.protobuf.Timestamp", "google.protobuf.Duration", "tableau.Fraction", "tableau.Comparator"]

def isWellKnown (s : Str) : Bool := wellKnownNames.any (fun n => Str.ofString n == s)

structure Descriptor where
  name : Str
  fullName : Str
  predefined : Bool
  kind : Kind
deriving DecidableEq, Repr

def wellKnown (n : String) : Descriptor := ⟨Str.ofString n, Str.ofString n, true, .scalar⟩

/-- `types.ParseTypeDescriptor` -/
def parseTypeDescriptor (raw : Str) : Descriptor :=
  if raw == Str.ofString "datetime" || raw == Str.ofString "date" then wellKnown "google.protobuf.Timestamp"
  else if raw == Str.ofString "time" || raw == Str.ofString "duration" then wellKnown "google.protobuf.Duration"
  else if raw == Str.ofString "fraction" then wellKnown "tableau.Fraction"
  else if raw == Str.ofString "comparator" then wellKnown "tableau.Comparator"
  else
    ⟨raw, raw, false, if isScalarType raw then .scalar else if isEnum raw then .enum else .message⟩

/-- the construct a type cell denotes for protogen's `parseField` dispatch (map, then list, then
struct, otherwise scalar/enum) -/
inductive Cls where
  | map | keyedList | list | struct | enum | scalar | other
deriving DecidableEq, Repr

def classify (s : Str) : Cls :=
  if isMap s then .map
  else if isList s then (if isKeyedList s then .keyedList else .list)
  else if isStruct s then .struct
  else if isEnum s then .enum
  else if (matchScalar s).isSome then .scalar
  else .other

end TableauVerif.Model.Types
