/-
Model of the multi-book layer of confgen.

Mirrors (Go): `internal/x/xproto/merge.go` (Merge, mergeList, mergeMap, CheckMapDuplicateKey),
`internal/confgen/parser.go: ParseMessage` (map-reduce over the importers: every worker fills the slot
of its importer index — fix D8 — then the messages are merged in importer order; a duplicate map key
is reported for the earliest earlier book holding it), `MergeAndExport` (primary book last),
`importer.GetMergerImporters` (matched books in sorted order — fix D8).
-/
import TableauVerif.Model.Val
namespace TableauVerif.Model.Sheets
open TableauVerif TableauVerif.Val

abbrev Msg := List (Nat × Val)

inductive MErr where
  | dupKey | notListOrMap
deriving DecidableEq, Repr

/-- `mergeMap`: entries of `src` are added; an existing key is `ErrDuplicateKey` -/
def mergeEntries (dst : List (Val × Val)) : List (Val × Val) → Except MErr (List (Val × Val))
  | [] => .ok dst
  | (k, v) :: rest => if (getE dst k).isSome then .error .dupKey else mergeEntries (setE dst k v) rest

/-- `mergeMessage(dst, src)`: only list and map fields are allowed -/
def mergeMsg (dst : Msg) : Msg → Except MErr Msg
  | [] => .ok dst
  | (n, .list l) :: rest =>
    let old := match getF dst n with | some (.list o) => o | _ => []
    mergeMsg (setF dst n (.list (old ++ l))) rest
  | (n, .map es) :: rest =>
    let old := match getF dst n with | some (.map o) => o | _ => []
    match mergeEntries old es with
    | .ok merged => mergeMsg (setF dst n (.map merged)) rest
    | .error e => .error e
  | _ :: _ => .error .notListOrMap

/-- `CheckMapDuplicateKey(dst, src)`: some map field of `src` has a key that `dst` has too -/
def sharesKey (dst src : Msg) : Bool :=
  src.any fun (n, v) => match v, getF dst n with
    | .map es, some (.map ds) => es.any fun e => (getE ds e.1).isSome
    | _, _ => false

inductive RRes where
  | ok (m : Msg)
  | dup (i j : Nat)        -- indices (in importer order) of the two books sharing a key
  | dupUnknown (j : Nat)   -- duplicate reported without an earlier book (cannot happen for well-formed inputs)
  | err
deriving Repr

/-- the reduce step of `ParseMessage`: merge in importer order; on a duplicate key find the earliest
earlier book holding a key of book `j` -/
def reduceGo (msgs : List Msg) : Nat → Msg → List Msg → RRes
  | _, acc, [] => .ok acc
  | j, acc, m :: rest =>
    match mergeMsg acc m with
    | .ok acc' => reduceGo msgs (j + 1) acc' rest
    | .error .dupKey =>
      match (List.range j).find? (fun i => sharesKey (msgs.getD i []) m) with
      | some i => .dup i j
      | none => .dupUnknown j
    | .error _ => .err

def reduce (msgs : List Msg) : RRes := reduceGo msgs 0 [] msgs

/-- the map step: workers complete in some order `completion` (a list of (importer index, message));
every worker stores into the slot of its own index -/
def collect (n : Nat) (completion : List (Nat × Msg)) : List Msg :=
  (List.range n).map fun i => ((completion.find? (fun p => p.1 == i)).map (·.2)).getD []

/-! ### sheet specifiers of `Merger` / `Scatter` (`importer.GetMergerImporters`, `GetScatterImporters`) -/

/-- a sheet specifier, resolved against the secondary books `0 … n-1` of the primary book's directory -/
inductive Specifier where
  | glob                          -- `Part*.<ext>`: every secondary book, the sheet named like the primary's
  | book (i : Nat)                -- one book, the sheet named like the primary's
  | sheet (i : Nat) (name : String)
deriving Repr

/-- the (book, sheet) pairs one specifier stands for -/
def Specifier.pairs (n : Nat) (primarySheet : String) : Specifier → List (Nat × String)
  | .glob => (List.range n).map (·, primarySheet)
  | .book i => if i < n then [(i, primarySheet)] else []
  | .sheet i s => if i < n then [(i, s)] else []

/-- the importers of a Merger / Scatter option: the pairs of every specifier, in the order of the specifiers
(one importer per pair — a book named by two specifiers with different sheets is read twice, once per sheet) -/
def importers (n : Nat) (primarySheet : String) (specs : List Specifier) : List (Nat × String) :=
  specs.flatMap (Specifier.pairs n primarySheet)

/-- rows of sheet `name` of a book given as (sheet name, rows) pairs -/
def sheetRows {α : Type} (book : List (String × List α)) (name : String) : List α :=
  ((book.find? (·.1 == name)).map (·.2)).getD []

/-- what a Merger sheet states: the rows of the primary sheet and of every importer -/
def mergedRows {α : Type} (main : List α) (books : List (List (String × List α))) (primarySheet : String)
    (specs : List Specifier) : List α :=
  main ++ (importers books.length primarySheet specs).flatMap fun p => sheetRows (books.getD p.1 []) p.2

/-- what a Scatter sheet writes: (book index or `none` for the primary, sheet name, rows) per output file -/
def scatteredFiles {α : Type} (main : List α) (books : List (List (String × List α))) (primarySheet : String)
    (specs : List Specifier) : List (Option Nat × String × List α) :=
  (none, primarySheet, main) ::
    (importers books.length primarySheet specs).map fun p => (some p.1, p.2, sheetRows (books.getD p.1 []) p.2)

end TableauVerif.Model.Sheets
