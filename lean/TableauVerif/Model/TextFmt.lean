/-
Model of `internal/x/xproto/text.go: SqueezeText` (fix D12): the white-space normalisation applied
to prototext output (compact `.txt` conf files, option text in generated `.proto` files).
-/
import TableauVerif.Model.Basic
import TableauVerif.Model.Literal
namespace TableauVerif.Model.TextFmt
open TableauVerif

def dq : Nat := 34   -- '"'
def sq : Nat := 39   -- '\''
def bs : Nat := 92   -- '\\'

/-- the scanner: `q` = quote rune of the literal we are in (0 = outside), `esc` = previous rune was an
unconsumed backslash, `pend` = white space seen since the last output, `ne` = something was output -/
def sqGo : Str → Nat → Bool → Bool → Bool → Str
  | [], _, _, _, _ => []
  | r :: rest, q, esc, pend, ne =>
    if q != 0 then
      r :: (if esc then sqGo rest q false pend true
            else if r == bs then sqGo rest q true pend true
            else if r == q then sqGo rest 0 false pend true
            else sqGo rest q false pend true)
    else if Literal.isSpace r then sqGo rest 0 false true ne
    else (if pend && ne then [32] else []) ++
      r :: sqGo rest (if r == dq || r == sq then r else 0) false false true

/-- `SqueezeText(text)` -/
def squeeze (s : Str) : Str := sqGo s 0 false false false

/-- the body of a string literal as the scanner reads it: never an unescaped closing quote inside, and
it does not end in the middle of an escape -/
def closedBody (q : Nat) : Str → Bool → Bool
  | [], esc => !esc
  | r :: rest, esc =>
    if esc then closedBody q rest false
    else if r == bs then closedBody q rest true
    else if r == q then false
    else closedBody q rest false

end TableauVerif.Model.TextFmt
