/-
Model of `internal/x/xfs/csv.go`: `ParseCSVFilenamePattern` (`<Dir>/<Book>#<Sheet>.csv` → book, sheet) and
`ParseCSVBooknamePatternFrom` (→ `<Dir>/<Book>#*.csv`, the key under which incremental generation and merger / scatter
specifiers know a CSV workbook), for slash-separated paths whose directory part is already clean (no `.` / `..`
components, no doubled or trailing slash — what tableau passes after `CleanSlashPath`).

Tied to the code by `corr.xfs.csvNames` (the real functions through the verif hook on generated paths: directories and
sheet names containing `#` and `.`, books without a sheet part).
-/
import TableauVerif.Model.Basic
namespace TableauVerif.Model.CsvName
open TableauVerif

def slash : Nat := 47
def dot : Nat := 46
def hash : Nat := 35

/-- `filepath.Base` (non-empty path without a trailing slash) -/
def baseName (p : Str) : Str := (p.reverse.takeWhile (· != slash)).reverse

/-- `filepath.Dir` of such a path: everything before the last slash; `.` when there is none -/
def dirName (p : Str) : Str :=
  let d := (p.reverse.dropWhile (· != slash)).reverse      -- ends with the slash, or is empty
  if d.isEmpty then [dot] else if d.length = 1 then d else d.dropLast

/-- `filepath.Ext`: from the last dot of the base name on -/
def extOf (b : Str) : Str := if b.contains dot then dot :: (b.reverse.takeWhile (· != dot)).reverse else []

def trimExt (b : Str) : Str := b.take (b.length - (extOf b).length)

/-- `strings.SplitN(s, "#", 2)` with two parts -/
def cutFirst (c : Nat) (s : Str) : Option (Str × Str) :=
  if s.contains c then some (s.takeWhile (· != c), (s.dropWhile (· != c)).drop 1) else none

/-- `ParseCSVFilenamePattern` (`none` = the error) -/
def parseFilename (p : Str) : Option (Str × Str) := cutFirst hash (trimExt (baseName p))

def csvPatternTail : Str := [hash, 42, dot, 99, 115, 118]      -- "#*.csv"

/-- `filepath.Join(dir, x)` for a clean `dir` -/
def joinDir (d x : Str) : Str := if d = [dot] then x else if d = [slash] then slash :: x else d ++ slash :: x

/-- `ParseCSVBooknamePatternFrom` -/
def bookPattern (p : Str) : Option Str :=
  (parseFilename p).map fun bs => joinDir (dirName p) (bs.1 ++ csvPatternTail)

end TableauVerif.Model.CsvName
