/-
C09 / C01 — an item `key<subsep>value` of an in-cell map is cut at the FIRST sub-separator: the value keeps every
further occurrence (URLs, clock times, host:port). On the model of `strings.SplitN(item, subsep, 2)`
(`Model.TableParser.splitN2`, used by `parseIncellMapKV`; tied by `corr.confgen.tableParse`, `corr.confgen.docParse`
and the in-cell maps of `e2e.C09.documents`).
-/
import TableauVerif.Model.TableParser
namespace TableauVerif.Props.C09Incell
open TableauVerif TableauVerif.Model.TableParser

theorem splitN2_go_first (c : Nat) : ∀ (k v cur : Str) (fuel : Nat), c ∉ k → k.length < fuel →
    splitN2.go [c] (k ++ c :: v) cur fuel = (cur.reverse ++ k, some v)
  | [], v, cur, fuel, _, hf => by
    cases fuel with
    | zero => omega
    | succ n => simp [splitN2.go, List.isPrefixOf]
  | x :: k, v, cur, fuel, hk, hf => by
    cases fuel with
    | zero => simp at hf
    | succ n =>
      have hx : x ≠ c := fun e => hk (by simp [e])
      have hx' : ¬ (c = x) := fun e => hx e.symm
      have ih := splitN2_go_first c k v (x :: cur) n (fun e => hk (by simp [e])) (by simp at hf; omega)
      have hp : List.isPrefixOf [c] (x :: (k ++ c :: v)) = false := by
        simp [List.isPrefixOf, hx']
      simp only [List.cons_append, splitN2.go, hp, Bool.false_eq_true, if_false]
      rw [ih]; simp

/-- **C09_incell_item_cut_at_first_subsep** -/
theorem C09_incell_item_cut_at_first_subsep (c : Nat) (key value : Str) (hk : c ∉ key) :
    splitN2 [c] (key ++ c :: value) = (key, some value) := by
  unfold splitN2
  simp only [List.isEmpty_cons, Bool.false_eq_true, if_false]
  have := splitN2_go_first c key value [] (key ++ c :: value).length hk (by simp)
  simpa using this

-- test (labelled as a test): "home:http://h/p" with subsep ':'
example : splitN2 [58] (Str.ofString "home:http://h/p") = (Str.ofString "home", some (Str.ofString "http://h/p")) := by decide

end TableauVerif.Props.C09Incell
