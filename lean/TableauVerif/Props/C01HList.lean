/-
C01 — a horizontal list of scalars (`Item1`, `Item2`, … in one data line), any length.

The cells of the populated leading elements state the list; blank trailing element columns state nothing. For a
scalar kind with canonical values: the parser stores exactly the stated values, in column order, once each
(`C01_horizontal_scalar_list`). Built on the element loop theorem `C12_hlist_accept` and the scalar round trip
`C01_scalar_roundtrip`.
-/
import TableauVerif.Props.C01Sheet
import TableauVerif.Props.C12Contig
namespace TableauVerif.Props.C01HList
open TableauVerif TableauVerif.Val TableauVerif.Model.TableParser TableauVerif.Spec.C01
open TableauVerif.Model.Literal TableauVerif.Props.C01 TableauVerif.Props.C12Contig

/-- `[]K` / `[K]…` laid out horizontally: columns `name1`, `name2`, …; no field property -/
def hlistField (num : Nat) (name : Str) (k : SKind) : TField :=
  .mk num name [] .list .horizontal false (some k) none [] {} [] [] [] []

theorem has_setList (m : Msg) (num : Nat) (l : List Val) : has (setList m num l) num = !l.isEmpty := by
  cases l with
  | nil =>
    simp only [setList, List.isEmpty_nil, if_true, has, Bool.not_true]
    induction m with
    | nil => simp [delF, getF]
    | cons kv rest ih =>
      obtain ⟨k, w⟩ := kv
      by_cases hk : k = num
      · simpa [delF, hk] using ih
      · simpa [delF, getF, hk] using ih
  | cons e rest =>
    simp only [setList, List.isEmpty_cons, Bool.false_eq_true, if_false, has, Bool.not_false]
    induction m with
    | nil => simp [setF, getF]
    | cons kv rest' ih =>
      obtain ⟨k, w⟩ := kv
      simp only [setF]
      by_cases h1 : num < k
      · simp [h1, getF]
      · by_cases h2 : num = k
        · simp [h2, getF]
        · have : ¬ k = num := fun h => h2 h.symm
          simpa [h1, h2, getF, this] using ih

def presOf (vals : List Val) : List (Val × Bool) := vals.map (fun v => (v, true))
def absOf (k : SKind) (b : Nat) : List (Val × Bool) := List.replicate b (zeroOf k, false)
def elemAtOf (c : Ctx) (acc : RowAcc) (num : Nat) (name : Str) (k : SKind) : Nat → M (Val × Bool) := fun i => do
  let cell ← cellOf acc ([] ++ name ++ Str.decimal i) (c.isOptional (hlistField num name k))
  parseFieldValue k cell (some {})

theorem fixedSize_none (n : Nat) : fixedSize ({} : FProp) n = 0 := by
  simp [fixedSize, Model.FieldProp.getSize]

/-- **C01_horizontal_scalar_list**: the element columns `name1 … name(n+b)` hold the canonical texts of `vals`
followed by `b` blank cells; the field is not yet set. The parser stores exactly `vals`. -/
theorem C01_horizontal_scalar_list (c : Ctx) (acc : RowAcc) (num : Nat) (name : Str) (k : SKind) (m : Msg)
    (vals : List Val) (b : Nat)
    (hnot : has m num = false)
    (hcount : acc.count name = vals.length + b) (hpos : 0 < vals.length + b)
    (hvals : ∀ j (hj : j < vals.length), acc.dat (name ++ Str.decimal (1 + j)) = some (scalarText k (some vals[j])))
    (hblank : ∀ j, vals.length ≤ j → j < vals.length + b → acc.dat (name ++ Str.decimal (1 + j)) = some [])
    (hwf : ∀ v ∈ vals, wfScalar k v = true) :
    parseField c acc (hlistField num name k) m [] = .ok (setList m num vals, !vals.isEmpty) := by
  have hel : ElemsAre (elemAtOf c acc num name k) 1 (presOf vals ++ absOf k b) := by
    intro j hj
    simp only [presOf, absOf, List.length_append, List.length_map, List.length_replicate] at hj
    by_cases hlt : j < vals.length
    · have hd := hvals j hlt
      have hp := parseFieldValue_noprop k _ vals[j] true (C01_scalar_roundtrip k vals[j] (hwf _ (List.getElem_mem hlt)))
      simp [elemAtOf, presOf, absOf, cellOf, hd, hp, bind, Except.bind, List.getElem_append_left, hlt]
    · have hd := hblank j (by omega) hj
      have hp := parseFieldValue_noprop k [] (zeroOf k) false (C01_blank_absent k)
      have hge : vals.length ≤ j := by omega
      simp [elemAtOf, presOf, absOf, cellOf, hd, hp, bind, Except.bind, List.getElem_append_right, hge]
  have hloop := C12_hlist_accept {} (by decide) (elemAtOf c acc num name k) (fun i => [] ++ name ++ Str.decimal i)
    (presOf vals) (absOf k b) 1 [] (by decide)
    (by intro e he; simp only [presOf, List.mem_map] at he; obtain ⟨_, _, rfl⟩ := he; rfl)
    (by intro e he; simp only [absOf] at he; rw [List.eq_of_mem_replicate he])
    hel
  have hlen : (presOf vals ++ absOf k b).length = vals.length + b := by simp [presOf, absOf]
  have hmap : (presOf vals).map (·.1) = vals := by simp [presOf, List.map_map, Function.comp_def]
  rw [hlen, hmap] at hloop
  have hne : (vals.length + b == 0) = false := by
    cases h : vals.length + b with
    | zero => omega
    | succ n => rfl
  simp only [List.nil_append] at hloop
  simp only [hlistField, parseField, hnot, Bool.false_eq_true, if_false, List.nil_append, hcount, fixedSize_none, hne]
  have hloop' : hlistLoop {} (fun i => do
        let cell ← cellOf acc (name ++ Str.decimal i)
          (c.isOptional (TField.mk num name [] Card.list Layout.horizontal false (some k) none [] {} [] [] [] []))
        parseFieldValue k cell (some {})) (fun i => name ++ Str.decimal i) (vals.length + b) 1 0 [] = Except.ok vals := by
    exact hloop
  have hsz : (if (decide (0 > 0) && decide (0 < vals.length + b)) = true then 0 else vals.length + b) = vals.length + b := by simp
  rw [hsz, hloop']
  simp [bind, Except.bind, pure, Except.pure, has_setList]

/-- the premises are met by a concrete line: `Item1 = 5`, `Item2` blank -/
def exAcc : RowAcc :=
  { dat := fun n => if n = Str.ofString "Item1" then some (Str.ofString "5") else if n = Str.ofString "Item2" then some [] else none,
    count := fun _ => 2 }

example (c : Ctx) : parseField c exAcc (hlistField 3 (Str.ofString "Item") .int32) [] [] = .ok (setList [] 3 [.int 5], true) := by
  refine C01_horizontal_scalar_list c exAcc 3 (Str.ofString "Item") .int32 [] [.int 5] 1 rfl rfl (by decide) ?_ ?_ ?_
  · intro j hj
    have : j = 0 := by simp at hj; omega
    subst this; decide +revert +kernel
  · intro j h1 h2
    have : j = 1 := by simp at h1 h2; omega
    subst this; decide +revert +kernel
  · intro v hv; simp at hv; subst hv; decide

end TableauVerif.Props.C01HList
