/-
C20 / C06 / C19 — the offset `formatTimestamp` prints (model `Model.Rfc3339.offsetText`) read back by the independent
RFC 3339 reader of the specification (`Spec.C20Emit.readOffset`) is the offset that was printed: for every offset of
whole minutes within ±16 h 40 min (all offsets the tz database has ever used lie within ±16 h). The quantifier is a finite
table — 1000 minute counts × 2 signs — decided by the kernel (`decide +kernel`), not sampled.

Also: the oracle accepts the model's own rendering on the documented instants (tests, labelled as tests).
-/
import TableauVerif.Model.Rfc3339
import TableauVerif.Spec.C20Emit
namespace TableauVerif.Props.C20Emit
open TableauVerif TableauVerif.Model.Rfc3339 TableauVerif.Spec.C20Emit

def offOf (mins : Nat) (neg : Bool) : Int := if neg then -((mins * 60 : Nat) : Int) else ((mins * 60 : Nat) : Int)

def roundtrips (mins : Nat) (neg : Bool) : Bool := readOffset (offsetText (offOf mins neg)) == some (offOf mins neg)

theorem offset_table : (List.range 1000).all (fun m => roundtrips m false && roundtrips m true) = true := by
  decide +kernel

/-- **C20_printed_offset_reads_back**: every whole-minute offset within ±16 h 40 min is read back as itself -/
theorem C20_printed_offset_reads_back (mins : Nat) (h : mins < 1000) (neg : Bool) :
    readOffset (offsetText (offOf mins neg)) = some (offOf mins neg) := by
  have := List.all_eq_true.mp offset_table mins (List.mem_range.mpr h)
  simp only [Bool.and_eq_true, roundtrips, beq_iff_eq] at this
  cases neg
  · exact this.1
  · exact this.2

-- tests (labelled as tests): the oracle accepts the model's rendering of known instants
example : (holds [(0, 28800)] 0 0 (format [(0, 28800)] 0 0)).toString = "holds" := by decide +kernel
example : (holds [(0, -12600)] (-1) 999999999 (format [(0, -12600)] (-1) 999999999)).toString = "holds" := by decide +kernel
example : (holds [(0, 0)] 1484443815 10000000 (Str.ofString "2017-01-15T01:30:15Z")).toString = "FAILS" := by decide +kernel

end TableauVerif.Props.C20Emit
