/-
C19 / C20 / C06 — the fraction of a second that `formatTimestamp` prints (model `Model.Rfc3339.frac`: nine digits, trailing
zeros trimmed, nothing at all for zero) read back by the specification's independent RFC 3339 reader
(`Spec.C20Emit.readFrac`) is the stored number of nanoseconds — for EVERY value below 10⁹ and whatever follows the
fraction (an offset: `Z`, `+`, `-`). No digit of the stored instant is lost in the text (`C20_printed_fraction_reads_back`).
-/
import TableauVerif.Model.Rfc3339
import TableauVerif.Spec.C20Emit
import TableauVerif.Lemmas.Decimal
namespace TableauVerif.Props.C20EmitFrac
open TableauVerif TableauVerif.Str TableauVerif.Model.Rfc3339 TableauVerif.Spec.C20Emit

theorem decimalPos_length (fuel : Nat) : ∀ (n : Nat) (acc : Str) (w : Nat), n < 10 ^ w → 0 < w → n < fuel →
    (decimalPos fuel n acc).length ≤ acc.length + w := by
  induction fuel with
  | zero => intro n acc w _ _ h; omega
  | succ fuel ih =>
    intro n acc w hn hw hf
    unfold decimalPos
    by_cases h10 : n < 10
    · simp only [h10, if_true, List.length_cons]; omega
    · simp only [h10, if_false]
      obtain ⟨w', rfl⟩ : ∃ w', w = w' + 1 := ⟨w - 1, by omega⟩
      have hw' : 0 < w' := by
        cases w' with
        | zero => simp at hn; omega
        | succ k => omega
      have hdiv : n / 10 < 10 ^ w' := by
        rw [Nat.pow_succ] at hn
        exact Nat.div_lt_of_lt_mul (by omega)
      have := ih (n / 10) ((48 + n % 10) :: acc) w' hdiv hw' (by omega)
      simp only [List.length_cons] at this
      omega

theorem decimal_length (n w : Nat) (hn : n < 10 ^ w) (hw : 0 < w) : (decimal n).length ≤ w := by
  have := decimalPos_length (n + 1) n [] w hn hw (by omega)
  simpa [decimal] using this

theorem pad_length (n w : Nat) (hn : n < 10 ^ w) (hw : 0 < w) : (pad w n).length = w := by
  have := decimal_length n w hn hw
  simp [pad]; omega

theorem parseNatAux_zeros (k : Nat) (s : Str) : parseNatAux (List.replicate k 48 ++ s) 0 = parseNatAux s 0 := by
  induction k with
  | zero => simp
  | succ k ih =>
    simp only [List.replicate_succ, List.cons_append, parseNatAux]
    have : isDigit 48 = true := by decide
    simp [this, ih]

theorem parseNat_pad (n w : Nat) : parseNat (pad w n) = some n := by
  have hne := Lemmas.Decimal.decimal_ne_nil n
  have hp := Lemmas.Decimal.parseNat_decimal n
  have hd : parseNatAux (decimal n) 0 = some n := by
    unfold parseNat at hp
    cases hdn : decimal n with
    | nil => exact absurd hdn hne
    | cons c cs => rw [hdn] at hp; simpa using hp
  unfold pad parseNat
  cases hx : List.replicate (w - (decimal n).length) 48 ++ decimal n with
  | nil =>
    have : decimal n = [] := (List.append_eq_nil_iff.mp hx).2
    exact absurd this hne
  | cons c cs =>
    show parseNatAux (c :: cs) 0 = some n
    rw [← hx, parseNatAux_zeros, hd]

theorem pad_digits (n w : Nat) : ∀ c ∈ pad w n, isDigit c = true := by
  intro c hc
  simp only [pad, List.mem_append, List.mem_replicate] at hc
  rcases hc with ⟨_, rfl⟩ | hc
  · decide
  · exact Lemmas.Decimal.decimal_digits n c hc

/-- what `trimZeros` removes are zeros at the end: putting them back gives the text -/
theorem trimZeros_back (s : Str) : trimZeros s ++ List.replicate (s.length - (trimZeros s).length) 48 = s := by
  have hsplit := List.takeWhile_append_dropWhile (p := (· == 48)) (l := s.reverse)
  have hall : ∀ c ∈ s.reverse.takeWhile (· == 48), c = 48 := by
    intro c hc
    have : ∀ (l : Str), c ∈ l.takeWhile (· == 48) → c = 48 := by
      intro l
      induction l with
      | nil => intro h; simp at h
      | cons x xs ih =>
        intro h
        simp only [List.takeWhile] at h
        split at h
        · rename_i hx
          simp only [List.mem_cons] at h
          rcases h with rfl | h
          · simpa using hx
          · exact ih h
        · simp at h
    exact this _ hc
  have htw : s.reverse.takeWhile (· == 48) = List.replicate (s.reverse.takeWhile (· == 48)).length 48 :=
    List.eq_replicate_iff.mpr ⟨rfl, hall⟩
  have hs : s = (s.reverse.dropWhile (· == 48)).reverse ++ (s.reverse.takeWhile (· == 48)).reverse := by
    have := congrArg List.reverse hsplit
    rw [List.reverse_append, List.reverse_reverse] at this
    exact this.symm
  have hlen : s.length = (s.reverse.dropWhile (· == 48)).length + (s.reverse.takeWhile (· == 48)).length := by
    have := congrArg List.length hsplit
    rw [List.length_append, List.length_reverse] at this
    omega
  unfold trimZeros
  rw [List.length_reverse, hlen, Nat.add_sub_cancel_left]
  conv => rhs; rw [hs]
  rw [htw]; simp

theorem trimZeros_sub (s : Str) : ∀ c ∈ trimZeros s, c ∈ s := by
  intro c hc
  simp only [trimZeros, List.mem_reverse] at hc
  have := (List.dropWhile_sublist _).subset hc
  simpa using this

theorem takeWhile_digits_append (q rest : Str) (hq : ∀ c ∈ q, isDigit c = true)
    (hr : ∀ c, rest.head? = some c → isDigit c = false) : (q ++ rest).takeWhile isDigit = q := by
  induction q with
  | nil =>
    cases rest with
    | nil => rfl
    | cons c cs => simp [List.takeWhile, hr c rfl]
  | cons c cs ih =>
    simp only [List.cons_append, List.takeWhile, hq c (by simp)]
    rw [ih (fun x hx => hq x (by simp [hx]))]

/-- **C20_printed_fraction_reads_back**: for every nanosecond count below 10⁹, followed by anything that does not start
with a digit or a dot (the offset), the reader returns exactly that count and leaves what follows -/
theorem C20_printed_fraction_reads_back (n : Nat) (hn : n < 10 ^ 9) (rest : Str)
    (hr : ∀ c, rest.head? = some c → isDigit c = false ∧ c ≠ 46) :
    readFrac (frac n ++ rest) = some (n, rest) := by
  by_cases h0 : n = 0
  · subst h0
    simp only [frac, beq_self_eq_true, if_true, List.nil_append]
    unfold readFrac
    cases rest with
    | nil => rfl
    | cons c cs =>
      have := (hr c rfl).2
      split
      · rename_i heq; simp at heq; exact absurd heq.1 this
      · rfl
  · have hne : (n == 0) = false := by simp [h0]
    have hlen := pad_length n 9 hn (by decide)
    have hval := parseNat_pad n 9
    have hdig := pad_digits n 9
    have hback := trimZeros_back (pad 9 n)
    rw [hlen] at hback
    have hqd : ∀ c ∈ trimZeros (pad 9 n), isDigit c = true := fun c hc => hdig c (trimZeros_sub _ c hc)
    have hqlen : (trimZeros (pad 9 n)).length ≤ 9 := by
      have := congrArg List.length hback
      simp at this; omega
    have hqne : trimZeros (pad 9 n) ≠ [] := by
      intro hnil
      rw [hnil] at hback
      simp at hback
      rw [← hback] at hval
      have : parseNat [48, 48, 48, 48, 48, 48, 48, 48, 48] = some 0 := by decide
      rw [this] at hval
      exact h0 (Option.some.inj hval).symm
    have htw := takeWhile_digits_append (trimZeros (pad 9 n)) rest hqd (fun c hc => (hr c hc).1)
    simp only [frac, hne, Bool.false_eq_true, if_false, List.cons_append]
    unfold readFrac
    simp only [htw]
    have he : (trimZeros (pad 9 n)).isEmpty = false := by
      cases h : trimZeros (pad 9 n) with
      | nil => exact absurd h hqne
      | cons c cs => rfl
    have hgt : ¬ (trimZeros (pad 9 n)).length > 9 := by omega
    simp [he, hgt, hback, hval]

/-- the premises are met: ten milliseconds followed by `Z` -/
example : readFrac (frac 10000000 ++ [90]) = some (10000000, [90]) :=
  C20_printed_fraction_reads_back 10000000 (by decide) [90] (by intro c hc; simp at hc; subst hc; decide)

end TableauVerif.Props.C20EmitFrac
