/-
C01 at sheet level, for the canonical worksheet shape `map<K, Row>` laid out vertically with scalar
columns: any number of columns, any number of data rows.

Proved: each data row with a present key adds exactly one map entry whose value is the message its cells
state (`vmap_row`), and the line loop of `Parse` over all data rows yields the single map field holding one
entry per row — every row's cells once, under its key, nothing else (`C01_vertical_map_sheet_partial`,
`C01_every_row_once`).

(Partial: scalar columns only; nested aggregates inside the rows are covered by the round-trip stream.)
-/
import TableauVerif.Props.C01
namespace TableauVerif.Props.C01Sheet
open TableauVerif TableauVerif.Val TableauVerif.Model.TableParser TableauVerif.Spec.C01
open TableauVerif.Model.Literal TableauVerif.Props.C01

/-! ### the scalar row theorem under a column-name prefix -/

theorem parseField_flat_present_pre (c : Ctx) (acc : RowAcc) (num : Nat) (name : Str) (k : SKind) (m : Msg) (v : Val) (pre : Str)
    (hdat : acc.dat (pre ++ name) = some (scalarText k (some v))) (hwf : wfScalar k v = true) (hnot : has m num = false) :
    parseField c acc (flatField num name k) m pre = .ok (setF m num v, true) := by
  have hp := parseFieldValue_noprop k _ v true (C01_scalar_roundtrip k v hwf)
  have hz := wf_not_zero k v hwf
  simp [flatField, parseField, hnot, cellOf, hdat, hp, wrapCol, bind, Except.bind, pure, Except.pure, setScalar, hz]

theorem parseField_flat_blank_pre (c : Ctx) (acc : RowAcc) (num : Nat) (name : Str) (k : SKind) (m : Msg) (pre : Str)
    (hdat : acc.dat (pre ++ name) = some []) (hnot : has m num = false) :
    parseField c acc (flatField num name k) m pre = .ok (m, false) := by
  have hp := parseFieldValue_noprop k [] (zeroOf k) false (C01_blank_absent k)
  simp [flatField, parseField, hnot, cellOf, hdat, hp, wrapCol, bind, Except.bind, pure, Except.pure]

/-- `C01_flat_scalars_partial` for columns named `pre ++ name` -/
theorem flat_scalars_prefixed (c : Ctx) (acc : RowAcc) (pre : Str) (cols : List Col) (m0 : Msg)
    (hsorted : (cols.map (·.num)).Pairwise (· < ·))
    (hm0 : ∀ kv ∈ m0, ∀ col ∈ cols, kv.1 < col.num)
    (hdat : ∀ col ∈ cols, acc.dat (pre ++ col.name) = some col.text)
    (hwf : ∀ col ∈ cols, ∀ v, col.val = some v → wfScalar col.kind v = true) :
    parseFields c acc (cols.map Col.field) m0 pre = .ok (m0 ++ stated cols, cols.any (·.val.isSome)) := by
  induction cols generalizing m0 with
  | nil => simp [parseFields, stated]
  | cons col rest ih =>
    simp only [List.map_cons, List.pairwise_cons] at hsorted
    have hnot : has m0 col.num = false := has_false_of_lt m0 col.num (fun kv hkv => hm0 kv hkv col (by simp))
    simp only [List.map_cons, parseFields, Col.field]
    cases hv : col.val with
    | none =>
      have hd : acc.dat (pre ++ col.name) = some [] := by
        have := hdat col (by simp); simpa [Col.text, hv] using this
      rw [parseField_flat_blank_pre c acc col.num col.name col.kind m0 pre hd hnot]
      have := ih m0 hsorted.2 (fun kv hkv x hx => hm0 kv hkv x (by simp [hx]))
        (fun x hx => hdat x (by simp [hx])) (fun x hx => hwf x (by simp [hx]))
      simp [bind, Except.bind, pure, Except.pure, this, stated, hv]
    | some v =>
      have hd : acc.dat (pre ++ col.name) = some (scalarText col.kind (some v)) := by
        have := hdat col (by simp); simpa [Col.text, hv] using this
      have hw := hwf col (by simp) v hv
      rw [parseField_flat_present_pre c acc col.num col.name col.kind m0 v pre hd hw hnot]
      have happ : setF m0 col.num v = m0 ++ [(col.num, v)] :=
        setF_append m0 col.num v (fun kv hkv => hm0 kv hkv col (by simp))
      have := ih (m0 ++ [(col.num, v)]) hsorted.2
        (fun kv hkv x hx => by
          rw [List.mem_append] at hkv
          cases hkv with
          | inl h1 => exact hm0 kv h1 x (by simp [hx])
          | inr h2 => simp at h2; subst h2; exact hsorted.1 x.num (List.mem_map_of_mem hx))
        (fun x hx => hdat x (by simp [hx])) (fun x hx => hwf x (by simp [hx]))
      simp [bind, Except.bind, pure, Except.pure, happ, this, stated, hv, List.append_assoc]

/-! ### one data row of a vertical map -/

/-- the vertical map field `map<K, Row>`: value message = the scalar columns `cols` (the first one is the key
column), no field property, no explicit uniqueness -/
def vmapField (num : Nat) (name key : Str) (cols : List Col) (protoName : Str) : TField :=
  .mk num name key .map .vertical false none none (cols.map Col.field) {} [] [] [] protoName

/-- a row as the map sees it: the key column first (populated), then the other columns -/
structure RowSpec where
  keyCol : Col
  rest : List Col

def RowSpec.cols (r : RowSpec) : List Col := r.keyCol :: r.rest
def RowSpec.key (r : RowSpec) : Val := r.keyCol.val.getD (.int 0)
def RowSpec.entry (r : RowSpec) : Val := .msg (stated r.cols)

/-- the row is well formed for the map `name`/`key`: ascending field numbers, canonical values, key populated -/
def RowSpec.WF (r : RowSpec) (key : Str) : Prop :=
  r.keyCol.name = key ∧ r.keyCol.val.isSome ∧
  (r.cols.map (·.num)).Pairwise (· < ·) ∧
  (∀ col ∈ r.cols, ∀ v, col.val = some v → wfScalar col.kind v = true)

theorem wf_present (k : SKind) (v : Val) (h : wfScalar k v = true) :
    parseFieldValue k (scalarText k (some v)) (some {}) = .ok (v, true) :=
  parseFieldValue_noprop k _ v true (C01_scalar_roundtrip k v h)

/-- **vmap_row**: a data row whose key is not yet in the map adds exactly the entry its cells state -/
theorem vmap_row (c : Ctx) (acc : RowAcc) (num : Nat) (name key protoName : Str) (r : RowSpec) (m : Msg)
    (hwf : r.WF key)
    (hdat : ∀ col ∈ r.cols, acc.dat (name ++ col.name) = some col.text)
    (hnew : getE (getMap m num) r.key = none) :
    parseField c acc (vmapField num name key r.cols protoName) m [] =
      .ok (setMap m num (setE (getMap m num) r.key r.entry), true) := by
  obtain ⟨hkn, hks, hsorted, hvals⟩ := hwf
  obtain ⟨kv, hkv⟩ := Option.isSome_iff_exists.mp hks
  have hkwf : wfScalar r.keyCol.kind kv = true := hvals r.keyCol (by simp [RowSpec.cols]) kv hkv
  have hkey : r.key = kv := by simp [RowSpec.key, hkv]
  have hkd : acc.dat (name ++ key) = some (scalarText r.keyCol.kind (some kv)) := by
    have := hdat r.keyCol (by simp [RowSpec.cols])
    simpa [Col.text, hkv, hkn] using this
  have hfind : findKeyField (vmapField num name key r.cols protoName) = some r.keyCol.field := by
    simp [findKeyField, vmapField, TField.sub, TField.key, RowSpec.cols, Col.field, flatField, TField.name, hkn]
  have hsub := flat_scalars_prefixed c acc name r.cols [] hsorted (by simp) hdat hvals
  have hany : r.cols.any (·.val.isSome) = true := by simp [RowSpec.cols, hks]
  rw [hany] at hsub
  have hmk : parseMapKey (vmapField num name key r.cols protoName) (getMap m num) (scalarText r.keyCol.kind (some kv))
      = .ok (kv, true) := by
    unfold parseMapKey
    rw [hfind]
    simp only [Col.field, flatField, TField.kind]
    have : (vmapField num name key r.cols protoName).prop = {} := rfl
    rw [this, wf_present _ _ hkwf]
    simp [bind, Except.bind, pure, Except.pure]
  rw [hkey] at hnew ⊢
  simp only [vmapField] at hmk ⊢
  simp only [parseField, Option.isSome_none, Bool.false_eq_true, if_false, List.nil_append, cellOf, hkd, hmk,
    bind, Except.bind, pure, Except.pure, wrapCol, hnew, Bool.and_false, Bool.not_true, hsub, List.nil_append,
    RowSpec.entry, if_true]
  simp

/-! ### map entries under distinct keys -/

theorem keyEq_eq (a b : Val) (h : keyEq a b = true) : a = b := by
  cases a <;> cases b <;> simp [keyEq] at h <;> simp [h]

def isKey : Val → Bool
  | .int _ => true
  | .str _ => true
  | _ => false

theorem keyEq_refl (a : Val) (h : isKey a = true) : keyEq a a = true := by
  cases a <;> simp [isKey] at h <;> simp [keyEq]

theorem getE_setE_same (es : List (Val × Val)) (k v : Val) (hk : isKey k = true) : getE (setE es k v) k = some v := by
  induction es with
  | nil => simp [setE, getE, keyEq_refl k hk]
  | cons e rest ih =>
    obtain ⟨k1, w⟩ := e
    unfold setE
    by_cases h1 : keyLt k k1 = true
    · simp [h1, getE, keyEq_refl k hk]
    · by_cases h2 : keyEq k k1 = true
      · simp [h1, h2, getE, keyEq_refl k hk]
      · have h3 : keyEq k1 k = false := by
          cases hh : keyEq k1 k with
          | false => rfl
          | true => have := keyEq_eq _ _ hh; subst this; simp [keyEq_refl k1 hk] at h2
        simp [h1, h2, getE, h3, ih]

theorem getE_setE_other (es : List (Val × Val)) (k k' v : Val) (h : keyEq k k' = false) :
    getE (setE es k v) k' = getE es k' := by
  induction es with
  | nil => simp [setE, getE, h]
  | cons e rest ih =>
    obtain ⟨k1, w⟩ := e
    unfold setE
    by_cases h1 : keyLt k k1 = true
    · simp [h1, getE, h]
    · by_cases h2 : keyEq k k1 = true
      · have := keyEq_eq _ _ h2; subst this
        simp [h1, h2, getE, h]
      · by_cases h3 : keyEq k1 k' = true
        · simp [h1, h2, getE, h3]
        · simp [h1, h2, getE, h3, ih]

theorem length_setE_new (es : List (Val × Val)) (k v : Val) (h : getE es k = none) : (setE es k v).length = es.length + 1 := by
  induction es with
  | nil => simp [setE]
  | cons e rest ih =>
    obtain ⟨k1, w⟩ := e
    unfold setE
    by_cases h1 : keyLt k k1 = true
    · simp [h1]
    · have h2 : keyEq k k1 = false := by
        cases hh : keyEq k k1 with
        | false => rfl
        | true =>
          have := keyEq_eq _ _ hh; subst this
          simp [getE, hh] at h
      have h3 : getE rest k = none := by
        cases hh : keyEq k1 k with
        | false => simpa [getE, hh] using h
        | true => simp [getE, hh] at h
      simp [h1, h2, ih h3]

/-- the entries after the rows `rs`, starting from `es` -/
def entriesOf (rs : List RowSpec) (es : List (Val × Val)) : List (Val × Val) :=
  rs.foldl (fun es r => setE es r.key r.entry) es

theorem getE_entriesOf_none (rs : List RowSpec) (es : List (Val × Val)) (k : Val)
    (h0 : getE es k = none) (hd : ∀ r ∈ rs, keyEq r.key k = false) : getE (entriesOf rs es) k = none := by
  induction rs generalizing es with
  | nil => simpa [entriesOf] using h0
  | cons r rest ih =>
    simp only [entriesOf, List.foldl_cons]
    apply ih
    · rw [getE_setE_other _ _ _ _ (hd r (by simp))]; exact h0
    · exact fun x hx => hd x (by simp [hx])

theorem getE_entriesOf_keep (rs : List RowSpec) (es : List (Val × Val)) (k v : Val)
    (h0 : getE es k = some v) (hd : ∀ r ∈ rs, keyEq r.key k = false) : getE (entriesOf rs es) k = some v := by
  induction rs generalizing es with
  | nil => simpa [entriesOf] using h0
  | cons r rest ih =>
    simp only [entriesOf, List.foldl_cons]
    apply ih
    · rw [getE_setE_other _ _ _ _ (hd r (by simp))]; exact h0
    · exact fun x hx => hd x (by simp [hx])

/-- keys pairwise different (in both directions of the comparison) -/
def DistinctKeys (rs : List RowSpec) : Prop :=
  rs.Pairwise (fun a b => keyEq a.key b.key = false ∧ keyEq b.key a.key = false)

/-! ### the line loop of `Parse` -/

/-- what the parser sees of data line `i`: each column of the row spec under `name ++ column name` -/
def Exposes (acc : RowAcc) (name : Str) (r : RowSpec) : Prop :=
  ∀ col ∈ r.cols, acc.dat (name ++ col.name) = some col.text

/-- all rows share the sheet's columns (numbers, names, kinds) -/
def SameColumns (schema : List (Nat × Str × SKind)) (r : RowSpec) : Prop :=
  r.cols.map (fun c => (c.num, c.name, c.kind)) = schema

theorem fields_of_schema (schema : List (Nat × Str × SKind)) (r : RowSpec) (h : SameColumns schema r) :
    r.cols.map Col.field = schema.map (fun s => flatField s.1 s.2.1 s.2.2) := by
  rw [← h, List.map_map]; rfl

theorem getMap_single (num : Nat) (es : List (Val × Val)) (h : es ≠ []) : getMap (setMap [] num es) num = es := by
  cases es with
  | nil => exact absurd rfl h
  | cons e rest => simp [setMap, getMap, setF, getF]

theorem setMap_single (num : Nat) (es es' : List (Val × Val)) (h' : es' ≠ []) :
    setMap (setMap [] num es) num es' = setMap [] num es' := by
  cases es' with
  | nil => exact absurd rfl h'
  | cons e' rest' =>
    cases es with
    | nil => simp [setMap, delF, setF]
    | cons e rest => simp [setMap, setF]

theorem getMap_setMap_nil (num : Nat) (es : List (Val × Val)) : getMap (setMap [] num es) num = es := by
  cases es with
  | nil => simp [setMap, getMap, delF, getF]
  | cons e rest => simp [setMap, getMap, setF, getF]

theorem setE_ne_nil (es : List (Val × Val)) (k v : Val) : setE es k v ≠ [] := by
  cases es with
  | nil => simp [setE]
  | cons e rest =>
    obtain ⟨k1, w⟩ := e
    unfold setE
    split
    · simp
    · split <;> simp

theorem lookupCells_mem (cells : List (Str × Str × Bool)) (name : Str) :
    ∀ (k i : Nat) (d : Str) (a : Bool), lookupCells cells name k = some (i, d, a) → (name, d, a) ∈ cells := by
  induction cells with
  | nil => intro k i d a h; simp [lookupCells] at h
  | cons c rest ih =>
    obtain ⟨n, d', a'⟩ := c
    intro k i d a h
    unfold lookupCells at h
    by_cases hn : (n == name) = true
    · simp only [hn, if_true, Option.some.injEq, Prod.mk.injEq] at h
      have : n = name := by simpa using hn
      simp [this, h.2.1, h.2.2]
    · simp only [hn, Bool.false_eq_true, if_false] at h
      exact List.mem_cons_of_mem _ (ih _ _ _ _ h)

/-- on a blank line every named column shows the empty string -/
theorem blank_dat (r : Row) (hb : r.blank = true) (n d : Str) (h : r.acc.dat n = some d) : d = [] := by
  simp only [Row.acc, Row.lookup] at h
  by_cases hn : n.isEmpty = true
  · simp [hn] at h
  · simp only [hn, Bool.false_eq_true, if_false, Option.map_eq_some_iff] at h
    obtain ⟨⟨i, d', a⟩, hl, rfl⟩ := h
    have hm := lookupCells_mem r.cells n 0 i d' a hl
    have := List.all_eq_true.mp hb _ hm
    simp only [Bool.or_eq_true] at this
    rcases this with h1 | h1
    · exact absurd h1 hn
    · simpa using h1

/-- a line that exposes a well-formed row (its key is populated) is not blank -/
theorem exposes_not_blank (row : Row) (name key : Str) (r : RowSpec) (hwf : r.WF key) (hexp : Exposes row.acc name r) :
    row.blank = false := by
  cases hb : row.blank with
  | false => rfl
  | true =>
    obtain ⟨_, hks, _, hvals⟩ := hwf
    obtain ⟨kv, hkv⟩ := Option.isSome_iff_exists.mp hks
    have hkwf : wfScalar r.keyCol.kind kv = true := hvals r.keyCol (by simp [RowSpec.cols]) kv hkv
    have hd := hexp r.keyCol (by simp [RowSpec.cols])
    have ht : r.keyCol.text = [] := blank_dat row hb _ _ hd
    simp only [Col.text, hkv] at ht
    have h1 := C01_scalar_roundtrip r.keyCol.kind kv hkwf
    rw [ht, C01_blank_absent] at h1
    simp at h1

/-- **C01_vertical_map_sheet_partial**: a worksheet whose single top-level field is a vertical map with scalar
columns, over data lines `i, i+1, …` that expose the well-formed rows `rs` with pairwise different keys (none of
them in the map yet): the line loop returns the message with exactly that map field, holding the entries of all
the rows. Any number of rows, any number of columns. -/
theorem C01_vertical_map_sheet_partial (c : Ctx) (num : Nat) (name key protoName : Str)
    (schema : List (Nat × Str × SKind)) (cols : Cols) (first : Nat) (tr : Bool) :
    ∀ (rs : List RowSpec) (i : Nat) (es : List (Val × Val)),
      (∀ r ∈ rs, r.WF key ∧ SameColumns schema r) →
      (∀ j (hj : j < rs.length), Exposes (cols.row (i + j) (first + (i + j)) tr).acc name rs[j]) →
      DistinctKeys rs →
      (∀ r ∈ rs, getE es r.key = none) →
      parseLines c [.mk num name key .map .vertical false none none (schema.map (fun s => flatField s.1 s.2.1 s.2.2)) {} [] [] [] protoName]
          cols first tr rs.length i (setMap [] num es)
        = .ok (setMap [] num (entriesOf rs es)) := by
  intro rs
  induction rs with
  | nil => intro i es _ _ _ _; simp [parseLines, entriesOf]
  | cons r rest ih =>
    intro i es hwf hexp hdist hnew
    have hr := hwf r (by simp)
    have hfields := fields_of_schema schema r hr.2
    have hexp0 : Exposes (cols.row i (first + i) tr).acc name r := by
      have := hexp 0 (by simp); simpa using this
    have hnew0 : getE (getMap (setMap [] num es) num) r.key = none := by
      rw [getMap_setMap_nil]; exact hnew r (by simp)
    have hstep := vmap_row c (cols.row i (first + i) tr).acc num name key protoName r (setMap [] num es) hr.1 hexp0 hnew0
    simp only [vmapField, hfields, getMap_setMap_nil] at hstep
    have hnb := exposes_not_blank (cols.row i (first + i) tr) name key r hr.1 hexp0
    simp only [List.length_cons, parseLines, hnb, Bool.false_eq_true, if_false, parseFields, hstep, bind, Except.bind, pure, Except.pure]
    rw [setMap_single num es _ (setE_ne_nil _ _ _)]
    have hd := List.pairwise_cons.mp hdist
    have := ih (i + 1) (setE es r.key r.entry)
      (fun x hx => hwf x (by simp [hx]))
      (fun j hj => by
        have := hexp (j + 1) (by simp; omega)
        simpa [Nat.add_assoc, Nat.add_comm 1 j] using this)
      hd.2
      (fun x hx => by
        rw [getE_setE_other _ _ _ _ (hd.1 x hx).1]
        exact hnew x (by simp [hx]))
    simpa [entriesOf] using this

/-- **C01_every_row_once**: in that result every row is found under its key with exactly the message its cells
state, and the map has one entry per row — nothing lost, nothing merged, nothing invented. -/
theorem C01_every_row_once (rs : List RowSpec) (hk : ∀ r ∈ rs, isKey r.key = true) (hdist : DistinctKeys rs) :
    (∀ r ∈ rs, getE (entriesOf rs []) r.key = some r.entry) ∧ (entriesOf rs []).length = rs.length := by
  suffices h : ∀ (es : List (Val × Val)), (∀ r ∈ rs, getE es r.key = none) →
      (∀ r ∈ rs, getE (entriesOf rs es) r.key = some r.entry) ∧ (entriesOf rs es).length = es.length + rs.length by
    simpa using h [] (by simp [getE])
  induction rs with
  | nil => intro es _; simp [entriesOf]
  | cons r rest ih =>
    intro es hnew
    have hd := List.pairwise_cons.mp hdist
    have hnew' : ∀ x ∈ rest, getE (setE es r.key r.entry) x.key = none := fun x hx => by
      rw [getE_setE_other _ _ _ _ (hd.1 x hx).1]; exact hnew x (by simp [hx])
    have := ih (fun x hx => hk x (by simp [hx])) hd.2 (setE es r.key r.entry) hnew'
    refine ⟨fun x hx => ?_, ?_⟩
    · simp only [List.mem_cons] at hx
      rcases hx with rfl | hx
      · simp only [entriesOf, List.foldl_cons]
        exact getE_entriesOf_keep rest _ _ _ (getE_setE_same es _ _ (hk x (by simp))) (fun y hy => (hd.1 y hy).2)
      · simpa [entriesOf] using this.1 x hx
    · simp only [entriesOf, List.foldl_cons] at this ⊢
      rw [this.2, length_setE_new es _ _ (hnew r (by simp))]
      simp; omega

/-! ### the concrete sheet: header names and data columns as `Parse` receives them -/

theorem lookupCells_at (cells : List (Str × Str × Bool)) (name : Str) (k j : Nat) (hj : j < cells.length)
    (hn : cells[j].1 = name) (hfirst : ∀ j' (h' : j' < cells.length), j' < j → cells[j'].1 ≠ name) :
    lookupCells cells name k = some (k + j, cells[j].2.1, cells[j].2.2) := by
  induction cells generalizing k j with
  | nil => simp at hj
  | cons cell rest ih =>
    obtain ⟨n, d, a⟩ := cell
    cases j with
    | zero =>
      simp at hn
      simp [lookupCells, hn]
    | succ j =>
      have h0 : n ≠ name := by
        have := hfirst 0 (by simp) (by omega)
        simpa using this
      have h0' : (n == name) = false := by simpa using h0
      simp only [lookupCells, h0', Bool.false_eq_true, if_false]
      have := ih (k + 1) j (by simpa using hj) (by simpa using hn)
        (fun j' h' hlt => by
          have := hfirst (j' + 1) (by simp; omega) (by omega)
          simpa using this)
      rw [this]
      simp [Nat.add_assoc, Nat.add_comm 1 j]

/-- the data columns of the sheet written from the rows `rs`: one column per schema entry, named
`name ++ column name`, holding the texts of that column in row order -/
def sheetCols (name : Str) (schema : List (Nat × Str × SKind)) (rs : List RowSpec) : Cols :=
  (List.range schema.length).map fun j =>
    (name ++ (schema.getD j (0, [], .string)).2.1, rs.map (fun r => (r.cols.getD j ⟨0, [], .string, none⟩).text))

theorem sheetCols_exposes (name : Str) (schema : List (Nat × Str × SKind)) (rs : List RowSpec) (idx : Nat) (tr : Bool)
    (hnames : (schema.map (fun s => name ++ s.2.1)).Nodup) (hne : ∀ s ∈ schema, name ++ s.2.1 ≠ [])
    (hsame : ∀ r ∈ rs, SameColumns schema r) (i : Nat) (hi : i < rs.length) :
    Exposes ((sheetCols name schema rs).row i idx tr).acc name rs[i] := by
  intro col hcol
  obtain ⟨j, hj, hcj⟩ := List.getElem_of_mem hcol
  have hs := hsame rs[i] (List.getElem_mem hi)
  have hlen : rs[i].cols.length = schema.length := by
    have := congrArg List.length hs; simpa using this
  have hjs : j < schema.length := by omega
  have hsj : schema[j] = (col.num, col.name, col.kind) := by
    have : (rs[i].cols.map (fun c => (c.num, c.name, c.kind)))[j]'(by simpa using hj) = schema[j]'hjs := by
      simp [SameColumns] at hs
      simp [hs]
    rw [← this]; simp [hcj]
  have hname : (schema.getD j (0, [], .string)).2.1 = col.name := by
    simp [List.getD_eq_getElem?_getD, List.getElem?_eq_getElem hjs, hsj]
  -- the cells of the line
  let cells := ((sheetCols name schema rs).row i idx tr).cells
  have hcl : cells.length = schema.length := by simp [cells, Cols.row, sheetCols]
  have hcell : ∀ j' (h' : j' < cells.length), cells[j'] =
      (name ++ (schema.getD j' (0, [], .string)).2.1, (rs[i].cols.getD j' ⟨0, [], .string, none⟩).text, false) := by
    intro j' h'
    simp [cells, Cols.row, sheetCols, List.getD_eq_getElem?_getD, List.getElem?_eq_getElem hi]
  have hnonempty : (name ++ col.name).isEmpty = false := by
    have := hne schema[j] (List.getElem_mem hjs)
    rw [hsj] at this
    cases h : name ++ col.name <;> simp_all
  have hlook := lookupCells_at cells (name ++ col.name) 0 j (by omega)
    (by rw [hcell j (by omega), hname])
    (fun j' h' hlt heq => by
      rw [hcell j' h'] at heq
      simp only at heq
      -- two schema entries with the same full name
      have hj's : j' < schema.length := by omega
      have h1 : (schema.map (fun s => name ++ s.2.1))[j']'(by simpa using hj's) = (schema.map (fun s => name ++ s.2.1))[j]'(by simpa using hjs) := by
        simp [List.getD_eq_getElem?_getD, List.getElem?_eq_getElem hj's] at heq
        simp [heq, hsj]
      have := (List.getElem_inj hnames).mp h1
      omega)
  simp only [Row.acc, Row.lookup, hnonempty, Bool.false_eq_true, if_false]
  show (lookupCells cells (name ++ col.name) 0).map (·.2.1) = some col.text
  rw [hlook, hcell j (by omega)]
  simp [List.getD_eq_getElem?_getD, List.getElem?_eq_getElem hj, hcj]

theorem firstDupGo_none (names seen : List Str) (hnd : names.Nodup) (hdis : ∀ n ∈ names, n ∉ seen) :
    firstDupGo names seen = none := by
  induction names generalizing seen with
  | nil => rfl
  | cons n rest ih =>
    have hd := List.nodup_cons.mp hnd
    have hns : seen.contains n = false := by
      have := hdis n (by simp)
      simpa using this
    simp only [firstDupGo, hns, Bool.and_false, Bool.false_eq_true, if_false]
    exact ih (n :: seen) hd.2 (fun x hx => by
      simp only [List.mem_cons, not_or]
      exact ⟨fun h => hd.1 (h ▸ hx), hdis x (by simp [hx])⟩)

/-- **C01_vertical_map_sheet_concrete**: `Parse`'s column loop on the sheet written from the rows `rs`
(distinct non-blank column names, well-formed rows with pairwise different keys) returns exactly the map of the
rows. -/
theorem C01_vertical_map_sheet_concrete (c : Ctx) (num : Nat) (name key protoName : Str)
    (schema : List (Nat × Str × SKind)) (rs : List RowSpec) (first : Nat) (tr : Bool)
    (hnames : (schema.map (fun s => name ++ s.2.1)).Nodup) (hne : ∀ s ∈ schema, name ++ s.2.1 ≠ [])
    (hwf : ∀ r ∈ rs, r.WF key ∧ SameColumns schema r) (hdist : DistinctKeys rs) :
    parseCols c [.mk num name key .map .vertical false none none (schema.map (fun s => flatField s.1 s.2.1 s.2.2)) {} [] [] [] protoName]
        (sheetCols name schema rs) rs.length first tr
      = .ok (setMap [] num (entriesOf rs [])) := by
  have hdup : firstDup ((sheetCols name schema rs).map (·.1)) = none := by
    unfold firstDup
    apply firstDupGo_none _ _ _ (by simp)
    have : (sheetCols name schema rs).map (·.1) = schema.map (fun s => name ++ s.2.1) := by
      apply List.ext_getElem
      · simp [sheetCols]
      · intro j h1 h2
        have hjs : j < schema.length := by simpa using h2
        simp [sheetCols, List.getD_eq_getElem?_getD, List.getElem?_eq_getElem hjs]
    rw [this]; exact hnames
  unfold parseCols
  rw [hdup]
  have := C01_vertical_map_sheet_partial c num name key protoName schema (sheetCols name schema rs) first tr rs 0 []
    hwf
    (fun j hj => by
      have := sheetCols_exposes name schema rs (first + (0 + j)) tr hnames hne (fun r hr => (hwf r hr).2) j hj
      simpa using this)
    hdist (by simp [getE])
  simpa [setMap, delF] using this

-- the premises are satisfiable (test, labelled as a test): two rows of a two-column sheet
example :
    let r1 : RowSpec := ⟨⟨1, Str.ofString "ID", .uint32, some (.int 1)⟩, [⟨2, Str.ofString "Name", .string, some (.str [97])⟩]⟩
    let r2 : RowSpec := ⟨⟨1, Str.ofString "ID", .uint32, some (.int 2)⟩, [⟨2, Str.ofString "Name", .string, none⟩]⟩
    (entriesOf [r1, r2] []).length = 2 ∧ getE (entriesOf [r1, r2] []) (.int 2) = some (.msg [(1, .int 2)]) := by
  simp [entriesOf, RowSpec.key, RowSpec.entry, RowSpec.cols, stated, setE, getE, keyLt, keyEq]

-- … and they meet the hypotheses of the sheet theorems (well-formed, same columns, different keys, distinct names)
example :
    let r1 : RowSpec := ⟨⟨1, Str.ofString "ID", .uint32, some (.int 1)⟩, [⟨2, Str.ofString "Name", .string, some (.str [97])⟩]⟩
    let r2 : RowSpec := ⟨⟨1, Str.ofString "ID", .uint32, some (.int 2)⟩, [⟨2, Str.ofString "Name", .string, none⟩]⟩
    let schema : List (Nat × Str × SKind) := [(1, Str.ofString "ID", .uint32), (2, Str.ofString "Name", .string)]
    (∀ r ∈ [r1, r2], r.WF (Str.ofString "ID") ∧ SameColumns schema r) ∧ DistinctKeys [r1, r2] ∧
      (schema.map (fun s => ([] : Str) ++ s.2.1)).Nodup := by
  simp [RowSpec.WF, SameColumns, DistinctKeys, RowSpec.cols, RowSpec.key, keyEq, wfScalar, Spec.C03.inRange,
    Str.ofString]
  decide

end TableauVerif.Props.C01Sheet
