/-
C03 — enum cells (model `Model.EnumLit`, tied to the code by `corr.xproto.enum`):
a value's name and a value's alias are accepted as that value; a word that is no name, no alias and no number is
rejected with E2006.
-/
import TableauVerif.Model.EnumLit
namespace TableauVerif.Props.C03Enum
open TableauVerif TableauVerif.Model.EnumLit TableauVerif.Model.Literal

/-- a word: starts with a letter and is none of the special float spellings -/
def Word (v : Str) : Prop :=
  ∃ c cs, v = c :: cs ∧ (Str.isUpper c = true ∨ Str.isLower c = true) ∧
    (eqFold v "inf" || eqFold v "infinity" || eqFold v "nan") = false ∧ trimSpace v = v

theorem floatOf_word (v : Str) (h : Word v) : floatOf v = .syntaxErr := by
  obtain ⟨c, cs, rfl, hc, hsp, _⟩ := h
  have hns : splitSign (c :: cs) = (false, c :: cs, false) := by
    unfold splitSign
    split
    · rename_i heq; simp at heq; rcases hc with hc | hc <;> simp [Str.isUpper, Str.isLower, heq.1] at hc
    · rename_i heq; simp at heq; rcases hc with hc | hc <;> simp [Str.isUpper, Str.isLower, heq.1] at hc
    · rfl
  have hnd : (Str.isDigit c || c == 46) = false := by
    rcases hc with hc | hc
    · simp [Str.isUpper] at hc; simp [Str.isDigit]; omega
    · simp [Str.isLower] at hc; simp [Str.isDigit]; omega
  unfold floatOf
  simp only [hns, hnd, Bool.not_false, hsp, Bool.true_and, if_true]

/-- **C03_enum_name_accepted**: the name of a value (the first value so named) is accepted as that value -/
theorem C03_enum_name_accepted (vals : List EVal) (e : EVal) (hw : Word e.name)
    (hfind : vals.find? (fun x => x.name == e.name) = some e) :
    parseEnum vals e.name = .ok e.num := by
  have hne : e.name.isEmpty = false := by obtain ⟨c, cs, h, _⟩ := hw; simp [h]
  unfold parseEnum
  simp only [hw.choose_spec.choose_spec.2.2.2, hne, Bool.false_eq_true, if_false, floatOf_word _ hw, hfind]

/-- **C03_enum_alias_accepted**: the alias of a value is accepted as that value, when no value is NAMED like the alias -/
theorem C03_enum_alias_accepted (vals : List EVal) (e : EVal) (hw : Word e.alias)
    (hnoname : vals.find? (fun x => x.name == e.alias) = none)
    (hfind : vals.find? (fun x => !x.alias.isEmpty && x.alias == e.alias) = some e) :
    parseEnum vals e.alias = .ok e.num := by
  have hne : e.alias.isEmpty = false := by obtain ⟨c, cs, h, _⟩ := hw; simp [h]
  unfold parseEnum
  simp only [hw.choose_spec.choose_spec.2.2.2, hne, Bool.false_eq_true, if_false, floatOf_word _ hw, hnoname, hfind]

/-- **C03_enum_unknown_word_rejected**: a word that is neither the name nor the alias of a value is rejected (E2006) -/
theorem C03_enum_unknown_word_rejected (vals : List EVal) (v : Str) (hw : Word v)
    (hn : ∀ x ∈ vals, x.name ≠ v) (ha : ∀ x ∈ vals, x.alias ≠ v) :
    parseEnum vals v = .err 2006 := by
  have hne : v.isEmpty = false := by obtain ⟨c, cs, h, _⟩ := hw; simp [h]
  have h1 : vals.find? (fun x => x.name == v) = none := by
    rw [List.find?_eq_none]; intro x hx; simpa using hn x hx
  have h2 : vals.find? (fun x => !x.alias.isEmpty && x.alias == v) = none := by
    rw [List.find?_eq_none]; intro x hx
    have := ha x hx
    simp [this]
  unfold parseEnum
  simp only [hw.choose_spec.choose_spec.2.2.2, hne, Bool.false_eq_true, if_false, floatOf_word _ hw, h1, h2]

-- concrete readings (tests, labelled as tests)
def colors : List EVal := [⟨0, Str.ofString "COLOR_UNKNOWN", []⟩, ⟨1, Str.ofString "COLOR_RED", Str.ofString "Red"⟩, ⟨7, Str.ofString "COLOR_X", Str.ofString "X"⟩]
example : parseEnum colors (Str.ofString "Red") = .ok 1 := by decide
example : parseEnum colors (Str.ofString "COLOR_X") = .ok 7 := by decide
example : parseEnum colors (Str.ofString "7") = .ok 7 := by decide
example : parseEnum colors (Str.ofString "3") = .err 2006 := by decide
example : parseEnum colors (Str.ofString "Green") = .err 2006 := by decide

end TableauVerif.Props.C03Enum
