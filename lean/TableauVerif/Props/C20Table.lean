/-
The 400-year-cycle table behind `C20_civil_roundtrip` (kept in its own module: the kernel check takes
about a minute and only reruns when this file changes).
-/
import TableauVerif.Model.Time
namespace TableauVerif.Props.C20
open TableauVerif TableauVerif.Model.Time

def leapNext (yoe : Nat) : Bool := (yoe + 1) % 4 == 0 && ((yoe + 1) % 100 != 0 || (yoe + 1) % 400 == 0)

def yoeOk (yoe doy : Nat) : Bool :=
  let doe := yoe * 365 + yoe / 4 - yoe / 100 + doy
  (doe - doe / 1460 + doe / 36524 - doe / 146096) / 365 == yoe

/-- every (year of era, day of year) pair of the 400-year cycle; day 365 exists only before a leap year -/
def yoeTable : Bool :=
  (List.range 400).all fun yoe => (List.range 366).all fun doy => (doy == 365 && !leapNext yoe) || yoeOk yoe doy

theorem yoeTable_ok : yoeTable = true := by decide +kernel

theorem yoe_nat (yoe doy : Nat) (h1 : yoe < 400) (h2 : doy < 366) (h3 : doy = 365 → leapNext yoe = true) :
    (yoe * 365 + yoe / 4 - yoe / 100 + doy - (yoe * 365 + yoe / 4 - yoe / 100 + doy) / 1460
      + (yoe * 365 + yoe / 4 - yoe / 100 + doy) / 36524 - (yoe * 365 + yoe / 4 - yoe / 100 + doy) / 146096) / 365 = yoe := by
  have := yoeTable_ok
  unfold yoeTable at this
  rw [List.all_eq_true] at this
  have a := this yoe (List.mem_range.mpr h1)
  rw [List.all_eq_true] at a
  have b := a doy (List.mem_range.mpr h2)
  simp only [Bool.or_eq_true, Bool.and_eq_true, beq_iff_eq, Bool.not_eq_true'] at b
  rcases b with ⟨hd, hl⟩ | b
  · rw [h3 hd] at hl; cases hl
  · simpa [yoeOk] using b

theorem yoe_int (yoe doy : Nat) (h1 : yoe < 400) (h2 : doy < 366) (h3 : doy = 365 → leapNext yoe = true) :
    let doe : Int := (yoe : Int) * 365 + (yoe : Int) / 4 - (yoe : Int) / 100 + (doy : Int)
    (doe - doe / 1460 + doe / 36524 - doe / 146096) / 365 = (yoe : Int) := by
  have h := yoe_nat yoe doy h1 h2 h3
  intro doe
  omega

end TableauVerif.Props.C20
