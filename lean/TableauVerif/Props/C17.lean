/-
C17 — The type DSL is parsed totally and unambiguously.

`C17_classify`: every cell written by the documented grammar (`Spec.C17.print e` for a well-formed `e`)
is recognised, in protogen's dispatch order, as exactly the construct `classOf e` with exactly the
components `componentsOf e`. Proved by structural case analysis over the six constructs, for all
component strings admitted by `wf` (unbounded length).

`C17_total`: the recognisers and the header-parser model are total functions (no partiality, no
panic site): by construction in Lean; the header parser's only non-structural recursion is bounded
by explicit fuel, `C17_header_fuel_monotone` is not needed for the statement and is not claimed.
-/
import TableauVerif.Model.Types
import TableauVerif.Spec.C17
namespace TableauVerif.Props.C17
open TableauVerif TableauVerif.Model.Types TableauVerif.Spec.C17

/-! ### list lemmas -/

theorem takeWhile_append_all {p : Nat → Bool} (a b : Str) (h : a.all p = true) :
    (a ++ b).takeWhile p = a ++ b.takeWhile p := by
  induction a with
  | nil => rfl
  | cons x xs ih =>
    simp only [List.all_cons, Bool.and_eq_true] at h
    simp [List.takeWhile, h.1, ih h.2]

theorem dropWhile_append_all {p : Nat → Bool} (a b : Str) (h : a.all p = true) :
    (a ++ b).dropWhile p = b.dropWhile p := by
  induction a with
  | nil => rfl
  | cons x xs ih =>
    simp only [List.all_cons, Bool.and_eq_true] at h
    simp [List.dropWhile, h.1, ih h.2]

theorem stripPrefix_append (p s : Str) : stripPrefix p (p ++ s) = some s := by
  induction p with
  | nil => rfl
  | cons x xs ih => simp [stripPrefix, ih]

theorem lastIdx_append_singleton_of_not_mem (c : Nat) (a : Str) :
    lastIdx c (a ++ [c]) = some a.length := by
  induction a with
  | nil => simp [lastIdx]
  | cons x xs ih => simp [lastIdx, ih]

/-- the last occurrence of `c` in `a ++ [c] ++ b` when `b` has no `c` -/
theorem lastIdx_mid (c : Nat) (a b : Str) (hb : b.all (· != c) = true) :
    lastIdx c (a ++ c :: b) = some a.length := by
  have hnone : lastIdx c b = none := by
    induction b with
    | nil => rfl
    | cons y ys ih =>
      simp only [List.all_cons, Bool.and_eq_true, bne_iff_ne, ne_eq] at hb
      simp [lastIdx, ih (by simpa using hb.2), hb.1]
  induction a with
  | nil => simp [lastIdx, hnone]
  | cons x xs ih => simp [lastIdx, ih]


/-! ### white space -/

open TableauVerif.Model in
/-- head and last are not white space (or the string is empty) -/
def tightS (t : Str) : Prop :=
  (∀ c, t.head? = some c → Literal.isSpace c = false) ∧ (∀ c, t.getLast? = some c → Literal.isSpace c = false)

open TableauVerif.Model in
theorem dropWhile_replicate_space (n : Nat) (t : Str) (h : ∀ c, t.head? = some c → Literal.isSpace c = false) :
    (List.replicate n 32 ++ t).dropWhile Literal.isSpace = t := by
  induction n with
  | zero =>
    cases t with
    | nil => rfl
    | cons x xs => simp [h x rfl]
  | succ k ih =>
    have : Literal.isSpace 32 = true := by decide
    simp [List.replicate_succ, this, ih]

theorem trimSpace_pad (a b : Nat) (t : Str) (h : tightS t) :
    trimSpace (List.replicate a 32 ++ t ++ List.replicate b 32) = t := by
  unfold trimSpace Model.Literal.trimSpace Str.trim Str.dropWhileEnd
  cases t with
  | nil =>
    have h0 := dropWhile_replicate_space (a + b) [] (by simp)
    simp only [List.append_nil] at h0
    simp [List.replicate_append_replicate, h0]
  | cons x xs =>
    rw [List.append_assoc, dropWhile_replicate_space a]
    · rw [List.reverse_append, List.reverse_replicate, dropWhile_replicate_space b]
      · simp
      · intro c hc
        apply h.2 c
        rw [List.head?_reverse] at hc; exact hc
    · intro c hc
      simp at hc
      exact h.1 c (by simp [hc])

theorem trimSpace_tight (t : Str) (h : tightS t) : trimSpace t = t := by
  simpa using trimSpace_pad 0 0 t h

theorem trimSpace_padR (b : Nat) (t : Str) (h : tightS t) : trimSpace (t ++ List.replicate b 32) = t := by
  simpa using trimSpace_pad 0 b t h

theorem trimSpace_padL (a : Nat) (t : Str) (h : tightS t) : trimSpace (List.replicate a 32 ++ t) = t := by
  simpa using trimSpace_pad a 0 t h

theorem nested_not_space (c : Nat) (h : isNestedCh c = true) (h32 : c ≠ 32) : Model.Literal.isSpace c = false := by
  simp only [isNestedCh, isTypeCh, isNameCh, Str.isDigit, Str.isUpper, Str.isLower, Bool.or_eq_true, Bool.and_eq_true,
    decide_eq_true_eq, beq_iff_eq] at h
  simp only [Model.Literal.isSpace, Bool.or_eq_false_iff, Bool.and_eq_false_iff, beq_eq_false_iff_ne, ne_eq, decide_eq_false_iff_not]
  omega

/-- a string of class-N characters without a blank at either end is tight -/
theorem tightS_of_tight (t : Str) (hall : t.all isNestedCh = true) (ht : tight t = true) : tightS t := by
  simp only [tight, Bool.and_eq_true, bne_iff_ne, ne_eq] at ht
  constructor
  · intro c hc
    have hmem : c ∈ t := List.mem_of_mem_head? hc
    exact nested_not_space c (List.all_eq_true.mp hall c hmem) (by intro h; subst h; exact ht.1 hc)
  · intro c hc
    have hmem : c ∈ t := List.mem_of_getLast? hc
    exact nested_not_space c (List.all_eq_true.mp hall c hmem) (by intro h; subst h; exact ht.2 hc)

theorem all_mono {p q : Nat → Bool} (t : Str) (h : t.all p = true) (hpq : ∀ c, p c = true → q c = true) : t.all q = true := by
  rw [List.all_eq_true] at *
  intro c hc; exact hpq c (h c hc)

theorem type_nested (c : Nat) (h : isTypeCh c = true) : isNestedCh c = true := by simp [isNestedCh, h]
theorem name_type (c : Nat) (h : isNameCh c = true) : isTypeCh c = true := by simp [isTypeCh, h]
theorem path_type (c : Nat) (h : isPathCh c = true) : isTypeCh c = true := by
  simp only [isPathCh, Bool.or_eq_true, beq_iff_eq] at h
  rcases h with h | h
  · exact name_type c h
  · subst h; decide


/-! ### the property suffix -/

/-- blanks before the bar (class-T/N characters, eaten by the greedy group before the suffix) -/
def pre (s : Suffix) : Str := if s.prop.isEmpty then [] else List.replicate s.sp1 32
/-- from the bar on -/
def post (s : Suffix) : Str :=
  if s.prop.isEmpty then [] else [124] ++ List.replicate s.sp2 32 ++ [123] ++ s.prop ++ [125]

theorem print_eq (s : Suffix) : s.print = pre s ++ post s := by
  unfold Suffix.print pre post
  split <;> simp

theorem pre_eq (s : Suffix) : ∃ n, pre s = List.replicate n 32 := by
  unfold pre; split
  · exact ⟨0, rfl⟩
  · exact ⟨s.sp1, rfl⟩

theorem pre_all_type (s : Suffix) : (pre s).all isTypeCh = true := by
  obtain ⟨n, hn⟩ := pre_eq s
  rw [hn, List.all_eq_true]; intro c hc
  rw [List.mem_replicate] at hc; rw [hc.2]; decide

theorem pre_all_nested (s : Suffix) : (pre s).all isNestedCh = true :=
  all_mono _ (pre_all_type s) type_nested

theorem post_head (s : Suffix) : post s = [] ∨ ∃ r, post s = 124 :: r := by
  unfold post; split
  · exact Or.inl rfl
  · exact Or.inr ⟨_, rfl⟩

theorem takeWhile_post {p : Nat → Bool} (s : Suffix) (hp : p 124 = false) : (post s).takeWhile p = [] := by
  rcases post_head s with h | ⟨r, h⟩ <;> simp [h, hp]

theorem dropWhile_post {p : Nat → Bool} (s : Suffix) (hp : p 124 = false) : (post s).dropWhile p = post s := by
  rcases post_head s with h | ⟨r, h⟩ <;> simp [h, hp]

theorem dropSpaces_replicate (n : Nat) (c : Nat) (r : Str) (hc : c ≠ 32) :
    dropSpaces (List.replicate n 32 ++ c :: r) = c :: r := by
  unfold dropSpaces
  induction n with
  | zero => simp [hc]
  | succ k ih => simpa [List.replicate_succ] using ih

theorem takeWhile_all {p : Nat → Bool} (a : Str) (h : a.all p = true) : a.takeWhile p = a := by
  have := takeWhile_append_all a [] h
  simpa using this

/-- the prop group tried at the bar yields exactly the written property text -/
theorem propAt_post (s : Suffix) (h : s.wf = true) : propAt (post s) = s.prop := by
  unfold post
  by_cases he : s.prop.isEmpty
  · simp only [he, if_true]
    have : s.prop = [] := by simpa using he
    simp [propAt, dropSpaces, this]
  · rw [if_neg he]
    simp only [Suffix.wf, he, Bool.false_or, Bool.and_eq_true, beq_iff_eq] at h
    have hform : [124] ++ List.replicate s.sp2 32 ++ [123] ++ s.prop ++ [125]
        = 124 :: (List.replicate s.sp2 32 ++ 123 :: (s.prop ++ [125])) := by simp
    rw [hform]
    have hd0 : dropSpaces (124 :: (List.replicate s.sp2 32 ++ 123 :: (s.prop ++ [125])))
        = 124 :: (List.replicate s.sp2 32 ++ 123 :: (s.prop ++ [125])) := by
      simp [dropSpaces]
    have hd1 := dropSpaces_replicate s.sp2 123 (s.prop ++ [125]) (by decide)
    have hrun : (s.prop ++ [125]).takeWhile (· != 10) = s.prop ++ [125] := by
      apply takeWhile_all
      simp only [List.all_append, Bool.and_eq_true]
      exact ⟨h.1, by decide⟩
    have hlen : s.prop.length ≥ 1 := by
      cases hp : s.prop with
      | nil => simp [hp] at he
      | cons _ _ => simp
    unfold propAt
    rw [hd0]
    simp only [hd1, hrun, lastIdx_append_singleton_of_not_mem]
    rw [if_pos hlen, List.take_left' rfl]
    exact h.2

/-- a greedy class-`p` group in front of the suffix takes the body and the blanks, and leaves the bar -/
theorem run_take {p : Nat → Bool} (body : Str) (s : Suffix) (hb : body.all p = true) (h32 : p 32 = true) (h124 : p 124 = false) :
    (body ++ s.print).takeWhile p = body ++ pre s := by
  obtain ⟨n, hn⟩ := pre_eq s
  have hpre : (pre s).all p = true := by
    rw [hn, List.all_eq_true]; intro c hc; rw [List.mem_replicate] at hc; rw [hc.2]; exact h32
  rw [print_eq, ← List.append_assoc, takeWhile_append_all _ _ (by simp [hb, hpre]), takeWhile_post s h124]
  simp

theorem run_drop {p : Nat → Bool} (body : Str) (s : Suffix) (hb : body.all p = true) (h32 : p 32 = true) (h124 : p 124 = false) :
    (body ++ s.print).dropWhile p = post s := by
  obtain ⟨n, hn⟩ := pre_eq s
  have hpre : (pre s).all p = true := by
    rw [hn, List.all_eq_true]; intro c hc; rw [List.mem_replicate] at hc; rw [hc.2]; exact h32
  rw [print_eq, ← List.append_assoc, dropWhile_append_all _ _ (by simp [hb, hpre]), dropWhile_post s h124]

theorem trim_body_pre (body : Str) (s : Suffix) (h : tightS body) : trimSpace (body ++ pre s) = body := by
  obtain ⟨n, hn⟩ := pre_eq s
  rw [hn]; exact trimSpace_padR n body h


theorem print_head (s : Suffix) : s.print = [] ∨ ∃ r, s.print = 32 :: r ∨ s.print = 124 :: r := by
  rw [print_eq]
  obtain ⟨n, hn⟩ := pre_eq s
  rw [hn]
  cases n with
  | zero =>
    rcases post_head s with h | ⟨r, h⟩
    · left; simp [h]
    · right; exact ⟨r, Or.inr (by simp [h])⟩
  | succ k => right; exact ⟨List.replicate k 32 ++ post s, Or.inl (by simp [List.replicate_succ])⟩

theorem propAt_print (s : Suffix) (h : s.wf = true) : propAt s.print = s.prop := by
  rw [← propAt_post s h, print_eq]
  obtain ⟨n, hn⟩ := pre_eq s
  rw [hn]
  rcases post_head s with hp | ⟨r, hp⟩
  · rw [hp]
    have : dropSpaces (List.replicate n 32 ++ []) = [] := by
      unfold dropSpaces
      induction n with
      | zero => rfl
      | succ k ih => simpa [List.replicate_succ] using ih
    simp [propAt, this, dropSpaces]
  · rw [hp]
    unfold propAt
    rw [dropSpaces_replicate n 124 r (by decide)]
    have : dropSpaces (124 :: r) = 124 :: r := by simp [dropSpaces]
    rw [this]

theorem path_ne (c : Nat) (h : isPathCh c = true) : c ≠ 60 ∧ c ≠ 91 ∧ c ≠ 123 ∧ c ≠ 32 ∧ c ≠ 124 := by
  refine ⟨?_, ?_, ?_, ?_, ?_⟩ <;> (intro hc; subst hc; revert h; decide)

/-- a prefix ending in `<` is not a prefix of a type name followed by the suffix -/
theorem stripPrefix_none (pfx t x : Str) (hlast : pfx.getLast? = some 60) (hpf : ∀ c ∈ pfx, c ≠ 32 ∧ c ≠ 124)
    (ht : t.all isPathCh = true) (hx : x = [] ∨ ∃ r, x = 32 :: r ∨ x = 124 :: r) :
    stripPrefix pfx (t ++ x) = none := by
  induction pfx generalizing t with
  | nil => simp at hlast
  | cons p ps ih =>
    cases t with
    | nil =>
      have hp := hpf p (by simp)
      rcases hx with h | ⟨r, h | h⟩
      · subst h; simp [stripPrefix]
      · subst h; simp [stripPrefix, hp.1]
      · subst h; simp [stripPrefix, hp.2]
    | cons c t' =>
      simp only [List.all_cons, Bool.and_eq_true] at ht
      simp only [List.cons_append, stripPrefix]
      split
      · rename_i hpc
        cases ps with
        | nil =>
          simp at hlast
          exact absurd (hpc ▸ hlast : c = 60) (path_ne c ht.1).1
        | cons q qs =>
          apply ih t'
          · simpa using hlast
          · intro d hd; exact hpf d (by simp [hd])
          · exact ht.2
      · rfl

/-- scanning over element characters only accumulates them -/
theorem keyedScan_append (a x acc : Str) (ha : a.all (fun c => isNestedCh c && c != 93) = true) :
    keyedScan (a ++ x) acc = keyedScan x (a.reverse ++ acc) := by
  induction a generalizing acc with
  | nil => rfl
  | cons c cs ih =>
    simp only [List.all_cons, Bool.and_eq_true, bne_iff_ne, ne_eq] at ha
    have h93 : (c == 93) = false := by simpa using ha.1.2
    simp only [List.cons_append, keyedScan, h93, ha.1.1, if_true, Bool.false_eq_true, if_false]
    rw [ih _ ha.2]
    simp

theorem keyedScan_post (s : Suffix) (acc : Str) : keyedScan (post s) acc = none := by
  rcases post_head s with h | ⟨r, h⟩
  · rw [h]; rfl
  · rw [h]; simp [keyedScan, isNestedCh, isTypeCh, isNameCh, Str.isDigit, Str.isUpper, Str.isLower]


/-! ### the six constructs -/

theorem tightS_path (t : Str) (h : t.all isPathCh = true) : tightS t := by
  constructor
  · intro c hc
    have hm := List.all_eq_true.mp h c (List.mem_of_mem_head? hc)
    exact nested_not_space c (type_nested c (path_type c hm)) (path_ne c hm).2.2.2.1
  · intro c hc
    have hm := List.all_eq_true.mp h c (List.mem_of_getLast? hc)
    exact nested_not_space c (type_nested c (path_type c hm)) (path_ne c hm).2.2.2.1

theorem C17_scalar (t : Str) (s : Suffix) (h : wf (.scalar t s) = true) :
    observe (print (.scalar t s)) = (.scalar, [t, s.prop]) := by
  simp only [wf, typeName, Bool.and_eq_true, Bool.not_eq_true', List.isEmpty_eq_false_iff] at h
  obtain ⟨⟨hne, hall⟩, hs⟩ := h
  have hty : t.all isTypeCh = true := all_mono t hall path_type
  obtain ⟨c, t', rfl⟩ := List.exists_cons_of_ne_nil hne
  have hc := path_ne c (by simp only [List.all_cons, Bool.and_eq_true] at hall; exact hall.1)
  have hmap : matchMap ((c :: t') ++ s.print) = none := by
    unfold matchMap
    rw [stripPrefix_none [109, 97, 112, 60] (c :: t') s.print rfl (by decide) hall (print_head s)]
  have henum : matchEnum ((c :: t') ++ s.print) = none := by
    unfold matchEnum
    rw [stripPrefix_none [101, 110, 117, 109, 60] (c :: t') s.print rfl (by decide) hall (print_head s)]
  have hlist : matchList ((c :: t') ++ s.print) = none := by
    simp only [List.cons_append, matchList]
    split
    · rename_i heq; simp at heq; exact absurd heq.1 hc.2.1
    · rfl
  have hstruct : matchStruct ((c :: t') ++ s.print) = none := by
    simp only [List.cons_append, matchStruct]
    split
    · rename_i heq; simp at heq; exact absurd heq.1 hc.2.2.1
    · rfl
  have hrun := run_take (c :: t') s hty (by decide) (by decide)
  have hdrop := run_drop (c :: t') s hty (by decide) (by decide)
  have hscalar : matchScalar ((c :: t') ++ s.print) = some ⟨c :: t', s.prop⟩ := by
    unfold matchScalar
    rw [hrun, hdrop, propAt_post s hs]
    simp only [List.cons_append]
    rw [← List.cons_append, trim_body_pre (c :: t') s (tightS_path _ hall)]
  simp only [print, observe, hmap, hlist, hstruct, henum, hscalar]


theorem pre_no (s : Suffix) (c : Nat) (hc : c ≠ 32) : (pre s).all (· != c) = true := by
  obtain ⟨n, hn⟩ := pre_eq s
  rw [hn, List.all_eq_true]; intro d hd
  rw [List.mem_replicate] at hd; rw [hd.2]; simpa using (Ne.symm hc)

theorem C17_enum (t : Str) (s : Suffix) (h : wf (.enum t s) = true) :
    observe (print (.enum t s)) = (.enum, [t, s.prop]) := by
  simp only [wf, typeName, Bool.and_eq_true, Bool.not_eq_true', List.isEmpty_eq_false_iff] at h
  obtain ⟨⟨hne, hall⟩, hs⟩ := h
  have hty : t.all isTypeCh = true := all_mono t hall path_type
  have hlen : t.length ≥ 1 := by
    cases t with
    | nil => exact absurd rfl hne
    | cons _ _ => simp
  have hform : print (.enum t s) = [101, 110, 117, 109, 60] ++ (t ++ 62 :: s.print) := by simp [print]
  have hmap : matchMap (print (.enum t s)) = none := by rw [hform]; simp [matchMap, stripPrefix]
  have hlist : matchList (print (.enum t s)) = none := by rw [hform]; simp [matchList]
  have hstruct : matchStruct (print (.enum t s)) = none := by rw [hform]; simp [matchStruct]
  have hrun : (t ++ 62 :: s.print).takeWhile isTypeCh = t ++ 62 :: pre s := by
    have hb : (t ++ [62]).all isTypeCh = true := by
      rw [List.all_append, hty]; decide
    have := run_take (p := isTypeCh) (t ++ [62]) s hb (by decide) (by decide)
    simpa using this
  have henum : matchEnum (print (.enum t s)) = some ⟨t, s.prop⟩ := by
    rw [hform]
    unfold matchEnum
    rw [stripPrefix_append]
    simp only [hrun, lastIdx_mid 62 t (pre s) (pre_no s 62 (by decide))]
    rw [if_pos hlen, List.take_left' rfl, trimSpace_tight t (tightS_path t hall)]
    have : (t ++ 62 :: s.print).drop (t.length + 1) = s.print := by
      rw [show t ++ 62 :: s.print = (t ++ [62]) ++ s.print by simp]
      exact List.drop_left' (by simp)
    rw [this, propAt_print s hs]
  simp only [observe, hmap, hlist, hstruct, henum]


theorem tightS_name (t : Str) (h : t.all isNameCh = true) : tightS t := by
  have hn : t.all isNestedCh = true := all_mono t h (fun c hc => type_nested c (name_type c hc))
  constructor
  · intro c hc
    have hm := List.all_eq_true.mp h c (List.mem_of_mem_head? hc)
    exact nested_not_space c (type_nested c (name_type c hm)) (by intro h32; subst h32; revert hm; decide)
  · intro c hc
    have hm := List.all_eq_true.mp h c (List.mem_of_getLast? hc)
    exact nested_not_space c (type_nested c (name_type c hm)) (by intro h32; subst h32; revert hm; decide)

/-- the column group and the suffix after it -/
theorem col_and_prop (col : Str) (s : Suffix) (hcol : col.all isNestedCh = true) (ht : tight col = true) (hs : s.wf = true) :
    trimSpace ((col ++ s.print).takeWhile isNestedCh) = col ∧ propAt ((col ++ s.print).dropWhile isNestedCh) = s.prop := by
  rw [run_take col s hcol (by decide) (by decide), run_drop col s hcol (by decide) (by decide),
    trim_body_pre col s (tightS_of_tight col hcol ht), propAt_post s hs]
  exact ⟨rfl, rfl⟩

theorem C17_struct (st cu col : Str) (s : Suffix) (h : wf (.struct st cu col s) = true) :
    observe (print (.struct st cu col s)) = (.struct, [st, cu, col, s.prop]) := by
  simp only [wf, Bool.and_eq_true, Bool.not_eq_true', List.isEmpty_eq_false_iff] at h
  obtain ⟨⟨⟨⟨⟨⟨_, hst⟩, htst⟩, hcu⟩, hcol⟩, htcol⟩, hs⟩ := h
  have hmap : matchMap (print (.struct st cu col s)) = none := by simp [print, matchMap, stripPrefix]
  have hlist : matchList (print (.struct st cu col s)) = none := by simp [print, matchList]
  obtain ⟨hc1, hc2⟩ := col_and_prop col s hcol htcol hs
  have hstT : trimSpace st = st := trimSpace_tight st (tightS_of_tight st (all_mono st hst type_nested) htst)
  have hcuT : trimSpace cu = cu := trimSpace_tight cu (tightS_name cu hcu)
  have hstruct : matchStruct (print (.struct st cu col s)) = some ⟨st, cu, col, s.prop⟩ := by
    by_cases hce : cu.isEmpty
    · have hcu0 : cu = [] := by simpa using hce
      subst hcu0
      have hform : print (.struct st [] col s) = 123 :: (st ++ 125 :: (col ++ s.print)) := by simp [print]
      rw [hform]
      unfold matchStruct
      simp only [takeWhile_append_all st _ hst, dropWhile_append_all st _ hst]
      have h125 : isTypeCh 125 = false := by decide
      simp only [List.takeWhile_cons, List.dropWhile_cons, h125]
      simp [hstT, hc1, hc2, hcuT]
    · have hform : print (.struct st cu col s) = 123 :: (st ++ 40 :: (cu ++ 41 :: 125 :: (col ++ s.print))) := by
        simp [print, hce]
      rw [hform]
      have h40 : isTypeCh 40 = false := by decide
      have h41 : isNameCh 41 = false := by decide
      have hd : (st ++ 40 :: (cu ++ 41 :: 125 :: (col ++ s.print))).dropWhile isTypeCh
          = 40 :: (cu ++ 41 :: 125 :: (col ++ s.print)) := by
        rw [dropWhile_append_all st _ hst]; simp [h40]
      have ht : (st ++ 40 :: (cu ++ 41 :: 125 :: (col ++ s.print))).takeWhile isTypeCh = st := by
        rw [takeWhile_append_all st _ hst]; simp [h40]
      have hd2 : (cu ++ 41 :: 125 :: (col ++ s.print)).dropWhile isNameCh = 41 :: 125 :: (col ++ s.print) := by
        rw [dropWhile_append_all cu _ hcu]; simp [h41]
      have ht2 : (cu ++ 41 :: 125 :: (col ++ s.print)).takeWhile isNameCh = cu := by
        rw [takeWhile_append_all cu _ hcu]; simp [h41]
      unfold matchStruct
      simp only [hd, ht, hd2, ht2, hstT, hcuT, hc1, hc2]
  simp only [observe, hmap, hlist, hstruct]


theorem notClose_nested (e : Str) (h : e.all (fun c => isNestedCh c && c != 93) = true) : e.all isNestedCh = true :=
  all_mono e h (fun c hc => by simp only [Bool.and_eq_true] at hc; exact hc.1)

theorem keyedTail_none (x : Str) (h : x.head? ≠ some 60) : keyedTail x = none := by
  unfold keyedTail
  split
  · rename_i r1; simp at h
  · rfl

theorem print_head_ne (s : Suffix) (c : Nat) (h32 : c ≠ 32) (h124 : c ≠ 124) : s.print.head? ≠ some c := by
  rcases print_head s with h | ⟨r, h | h⟩ <;> rw [h] <;> simp
  · exact Ne.symm h32
  · exact Ne.symm h124

theorem C17_list (e col : Str) (s : Suffix) (h : wf (.list e col s) = true) :
    observe (print (.list e col s)) = (.list, [e, col, s.prop]) := by
  simp only [wf, Bool.and_eq_true, bne_iff_ne, ne_eq] at h
  obtain ⟨⟨⟨⟨⟨he, hte⟩, hcol⟩, htcol⟩, hlt⟩, hs⟩ := h
  have hcolN := notClose_nested col hcol
  have heN := notClose_nested e he
  have hform : print (.list e col s) = 91 :: (e ++ 93 :: (col ++ s.print)) := by simp [print]
  have hmap : matchMap (print (.list e col s)) = none := by rw [hform]; simp [matchMap, stripPrefix]
  obtain ⟨hc1, hc2⟩ := col_and_prop col s hcolN htcol hs
  have heT : trimSpace e = e := trimSpace_tight e (tightS_of_tight e heN hte)
  have h93 : notClose 93 = false := by decide
  have he' : e.all notClose = true := he
  have hd : (e ++ 93 :: (col ++ s.print)).dropWhile notClose = 93 :: (col ++ s.print) := by
    rw [dropWhile_append_all e _ he']; simp [h93]
  have ht : (e ++ 93 :: (col ++ s.print)).takeWhile notClose = e := by
    rw [takeWhile_append_all e _ he']; simp [h93]
  have hlist : matchList (print (.list e col s)) = some ⟨e, col, s.prop⟩ := by
    rw [hform]; unfold matchList
    simp only [hd, ht, heT, hc1, hc2]
  have hkeyed : matchKeyedList (print (.list e col s)) = none := by
    rw [hform]; unfold matchKeyedList
    have hscan : keyedScan (e ++ 93 :: (col ++ s.print)) [] = none := by
      rw [keyedScan_append e _ [] he]
      have hhead : (col ++ s.print).head? ≠ some 60 := by
        cases col with
        | nil => simpa using print_head_ne s 60 (by decide) (by decide)
        | cons c cs => simpa using hlt
      have htail := keyedTail_none (col ++ s.print) hhead
      simp only [keyedScan, beq_self_eq_true, if_true, htail]
      rw [print_eq, ← List.append_assoc, keyedScan_append (col ++ pre s) _ _ (by
        rw [List.all_append, hcol]
        obtain ⟨n, hn⟩ := pre_eq s
        rw [hn]; simp only [Bool.true_and, List.all_eq_true]; intro d hd
        rw [List.mem_replicate] at hd; rw [hd.2]; decide)]
      exact keyedScan_post s _
    simp only [hscan]
  simp only [observe, hmap, hlist, hkeyed]


/-- the greedy `<` N+ `>` group of keyed lists -/
theorem keyedTail_some (col : Str) (s : Suffix) (hcol : col.all isNestedCh = true) (hne : col ≠ []) :
    keyedTail (60 :: (col ++ 62 :: s.print)) = some (col, s.print) := by
  unfold keyedTail
  have hb : (col ++ [62]).all isNestedCh = true := by rw [List.all_append, hcol]; decide
  have hrun : (col ++ 62 :: s.print).takeWhile isNestedCh = col ++ 62 :: pre s := by
    have := run_take (p := isNestedCh) (col ++ [62]) s hb (by decide) (by decide)
    simpa using this
  have hlen : col.length ≥ 1 := by
    cases col with
    | nil => exact absurd rfl hne
    | cons _ _ => simp
  simp only [hrun, lastIdx_mid 62 col (pre s) (pre_no s 62 (by decide))]
  rw [if_pos hlen, List.take_left' rfl]
  have : (col ++ 62 :: s.print).drop (col.length + 1) = s.print := by
    rw [show col ++ 62 :: s.print = (col ++ [62]) ++ s.print by simp]
    exact List.drop_left' (by simp)
  rw [this]

theorem C17_keyed (e col : Str) (s : Suffix) (h : wf (.keyed e col s) = true) :
    observe (print (.keyed e col s)) = (.keyedList, [e, col, s.prop]) := by
  simp only [wf, Bool.and_eq_true, Bool.not_eq_true', List.isEmpty_eq_false_iff] at h
  obtain ⟨⟨⟨⟨⟨he, hte⟩, hne⟩, hcol⟩, htcol⟩, hs⟩ := h
  have heN := notClose_nested e he
  have hform : print (.keyed e col s) = 91 :: (e ++ 93 :: 60 :: (col ++ 62 :: s.print)) := by simp [print]
  have hmap : matchMap (print (.keyed e col s)) = none := by rw [hform]; simp [matchMap, stripPrefix]
  have heT : trimSpace e = e := trimSpace_tight e (tightS_of_tight e heN hte)
  have hcolT : trimSpace col = col := trimSpace_tight col (tightS_of_tight col hcol htcol)
  have h93 : notClose 93 = false := by decide
  have he' : e.all notClose = true := he
  have hd : (e ++ 93 :: 60 :: (col ++ 62 :: s.print)).dropWhile notClose = 93 :: 60 :: (col ++ 62 :: s.print) := by
    rw [dropWhile_append_all e _ he']; simp [h93]
  have hlist : (matchList (print (.keyed e col s))).isSome = true := by
    rw [hform]; unfold matchList
    simp only [hd, Option.isSome_some]
  have hkeyed : matchKeyedList (print (.keyed e col s)) = some ⟨e, col, s.prop⟩ := by
    rw [hform]; unfold matchKeyedList
    have hscan : keyedScan (e ++ 93 :: 60 :: (col ++ 62 :: s.print)) [] = some (e, col, s.print) := by
      rw [keyedScan_append e _ [] he]
      simp only [keyedScan, beq_self_eq_true, if_true, keyedTail_some col s hcol hne]
      simp
    simp only [hscan, heT, hcolT, propAt_print s hs]
  obtain ⟨d, hd'⟩ := Option.isSome_iff_exists.mp hlist
  simp only [observe, hmap, hd', hkeyed]


theorem C17_map (k v : Str) (spc : Nat) (s : Suffix) (h : wf (.map k v spc s) = true) :
    observe (print (.map k v spc s)) = (.map, [k, v, s.prop]) := by
  simp only [wf, Bool.and_eq_true, Bool.not_eq_true', List.isEmpty_eq_false_iff] at h
  obtain ⟨⟨⟨⟨⟨⟨hkne, hk⟩, htk⟩, hvne⟩, hv⟩, htv⟩, hs⟩ := h
  have hvN : v.all isNestedCh = true := all_mono v hv (fun c hc => by simp only [Bool.and_eq_true] at hc; exact hc.1)
  have hv44 : v.all (· != 44) = true := all_mono v hv (fun c hc => by simp only [Bool.and_eq_true] at hc; exact hc.2)
  let sp : Str := List.replicate spc 32
  have hsp44 : sp.all (· != 44) = true := by
    simp only [sp, List.all_eq_true]; intro d hd; rw [List.mem_replicate] at hd; rw [hd.2]; decide
  have hspN : sp.all isNestedCh = true := by
    simp only [sp, List.all_eq_true]; intro d hd; rw [List.mem_replicate] at hd; rw [hd.2]; decide
  let B : Str := sp ++ v
  have hBne : B ≠ [] := by simp [B, hvne]
  have hB44 : B.all (· != 44) = true := by simp only [B, List.all_append, hsp44, hv44, Bool.and_self]
  let A : Str := k ++ 44 :: B
  have hAN : (A ++ [62]).all isNestedCh = true := by
    simp only [A, B, List.all_append, List.all_cons, hk, hspN, hvN, List.all_nil]; decide
  have hform : print (.map k v spc s) = [109, 97, 112, 60] ++ (A ++ 62 :: s.print) := by simp [print, A, B, sp]
  have hrun : (A ++ 62 :: s.print).takeWhile isNestedCh = A ++ 62 :: pre s := by
    have := run_take (p := isNestedCh) (A ++ [62]) s hAN (by decide) (by decide)
    simpa using this
  have hj := lastIdx_mid 62 A (pre s) (pre_no s 62 (by decide))
  have hAlen : A.length = k.length + 1 + B.length := by simp [A]; omega
  have hBlen : B.length ≥ 1 := by
    cases hB : B with
    | nil => exact absurd hB hBne
    | cons _ _ => simp
  have htake1 : (A ++ 62 :: pre s).take (A.length - 1) = k ++ 44 :: B.dropLast := by
    rw [List.take_append_of_le_length (by omega), ← List.dropLast_eq_take]
    simp only [A]
    rw [List.dropLast_append_of_ne_nil (by simp), List.dropLast_cons_of_ne_nil hBne]
  have hBd44 : B.dropLast.all (· != 44) = true := by
    rw [List.all_eq_true] at hB44 ⊢
    intro c hc; rw [List.dropLast_eq_take] at hc; exact hB44 c (List.mem_of_mem_take hc)
  have hi := lastIdx_mid 44 k B.dropLast hBd44
  have hklen : k.length ≥ 1 := by
    cases hk0 : k with
    | nil => exact absurd hk0 hkne
    | cons _ _ => simp
  have htakek : (A ++ 62 :: pre s).take k.length = k := by
    simp only [A, List.append_assoc]
    exact List.take_left' rfl
  have htakeA : ((A ++ 62 :: pre s).take A.length).drop (k.length + 1) = B := by
    rw [List.take_left' rfl]
    simp only [A]
    rw [show k ++ 44 :: B = (k ++ [44]) ++ B by simp]
    exact List.drop_left' (by simp)
  have hdrop : (A ++ 62 :: s.print).drop (A.length + 1) = s.print := by
    rw [show A ++ 62 :: s.print = (A ++ [62]) ++ s.print by simp]
    exact List.drop_left' (by simp)
  have hkT : trimSpace k = k := trimSpace_tight k (tightS_of_tight k hk htk)
  have hvT : trimSpace B = v := trimSpace_padL spc v (tightS_of_tight v hvN htv)
  have hmap : matchMap (print (.map k v spc s)) = some ⟨k, v, s.prop⟩ := by
    rw [hform]; unfold matchMap
    rw [stripPrefix_append]
    simp only [hrun, hj, htake1, hi]
    rw [if_pos hklen]
    simp only [htakek, htakeA, hdrop, hkT, hvT, propAt_print s hs]
  simp only [observe, hmap]

/-- **C17_classify**: every cell written by the documented grammar is recognised, in protogen's
dispatch order, as exactly its construct with exactly its components -/
theorem C17_classify (e : TExpr) (h : wf e = true) : observe (print e) = (classOf e, componentsOf e) := by
  cases e with
  | scalar t s => exact C17_scalar t s h
  | enum t s => exact C17_enum t s h
  | struct st cu col s => exact C17_struct st cu col s h
  | list el col s => exact C17_list el col s h
  | keyed el col s => exact C17_keyed el col s h
  | map k v spc s => exact C17_map k v spc s h

/-- the grammar is unambiguous: two well-formed cells with the same text denote the same construct with the
same components -/
theorem C17_unambiguous (e₁ e₂ : TExpr) (h₁ : wf e₁ = true) (h₂ : wf e₂ = true) (h : print e₁ = print e₂) :
    classOf e₁ = classOf e₂ ∧ componentsOf e₁ = componentsOf e₂ := by
  have a := C17_classify e₁ h₁
  have b := C17_classify e₂ h₂
  rw [h] at a
  have := a.symm.trans b
  exact ⟨congrArg Prod.fst this, congrArg Prod.snd this⟩

/-! ### outside the grammar: a construct is only ever recognised behind its own opening token -/

theorem stripPrefix_some (p s r : Str) (h : stripPrefix p s = some r) : s = p ++ r := by
  induction p generalizing s with
  | nil => simp [stripPrefix] at h; simp [h]
  | cons x xs ih =>
    cases s with
    | nil => simp [stripPrefix] at h
    | cons c cs =>
      simp only [stripPrefix] at h
      split at h
      · rename_i hxc; subst hxc; rw [ih cs h]; rfl
      · exact absurd h (by simp)

/-- **C17_outside**: whatever the text, it is classified as a map only behind `map<`, as a (keyed) list only
behind `[`, as a struct only behind `{`, as an enum only behind `enum<`; everything else falls through to the
scalar / opaque-type-name reading or is rejected -/
theorem C17_outside (s : Str) :
    ((observe s).1 = .map → ∃ r, s = Str.ofString "map<" ++ r) ∧
    ((observe s).1 = .list ∨ (observe s).1 = .keyedList → ∃ r, s = 91 :: r) ∧
    ((observe s).1 = .struct → ∃ r, s = 123 :: r) ∧
    ((observe s).1 = .enum → ∃ r, s = Str.ofString "enum<" ++ r) := by
  have hmap : ∀ d, matchMap s = some d → ∃ r, s = Str.ofString "map<" ++ r := by
    intro d hd
    unfold matchMap at hd
    split at hd
    · simp at hd
    · rename_i r hr; exact ⟨r, stripPrefix_some _ _ _ hr⟩
  have hlist : ∀ d, matchList s = some d → ∃ r, s = 91 :: r := by
    intro d hd
    unfold matchList at hd
    split at hd
    · rename_i r; exact ⟨r, rfl⟩
    · simp at hd
  have hstruct : ∀ d, matchStruct s = some d → ∃ r, s = 123 :: r := by
    intro d hd
    unfold matchStruct at hd
    split at hd
    · rename_i r; exact ⟨r, rfl⟩
    · simp at hd
  have henum : ∀ d, matchEnum s = some d → ∃ r, s = Str.ofString "enum<" ++ r := by
    intro d hd
    unfold matchEnum at hd
    split at hd
    · simp at hd
    · rename_i r hr; exact ⟨r, stripPrefix_some _ _ _ hr⟩
  unfold observe
  refine ⟨?_, ?_, ?_, ?_⟩
  all_goals
    cases h1 : matchMap s with
    | some d => first | (intro _; exact hmap d h1) | (intro h; simp at h)
    | none =>
      cases h2 : matchList s with
      | some d =>
        cases h3 : matchKeyedList s with
        | some k => first | (intro _; exact hlist d h2) | (intro h; simp at h)
        | none => first | (intro _; exact hlist d h2) | (intro h; simp at h)
      | none =>
        cases h4 : matchStruct s with
        | some d => first | (intro _; exact hstruct d h4) | (intro h; simp at h)
        | none =>
          cases h5 : matchEnum s with
          | some d => first | (intro _; exact henum d h5) | (intro h; simp at h)
          | none =>
            cases h6 : matchScalar s with
            | some d => intro h; simp at h
            | none => intro h; simp at h

-- non-vacuity: concrete well-formed cells of every construct
example : wf (.map (Str.ofString "uint32") (Str.ofString "enum<.ItemType>") 1 ⟨1, 0, Str.ofString "unique:true"⟩) = true := by decide
example : wf (.keyed (Str.ofString "Item") (Str.ofString "uint32") {}) = true := by decide
example : wf (.list [] (Str.ofString "{int32 ID, string Name}Prop") ⟨0, 0, Str.ofString "sep:\";\""⟩) = true := by decide
example : wf (.struct (Str.ofString ".Item") (Str.ofString "Reward") (Str.ofString "int32") {}) = true := by decide

end TableauVerif.Props.C17
