/-
C19 / C20 / C06 — the whole text `formatTimestamp` writes (model `Model.Rfc3339.format`), read back by the specification's
independent RFC 3339 reader (`Spec.C20Emit.parse`), gives the wall clock the location shows at the stored instant, the
stored nanoseconds and the location's offset; hence the oracle accepts it: the text denotes exactly the stored instant
(`C20_emitted_text_reads_back`, `C20_emitted_text_meets_spec`).

Guards, stated as explicit hypotheses: the year shown has at most four digits (0 … 9999: beyond that RFC 3339 has no
text; that the shown clock is a valid one is `C20_shows_valid`), the offset is a whole number of minutes within ±16 h 40 min
(`offOf mins neg`, all real zones), nanoseconds below 10⁹.
-/
import TableauVerif.Props.C20Emit
import TableauVerif.Props.C20EmitFrac
import TableauVerif.Props.C20Days
import TableauVerif.Props.C20Valid
namespace TableauVerif.Props.C20EmitAll
open TableauVerif TableauVerif.Str TableauVerif.Model.Time TableauVerif.Model.Rfc3339 TableauVerif.Spec.C20Emit
open TableauVerif.Props.C20Emit TableauVerif.Props.C20EmitFrac

theorem readN_pad (k v : Nat) (rest : Str) (hv : v < 10 ^ k) (hk : 0 < k) :
    readN k (pad k v ++ rest) = some (v, rest) := by
  have hl := pad_length v k hv hk
  have htake : (pad k v ++ rest).take k = pad k v := by
    rw [List.take_append_of_le_length (by omega)]
    exact List.take_of_length_le (by omega)
  have hdrop : (pad k v ++ rest).drop k = rest := by
    have := List.drop_left (l₁ := pad k v) (l₂ := rest)
    rw [hl] at this; exact this
  have hall : (pad k v).all isDigit = true := List.all_eq_true.mpr (pad_digits v k)
  simp [readN, htake, hdrop, hl, hall, parseNat_pad]

theorem expect_cons (c : Nat) (rest : Str) : expect c (c :: rest) = some rest := by simp [expect]

/-- the offset text starts with `Z`, `+` or `-`: no digit, no dot -/
theorem offsetText_head (off : Int) : ∀ c, (offsetText off).head? = some c → isDigit c = false ∧ c ≠ 46 := by
  intro c hc
  unfold offsetText at hc
  split at hc
  · simp at hc; subst hc; decide
  · simp only [List.head?_cons, Option.some.injEq] at hc
    subst hc
    split <;> decide

/-- **C20_emitted_text_reads_back** -/
theorem C20_emitted_text_reads_back (z : Zone) (t : Int) (n : Nat) (mins : Nat) (neg : Bool)
    (hn : n < 10 ^ 9) (hm : mins < 1000) (hoff : lookupOffset z t = offOf mins neg)
    (hy0 : 0 ≤ (Spec.C20.shows z t).y) (hy1 : (Spec.C20.shows z t).y < 10000) :
    parse (format z t n) = some (Spec.C20.shows z t, n, lookupOffset z t) := by
  have hv := C20Valid.C20_shows_valid z t
  generalize hw : Spec.C20.shows z t = w at *
  obtain ⟨y, mo, d, h, mi, s⟩ := w
  simp only [Wall.valid, Bool.and_eq_true, decide_eq_true_eq] at hv
  simp only [] at hy0 hy1
  obtain ⟨⟨⟨⟨⟨⟨⟨⟨⟨hmo1, hmo2⟩, hd1⟩, hd2⟩, hh0⟩, hh1⟩, hmi0⟩, hmi1⟩, hs0⟩, hs1⟩ := hv
  have hd31 : d ≤ 31 := by
    have : daysInMonth y mo ≤ 31 := by unfold daysInMonth; split <;> (try split) <;> omega
    omega
  have hfrac := C20_printed_fraction_reads_back n hn (offsetText (offOf mins neg)) (offsetText_head _)
  have hofs := C20_printed_offset_reads_back mins hm neg
  simp only [format, fields, hw, hoff, List.append_assoc, List.cons_append]
  unfold parse
  rw [readN_pad 4 y.toNat _ (by omega) (by decide)]
  simp only [Option.bind_eq_bind, Option.bind_some, expect_cons, bind, Option.bind]
  rw [readN_pad 2 mo.toNat _ (by omega) (by decide)]
  simp only [expect_cons]
  rw [readN_pad 2 d.toNat _ (by omega) (by decide)]
  simp only [expect_cons]
  rw [readN_pad 2 h.toNat _ (by omega) (by decide)]
  simp only [expect_cons]
  rw [readN_pad 2 mi.toNat _ (by omega) (by decide)]
  simp only [expect_cons]
  rw [readN_pad 2 s.toNat _ (by omega) (by decide)]
  simp only [hfrac, hofs]
  have e1 : ((y.toNat : Nat) : Int) = y := Int.toNat_of_nonneg hy0
  have e2 : ((mo.toNat : Nat) : Int) = mo := Int.toNat_of_nonneg (by omega)
  have e3 : ((d.toNat : Nat) : Int) = d := Int.toNat_of_nonneg (by omega)
  have e4 : ((h.toNat : Nat) : Int) = h := Int.toNat_of_nonneg hh0
  have e5 : ((mi.toNat : Nat) : Int) = mi := Int.toNat_of_nonneg hmi0
  have e6 : ((s.toNat : Nat) : Int) = s := Int.toNat_of_nonneg hs0
  simp [e1, e2, e3, e4, e5, e6]

theorem offOf_mod (mins : Nat) (neg : Bool) : offOf mins neg % 60 = 0 := by
  unfold offOf
  cases neg <;> simp <;> omega

/-- **C20_emitted_text_meets_spec**: the oracle `Spec.C20Emit.holds` accepts what the formatter model writes: the text
denotes the stored second and nanoseconds, with the location's offset -/
theorem C20_emitted_text_meets_spec (z : Zone) (t : Int) (n : Nat) (mins : Nat) (neg : Bool)
    (hn : n < 10 ^ 9) (hm : mins < 1000) (hoff : lookupOffset z t = offOf mins neg)
    (hy0 : 0 ≤ (Spec.C20.shows z t).y) (hy1 : (Spec.C20.shows z t).y < 10000) :
    (holds z t n (format z t n)).toString = "holds" := by
  have hv := C20Valid.C20_shows_valid z t
  have hp := C20_emitted_text_reads_back z t n mins neg hn hm hoff hy0 hy1
  have hmod : (lookupOffset z t % 60 != 0) = false := by rw [hoff, offOf_mod]; rfl
  have hinst := C20Days.C20_shows_asUTC z t
  have heq : ((Spec.C20.shows z t).asUTC - lookupOffset z t == t) = true := by
    simp only [beq_iff_eq]; omega
  simp [holds, hmod, hp, hv, heq]
  rfl

-- the guards are met (test, labelled as a test): Shanghai at the epoch
example : (holds [(0, 28800)] 0 0 (format [(0, 28800)] 0 0)).toString = "holds" :=
  C20_emitted_text_meets_spec [(0, 28800)] 0 0 480 false (by decide) (by decide) (by decide) (by decide) (by decide)

end TableauVerif.Props.C20EmitAll
