/-
C20 — the calendar date the model computes for ANY day number (`Model.Time.civilFromDays`, Hinnant's algorithm) is a date
that exists: month 1 … 12, day 1 … the length of that month in that year, leap years included (`C20_civil_valid`);
hence what a location shows at any instant is a valid wall clock (`C20_shows_valid`) — the guard of the emitted-text
theorems is always met.
-/
import TableauVerif.Props.C20Civil
import TableauVerif.Lemmas.CivilEra2
import TableauVerif.Spec.C20
namespace TableauVerif.Props.C20Valid
open TableauVerif TableauVerif.Model.Time TableauVerif.Lemmas.CivilEra

theorem isLeap_iff (y : Int) : isLeap y = true ↔ ((y % 4 = 0 ∧ y % 100 ≠ 0) ∨ y % 400 = 0) := by
  simp [isLeap]

theorem dim_feb_leap (y : Int) (h : isLeap y = true) : daysInMonth y 2 = 29 := by
  simp [daysInMonth, h]

/-- month and day from the day of the March-based year: a date that exists, given that day 365 only occurs before a leap
year's March -/
theorem month_day_valid (Y0 doy mp : Int) (hmp : (5 * doy + 2) / 153 = mp) (hd0 : 0 ≤ doy) (hd1 : doy ≤ 365)
    (hleap : doy = 365 → isLeap (Y0 + 1) = true) :
    1 ≤ (if mp < 10 then mp + 3 else mp - 9) ∧ (if mp < 10 then mp + 3 else mp - 9) ≤ 12 ∧
    1 ≤ doy - (153 * mp + 2) / 5 + 1 ∧
    doy - (153 * mp + 2) / 5 + 1 ≤
      daysInMonth (if (if mp < 10 then mp + 3 else mp - 9) ≤ 2 then Y0 + 1 else Y0) (if mp < 10 then mp + 3 else mp - 9) := by
  have hmpr : 0 ≤ mp ∧ mp ≤ 11 := by omega
  by_cases hlt : mp < 10
  · -- March … December of year Y0
    simp only [hlt, if_true]
    have hm2 : ¬ (mp + 3 ≤ 2) := by omega
    simp only [hm2, if_false]
    have hdim := TableauVerif.Props.C20.dim_cases Y0 (mp + 3) (by omega) (by omega)
    generalize daysInMonth Y0 (mp + 3) = D at hdim ⊢
    omega
  · -- January, February of year Y0 + 1
    simp only [hlt, if_false]
    have hm2 : mp - 9 ≤ 2 := by omega
    simp only [hm2, if_true]
    have hdim := TableauVerif.Props.C20.dim_cases (Y0 + 1) (mp - 9) (by omega) (by omega)
    by_cases h365 : doy = 365
    · have hmp11 : mp = 11 := by omega
      subst hmp11
      have := dim_feb_leap (Y0 + 1) (hleap h365)
      have e : (11 : Int) - 9 = 2 := by decide
      rw [e, this]
      omega
    · generalize daysInMonth (Y0 + 1) (mp - 9) = D at hdim ⊢
      omega

/-- **C20_civil_valid** -/
theorem C20_civil_valid (z0 : Int) :
    1 ≤ (civilFromDays z0).2.1 ∧ (civilFromDays z0).2.1 ≤ 12 ∧
    1 ≤ (civilFromDays z0).2.2 ∧ (civilFromDays z0).2.2 ≤ daysInMonth (civilFromDays z0).1 (civilFromDays z0).2.1 := by
  unfold civilFromDays
  simp only []
  generalize hz : z0 + 719468 = z
  generalize hera : z / 146097 = era
  generalize hdoe : z - era * 146097 = doe
  have hdoe0 : 0 ≤ doe ∧ doe < 146097 := by omega
  have hr := yoe_range doe hdoe0.1 hdoe0.2
  simp only [] at hr
  generalize hyoe : (doe - doe / 1460 + doe / 36524 - doe / 146096) / 365 = yoe at hr ⊢
  generalize hdoy : doe - (365 * yoe + yoe / 4 - yoe / 100) = doy at hr ⊢
  obtain ⟨hy0, hy1, hd0, hd1, hleap⟩ := hr
  have hl : doy = 365 → isLeap (yoe + era * 400 + 1) = true := by
    intro h
    rw [isLeap_iff]
    have := hleap h
    omega
  exact month_day_valid (yoe + era * 400) doy _ rfl hd0 hd1 hl

/-- **C20_shows_valid**: what a location's clock shows at any instant is a wall clock that exists -/
theorem C20_shows_valid (z : Zone) (t : Int) : (Spec.C20.shows z t).valid = true := by
  have hc := C20_civil_valid ((t + lookupOffset z t) / 86400)
  unfold Spec.C20.shows Wall.valid
  simp only [Bool.and_eq_true, decide_eq_true_eq]
  have h1 : 0 ≤ (t + lookupOffset z t) % 86400 := Int.emod_nonneg _ (by decide)
  have h2 : (t + lookupOffset z t) % 86400 < 86400 := Int.emod_lt_of_pos _ (by decide)
  generalize (t + lookupOffset z t) % 86400 = sod at h1 h2 ⊢
  refine ⟨⟨⟨⟨⟨⟨⟨⟨⟨hc.1, hc.2.1⟩, hc.2.2.1⟩, hc.2.2.2⟩, ?_⟩, ?_⟩, ?_⟩, ?_⟩, ?_⟩, ?_⟩ <;> omega

end TableauVerif.Props.C20Valid
