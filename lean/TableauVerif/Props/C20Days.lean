/-
C20 — the other half of the calendar bijection (`Props.C20Civil` has date → day → date): every day number is recovered
from the civil date computed for it.
`shows` (what a location's clock shows at an instant) therefore names each second of a day exactly once: reading the
shown wall clock back as UTC gives instant + offset.
-/
import TableauVerif.Model.Time
import TableauVerif.Spec.C20
import TableauVerif.Lemmas.CivilEra2
import TableauVerif.Model.Rfc3339
namespace TableauVerif.Props.C20Days
open TableauVerif TableauVerif.Model.Time TableauVerif.Lemmas.CivilEra

/-- **C20_days_civil_days**: `daysFromCivil ∘ civilFromDays = id`, for every day number (any era, before or after 1970) -/
theorem C20_days_civil_days (z : Int) :
    daysFromCivil (civilFromDays z).1 (civilFromDays z).2.1 (civilFromDays z).2.2 = z := by
  -- name the intermediate quantities of `civilFromDays`
  have hera : ∃ era doe : Int, era = (z + 719468) / 146097 ∧ doe = z + 719468 - era * 146097 ∧ 0 ≤ doe ∧ doe < 146097 := by
    refine ⟨_, _, rfl, rfl, ?_, ?_⟩ <;> omega
  obtain ⟨era, doe, hera, hdoe, h0, h1⟩ := hera
  have hr := yoe_range doe h0 h1
  simp only [] at hr
  unfold civilFromDays
  simp only []
  rw [← hera, ← hdoe]
  generalize hyoe : (doe - doe / 1460 + doe / 36524 - doe / 146096) / 365 = yoe at hr ⊢
  obtain ⟨hy0, hy1, hd0, hd1⟩ := hr
  generalize hdoy : doe - (365 * yoe + yoe / 4 - yoe / 100) = doy at hd0 hd1 ⊢
  generalize hmp : (5 * doy + 2) / 153 = mp
  have hmp0 : 0 ≤ mp := by omega
  have hmp1 : mp ≤ 11 := by omega
  unfold daysFromCivil
  simp only []
  by_cases hlt : mp < 10
  · simp only [hlt, if_true]
    have hm : ¬ (mp + 3 ≤ 2) := by omega
    have hm' : mp + 3 > 2 := by omega
    simp only [hm, hm', if_false, if_true]
    have e1 : (yoe + era * 400) / 400 = era := by omega
    rw [e1]
    simp only [Int.add_sub_cancel]
    omega
  · simp only [hlt, if_false]
    have hm : mp - 9 ≤ 2 := by omega
    have hm' : ¬ (mp - 9 > 2) := by omega
    simp only [hm, hm', if_true, if_false]
    have e1 : (yoe + era * 400 + 1 - 1) / 400 = era := by omega
    rw [e1]
    simp only [Int.add_sub_cancel, Int.sub_add_cancel]
    omega

/-- the seconds-level corollary: the wall clock a location shows at `t`, read as UTC, is `t` plus the offset in force -/
theorem C20_shows_asUTC (z : Zone) (t : Int) :
    (Spec.C20.shows z t).asUTC = t + lookupOffset z t := by
  unfold Spec.C20.shows Wall.asUTC
  simp only []
  rw [C20_days_civil_days]
  omega

/-- two instants at which a location shows the same wall clock under the same offset are the same instant: within one
offset era a wall clock reading denotes at most one instant (two readings an hour apart at the end of DST differ in
their offset) -/
theorem C20_shown_clock_determines_instant (z : Zone) (t₁ t₂ : Int)
    (hw : Spec.C20.shows z t₁ = Spec.C20.shows z t₂) (ho : lookupOffset z t₁ = lookupOffset z t₂) : t₁ = t₂ := by
  have h1 := C20_shows_asUTC z t₁
  have h2 := C20_shows_asUTC z t₂
  rw [hw] at h1
  omega

/-- **C20_emit_same_instant**: with EmitTimezones, the wall clock and offset that `formatTimestamp` prints
(`Model.Rfc3339.fields`, rendered by `format`) denote the stored instant — wall clock read as UTC minus the printed
offset is `t` — and the offset is the one the location has at that instant. For every location table and instant. -/
theorem C20_emit_same_instant (z : Zone) (t : Int) :
    (Model.Rfc3339.fields z t).1.asUTC - (Model.Rfc3339.fields z t).2 = t ∧
    (Model.Rfc3339.fields z t).2 = lookupOffset z t := by
  refine ⟨?_, rfl⟩
  show (Spec.C20.shows z t).asUTC - lookupOffset z t = t
  rw [C20_shows_asUTC]
  omega

-- tests (labelled as tests): the rendering of known instants
example : Model.Rfc3339.format [(0, 28800)] 0 0 = Str.ofString "1970-01-01T08:00:00+08:00" := by decide
example : Model.Rfc3339.format [(0, 0)] 1484443815 10000000 = Str.ofString "2017-01-15T01:30:15.01Z" := by decide
example : Model.Rfc3339.format [(0, -12600)] (-1) 999999999 = Str.ofString "1969-12-31T20:29:59.999999999-03:30" := by decide

end TableauVerif.Props.C20Days
