/-
C18 — Incremental generation equals full generation; cleanup is confined.
(cleanup part: theorems about `prepareOutdir` on directory listings)
-/
import TableauVerif.Model.Path
import TableauVerif.Spec.C18
namespace TableauVerif.Props.C18
open TableauVerif TableauVerif.Model.Path TableauVerif.Spec.C18

/-- **C18_imports_kept**: a top-level file that some configured import path — in ANY spelling that cleans
to its name (`./base.proto`, `x/../base.proto`, `.//base.proto`, …) — denotes survives the cleanup. -/
theorem C18_imports_kept (imports : List Str) (entries : Listing) (e : Str × Bool) (he : e ∈ entries)
    (sp : Str) (hsp : sp ∈ imports) (hclean : clean sp = e.1) : e ∈ prepareOutdir imports entries := by
  unfold prepareOutdir
  rw [List.mem_filter]
  refine ⟨he, ?_⟩
  have : (imports.map clean).contains e.1 = true := by
    simp only [List.contains_eq_mem, List.mem_map, decide_eq_true_eq]
    exact ⟨sp, hsp, hclean⟩
  rw [this]
  simp

/-- **C18_only_stale_protos_removed**: whatever is removed is a top-level `.proto` entry that no import
denotes; every other entry (other extensions, sub-directories) stays. -/
theorem C18_only_stale_protos_removed (imports : List Str) (entries : Listing) (e : Str × Bool)
    (he : e ∈ entries) (hgone : e ∉ prepareOutdir imports entries) :
    hasSuffix e.1 protoExt = true ∧ ∀ sp ∈ imports, clean sp ≠ e.1 := by
  unfold prepareOutdir at hgone
  rw [List.mem_filter] at hgone
  have hf : ¬ ((!(hasSuffix e.1 protoExt) || (imports.map clean).contains e.1) = true) := fun h => hgone ⟨he, h⟩
  simp only [Bool.or_eq_true, Bool.not_eq_true', not_or, Bool.not_eq_false] at hf
  refine ⟨hf.1, ?_⟩
  intro sp hsp hc
  apply hf.2
  simp only [List.contains_eq_mem, List.mem_map, decide_eq_true_eq]
  exact ⟨sp, hsp, hc⟩

/-- nothing is created, and the order of what remains is unchanged -/
theorem C18_sublist (imports : List Str) (entries : Listing) : (prepareOutdir imports entries).Sublist entries := by
  unfold prepareOutdir
  exact List.filter_sublist

/-- the cleanup is idempotent (a second full run removes nothing more) -/
theorem C18_idempotent (imports : List Str) (entries : Listing) :
    prepareOutdir imports (prepareOutdir imports entries) = prepareOutdir imports entries := by
  unfold prepareOutdir
  rw [List.filter_filter]
  congr 1
  funext e
  simp

-- tests (labelled as tests): path cleaning of import spellings
example : clean (Str.ofString "./base.proto") = Str.ofString "base.proto" ∧
    clean (Str.ofString "x/../base.proto") = Str.ofString "base.proto" ∧
    clean (Str.ofString ".//common//base.proto") = Str.ofString "common/base.proto" ∧
    clean (Str.ofString "../base.proto") = Str.ofString "../base.proto" ∧ clean [] = Str.ofString "." := by decide

end TableauVerif.Props.C18
