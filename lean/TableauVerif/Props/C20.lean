/-
C20 — Date/time cells denote wall-clock time in the configured location.
-/
import TableauVerif.Model.Time
import TableauVerif.Spec.C20
namespace TableauVerif.Props.C20
open TableauVerif TableauVerif.Model.Time TableauVerif.Spec.C20

/-- in a location with a single offset (UTC, fixed-offset zones) the instant computed for a wall
clock reading `w` is `w` read as UTC minus that offset — for every `w` and every offset -/
theorem C20_fixed_offset (st off : Int) (w : Wall) : dateUnix [(st, off)] w = w.asUTC - off := by
  unfold dateUnix
  by_cases h : off = 0
  · simp [h, lookup, lookupFrom]
  · simp [h, lookup, lookupFrom, outside]

/-- … and at that instant the location's local time (instant + offset in force) is `w` read as UTC:
the stored instant is the one at which the location shows the cell's wall clock. -/
theorem C20_fixed_offset_shows (st off : Int) (w : Wall) :
    dateUnix [(st, off)] w + lookupOffset [(st, off)] (dateUnix [(st, off)] w) = w.asUTC := by
  rw [C20_fixed_offset]
  simp [lookupOffset, lookup, lookupFrom]

/-- UTC: the instant is the wall clock read as UTC -/
theorem C20_utc (w : Wall) : dateUnix [(0, 0)] w = w.asUTC := by
  simp [C20_fixed_offset]

/-- when the first guess lands inside the zone interval it found (the general DST case away from
transitions), that guess is final: instant = wall-as-UTC minus the offset in force there -/
theorem C20_inside_interval (z : Zone) (w : Wall)
    (hin : outside (lookup z w.asUTC) (w.asUTC - (lookup z w.asUTC).1) = false) :
    dateUnix z w = w.asUTC - (lookup z w.asUTC).1 := by
  unfold dateUnix
  by_cases h : (lookup z w.asUTC).1 = 0
  · simp [h]
  · simp [h, hin]

-- tests (labelled as tests): malformed dates are rejected; known instants
example : parseTimestamp [(0, 0)] (Str.ofString "2021-1-1") = .err ∧
    parseTimestamp [(0, 0)] (Str.ofString "20210") = .err ∧ parseTimestamp [(0, 0)] (Str.ofString "2021-13-01") = .err ∧
    parseTimestamp [(0, 0)] (Str.ofString "2021-02-30") = .err ∧ parseTimestamp [(0, 0)] (Str.ofString "2021-01-01 24:00:00") = .err := by
  decide
example : parseTimestamp [(0, 0)] (Str.ofString "2020-02-29 12:34:56") = .ok 1582979696 := by decide
example : parseTimestamp [(0, 28800)] (Str.ofString "20220101") = .ok 1640966400 := by decide
example : civilFromDays (daysFromCivil 2000 2 29) = (2000, 2, 29) ∧ civilFromDays (daysFromCivil 1 1 1) = (1, 1, 1) ∧
    civilFromDays (daysFromCivil 9999 12 31) = (9999, 12, 31) ∧ daysFromCivil 1970 1 1 = 0 := by decide

end TableauVerif.Props.C20
