/-
C02 — closure, the confgen side: every column protogen recorded for an accepted sheet of basic columns is found
again by confgen's column lookup, in every data line of that sheet (`rc.Cell(name, optional = false)` never fails
with E2014 "sheet column not found").

Composes the two hand-written models: `Model.Protogen.parseSheet` (what the schema records: `optName`) and
`Model.TableParser.cellOf` over `Cols.row` (what confgen searches in: the header names of the same sheet).
-/
import TableauVerif.Props.C02Flat
import TableauVerif.Model.TableParser
namespace TableauVerif.Props.C02Found
open TableauVerif TableauVerif.Model.Types TableauVerif.Model.Protogen TableauVerif.Props.C15
open TableauVerif.Model.TableParser (Cols Row lookupCells cellOf)

theorem lookupCells_of_mem (cells : List (Str × Str × Bool)) (name : Str) (i : Nat)
    (h : name ∈ cells.map (·.1)) : (lookupCells cells name i).isSome = true := by
  induction cells generalizing i with
  | nil => simp at h
  | cons c rest ih =>
    obtain ⟨n, d, a⟩ := c
    simp only [lookupCells]
    by_cases hn : (n == name) = true
    · simp [hn]
    · simp only [hn]
      simp only [List.map_cons, List.mem_cons] at h
      rcases h with h | h
      · exact absurd (by simp [h]) hn
      · exact ih (i + 1) h

theorem row_names (cols : Cols) (i index : Nat) (t : Bool) :
    (cols.row i index t).cells.map (·.1) = cols.map (·.1) := by
  simp [Cols.row, List.map_map, Function.comp_def]

/-- **C02_flat_columns_found**: protogen accepted the sheet of basic columns `names`/`types`; then for EVERY field of
the schema and EVERY data line of a sheet with that name row, confgen's lookup of the recorded name succeeds
(no E2014), whether the field is optional or not. -/
theorem C02_flat_columns_found (c : Ctx) (names types : List Str) (hflat : FlatUpTo names types)
    (fs : List PField) (h : parseSheet c ⟨names, types⟩ = .ok fs)
    (cols : Cols) (hcols : cols.map (·.1) = names) (i index : Nat) (t : Bool) :
    ∀ f ∈ fs, ∃ d, cellOf (cols.row i index t).acc f.optName false = .ok d := by
  intro f hf
  obtain ⟨hlen, hall⟩ := C02Flat.C02_flat_sheet_closure_partial c names types hflat fs h
  obtain ⟨k, hk, rfl⟩ := List.getElem_of_mem hf
  obtain ⟨nm, hnm, hopt, _⟩ := hall k hk
  have hklt : k < names.length := by omega
  obtain ⟨nm', ty, hn', _, hne, _, _⟩ := hflat.2 k hklt
  have : nm' = nm := by rw [hn'] at hnm; exact Option.some.inj hnm
  subst this
  have hmem : nm' ∈ (cols.row i index t).cells.map (·.1) := by
    rw [row_names, hcols]; exact List.mem_of_getElem? hn'
  have hs := lookupCells_of_mem _ nm' 0 hmem
  have hemp : nm'.isEmpty = false := by cases nm' <;> simp_all
  simp only [cellOf, Row.acc, Row.lookup, hopt, hemp]
  cases hl : lookupCells (cols.row i index t).cells nm' 0 with
  | none => rw [hl] at hs; simp at hs
  | some v => exact ⟨v.2.1, by simp⟩

/-- the premises are met by a concrete sheet (accepted by the protogen model; two data lines) -/
example : (match parseSheet d16Ctx ⟨[S "ID", S "Name"], [S "uint32", S "string"]⟩ with
    | .ok fs => fs.map (·.optName) == [S "ID", S "Name"] | .error _ => false) = true := by decide +kernel

end TableauVerif.Props.C02Found
