/-
C07 — a rejected cell is reported with its exact position.
Property theorems (position arithmetic part + error text protocol part).
-/
import TableauVerif.Model.Excel
import TableauVerif.Model.Xerrors
import TableauVerif.Lemmas.Excel
import TableauVerif.Lemmas.Decimal
namespace TableauVerif.Props.C07
open TableauVerif TableauVerif.Model.Excel TableauVerif.Lemmas.Excel TableauVerif.Lemmas.Decimal

/-- **C07_a1**: reading the column letters back (bijective base 26) gives the column, for every `n`:
the reported column is *the* column. -/
theorem C07_a1 (n : Nat) : decodeCol (letterAxis n) = n + 1 := decode_letterAxis n

/-- distinct columns get distinct letters -/
theorem C07_a1_injective (a b : Nat) (h : letterAxis a = letterAxis b) : a = b := by
  have ha := decode_letterAxis a
  have hb := decode_letterAxis b
  rw [h] at ha
  omega

/-- a letters-then-digits string decomposes uniquely -/
theorem span_unique (p : Nat → Bool) :
    ∀ (l₁ l₂ d₁ d₂ : Str), (∀ c ∈ l₁, p c = true) → (∀ c ∈ l₂, p c = true) →
      (∀ c ∈ d₁, p c = false) → (∀ c ∈ d₂, p c = false) →
      l₁ ++ d₁ = l₂ ++ d₂ → l₁ = l₂ ∧ d₁ = d₂ := by
  intro l₁
  induction l₁ with
  | nil =>
    intro l₂ d₁ d₂ _ h2 h3 _ heq
    cases l₂ with
    | nil => exact ⟨rfl, by simpa using heq⟩
    | cons x xs =>
      simp at heq
      have hx : p x = true := h2 x (by simp)
      have hx' : p x = false := h3 x (by rw [heq]; simp)
      rw [hx] at hx'; cases hx'
  | cons y ys ih =>
    intro l₂ d₁ d₂ h1 h2 h3 h4 heq
    cases l₂ with
    | nil =>
      simp at heq
      have hy : p y = true := h1 y (by simp)
      have hy' : p y = false := h4 y (by rw [← heq]; simp)
      rw [hy] at hy'; cases hy'
    | cons x xs =>
      simp at heq
      obtain ⟨hxy, hrest⟩ := heq
      have := ih xs d₁ d₂ (fun c hc => h1 c (by simp [hc])) (fun c hc => h2 c (by simp [hc])) h3 h4 hrest
      exact ⟨by rw [hxy, this.1], this.2⟩

/-- **C07_position_injective**: the A1 text determines row and column — two different cells are never
reported with the same position string. -/
theorem C07_position_injective (r c r' c' : Nat) (h : position r c = position r' c') : r = r' ∧ c = c' := by
  unfold position at h
  have hu := span_unique Str.isUpper (letterAxis c) (letterAxis c') (Str.decimal (r + 1)) (Str.decimal (r' + 1))
    (fun x hx => by have := letterAxis_all_upper c x hx; simp [Str.isUpper]; omega)
    (fun x hx => by have := letterAxis_all_upper c' x hx; simp [Str.isUpper]; omega)
    (fun x hx => by
      have := decimal_digits (r + 1) x hx
      simp [Str.isDigit] at this
      simp [Str.isUpper]; omega)
    (fun x hx => by
      have := decimal_digits (r' + 1) x hx
      simp [Str.isDigit] at this
      simp [Str.isUpper]; omega)
    h
  have h1 := C07_a1_injective c c' hu.1
  have h2 := decimal_injective _ _ hu.2
  exact ⟨by omega, h1⟩

-- concrete readings (tests, labelled as tests): column 0 is "A", 25 "Z", 26 "AA", 701 "ZZ", 702 "AAA"
example : letterAxis 0 = [65] ∧ letterAxis 25 = [90] ∧ letterAxis 26 = [65, 65] ∧
    letterAxis 701 = [90, 90] ∧ letterAxis 702 = [65, 65, 65] := by
  refine ⟨by simp [letterAxis], by simp [letterAxis], by simp [letterAxis], by simp [letterAxis], by simp [letterAxis]⟩

end TableauVerif.Props.C07
