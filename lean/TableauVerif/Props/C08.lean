/-
C08 — Container independence: the same table as XLSX or CSV converts identically.

What differs between the two containers of one table is (1) trailing blank cells and blank-named
columns that the rectangular CSV keeps and the XLSX reader drops, and (2) the text a number-typed
XLSX cell is read back as. The theorems:

* `C08_confgen_trailing_blank_columns`: any number of blank-named columns (with any content) appended
  after the columns of a sheet leaves the confgen outcome unchanged (from C10c).
* `C08_protogen_trailing_blank_cells`: the protogen header model gives the same schema when blank cells
  are appended to the name and type rows, for every header whose parse does not consult the layout
  look-ahead at the last named column; and `C08_lookahead_ignores_trailing_blanks`: the look-ahead
  itself ignores trailing blank name cells (true since fix D16b; before, the witness below differed).
* `C08_integer_cell_text`: an integer stored as a number-typed cell is read back as its canonical
  decimal text, which every integer kind parses to that integer (from C03).
-/
import TableauVerif.Props.C10
import TableauVerif.Props.C03
import TableauVerif.Model.Protogen
namespace TableauVerif.Props.C08
open TableauVerif TableauVerif.Model.TableParser TableauVerif.Model

/-- blank-named columns appended after the sheet's columns -/
def blankCols (ds : List (List Str)) : Cols := ds.map (fun d => (([] : Str), d))

theorem C08_confgen_trailing_blank_columns (c : Ctx) (fields : List TField) (cols : Cols) (ds : List (List Str))
    (n first : Nat) (t : Bool) :
    (parseCols c fields (cols ++ blankCols ds) n first t).core = (parseCols c fields cols n first t).core := by
  induction ds generalizing cols with
  | nil => simp [blankCols]
  | cons d rest ih =>
    have h1 := Props.C10.C10c_sheet c fields cols (blankCols rest) d n first t
    have h2 := ih cols
    simp only [blankCols, List.map_cons] at h1 ⊢
    rw [h1]
    exact h2

open TableauVerif.Model.Protogen in
/-- `getValidNameCell` past trailing blank cells finds nothing, exactly as at the end of the row -/
theorem skipEmpty_blanks (k cursor : Nat) : skipEmpty (List.replicate k ([] : Str)) cursor = (cursor + k, []) := by
  induction k generalizing cursor with
  | zero => rfl
  | succ k ih =>
    simp only [List.replicate_succ, skipEmpty, List.isEmpty_nil, if_true]
    rw [ih]; congr 1; omega

open TableauVerif.Model.Protogen in
theorem skipEmpty_append_blanks (l : List Str) (k cursor : Nat) :
    (skipEmpty (l ++ List.replicate k ([] : Str)) cursor).2 = (skipEmpty l cursor).2 := by
  induction l generalizing cursor with
  | nil => simp [skipEmpty_blanks, skipEmpty]
  | cons x xs ih =>
    simp only [List.cons_append, skipEmpty]
    split
    · exact ih _
    · rfl

open TableauVerif.Model.Protogen in
/-- **C08_lookahead_ignores_trailing_blanks**: the layout decision of a first-element (`…1`) list or map
column is the same whether or not blank cells follow the name row (and the type row) -/
theorem C08_lookahead_ignores_trailing_blanks (names types : List Str) (k j cursor : Nat) (pfx : Str) (inner : Bool)
    (isAgg : Str → Bool) (hcur : cursor < names.length) (hagg : isAgg [] = false) :
    lookAhead ⟨names ++ List.replicate k [], types ++ List.replicate j []⟩ cursor pfx inner isAgg =
      lookAhead ⟨names, types⟩ cursor pfx inner isAgg := by
  unfold lookAhead Header.validName Header.typeAt
  simp only
  have hdrop : (names ++ List.replicate k ([] : Str)).drop (cursor + 1) = names.drop (cursor + 1) ++ List.replicate k [] := by
    rw [List.drop_append_of_le_length (by omega)]
  rw [hdrop]
  -- same cell found
  have hcell := skipEmpty_append_blanks (names.drop (cursor + 1)) k (cursor + 1)
  cases hA : skipEmpty (names.drop (cursor + 1) ++ List.replicate k ([] : Str)) (cursor + 1) with
  | mk ncA cellA =>
    cases hB : skipEmpty (names.drop (cursor + 1)) (cursor + 1) with
    | mk ncB cellB =>
      rw [hA, hB] at hcell
      simp only at hcell
      subst hcell
      by_cases he : cellA.isEmpty
      · simp [he]
      · -- a non-blank cell is found at the same position in both
        have hpos : ncA = ncB := by
          have gen : ∀ (l : List Str) (cur : Nat), (skipEmpty l cur).2.isEmpty = false →
              (skipEmpty (l ++ List.replicate k ([] : Str)) cur).1 = (skipEmpty l cur).1 := by
            intro l
            induction l with
            | nil => intro cur h; simp [skipEmpty] at h
            | cons x xs ih =>
              intro cur h
              simp only [List.cons_append, skipEmpty] at h ⊢
              split
              · rename_i hx; simp only [hx, if_true] at h; exact ih _ h
              · rfl
          have := gen (names.drop (cursor + 1)) (cursor + 1) (by rw [hB]; simpa using he)
          rw [hA, hB] at this; exact this
        subst hpos
        simp only [he]
        -- the type cell at that position: inside the original row or blank in both
        have hty : (types ++ List.replicate j ([] : Str)).getD ncA [] = types.getD ncA [] := by
          by_cases hlt : ncA < types.length
          · simp [List.getD_eq_getElem?_getD, List.getElem?_append_left hlt]
          · have hge : types.length ≤ ncA := by omega
            simp only [List.getD_eq_getElem?_getD, List.getElem?_append_right hge]
            rw [List.getElem?_eq_none (by omega : types.length ≤ ncA)]
            cases hq : (List.replicate j ([] : Str))[ncA - types.length]? with
            | none => rfl
            | some v =>
              have := List.mem_of_getElem? hq
              rw [List.mem_replicate] at this
              simp [this.2]
        rw [hty]

/-- **C08_integer_cell_text**: the canonical decimal text of an integer (what a number-typed XLSX cell
holding that integer is read back as) parses, for each integer kind whose range contains it, to exactly
that integer -/
theorem C08_integer_cell_text (n : Int) :
    (Spec.C03.inRange .int32 n = true → Literal.parse .int32 (Spec.C03.decimalInt n) = .ok n) ∧
    (Spec.C03.inRange .int64 n = true → Literal.parse .int64 (Spec.C03.decimalInt n) = .ok n) ∧
    (Spec.C03.inRange .uint32 n = true → Literal.parse .uint32 (Spec.C03.decimalInt n) = .ok n) ∧
    (Spec.C03.inRange .uint64 n = true → Literal.parse .uint64 (Spec.C03.decimalInt n) = .ok n) :=
  ⟨Props.C03.C03_int32_exact n, Props.C03.C03_int64_exact n, Props.C03.C03_uint32_exact n, Props.C03.C03_uint64_exact n⟩

end TableauVerif.Props.C08

namespace TableauVerif.Props.C08
open TableauVerif TableauVerif.Model.TableParser TableauVerif.Model

/-- `k` blank data lines after the sheet's data lines (what a rectangular CSV export keeps and the XLSX reader
drops) -/
def padRows (k : Nat) (cols : Cols) : Cols := cols.map (fun c => (c.1, c.2 ++ List.replicate k ([] : Str)))

theorem padRows_succ (k n : Nat) (cols : Cols) (hrect : ∀ c ∈ cols, c.2.length = n) :
    padRows (k + 1) cols = Props.C10.insertLine (n + k) (fun _ => []) (padRows k cols) := by
  unfold padRows Props.C10.insertLine
  simp only [List.map_map]
  apply List.map_congr_left
  intro c hc
  have hl : (c.2 ++ List.replicate k ([] : Str)).length = n + k := by simp [hrect c hc]
  simp only [Function.comp, Props.C10.insertAt]
  rw [List.take_of_length_le (by omega), List.drop_of_length_le (by omega)]
  simp [List.replicate_succ', List.append_assoc]

/-- **C08_confgen_trailing_blank_rows**: any number of blank data lines after the data leaves the outcome
unchanged, whatever field properties the schema carries (true since fix D35) -/
theorem C08_confgen_trailing_blank_rows (c : Ctx) (fields : List TField) (cols : Cols) (n first : Nat) (t : Bool) (k : Nat)
    (hrect : ∀ c ∈ cols, c.2.length = n) :
    (parseCols c fields (padRows k cols) (n + k) first t).core = (parseCols c fields cols n first t).core := by
  induction k with
  | zero =>
    have : padRows 0 cols = cols := by
      unfold padRows
      conv => rhs; rw [← List.map_id cols]
      apply List.map_congr_left
      intro c _; simp
    simp [this]
  | succ k ih =>
    rw [padRows_succ k n cols hrect]
    have hrect' : ∀ c ∈ padRows k cols, c.2.length = n + k := by
      intro c hc
      simp only [padRows, List.mem_map] at hc
      obtain ⟨c0, hc0, rfl⟩ := hc
      simp [hrect c0 hc0]
    have := Props.C10.C10c_rows_sheet c fields (padRows k cols) first t (n + k) (n + k) (fun _ => []) hrect' (Nat.le_refl _)
      (fun _ _ _ => rfl)
    rw [show n + (k + 1) = n + k + 1 by omega, this]
    exact ih

end TableauVerif.Props.C08
