/-
C15 / C02 — which columns of a horizontal aggregate belong to its FIRST element (`types.BelongToFirstElement`, model
`Model.Types.belongToFirstElement`): a column `<prefix><k><rest>` with `k ≠ 1` — 2, 9, 10, 11, 19, 100, any number of
digits — never does (`C15_later_element_is_not_the_first`), a column `<prefix>1<rest>` does as soon as `rest` starts with
something that is no digit (`C15_first_element_column`). So the columns of a tenth element appended to a sheet open
nothing inside the existing element type.
-/
import TableauVerif.Model.Types
import TableauVerif.Lemmas.Decimal
namespace TableauVerif.Props.C15Elem
open TableauVerif TableauVerif.Str TableauVerif.Model.Types

theorem stripPrefix_append (p s : Str) : stripPrefix p (p ++ s) = some s := by
  induction p with
  | nil => rfl
  | cons c cs ih => simp [stripPrefix, ih]

theorem stripPrefix_append_assoc (p q s : Str) : stripPrefix (p ++ q) (p ++ s) = stripPrefix q s := by
  induction p with
  | nil => rfl
  | cons c cs ih => simp [stripPrefix, ih]

/-- **C15_first_element_column** -/
theorem C15_first_element_column (pfx rest : Str) (c : Nat) (hc : isDigit c = false) :
    belongToFirstElement (pfx ++ [49] ++ c :: rest) pfx = true := by
  unfold belongToFirstElement
  rw [List.append_assoc, stripPrefix_append_assoc]
  simp [stripPrefix, hc]

theorem decimal_one : decimal 1 = [49] := by decide

/-- **C15_later_element_is_not_the_first** -/
theorem C15_later_element_is_not_the_first (pfx rest : Str) (k : Nat) (hk : k ≠ 1) :
    belongToFirstElement (pfx ++ decimal k ++ rest) pfx = false := by
  unfold belongToFirstElement
  rw [List.append_assoc, stripPrefix_append_assoc]
  have hdig := Lemmas.Decimal.decimal_digits k
  cases hd : decimal k with
  | nil => exact absurd hd (Lemmas.Decimal.decimal_ne_nil k)
  | cons d ds =>
    simp only [List.cons_append, stripPrefix]
    by_cases h49 : (49 : Nat) = d
    · subst h49
      simp only [if_true]
      cases ds with
      | nil =>
        -- decimal k = "1": k = 1
        have : decimal k = decimal 1 := by rw [hd, decimal_one]
        exact absurd (Lemmas.Decimal.decimal_injective k 1 this) hk
      | cons e es =>
        have he : isDigit e = true := hdig e (by rw [hd]; simp)
        simp [stripPrefix, he]
    · simp [h49]

-- tests (labelled as tests)
example : belongToFirstElement (Str.ofString "Item10ID") (Str.ofString "Item") = false := by decide
example : belongToFirstElement (Str.ofString "Item1ID") (Str.ofString "Item") = true := by decide

end TableauVerif.Props.C15Elem
