/-
C16 / C05 — pooled objects carry nothing from one use to the next.

The library recycles two kinds of objects through process-wide `sync.Pool`s (`book.RowCell`, `tableaupb.FieldOptions`).
An object taken from a pool holds whatever its last user left in it — possibly from an earlier generator call on
other inputs, or from a sheet parsed by another goroutine. `Generated/Pools.lean` is regenerated from the source on
every run: for each `<pool>.Get().(*T)` the fields of `T` and the fields the function assigns unconditionally before
the object is used.

* `pools_fully_reinitialised` (pin): at every `Get` site of the current source, every field of the pooled type is
  assigned at the top level of the function (or the object is reset as a whole), and no field is assigned only
  under a condition.
* `reinit_carries_nothing`: an object all of whose fields are overwritten is independent of its previous contents.
* `C16_pooled_objects_carry_nothing`: hence, for every `Get` site of the current source, what the rest of the
  program can read from the object does not depend on the object's history.
-/
import TableauVerif.Generated.Pools
namespace TableauVerif.Props.C16Pools
open TableauVerif.Generated.Pools

/-- an object as a map from field names to contents; `assigned` are overwritten with `new`, the others keep `old` -/
def reinit {V : Type} (assigned : List String) (new old : String → V) : String → V :=
  fun f => if f ∈ assigned then new f else old f

theorem reinit_carries_nothing {V : Type} (fields assigned : List String) (h : ∀ f ∈ fields, f ∈ assigned)
    (new old₁ old₂ : String → V) : ∀ f ∈ fields, reinit assigned new old₁ f = reinit assigned new old₂ f := by
  intro f hf
  simp [reinit, h f hf]

/-- the discipline at one `Get` site -/
def disciplined (s : Site) : Bool :=
  s.reset || (!s.structFields.isEmpty && s.structFields.all (fun f => s.top.contains f) && s.nested.isEmpty)

/-- pin of the regenerated inventory: both pools are used in a disciplined way, and there are exactly these sites -/
theorem pools_fully_reinitialised :
    sites.all disciplined = true ∧
    sites.map (fun s => (s.dir, s.fn, s.pool, s.typ)) =
      [("internal/confgen", "parseFieldDescriptor", "fieldOptionsPool", "tableaupb.FieldOptions"),
       ("internal/importer/book", "newRowCell", "cellPool", "RowCell")] := by
  decide

theorem C16_pooled_objects_carry_nothing {V : Type} (s : Site) (hs : s ∈ sites) (hr : s.reset = false)
    (new old₁ old₂ : String → V) :
    ∀ f ∈ s.structFields, reinit s.top new old₁ f = reinit s.top new old₂ f := by
  have hd : disciplined s = true := (List.all_eq_true.mp pools_fully_reinitialised.1) s hs
  apply reinit_carries_nothing
  intro f hf
  simp only [disciplined, hr, Bool.false_or, Bool.and_eq_true, List.all_eq_true] at hd
  have := hd.1.2 f hf
  simpa using this

end TableauVerif.Props.C16Pools
