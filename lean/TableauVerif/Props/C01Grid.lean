/-
C01 / C08 — the importer step (file → grid of cells), model `Model.Importer` (tied by `corr.importer.grid`).

* `C01_csv_rows_verbatim`: a CSV grid without blank-line records is handed on exactly as written.
* `C01_csv_only_blank_lines_dropped`: in general the rows handed on are the written rows minus blank-line records, in order.
* `C08_xlsx_cells_verbatim`: through XLSX every cell position reads the same text as in the written grid (blank beyond
  a row's / the grid's end) — only trailing blanks are not stored; so the XLSX twin and the CSV twin of one grid agree
  cell by cell (`C08_twins_cell_by_cell`).
-/
import TableauVerif.Model.Importer
import TableauVerif.Spec.Grid
namespace TableauVerif.Props.C01Grid
open TableauVerif TableauVerif.Model.Importer

theorem C01_csv_rows_verbatim (q : Bool) (rows : List (List Str)) (h : ∀ r ∈ rows, r ≠ [[]]) :
    csvGrid q rows = rows := by
  unfold csvGrid
  split
  · rfl
  · apply List.filter_eq_self.mpr
    intro r hr
    simp [blankLine, h r hr]

theorem C01_csv_only_blank_lines_dropped (q : Bool) (rows : List (List Str)) :
    (csvGrid q rows).Sublist rows ∧ ∀ r ∈ rows, r ≠ [[]] → r ∈ csvGrid q rows := by
  unfold csvGrid
  split
  · exact ⟨List.Sublist.refl _, fun _ h _ => h⟩
  · refine ⟨List.filter_sublist, fun r hr hne => ?_⟩
    simp [List.mem_filter, hr, blankLine, hne]

/-- the text at a cell position (blank outside) -/
abbrev cellAt := Spec.Grid.cellAt

theorem takeWhile_all {α} (p : α → Bool) : ∀ (l : List α) (x : α), x ∈ l.takeWhile p → p x = true
  | [], _, h => by simp at h
  | a :: l, x, h => by
    by_cases ha : p a = true
    · simp only [List.takeWhile_cons, ha, if_true, List.mem_cons] at h
      rcases h with rfl | h
      · exact ha
      · exact takeWhile_all p l x h
    · simp [ha] at h

theorem trimRight_split {α} (p : α → Bool) (l : List α) :
    ∃ suf, l = trimRight p l ++ suf ∧ ∀ x ∈ suf, p x = true := by
  refine ⟨(l.reverse.takeWhile p).reverse, ?_, ?_⟩
  · unfold trimRight
    rw [← List.reverse_append, List.takeWhile_append_dropWhile, List.reverse_reverse]
  · intro x hx
    rw [List.mem_reverse] at hx
    exact takeWhile_all p _ x hx

theorem getD_trimRight {α} (l : List (List α)) (i : Nat) :
    (trimRight (·.isEmpty) l).getD i [] = l.getD i [] := by
  obtain ⟨suf, hl, hs⟩ := trimRight_split (·.isEmpty) l
  generalize trimRight (·.isEmpty) l = t at hl
  subst hl
  by_cases hi : i < t.length
  · simp [List.getD_eq_getElem?_getD, List.getElem?_append_left hi]
  · have hi' : t.length ≤ i := by omega
    rw [List.getD_eq_getElem?_getD, List.getD_eq_getElem?_getD, List.getElem?_append_right hi',
      List.getElem?_eq_none (by omega)]
    simp only [Option.getD_none]
    cases hget : suf[i - t.length]? with
    | none => rfl
    | some x =>
      have hx : x ∈ suf := List.mem_of_getElem? hget
      have := hs x hx
      simp only [Option.getD_some]
      exact (List.isEmpty_iff.mp this).symm

theorem getD_map_trim (rows : List (List Str)) (i : Nat) :
    (rows.map (trimRight (·.isEmpty))).getD i [] = trimRight (·.isEmpty) (rows.getD i []) := by
  induction rows generalizing i with
  | nil => simp [trimRight]
  | cons r rs ih =>
    cases i with
    | zero => simp
    | succ i => simpa using ih i

theorem C08_xlsx_cells_verbatim (rows : List (List Str)) (i j : Nat) :
    cellAt (xlsxGrid rows) i j = cellAt rows i j := by
  unfold cellAt Spec.Grid.cellAt xlsxGrid
  rw [getD_trimRight, getD_map_trim]
  exact getD_trimRight (rows.getD i []) j

/-- the CSV twin and the XLSX twin of one grid (no blank-line records) agree at every cell position -/
theorem C08_twins_cell_by_cell (q : Bool) (rows : List (List Str)) (h : ∀ r ∈ rows, r ≠ [[]]) (i j : Nat) :
    cellAt (csvGrid q rows) i j = cellAt (xlsxGrid rows) i j := by
  rw [C01_csv_rows_verbatim q rows h, C08_xlsx_cells_verbatim]

theorem sameCells_of_cells (w o : List (List Str)) (h : ∀ i j, cellAt o i j = cellAt w i j) :
    Spec.Grid.sameCells w o = true := by
  unfold Spec.Grid.sameCells
  simp only [List.all_eq_true, List.mem_range, beq_iff_eq]
  intro i _ j _
  exact h i j

/-- the importer model meets the cell-by-cell specification the oracle `o.imp.grid` evaluates (CSV) -/
theorem C01_csv_model_meets_spec (q : Bool) (rows : List (List Str)) :
    Spec.Grid.holds (!q) rows (csvGrid q rows) = true := by
  unfold Spec.Grid.holds csvGrid
  cases q
  · simp only [Bool.not_false, if_true, Bool.false_eq_true, if_false]
    have : (rows.filter fun r => !blankLine r) = rows.filter (· != [[]]) := by
      apply List.filter_congr; intro r _; simp [blankLine, bne]
    rw [this]
    exact sameCells_of_cells _ _ (fun _ _ => rfl)
  · simp only [Bool.not_true, Bool.false_eq_true, if_false, if_true]
    exact sameCells_of_cells _ _ (fun _ _ => rfl)

/-- … and for XLSX -/
theorem C08_xlsx_model_meets_spec (rows : List (List Str)) :
    Spec.Grid.holds false rows (xlsxGrid rows) = true := by
  unfold Spec.Grid.holds
  simp only [Bool.false_eq_true, if_false]
  exact sameCells_of_cells _ _ (fun i j => C08_xlsx_cells_verbatim rows i j)

-- tests (labelled as tests): premises satisfiable, trimming visible
example : xlsxGrid [[[97], [], []], [], [[], [98]], [], [[]]] = [[[97]], [], [[], [98]]] := by decide
example : csvGrid false [[[97]], [[]], [[], []]] = [[[97]], [[], []]] := by decide

end TableauVerif.Props.C01Grid
