/-
C01 / C08 — the importer step (file → grid of cells), model `Model.Importer` (tied by `corr.importer.grid`).

* `C01_csv_cells_verbatim`: through CSV every cell position reads the text written there (true since fix D46 —
  `csv_skipping_reader_moves_rows` shows what the skipping reader did to a one-column sheet).
* `C01_csv_rows_verbatim`: a CSV grid without blank-line records is handed on exactly as written.
  (`csvGrid` is `Model.CSV.keepRows`, which `Props.C01Csv.C01_csv_text_roundtrip` derives from the reader's text-level model.)
* `C08_xlsx_cells_verbatim`: through XLSX every cell position reads the same text as in the written grid (blank beyond
  a row's / the grid's end) — only trailing blanks are not stored; so the XLSX twin and the CSV twin of one grid agree
  cell by cell (`C08_twins_cell_by_cell`).
-/
import TableauVerif.Model.Importer
import TableauVerif.Spec.Grid
namespace TableauVerif.Props.C01Grid
open TableauVerif TableauVerif.Model.Importer

/-- the text at a cell position (blank outside) -/
abbrev cellAt := Spec.Grid.cellAt

theorem takeWhile_all {α} (p : α → Bool) : ∀ (l : List α) (x : α), x ∈ l.takeWhile p → p x = true
  | [], _, h => by simp at h
  | a :: l, x, h => by
    by_cases ha : p a = true
    · simp only [List.takeWhile_cons, ha, if_true, List.mem_cons] at h
      rcases h with rfl | h
      · exact ha
      · exact takeWhile_all p l x h
    · simp [ha] at h

theorem trimRight_split {α} (p : α → Bool) (l : List α) :
    ∃ suf, l = trimRight p l ++ suf ∧ ∀ x ∈ suf, p x = true := by
  refine ⟨(l.reverse.takeWhile p).reverse, ?_, ?_⟩
  · unfold trimRight
    rw [← List.reverse_append, List.takeWhile_append_dropWhile, List.reverse_reverse]
  · intro x hx
    rw [List.mem_reverse] at hx
    exact takeWhile_all p _ x hx

theorem getD_trimRight {α} (l : List (List α)) (i : Nat) :
    (trimRight (·.isEmpty) l).getD i [] = l.getD i [] := by
  obtain ⟨suf, hl, hs⟩ := trimRight_split (·.isEmpty) l
  generalize trimRight (·.isEmpty) l = t at hl
  subst hl
  by_cases hi : i < t.length
  · simp [List.getD_eq_getElem?_getD, List.getElem?_append_left hi]
  · have hi' : t.length ≤ i := by omega
    rw [List.getD_eq_getElem?_getD, List.getD_eq_getElem?_getD, List.getElem?_append_right hi',
      List.getElem?_eq_none (by omega)]
    simp only [Option.getD_none]
    cases hget : suf[i - t.length]? with
    | none => rfl
    | some x =>
      have hx : x ∈ suf := List.mem_of_getElem? hget
      have := hs x hx
      simp only [Option.getD_some]
      exact (List.isEmpty_iff.mp this).symm

theorem getD_map_trim (rows : List (List Str)) (i : Nat) :
    (rows.map (trimRight (·.isEmpty))).getD i [] = trimRight (·.isEmpty) (rows.getD i []) := by
  induction rows generalizing i with
  | nil => simp [trimRight]
  | cons r rs ih =>
    cases i with
    | zero => simp
    | succ i => simpa using ih i

theorem C08_xlsx_cells_verbatim (rows : List (List Str)) (i j : Nat) :
    cellAt (xlsxGrid rows) i j = cellAt rows i j := by
  unfold cellAt Spec.Grid.cellAt xlsxGrid
  rw [getD_trimRight, getD_map_trim]
  exact getD_trimRight (rows.getD i []) j

theorem getD_replicate_append_right (p i : Nat) (l : List (List Str)) :
    (List.replicate p ([] : List Str) ++ l).getD (p + i) [] = l.getD i [] := by
  rw [List.getD_eq_getElem?_getD, List.getElem?_append_right (by simp), List.length_replicate,
    show p + i - p = i by omega, ← List.getD_eq_getElem?_getD]

theorem getD_replicate_append_left (p i : Nat) (l : List (List Str)) (h : i < p) :
    (List.replicate p ([] : List Str) ++ l).getD i [] = [] := by
  rw [List.getD_eq_getElem?_getD, List.getElem?_append_left (by simpa using h)]
  simp [h]

/-- rows of `keepRows … p`: `p` rows without cells, then the written rows (blank-line records without cells) -/
theorem keepRows_cells (b : Bool) : ∀ (rows : List (List Str)) (p : Nat),
    (∀ i j, cellAt (Model.CSV.keepRows b rows p) (p + i) j = cellAt rows i j) ∧
    (∀ i j, i < p → cellAt (Model.CSV.keepRows b rows p) i j = [])
  | [], p => by
    simp [Model.CSV.keepRows, cellAt, Spec.Grid.cellAt]
  | r :: rs, p => by
    have ih1 := keepRows_cells b rs (p + 1)
    have ih0 := keepRows_cells b rs 0
    by_cases hb : r = [[]] ∧ b = true
    · have hk : Model.CSV.keepRows b (r :: rs) p = Model.CSV.keepRows b rs (p + 1) := by
        simp only [Model.CSV.keepRows, hb, and_self, if_true]
      rw [hk]
      refine ⟨fun i j => ?_, fun i j hi => ih1.2 i j (by omega)⟩
      cases i with
      | zero =>
        rw [show p + 0 = p from rfl, ih1.2 p j (by omega), hb.1]
        cases j <;> simp [cellAt, Spec.Grid.cellAt]
      | succ k =>
        rw [show p + (k + 1) = (p + 1) + k by omega, ih1.1 k j]
        simp [cellAt, Spec.Grid.cellAt]
    · have hk : Model.CSV.keepRows b (r :: rs) p = List.replicate p [] ++ r :: Model.CSV.keepRows b rs 0 := by
        simp only [Model.CSV.keepRows, hb, if_false]
      rw [hk]
      refine ⟨fun i j => ?_, fun i j hi => ?_⟩
      · unfold cellAt Spec.Grid.cellAt
        rw [getD_replicate_append_right]
        cases i with
        | zero => simp
        | succ k =>
          have := ih0.1 k j
          simp only [Nat.zero_add, cellAt, Spec.Grid.cellAt] at this
          simpa using this
      · unfold cellAt Spec.Grid.cellAt
        rw [getD_replicate_append_left p i _ hi]
        simp

theorem C01_csv_cells_verbatim (q : Bool) (rows : List (List Str)) (i j : Nat) :
    cellAt (csvGrid q rows) i j = cellAt rows i j := by
  have := (keepRows_cells (!q) rows 0).1 i j
  simpa [csvGrid] using this

theorem keepRows_id (b : Bool) (rows : List (List Str)) (h : ∀ r ∈ rows, r ≠ [[]]) (p : Nat) :
    Model.CSV.keepRows b rows p = List.replicate (if rows = [] then 0 else p) [] ++ rows := by
  induction rows generalizing p with
  | nil => simp [Model.CSV.keepRows]
  | cons r rs ih =>
    have hr : r ≠ [[]] := h r (by simp)
    have := ih (fun x hx => h x (by simp [hx])) 0
    simp only [Model.CSV.keepRows, hr, false_and, if_false, this]
    simp

theorem C01_csv_rows_verbatim (q : Bool) (rows : List (List Str)) (h : ∀ r ∈ rows, r ≠ [[]]) :
    csvGrid q rows = rows := by
  unfold csvGrid
  rw [keepRows_id _ rows h 0]
  simp

/-- what the reader did before fix D46 (empty lines skipped): the one-column sheet `Name / (blank note) / type / data`
lost its blank row, so the type row was found one line too early -/
theorem csv_skipping_reader_moves_rows :
    let rows : List (List Str) := [[[78]], [[]], [[116]], [[49]]]
    cellAt (rows.filter (fun r => r != [[]])) 2 0 = [49] ∧ cellAt (csvGrid false rows) 2 0 = [116] := by
  decide

/-- the CSV twin and the XLSX twin of one grid agree at every cell position -/
theorem C08_twins_cell_by_cell (q : Bool) (rows : List (List Str)) (i j : Nat) :
    cellAt (csvGrid q rows) i j = cellAt (xlsxGrid rows) i j := by
  rw [C01_csv_cells_verbatim, C08_xlsx_cells_verbatim]

theorem sameCells_of_cells (w o : List (List Str)) (h : ∀ i j, cellAt o i j = cellAt w i j) :
    Spec.Grid.sameCells w o = true := by
  unfold Spec.Grid.sameCells
  simp only [List.all_eq_true, List.mem_range, beq_iff_eq]
  intro i _ j _
  exact h i j

/-- the importer model meets the cell-by-cell specification the oracle `o.imp.grid` evaluates (CSV) -/
theorem C01_csv_model_meets_spec (q : Bool) (rows : List (List Str)) :
    Spec.Grid.holds rows (csvGrid q rows) = true :=
  sameCells_of_cells _ _ (fun i j => C01_csv_cells_verbatim q rows i j)

/-- … and for XLSX -/
theorem C08_xlsx_model_meets_spec (rows : List (List Str)) :
    Spec.Grid.holds rows (xlsxGrid rows) = true :=
  sameCells_of_cells _ _ (fun i j => C08_xlsx_cells_verbatim rows i j)

-- tests (labelled as tests): premises satisfiable, trimming visible
example : xlsxGrid [[[97], [], []], [], [[], [98]], [], [[]]] = [[[97]], [], [[], [98]]] := by decide
example : csvGrid false [[[97]], [[]], [[], []], [[]]] = [[[97]], [], [[], []]] := by decide

end TableauVerif.Props.C01Grid
