/-
C15 — The schema depends only on headers and is stable under appending.

* header-only: the model of protogen's sheet parser is a function of the name row and the type row only
  (`parseSheet c (Header.ofRows names types)`), and `Header.ofRows` reads nothing else; what the
  *implementation* reads beyond them (row lengths influenced by data rows, the top-N window) is what the
  e2e stream and the seeds exercise.
* appending: `C15_append_basic_partial`: for a sheet whose existing columns are all basic (scalar / enum /
  opaque type names: not a map, list or struct cell) with non-blank names and types, appending ANY columns
  (any number, any content, aggregates included) keeps every existing field: the new field list is the
  old one followed by new fields; in particular positions (= tag numbers) are unchanged.
  `C15_extends_of_append`: that is an extension in the sense of `Spec.C15.extendsBy`.
  (Partial: sheets with cross-cell aggregates are decided by the differential stream `spec.C15.append`
  through the same relation, not by a theorem.)
* `C15_D16_witness`: the known exception, proved on the model: a one-element horizontal scalar list in the
  last column changes name and layout as soon as any column follows it.
-/
import TableauVerif.Model.Protogen
import TableauVerif.Spec.C15
namespace TableauVerif.Props.C15
open TableauVerif TableauVerif.Model.Types TableauVerif.Model.Protogen TableauVerif.Spec.C15

/-- a type cell that is neither a map, a list nor a struct cell: handled by `parseBasicField` -/
def basicCell (t : Str) : Bool := !isMap t && !isList t && !isStruct t

/-- the result of the column loop always starts with the fields accumulated so far -/
theorem sheetLoop_prefix (fuel : Nat) (h : Header) (c : Ctx) (seen : Seen) (cursor : Nat) (acc r : List PField)
    (hr : sheetLoop fuel h c seen cursor acc = .ok r) : ∃ more, r = acc ++ more := by
  induction fuel generalizing seen cursor acc with
  | zero => simp [sheetLoop] at hr
  | succ fuel ih =>
    simp only [sheetLoop] at hr
    split at hr
    · split at hr
      · simp at hr
      · exact ih _ _ _ hr
      · rename_i sub _
        obtain ⟨more, hm⟩ := ih _ _ _ hr
        exact ⟨sub :: more, by simp [hm]⟩
    · simp at hr; exact ⟨[], by simp [hr]⟩

theorem skipEmpty_cons_nonempty (x : Str) (xs : List Str) (cur : Nat) (hx : x ≠ []) : skipEmpty (x :: xs) cur = (cur, x) := by
  have : x.isEmpty = false := by cases x <;> simp_all
  simp [skipEmpty, this]

/-- at a basic column with non-blank name and type, `parseField` looks at nothing but that column -/
theorem parseField_basic (fuel : Nat) (h : Header) (c : Ctx) (seen : Seen) (cursor : Nat) (name typ : Str)
    (hn : h.names[cursor]? = some name) (ht : h.types[cursor]? = some typ) (hne : name ≠ []) (hte : typ ≠ [])
    (hb : basicCell typ = true) :
    parseField (fuel + 1) h c [] seen cursor [] =
      atCur cursor
      (match checkConflict seen name cursor with
      | none => .error (.err "E0003")
      | some seen' =>
        match parseBasicField c name typ with
        | .error e => .error e
        | .ok f => .ok (cursor, seen', some f)) := by
  have hdrop : h.names.drop cursor = name :: h.names.drop (cursor + 1) := by
    have hlt : cursor < h.names.length := by
      rcases Nat.lt_or_ge cursor h.names.length with hl | hl
      · exact hl
      · simp [List.getElem?_eq_none hl] at hn
    rw [List.drop_eq_getElem_cons hlt]
    simp [List.getElem?_eq_getElem hlt] at hn
    rw [hn]
  have hvalid : h.validName cursor = (cursor, name) := by
    unfold Header.validName; rw [hdrop]; exact skipEmpty_cons_nonempty _ _ _ hne
  have htype : h.typeAt cursor = typ := by
    unfold Header.typeAt; simp [List.getD_eq_getElem?_getD, ht]
  have hne' : name.isEmpty = false := by cases name <;> simp_all
  have hte' : typ.isEmpty = false := by cases typ <;> simp_all
  simp only [basicCell, Bool.and_eq_true, Bool.not_eq_true'] at hb
  simp only [parseField, hvalid, htype, hne', hte', Bool.or_self, Bool.false_eq_true, if_false, vtLookup, List.find?_nil,
    List.isEmpty_nil, if_true, hb.1.1, hb.1.2, hb.2, trimPrefix, stripPrefix, Option.getD_some]
  cases checkConflict seen name cursor with
  | none => rfl
  | some s =>
    simp only
    cases parseBasicField c name typ <;> rfl

/-- the columns of `H` below `n` all are basic with non-blank name and type -/
def FlatUpTo (names types : List Str) : Prop :=
  names.length = types.length ∧
  ∀ i, i < names.length → ∃ nm ty, names[i]? = some nm ∧ types[i]? = some ty ∧ nm ≠ [] ∧ ty ≠ [] ∧ basicCell ty = true

theorem loop_append (c : Ctx) (names types names' types' : List Str) (hflat : FlatUpTo names types) :
    ∀ (k cursor F1 F2 : Nat) (seen : Seen) (acc fs fs' : List PField),
      cursor + k = names.length → k + 2 ≤ F1 → k + 2 ≤ F2 →
      sheetLoop F1 ⟨names, types⟩ c seen cursor acc = .ok fs →
      sheetLoop F2 ⟨names ++ names', types ++ types'⟩ c seen cursor acc = .ok fs' →
      ∃ more, fs' = fs ++ more := by
  intro k
  induction k with
  | zero =>
    intro cursor F1 F2 seen acc fs fs' hc h1 h2 r1 r2
    obtain ⟨F1', rfl⟩ : ∃ n, F1 = n + 1 := ⟨F1 - 1, by omega⟩
    simp only [sheetLoop] at r1
    have : ¬ cursor < names.length := by omega
    simp only [this, if_false] at r1
    simp at r1; subst r1
    exact sheetLoop_prefix _ _ _ _ _ _ _ r2
  | succ k ih =>
    intro cursor F1 F2 seen acc fs fs' hc h1 h2 r1 r2
    obtain ⟨G1, rfl⟩ : ∃ n, F1 = n + 2 := ⟨F1 - 2, by omega⟩
    obtain ⟨G2, rfl⟩ : ∃ n, F2 = n + 2 := ⟨F2 - 2, by omega⟩
    have hlt : cursor < names.length := by omega
    obtain ⟨nm, ty, hn, ht, hne, hte, hb⟩ := hflat.2 cursor hlt
    have hlt' : cursor < (names ++ names').length := by simp; omega
    have hn' : (names ++ names')[cursor]? = some nm := by rw [List.getElem?_append_left hlt]; exact hn
    have ht' : (types ++ types')[cursor]? = some ty := by
      rw [List.getElem?_append_left (by rw [← hflat.1]; exact hlt)]; exact ht
    have p1 := parseField_basic G1 ⟨names, types⟩ c seen cursor nm ty hn ht hne hte hb
    have p2 := parseField_basic G2 ⟨names ++ names', types ++ types'⟩ c seen cursor nm ty hn' ht' hne hte hb
    simp only [sheetLoop, hlt, hlt', if_true] at r1 r2
    rw [p1] at r1
    rw [p2] at r2
    cases hcc : checkConflict seen nm cursor with
    | none => rw [hcc] at r1; simp [atCur] at r1
    | some seen' =>
      rw [hcc] at r1 r2
      cases hpb : parseBasicField c nm ty with
      | error e =>
        rw [hpb] at r1
        rcases e with ⟨t, _ | cu⟩ | _ | _ <;> simp [atCur] at r1
      | ok f =>
        rw [hpb] at r1 r2
        simp only [atCur] at r1 r2
        exact ih (cursor + 1) (G1 + 1) (G2 + 1) seen' (acc ++ [f]) fs fs' (by omega) (by omega) (by omega) r1 r2

/-- **C15_append_basic_partial**: appending any columns to a sheet of basic columns keeps every existing
field, at its position, unchanged -/
theorem C15_append_basic_partial (c : Ctx) (names types names' types' : List Str) (hflat : FlatUpTo names types)
    (fs fs' : List PField)
    (h1 : parseSheet c ⟨names, types⟩ = .ok fs)
    (h2 : parseSheet c ⟨names ++ names', types ++ types'⟩ = .ok fs') :
    ∃ more, fs' = fs ++ more := by
  unfold parseSheet defaultFuel at h1 h2
  split at h1
  case h_2 => simp at h1
  split at h2
  case h_2 => simp at h2
  exact loop_append c names types names' types' hflat names.length 0 _ _ [] [] fs fs' (by simp)
    (by simp; omega) (by simp; omega) h1 h2

mutual
theorem sameField_refl : ∀ f : PField, sameField f f = true
  | ⟨n, t, f, p, on, ok, l, s, pr, me, le, fs⟩ => by
    simp [sameField, extendsBy_refl fs]
theorem extendsBy_refl : ∀ fs : List PField, extendsBy fs fs = true
  | [] => by simp [extendsBy]
  | f :: fs => by simp [extendsBy, sameField_refl f, extendsBy_refl fs]
end

theorem extendsBy_append (fs more : List PField) : extendsBy fs (fs ++ more) = true := by
  induction fs with
  | nil => simp [extendsBy]
  | cons f fs ih => simp [extendsBy, sameField_refl f, ih]

/-- **C15_extends_of_append**: … and that is an extension in the sense of the specification -/
theorem C15_extends_of_append (c : Ctx) (names types names' types' : List Str) (hflat : FlatUpTo names types)
    (fs fs' : List PField)
    (h1 : parseSheet c ⟨names, types⟩ = .ok fs)
    (h2 : parseSheet c ⟨names ++ names', types ++ types'⟩ = .ok fs') :
    extendsBy fs fs' = true := by
  obtain ⟨more, hm⟩ := C15_append_basic_partial c names types names' types' hflat fs fs' h1 h2
  rw [hm]; exact extendsBy_append fs more


/-! ### the known exception (D16) on the model -/

def d16Ctx : Ctx := ⟨S "protoconf", [], false⟩
def d16Old : Header := ⟨[S "ID", S "Param1"], [S "int32", S "[]int32"]⟩
def d16New : Header := ⟨[S "ID", S "Param1", S "Extra"], [S "int32", S "[]int32", S "string"]⟩

def extendsRes (a b : PRes (List PField)) : Bool :=
  match a, b with
  | .ok x, .ok y => extendsBy x y
  | _, _ => true

/-- **C15_D16_witness**: `Param1 []int32` in the last column is a horizontal list `param_list`; as soon as
any column follows, it is the in-cell list `param_1_list`: the append does not extend the schema -/
theorem C15_D16_witness : extendsRes (parseSheet d16Ctx d16Old) (parseSheet d16Ctx d16New) = false := by
  decide +kernel

/-- non-vacuity of the append theorem: a flat sheet -/
example : FlatUpTo [S "ID", S "Name"] [S "uint32", S "enum<.FruitType>|{optional:true}"] := by
  refine ⟨rfl, ?_⟩
  intro i hi
  have : i = 0 ∨ i = 1 := by simp at hi; omega
  rcases this with h | h <;> subst h
  · exact ⟨S "ID", S "uint32", rfl, rfl, by decide, by decide, by decide⟩
  · exact ⟨S "Name", S "enum<.FruitType>|{optional:true}", rfl, rfl, by decide, by decide, by decide⟩

end TableauVerif.Props.C15
