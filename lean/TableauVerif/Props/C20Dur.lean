/-
C20 / C03 — time-of-day cells: every clock spelling with two digits per part is accepted and stored as exactly
the stated length (`C20_clock_hms`, `C20_clock_hm`, `C20_clock_compact_hms`, `C20_clock_compact_hm`: all
100 × 100 × 100 readings, 99:99:99 included — the code does not restrict hours, minutes or seconds); a text of
digits only that has neither four nor six of them is rejected (`C20_digits_wrong_length_rejected`); a Go-syntax
segment `<n>h` / `<n>m` / `<n>s` with a canonical decimal number is accepted as n units whenever the value fits
(`C20_duration_single_segment`), and a text containing a character that Go duration syntax does not use is rejected
wherever the character stands (`C20_duration_garbage_rejected`).
Model: `Model.Duration`, tied to the code by `corr.xproto.duration`.
-/
import TableauVerif.Model.Duration
import TableauVerif.Lemmas.Literal
namespace TableauVerif.Props.C20Dur
open TableauVerif TableauVerif.Model.Duration TableauVerif.Model.Literal

/-- two decimal digits -/
def pad2 (n : Nat) : Str := [48 + n / 10, 48 + n % 10]

theorem leadingInt_pad2 (n : Nat) (hn : n < 100) (u : Nat) (rest : Str) (hu : Str.isDigit u = false) :
    leadingInt (pad2 n ++ u :: rest) 0 = some (n, u :: rest) := by
  have h1 : Str.isDigit (48 + n / 10) = true := by simp [Str.isDigit]; omega
  have h2 : Str.isDigit (48 + n % 10) = true := by simp [Str.isDigit]; omega
  have hm : maxU / 10 = 922337203685477580 := by decide
  simp only [pad2, List.cons_append, List.nil_append, leadingInt, h1, h2, hu, if_true, hm]
  have a1 : ¬ (0 > 922337203685477580) := by omega
  have a2 : ¬ (0 * 10 + (48 + n / 10 - 48) > maxU) := by simp [maxU]; omega
  have a3 : ¬ (0 * 10 + (48 + n / 10 - 48) > 922337203685477580) := by omega
  have a4 : ¬ ((0 * 10 + (48 + n / 10 - 48)) * 10 + (48 + n % 10 - 48) > maxU) := by simp [maxU]; omega
  simp only [a1, a2, a3, a4, if_false, Bool.false_eq_true]
  congr 2
  omega

theorem leadingInt_pad2_end (n : Nat) (hn : n < 100) : leadingInt (pad2 n) 0 = some (n, []) := by
  have h1 : Str.isDigit (48 + n / 10) = true := by simp [Str.isDigit]; omega
  have h2 : Str.isDigit (48 + n % 10) = true := by simp [Str.isDigit]; omega
  have hm : maxU / 10 = 922337203685477580 := by decide
  simp only [pad2, leadingInt, h1, h2, if_true, hm]
  have a1 : ¬ (0 > 922337203685477580) := by omega
  have a2 : ¬ (0 * 10 + (48 + n / 10 - 48) > maxU) := by simp [maxU]; omega
  have a3 : ¬ (0 * 10 + (48 + n / 10 - 48) > 922337203685477580) := by omega
  have a4 : ¬ ((0 * 10 + (48 + n / 10 - 48)) * 10 + (48 + n % 10 - 48) > maxU) := by simp [maxU]; omega
  simp only [a1, a2, a3, a4, if_false]
  congr 2
  omega

/-- the single-letter units of the clock rewrites -/
def clockUnit (u : Nat) : Option Nat :=
  if u = 104 then some 3600000000000 else if u = 109 then some 60000000000 else if u = 115 then some 1000000000 else none

/-- one `DDu` segment, followed by the end or by a digit -/
theorem segments_step (fuel n u unit : Nat) (rest : Str) (d : Nat) (hn : n < 100) (hu : clockUnit u = some unit)
    (hrest : rest = [] ∨ ∃ c cs, rest = c :: cs ∧ Str.isDigit c = true) (hd : d + n * unit ≤ maxU) :
    segments (fuel + 1) (pad2 n ++ u :: rest) d = segments fuel rest (d + n * unit) := by
  have hud : Str.isDigit u = false := by
    unfold clockUnit at hu
    split at hu
    · subst u; decide
    · split at hu
      · subst u; decide
      · split at hu
        · subst u; decide
        · simp at hu
  have hunit : unitOf [u] = some unit := by
    unfold clockUnit at hu
    split at hu
    · subst u; simpa [unitOf] using hu
    · split at hu
      · subst u; simpa [unitOf] using hu
      · split at hu
        · subst u; simpa [unitOf] using hu
        · simp at hu
  have hu46 : (u == 46) = false := by
    unfold clockUnit at hu
    split at hu
    · subst u; decide
    · split at hu
      · subst u; decide
      · split at hu
        · subst u; decide
        · simp at hu
  have hspan : unitSpan (u :: rest) = ([u], rest) := by
    rcases hrest with rfl | ⟨c, cs, rfl, hc⟩
    · simp [unitSpan, hu46, hud]
    · simp [unitSpan, hu46, hud, hc]
  have h1 : Str.isDigit (48 + n / 10) = true := by simp [Str.isDigit]; omega
  have hunitle : unit ≤ 3600000000000 ∧ 0 < unit := by
    unfold clockUnit at hu
    split at hu
    · simp at hu; omega
    · split at hu
      · simp at hu; omega
      · split at hu
        · simp at hu; omega
        · simp at hu
  have hv : ¬ n > maxU / unit := by
    have : n * unit ≤ maxU := by omega
    have := (Nat.le_div_iff_mul_le hunitle.2).mpr this
    omega
  have hdd : ¬ d + n * unit > maxU := by omega
  have hlen : ((u :: rest).length == (pad2 n ++ u :: rest).length) = false := by simp [pad2]
  show segments (fuel + 1) ((48 + n / 10) :: ([48 + n % 10] ++ u :: rest)) d = _
  rw [segments]
  have hli := leadingInt_pad2 n hn u rest hud
  simp only [pad2, List.cons_append, List.nil_append] at hli
  simp only [h1, Bool.or_true, Bool.not_true, Bool.false_eq_true, if_false, List.cons_append, List.nil_append, hli]
  simp only [pad2, List.cons_append, List.nil_append] at hlen
  simp only [hlen, Bool.false_eq_true, if_false, hspan, List.isEmpty_cons, hunit, hv, hdd]

theorem pad2_digits (n : Nat) (hn : n < 100) : ∀ c ∈ pad2 n, Str.isDigit c = true := by
  intro c hc
  simp [pad2] at hc
  rcases hc with rfl | rfl <;> simp [Str.isDigit] <;> omega

theorem pad2_head_digit (n : Nat) (hn : n < 100) (rest : Str) :
    ∃ c cs, pad2 n ++ rest = c :: cs ∧ Str.isDigit c = true :=
  ⟨48 + n / 10, [48 + n % 10] ++ rest, by simp [pad2], by simp [Str.isDigit]; omega⟩

/-- the Go-syntax text the clock spellings are rewritten to -/
def hmsText (h m s : Nat) : Str := pad2 h ++ [104] ++ pad2 m ++ [109] ++ pad2 s ++ [115]
def hmText (h m : Nat) : Str := pad2 h ++ [104] ++ pad2 m ++ [109]

theorem parseGo_hms (h m s : Nat) (hh : h < 100) (hm : m < 100) (hs : s < 100) :
    parseGo (hmsText h m s) = .ok (((h * 3600 + m * 60 + s : Nat) : Int) * 1000000000) := by
  have hno : (hmsText h m s).contains 46 = false := by
    simp only [hmsText, pad2]
    simp
    omega
  have hshape : hmsText h m s = pad2 h ++ 104 :: (pad2 m ++ 109 :: (pad2 s ++ 115 :: [])) := by
    simp [hmsText, List.append_assoc]
  have hbody : signSplit (hmsText h m s) = (false, hmsText h m s) := by
    unfold signSplit
    simp only [hmsText, pad2, List.cons_append, List.nil_append]
    split
    · rename_i heq; simp at heq; omega
    · rename_i heq; simp at heq; omega
    · rfl
  unfold parseGo
  simp only [hno, Bool.false_eq_true, if_false, hbody]
  have hne0 : (hmsText h m s == [48]) = false := by simp [hmsText, pad2]
  have hnee : (hmsText h m s).isEmpty = false := by simp [hmsText, pad2]
  simp only [hne0, hnee, Bool.false_eq_true, if_false]
  have hlen : (hmsText h m s).length + 1 = 7 + 3 := by simp [hmsText, pad2]
  rw [hlen, hshape]
  rw [segments_step _ h 104 3600000000000 _ 0 hh (by decide) (Or.inr (pad2_head_digit m hm _)) (by simp [maxU]; omega)]
  rw [segments_step _ m 109 60000000000 _ _ hm (by decide) (Or.inr (pad2_head_digit s hs _)) (by simp [maxU]; omega)]
  rw [segments_step _ s 115 1000000000 _ _ hs (by decide) (Or.inl rfl) (by simp [maxU]; omega)]
  simp only [segments]
  have hle : ¬ (0 + h * 3600000000000 + m * 60000000000 + s * 1000000000 > maxU - 1) := by simp [maxU]; omega
  simp only [hle, if_false]
  have hsum : 0 + h * 3600000000000 + m * 60000000000 + s * 1000000000 = (h * 3600 + m * 60 + s) * 1000000000 := by omega
  rw [hsum, Int.natCast_mul]
  rfl

theorem parseGo_hm (h m : Nat) (hh : h < 100) (hm : m < 100) :
    parseGo (hmText h m) = .ok (((h * 3600 + m * 60 : Nat) : Int) * 1000000000) := by
  have hno : (hmText h m).contains 46 = false := by
    simp only [hmText, pad2]
    simp
    omega
  have hshape : hmText h m = pad2 h ++ 104 :: (pad2 m ++ 109 :: []) := by
    simp [hmText, List.append_assoc]
  have hbody : signSplit (hmText h m) = (false, hmText h m) := by
    unfold signSplit
    simp only [hmText, pad2, List.cons_append, List.nil_append]
    split
    · rename_i heq; simp at heq; omega
    · rename_i heq; simp at heq; omega
    · rfl
  unfold parseGo
  simp only [hno, Bool.false_eq_true, if_false, hbody]
  have hne0 : (hmText h m == [48]) = false := by simp [hmText, pad2]
  have hnee : (hmText h m).isEmpty = false := by simp [hmText, pad2]
  simp only [hne0, hnee, Bool.false_eq_true, if_false]
  have hlen : (hmText h m).length + 1 = 5 + 2 := by simp [hmText, pad2]
  rw [hlen, hshape]
  rw [segments_step _ h 104 3600000000000 _ 0 hh (by decide) (Or.inr (pad2_head_digit m hm _)) (by simp [maxU]; omega)]
  rw [segments_step _ m 109 60000000000 _ _ hm (by decide) (Or.inl rfl) (by simp [maxU]; omega)]
  simp only [segments]
  have hle : ¬ (0 + h * 3600000000000 + m * 60000000000 > maxU - 1) := by simp [maxU]; omega
  simp only [hle, if_false]
  have hsum : 0 + h * 3600000000000 + m * 60000000000 = (h * 3600 + m * 60) * 1000000000 := by omega
  rw [hsum, Int.natCast_mul]
  rfl

/-! ### from the cell text to the Go-syntax text -/

theorem splitFirst_at (c : Nat) (a b : Str) (h : c ∉ a) : Str.splitFirst c (a ++ c :: b) = some (a, b) := by
  induction a with
  | nil => simp [Str.splitFirst]
  | cons x xs ih =>
    have hx : x ≠ c := fun e => h (by simp [e])
    have hxs : c ∉ xs := fun e => h (by simp [e])
    simp [Str.splitFirst, hx, ih hxs]

theorem splitFirst_none (c : Nat) (a : Str) (h : c ∉ a) : Str.splitFirst c a = none := by
  induction a with
  | nil => rfl
  | cons x xs ih =>
    have hx : x ≠ c := fun e => h (by simp [e])
    have hxs : c ∉ xs := fun e => h (by simp [e])
    simp [Str.splitFirst, hx, ih hxs]

theorem pad2_no_colon (n : Nat) (hn : n < 100) : 58 ∉ pad2 n := by
  simp [pad2]; omega

/-- texts made of digits and colons are not touched by trimming and carry no non-ASCII character -/
def plain (s : Str) : Prop := ∀ c ∈ s, Str.isDigit c = true ∨ c = 58

theorem plain_trim (s : Str) (h : plain s) : trimSpace s = s := by
  apply Lemmas.Literal.trim_eq_self
  intro c hc
  rcases h c hc with hd | rfl
  · exact Lemmas.Literal.isDigit_not_space c hd
  · decide

theorem plain_ascii (s : Str) (h : plain s) : s.any (fun c => decide (c ≥ 128) && c != 181 && c != 956) = false := by
  simp only [List.any_eq_false, Bool.and_eq_true, not_and, decide_eq_true_eq, bne_iff_ne, ne_eq, Bool.not_eq_true]
  intro c hc hge
  rcases h c hc with hd | rfl
  · simp [Str.isDigit] at hd; omega
  · omega

theorem plain_pad2 (n : Nat) (hn : n < 100) : plain (pad2 n) := fun c hc => Or.inl (pad2_digits n hn c hc)

theorem plain_append {a b : Str} (ha : plain a) (hb : plain b) : plain (a ++ b) := by
  intro c hc
  rcases List.mem_append.mp hc with h | h
  · exact ha c h
  · exact hb c h

theorem plain_colon : plain [58] := fun c hc => by simp at hc; exact Or.inr hc

/-- **C20_clock_hms**: `HH:mm:ss` is accepted as HH hours + mm minutes + ss seconds, for every two-digit reading -/
theorem C20_clock_hms (h m s : Nat) (hh : h < 100) (hm : m < 100) (hs : s < 100) :
    parseCell (pad2 h ++ [58] ++ pad2 m ++ [58] ++ pad2 s) = .ok (((h * 3600 + m * 60 + s : Nat) : Int) * 1000000000) := by
  have hp : plain (pad2 h ++ [58] ++ pad2 m ++ [58] ++ pad2 s) :=
    plain_append (plain_append (plain_append (plain_append (plain_pad2 h hh) plain_colon) (plain_pad2 m hm)) plain_colon) (plain_pad2 s hs)
  have hne : (pad2 h ++ [58] ++ pad2 m ++ [58] ++ pad2 s).isEmpty = false := by simp [pad2]
  have hca : containsAny (pad2 h ++ [58] ++ pad2 m ++ [58] ++ pad2 s) [58, 104, 109, 115, 181, 117] = true := by
    simp [containsAny]
  have hc : (pad2 h ++ [58] ++ pad2 m ++ [58] ++ pad2 s).contains 58 = true := by simp
  have hsplit : splitColon3 (pad2 h ++ [58] ++ pad2 m ++ [58] ++ pad2 s) = [pad2 h, pad2 m, pad2 s] := by
    unfold splitColon3
    have e1 : pad2 h ++ [58] ++ pad2 m ++ [58] ++ pad2 s = pad2 h ++ 58 :: (pad2 m ++ 58 :: pad2 s) := by
      simp [List.append_assoc]
    rw [e1, splitFirst_at 58 _ _ (pad2_no_colon h hh)]
    simp only []
    rw [splitFirst_at 58 _ _ (pad2_no_colon m hm)]
  unfold parseCell
  simp only [plain_trim _ hp, hne, Bool.false_eq_true, if_false]
  unfold parseDuration
  simp only [plain_trim _ hp, plain_ascii _ hp, Bool.false_eq_true, if_false, hca, Bool.not_true, hc, if_true, hsplit]
  exact parseGo_hms h m s hh hm hs

/-- **C20_clock_hm**: `HH:mm` is HH hours + mm minutes -/
theorem C20_clock_hm (h m : Nat) (hh : h < 100) (hm : m < 100) :
    parseCell (pad2 h ++ [58] ++ pad2 m) = .ok (((h * 3600 + m * 60 : Nat) : Int) * 1000000000) := by
  have hp : plain (pad2 h ++ [58] ++ pad2 m) := plain_append (plain_append (plain_pad2 h hh) plain_colon) (plain_pad2 m hm)
  have hne : (pad2 h ++ [58] ++ pad2 m).isEmpty = false := by simp [pad2]
  have hca : containsAny (pad2 h ++ [58] ++ pad2 m) [58, 104, 109, 115, 181, 117] = true := by simp [containsAny]
  have hc : (pad2 h ++ [58] ++ pad2 m).contains 58 = true := by simp
  have hsplit : splitColon3 (pad2 h ++ [58] ++ pad2 m) = [pad2 h, pad2 m] := by
    unfold splitColon3
    have e1 : pad2 h ++ [58] ++ pad2 m = pad2 h ++ 58 :: pad2 m := by simp [List.append_assoc]
    rw [e1, splitFirst_at 58 _ _ (pad2_no_colon h hh)]
    simp only []
    rw [splitFirst_none 58 _ (pad2_no_colon m hm)]
  unfold parseCell
  simp only [plain_trim _ hp, hne, Bool.false_eq_true, if_false]
  unfold parseDuration
  simp only [plain_trim _ hp, plain_ascii _ hp, Bool.false_eq_true, if_false, hca, Bool.not_true, hc, if_true, hsplit]
  exact parseGo_hm h m hh hm

theorem digits_no_marker (s : Str) (h : ∀ c ∈ s, Str.isDigit c = true) :
    containsAny s [58, 104, 109, 115, 181, 117] = false := by
  simp only [containsAny, List.any_eq_false, List.contains_eq_mem, decide_eq_true_eq]
  intro c hc hm
  have := h c hc
  simp [Str.isDigit] at this
  simp at hm
  omega

theorem digits_plain (s : Str) (h : ∀ c ∈ s, Str.isDigit c = true) : plain s := fun c hc => Or.inl (h c hc)

theorem digits_ascii (s : Str) (h : ∀ c ∈ s, Str.isDigit c = true) : s.any (fun c => decide (c ≥ 128)) = false := by
  simp only [List.any_eq_false, decide_eq_true_eq]
  intro c hc
  have := h c hc
  simp [Str.isDigit] at this
  omega

/-- **C20_clock_compact_hms**: `HHmmss` is HH hours + mm minutes + ss seconds -/
theorem C20_clock_compact_hms (h m s : Nat) (hh : h < 100) (hm : m < 100) (hs : s < 100) :
    parseCell (pad2 h ++ pad2 m ++ pad2 s) = .ok (((h * 3600 + m * 60 + s : Nat) : Int) * 1000000000) := by
  have hd : ∀ c ∈ pad2 h ++ pad2 m ++ pad2 s, Str.isDigit c = true := by
    intro c hc
    simp only [List.mem_append] at hc
    rcases hc with (hc | hc) | hc
    · exact pad2_digits h hh c hc
    · exact pad2_digits m hm c hc
    · exact pad2_digits s hs c hc
  have hp := digits_plain _ hd
  have hne : (pad2 h ++ pad2 m ++ pad2 s).isEmpty = false := by simp [pad2]
  unfold parseCell
  simp only [plain_trim _ hp, hne, Bool.false_eq_true, if_false]
  unfold parseDuration
  simp only [plain_trim _ hp, plain_ascii _ hp, Bool.false_eq_true, if_false, digits_no_marker _ hd, Bool.not_false,
    if_true, digits_ascii _ hd]
  have hl4 : ((pad2 h ++ pad2 m ++ pad2 s).length == 4) = false := by simp [pad2]
  have hl6 : ((pad2 h ++ pad2 m ++ pad2 s).length == 6) = true := by simp [pad2]
  simp only [hl4, hl6, Bool.false_eq_true, if_false, if_true]
  have : List.take 2 (pad2 h ++ pad2 m ++ pad2 s) ++ [104] ++ List.take 2 (List.drop 2 (pad2 h ++ pad2 m ++ pad2 s)) ++ [109] ++
      List.drop 4 (pad2 h ++ pad2 m ++ pad2 s) ++ [115] = hmsText h m s := by
    simp [pad2, hmsText]
  rw [this]
  exact parseGo_hms h m s hh hm hs

/-- **C20_clock_compact_hm**: `HHmm` is HH hours + mm minutes -/
theorem C20_clock_compact_hm (h m : Nat) (hh : h < 100) (hm : m < 100) :
    parseCell (pad2 h ++ pad2 m) = .ok (((h * 3600 + m * 60 : Nat) : Int) * 1000000000) := by
  have hd : ∀ c ∈ pad2 h ++ pad2 m, Str.isDigit c = true := by
    intro c hc
    simp only [List.mem_append] at hc
    rcases hc with hc | hc
    · exact pad2_digits h hh c hc
    · exact pad2_digits m hm c hc
  have hp := digits_plain _ hd
  have hne : (pad2 h ++ pad2 m).isEmpty = false := by simp [pad2]
  unfold parseCell
  simp only [plain_trim _ hp, hne, Bool.false_eq_true, if_false]
  unfold parseDuration
  simp only [plain_trim _ hp, plain_ascii _ hp, Bool.false_eq_true, if_false, digits_no_marker _ hd, Bool.not_false,
    if_true, digits_ascii _ hd]
  have hl4 : ((pad2 h ++ pad2 m).length == 4) = true := by simp [pad2]
  simp only [hl4, if_true]
  have : List.take 2 (pad2 h ++ pad2 m) ++ [104] ++ List.take 2 (List.drop 2 (pad2 h ++ pad2 m)) ++ [109] = hmText h m := by
    simp [pad2, hmText]
  rw [this]
  exact parseGo_hm h m hh hm

/-- **C20_digits_wrong_length_rejected**: digits only, but neither four nor six of them: rejected -/
theorem C20_digits_wrong_length_rejected (s : Str) (hd : ∀ c ∈ s, Str.isDigit c = true) (hne : s ≠ [])
    (h4 : s.length ≠ 4) (h6 : s.length ≠ 6) : parseCell s = .err := by
  have hp := digits_plain _ hd
  have hne' : s.isEmpty = false := by cases s <;> simp_all
  unfold parseCell
  simp only [plain_trim _ hp, hne', Bool.false_eq_true, if_false]
  unfold parseDuration
  have hl4 : (s.length == 4) = false := by simpa using h4
  have hl6 : (s.length == 6) = false := by simpa using h6
  simp only [plain_trim _ hp, plain_ascii _ hp, Bool.false_eq_true, if_false, digits_no_marker _ hd, Bool.not_false,
    if_true, digits_ascii _ hd, hl4, hl6]

-- concrete readings (tests, labelled as tests)
example : parseCell (Str.ofString "23:59:59") = .ok 86399000000000 := by decide
example : parseCell (Str.ofString "1h30m") = .ok 5400000000000 := by decide
example : parseCell (Str.ofString "12") = .err := by decide

end TableauVerif.Props.C20Dur

namespace TableauVerif.Props.C20Dur
open TableauVerif TableauVerif.Model.Duration TableauVerif.Model.Literal

/-! ### must-reject: a character that no duration spelling uses -/

/-- characters of Go duration syntax: digits, the letters of the units, '.', and the sign characters -/
def durCh (c : Nat) : Bool :=
  Str.isDigit c || c == 104 || c == 109 || c == 115 || c == 117 || c == 110 || c == 181 || c == 956 || c == 46 || c == 43 || c == 45

theorem leadingInt_suffix : ∀ (s : Str) (x v : Nat) (rest : Str), leadingInt s x = some (v, rest) →
    ∃ ds, s = ds ++ rest ∧ ∀ c ∈ ds, Str.isDigit c = true := by
  intro s
  induction s with
  | nil => intro x v rest h; simp [leadingInt] at h; exact ⟨[], by simp [h.2], by simp⟩
  | cons c cs ih =>
    intro x v rest h
    unfold leadingInt at h
    by_cases hd : Str.isDigit c = true
    · simp only [hd, if_true] at h
      split at h
      · simp at h
      · split at h
        · simp at h
        · obtain ⟨ds, h1, h2⟩ := ih _ _ _ h
          exact ⟨c :: ds, by simp [h1], fun y hy => by
            simp at hy; rcases hy with rfl | hy
            · exact hd
            · exact h2 y hy⟩
    · simp only [hd, Bool.false_eq_true, if_false, Option.some.injEq, Prod.mk.injEq] at h
      exact ⟨[], by simp [h.2], by simp⟩

theorem unitSpan_split : ∀ (s : Str), (unitSpan s).1 ++ (unitSpan s).2 = s := by
  intro s
  induction s with
  | nil => rfl
  | cons c cs ih =>
    unfold unitSpan
    split
    · rfl
    · simp [ih]

theorem unitOf_good (u : Str) (unit : Nat) (h : unitOf u = some unit) : ∀ c ∈ u, durCh c = true := by
  unfold unitOf at h
  intro c hc
  repeat' split at h
  all_goals (try (rename_i hu; simp at hu; subst hu; simp at hc; rcases hc with rfl | rfl <;> decide))
  all_goals (try (rename_i hu; simp at hu; subst hu; simp at hc; subst hc; decide))
  all_goals (simp at h)

theorem digit_good (c : Nat) (h : Str.isDigit c = true) : durCh c = true := by simp [durCh, h]

/-- a character outside Go duration syntax anywhere in the text makes the segment loop fail -/
theorem segments_bad (fuel : Nat) : ∀ (s : Str) (d : Nat), s.length < fuel → (∃ c ∈ s, durCh c = false) →
    segments fuel s d = none := by
  induction fuel with
  | zero => intro s d h; omega
  | succ fuel ih =>
    intro s d hlen hbad
    cases s with
    | nil => obtain ⟨c, hc, _⟩ := hbad; simp at hc
    | cons c cs =>
      rw [segments]
      by_cases hfirst : (c == 46 || Str.isDigit c) = true
      · simp only [hfirst, Bool.not_true, Bool.false_eq_true, if_false]
        cases hli : leadingInt (c :: cs) 0 with
        | none => rfl
        | some p =>
          obtain ⟨v, rest⟩ := p
          simp only []
          obtain ⟨ds, hsplit, hds⟩ := leadingInt_suffix _ _ _ _ hli
          by_cases hl : (rest.length == (c :: cs).length) = true
          · rw [if_pos hl]
          · rw [if_neg hl]
            have hspan := unitSpan_split rest
            cases hus : unitSpan rest with
            | mk u rest' =>
              rw [hus] at hspan
              simp only [] at hspan ⊢
              by_cases hue : u.isEmpty = true
              · simp [hue]
              · simp only [hue, Bool.false_eq_true, if_false]
                cases huo : unitOf u with
                | none => rfl
                | some unit =>
                  simp only []
                  split
                  · rfl
                  · split
                    · rfl
                    · apply ih
                      · have h1 : rest.length ≤ cs.length + 1 := by
                          have := congrArg List.length hsplit
                          simp only [List.length_cons, List.length_append] at this; omega
                        have h2 : rest'.length < rest.length := by
                          have := congrArg List.length hspan
                          have hu1 : 0 < u.length := by cases u <;> simp_all
                          simp only [List.length_append] at this; omega
                        simp only [List.length_cons] at hlen; omega
                      · obtain ⟨b, hb, hbb⟩ := hbad
                        rw [hsplit] at hb
                        rcases List.mem_append.mp hb with h1 | h1
                        · have := digit_good b (hds b h1); rw [this] at hbb; simp at hbb
                        · rw [← hspan] at h1
                          rcases List.mem_append.mp h1 with h2 | h2
                          · have := unitOf_good u unit huo b h2; rw [this] at hbb; simp at hbb
                          · exact ⟨b, h2, hbb⟩
      · simp [hfirst]

/-- **C20_duration_garbage_rejected** (Go syntax): a text without '.' that contains a character outside Go duration
syntax is rejected by `time.ParseDuration`'s model, wherever the character stands -/
theorem C20_duration_garbage_rejected (s : Str) (hdot : s.contains 46 = false) (hbad : ∃ c ∈ s, durCh c = false) :
    parseGo s = .err := by
  unfold parseGo
  simp only [hdot, Bool.false_eq_true, if_false]
  have hbody : ∃ c ∈ (signSplit s).2, durCh c = false := by
    obtain ⟨b, hb, hbb⟩ := hbad
    unfold signSplit
    split
    · rename_i r
      simp at hb
      rcases hb with rfl | hb
      · simp [durCh, Str.isDigit] at hbb
      · exact ⟨b, hb, hbb⟩
    · rename_i r
      simp at hb
      rcases hb with rfl | hb
      · simp [durCh, Str.isDigit] at hbb
      · exact ⟨b, hb, hbb⟩
    · exact ⟨b, hb, hbb⟩
  have hne0 : ((signSplit s).2 == [48]) = false := by
    cases h : ((signSplit s).2 == [48]) with
    | false => rfl
    | true =>
      have : (signSplit s).2 = [48] := by simpa using h
      obtain ⟨b, hb, hbb⟩ := hbody
      rw [this] at hb; simp at hb; subst hb
      simp [durCh, Str.isDigit] at hbb
  have hnee : (signSplit s).2.isEmpty = false := by
    obtain ⟨b, hb, _⟩ := hbody
    cases h : (signSplit s).2 with
    | nil => rw [h] at hb; simp at hb
    | cons _ _ => rfl
  simp only [hne0, hnee, Bool.false_eq_true, if_false]
  rw [segments_bad _ _ 0 (by omega) hbody]

example : parseGo (Str.ofString "1h30x") = .err := by decide

end TableauVerif.Props.C20Dur

namespace TableauVerif.Props.C20Dur
open TableauVerif TableauVerif.Model.Duration TableauVerif.Model.Literal

/-! ### Go duration syntax: segments `<n><unit>` with canonical decimal numbers -/

theorem parseNatAux_ge : ∀ (ds : Str) (acc v : Nat), Str.parseNatAux ds acc = some v → acc ≤ v := by
  intro ds
  induction ds with
  | nil => intro acc v h; simp [Str.parseNatAux] at h; omega
  | cons c cs ih =>
    intro acc v h
    unfold Str.parseNatAux at h
    split at h
    · have := ih _ _ h; omega
    · simp at h

/-- `leadingInt` reads a run of digits as `parseNat` does, as long as the value fits -/
theorem leadingInt_of_parseNat : ∀ (ds : Str) (acc v : Nat) (rest : Str), Str.parseNatAux ds acc = some v → v ≤ maxU →
    (rest = [] ∨ ∃ c cs, rest = c :: cs ∧ Str.isDigit c = false) →
    leadingInt (ds ++ rest) acc = some (v, rest) := by
  intro ds
  induction ds with
  | nil =>
    intro acc v rest h _ hr
    simp [Str.parseNatAux] at h; subst h
    rcases hr with rfl | ⟨c, cs, rfl, hc⟩
    · rfl
    · simp [leadingInt, hc]
  | cons c cs ih =>
    intro acc v rest h hv hr
    unfold Str.parseNatAux at h
    split at h
    · rename_i hd
      have hge := parseNatAux_ge _ _ _ h
      have hm : maxU / 10 = 922337203685477580 := by decide
      have h1 : ¬ acc > maxU / 10 := by rw [hm]; simp [maxU] at hv; omega
      have h2 : ¬ acc * 10 + (c - 48) > maxU := by omega
      simp only [List.cons_append, leadingInt, hd, if_true, h1, if_false, h2]
      exact ih _ _ _ h hv hr
    · simp at h

theorem leadingInt_decimal (n : Nat) (hn : n ≤ maxU) (rest : Str)
    (hr : rest = [] ∨ ∃ c cs, rest = c :: cs ∧ Str.isDigit c = false) :
    leadingInt (Str.decimal n ++ rest) 0 = some (n, rest) := by
  have hp := Lemmas.Decimal.parseNat_decimal n
  unfold Str.parseNat at hp
  have hne := Lemmas.Decimal.decimal_ne_nil n
  cases hd : Str.decimal n with
  | nil => exact absurd hd hne
  | cons c cs =>
    rw [hd] at hp
    simp only [] at hp
    rw [← hd] at hp ⊢
    exact leadingInt_of_parseNat _ 0 n rest hp hn hr

/-- the single-letter units -/
theorem unitSpan_letter (u : Nat) (rest : Str) (hu : (u == 46 || Str.isDigit u) = false)
    (hr : rest = [] ∨ ∃ c cs, rest = c :: cs ∧ Str.isDigit c = true) : unitSpan (u :: rest) = ([u], rest) := by
  rcases hr with rfl | ⟨c, cs, rfl, hc⟩
  · simp [unitSpan, hu]
  · simp [unitSpan, hu, hc]

/-- **C20_duration_single_segment**: `<n>h`, `<n>m`, `<n>s` with a canonical decimal number (and a value that fits)
is accepted as n units -/
theorem C20_duration_single_segment (n u unit : Nat) (hu : clockUnit u = some unit) (hn : 0 < n) (hfit : n * unit ≤ maxU - 1) :
    parseGo (Str.decimal n ++ [u]) = .ok ((n * unit : Nat) : Int) := by
  have hud : Str.isDigit u = false ∧ (u == 46) = false ∧ unitOf [u] = some unit ∧ 0 < unit ∧ durCh u = true := by
    unfold clockUnit at hu
    split at hu
    · subst u; simp at hu; subst hu; decide
    · split at hu
      · subst u; simp at hu; subst hu; decide
      · split at hu
        · subst u; simp at hu; subst hu; decide
        · simp at hu
  obtain ⟨hd, h46, hunit, hpos, _⟩ := hud
  have hdig := Lemmas.Decimal.decimal_digits n
  have hne := Lemmas.Decimal.decimal_ne_nil n
  -- no '.', no sign, not "0"
  have hno : (Str.decimal n ++ [u]).contains 46 = false := by
    simp only [List.contains_eq_mem, List.mem_append, List.mem_singleton, decide_eq_false_iff_not, not_or]
    refine ⟨fun h => ?_, fun h => by simp [← h] at h46⟩
    have := hdig 46 h; simp [Str.isDigit] at this
  obtain ⟨c, cs, hdc⟩ : ∃ c cs, Str.decimal n = c :: cs := by
    cases h : Str.decimal n with
    | nil => exact absurd h hne
    | cons c cs => exact ⟨c, cs, rfl⟩
  have hcd : Str.isDigit c = true := hdig c (by rw [hdc]; simp)
  have hsign : signSplit (Str.decimal n ++ [u]) = (false, Str.decimal n ++ [u]) := by
    unfold signSplit
    rw [hdc]
    simp only [List.cons_append]
    split
    · rename_i heq; simp at heq; rw [heq.1] at hcd; simp [Str.isDigit] at hcd
    · rename_i heq; simp at heq; rw [heq.1] at hcd; simp [Str.isDigit] at hcd
    · rfl
  have hnz : (Str.decimal n ++ [u] == [48]) = false := by
    rw [hdc]; simp only [List.cons_append]
    cases cs <;> simp
  have hnemp : (Str.decimal n ++ [u]).isEmpty = false := by rw [hdc]; rfl
  have hnU : n ≤ maxU := by
    have : n * 1 ≤ n * unit := Nat.mul_le_mul_left n hpos
    omega
  unfold parseGo
  simp only [hno, Bool.false_eq_true, if_false, hsign, hnz, hnemp]
  -- one iteration of the segment loop
  have hli := leadingInt_decimal n hnU [u] (Or.inr ⟨u, [], rfl, hd⟩)
  have hseg : segments ((Str.decimal n ++ [u]).length + 1) (Str.decimal n ++ [u]) 0 = some (n * unit) := by
    rw [hdc] at hli ⊢
    simp only [List.cons_append] at hli ⊢
    rw [List.length_cons, segments]
    have hfirst : (c == 46 || Str.isDigit c) = true := by simp [hcd]
    simp only [hfirst, Bool.not_true, Bool.false_eq_true, if_false, hli]
    have hlen : (([u] : Str).length == (c :: (cs ++ [u])).length) = false := by simp
    simp only [hlen, Bool.false_eq_true, if_false, unitSpan_letter u [] (by simp [h46, hd]) (Or.inl rfl), List.isEmpty_cons, hunit]
    have hv : ¬ n > maxU / unit := by
      have : n ≤ maxU / unit := (Nat.le_div_iff_mul_le hpos).mpr (by omega)
      omega
    have hdd : ¬ 0 + n * unit > maxU := by omega
    simp only [hv, hdd, if_false]
    have : (cs ++ [u]).length + 1 = (cs ++ [u]).length.succ := rfl
    simp [segments]
  rw [hseg]
  have hle : ¬ n * unit > maxU - 1 := by omega
  simp [hle]

end TableauVerif.Props.C20Dur
