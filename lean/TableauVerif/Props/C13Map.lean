/-
C13 — maps under a patch, entry by entry (`patchMap`, model `Model.Patch.patchEntries`), for maps with scalar values and
any number of entries on either side:

* an entry the patch states is the result's entry of that key — whatever its value is, the empty string and zero
  included (`C13_map_stated_entry_wins`);
* a key the patch does not state keeps what the destination had (`C13_map_unstated_key_kept`).

Together: the patched map is the destination's map overridden, key by key, by the patch's entries.
-/
import TableauVerif.Model.Patch
import TableauVerif.Props.C01Sheet
namespace TableauVerif.Props.C13Map
open TableauVerif TableauVerif.Val TableauVerif.Model.Patch TableauVerif.Props.C01Sheet

/-- a scalar map value (what a `map<K, scalar>` entry holds) -/
def scalarVal : Val → Bool
  | .int _ => true
  | .str _ => true
  | .flt _ => true
  | _ => false

theorem patchEntries_scalar_step (isMsg : Bool) (sub : List FieldDesc) (dst : List (Val × Val)) (k v : Val)
    (rest : List (Val × Val)) (hv : scalarVal v = true) :
    patchEntries isMsg sub dst ((k, v) :: rest) = patchEntries isMsg sub (setE dst k v) rest := by
  cases v <;> simp [scalarVal] at hv <;> simp [patchEntries]

/-- **C13_map_unstated_key_kept** -/
theorem C13_map_unstated_key_kept (isMsg : Bool) (sub : List FieldDesc) (ses : List (Val × Val)) :
    ∀ (dst : List (Val × Val)) (k : Val),
      (∀ e ∈ ses, scalarVal e.2 = true) → (∀ e ∈ ses, keyEq e.1 k = false) →
      getE (patchEntries isMsg sub dst ses) k = getE dst k := by
  induction ses with
  | nil => intro dst k _ _; simp [patchEntries]
  | cons e rest ih =>
    intro dst k hs hk
    obtain ⟨ek, ev⟩ := e
    rw [patchEntries_scalar_step isMsg sub dst ek ev rest (hs (ek, ev) (by simp))]
    rw [ih (setE dst ek ev) k (fun x hx => hs x (by simp [hx])) (fun x hx => hk x (by simp [hx]))]
    exact getE_setE_other dst ek k ev (hk (ek, ev) (by simp))

/-- **C13_map_stated_entry_wins**: the patch states `k ↦ v` (and does not state `k` again later): the result has
`k ↦ v` -/
theorem C13_map_stated_entry_wins (isMsg : Bool) (sub : List FieldDesc) (pre post : List (Val × Val)) (k v : Val)
    (dst : List (Val × Val)) (hk : isKey k = true) (hv : scalarVal v = true)
    (hpre : ∀ e ∈ pre, scalarVal e.2 = true) (hpost : ∀ e ∈ post, scalarVal e.2 = true)
    (hlater : ∀ e ∈ post, keyEq e.1 k = false) :
    getE (patchEntries isMsg sub dst (pre ++ (k, v) :: post)) k = some v := by
  induction pre generalizing dst with
  | nil =>
    simp only [List.nil_append]
    rw [patchEntries_scalar_step isMsg sub dst k v post hv]
    rw [C13_map_unstated_key_kept isMsg sub post (setE dst k v) k hpost hlater]
    exact getE_setE_same dst k v hk
  | cons e rest ih =>
    obtain ⟨ek, ev⟩ := e
    simp only [List.cons_append]
    rw [patchEntries_scalar_step isMsg sub dst ek ev _ (hpre (ek, ev) (by simp))]
    exact ih (setE dst ek ev) (fun x hx => hpre x (by simp [hx]))

/-- the case the statement is about: an overlay blanks a label (the value is the EMPTY string) -/
example (dst : List (Val × Val)) :
    getE (patchEntries false [] dst [(.int 3, .str []), (.int 4, .str (Str.ofString "kiwi"))]) (.int 3) = some (.str []) :=
  C13_map_stated_entry_wins false [] [] [(.int 4, .str (Str.ofString "kiwi"))] (.int 3) (.str []) dst rfl rfl
    (by simp) (by simp [scalarVal]) (by simp [keyEq])

end TableauVerif.Props.C13Map
