/-
C09 (continued) — the document parser on flat records.

`C09_doc_flat_scalars_partial`: for a message of scalar fields (ascending field numbers, no field property)
and a map node that holds, for every field, a scalar child under the field's option name whose text is the
canonical literal of the stated value (or blank for an absent value), confgen's document parser
(`Model.Model.DocParser.parseFields`, tied to the real parser by `corr.confgen.docParse`) builds exactly the message
the document states — every value once, at its field, nothing else — whatever the order of the children and
whatever other children the node has. (Partial: aggregates are covered by the correspondence and by the
end-to-end walker, not yet by a theorem.)
-/
import TableauVerif.Model.DocParser
import TableauVerif.Props.C01
namespace TableauVerif.Props.C09
open TableauVerif TableauVerif.Val TableauVerif.Model.TableParser TableauVerif.Model.XmlDoc
open TableauVerif.Model.DocParser (findChild wrapNode BNode.children BNode.value BNode.name)
open TableauVerif.Props.C01 TableauVerif.Spec.C01

/-- the scalar child a document holds for a column -/
def colNode (c : Col) : BNode := .mk .scalar c.name c.text []

theorem parseField_doc_present (c : Ctx) (num : Nat) (name : Str) (k : SKind) (m : Msg) (v : Val) (nn : Str)
    (hwf : wfScalar k v = true) :
    Model.DocParser.parseField c (flatField num name k) m (.mk .scalar nn (scalarText k (some v)) []) = .ok (setF m num v, true) := by
  have hp := parseFieldValue_noprop k _ v true (C01_scalar_roundtrip k v hwf)
  have hz := wf_not_zero k v hwf
  simp [flatField, Model.DocParser.parseField, wrapNode, wrapCol, BNode.value, hp, bind, Except.bind, pure, Except.pure, setScalar, hz]

theorem parseField_doc_blank (c : Ctx) (num : Nat) (name : Str) (k : SKind) (m : Msg) (nn : Str) :
    Model.DocParser.parseField c (flatField num name k) m (.mk .scalar nn [] []) = .ok (m, false) := by
  have hp := parseFieldValue_noprop k [] (zeroOf k) false (C01_blank_absent k)
  simp [flatField, Model.DocParser.parseField, wrapNode, wrapCol, BNode.value, hp, bind, Except.bind, pure, Except.pure]

/-- **C09_doc_flat_scalars_partial** -/
theorem C09_doc_flat_scalars_partial (c : Ctx) (kind : NKind) (nodeName nodeValue : Str) (children : List BNode)
    (cols : List Col) (m0 : Msg)
    (hsorted : (cols.map (·.num)).Pairwise (· < ·))
    (hm0 : ∀ kv ∈ m0, ∀ col ∈ cols, kv.1 < col.num)
    (hfind : ∀ col ∈ cols, findChild children col.name = some (colNode col))
    (hwf : ∀ col ∈ cols, ∀ v, col.val = some v → wfScalar col.kind v = true) :
    Model.DocParser.parseFields c (cols.map Col.field) m0 (.mk kind nodeName nodeValue children)
      = .ok (m0 ++ stated cols, cols.any (·.val.isSome)) := by
  induction cols generalizing m0 with
  | nil => simp [Model.DocParser.parseFields, stated]
  | cons col rest ih =>
    simp only [List.map_cons, List.pairwise_cons] at hsorted
    have hf := hfind col (by simp)
    simp only [List.map_cons, Model.DocParser.parseFields, Col.field, flatField, TField.name, BNode.children] at hf ⊢
    simp only [hf]
    cases hv : col.val with
    | none =>
      have ht : col.text = [] := by simp [Col.text, hv]
      have hpf := parseField_doc_blank c col.num col.name col.kind m0 col.name
      simp only [flatField] at hpf
      simp only [colNode, ht, hpf]
      have := ih m0 hsorted.2 (fun kv hkv x hx => hm0 kv hkv x (by simp [hx]))
        (fun x hx => hfind x (by simp [hx])) (fun x hx => hwf x (by simp [hx]))
      rw [this]
      simp [stated, hv]
    | some v =>
      have ht : col.text = scalarText col.kind (some v) := by simp [Col.text, hv]
      have hw := hwf col (by simp) v hv
      have hpf := parseField_doc_present c col.num col.name col.kind m0 v col.name hw
      simp only [flatField] at hpf
      simp only [colNode, ht, hpf]
      have happ : setF m0 col.num v = m0 ++ [(col.num, v)] :=
        setF_append m0 col.num v (fun kv hkv => hm0 kv hkv col (by simp))
      have := ih (m0 ++ [(col.num, v)]) hsorted.2
        (fun kv hkv x hx => by
          rw [List.mem_append] at hkv
          cases hkv with
          | inl h1 => exact hm0 kv h1 x (by simp [hx])
          | inr h2 => simp at h2; subst h2; exact hsorted.1 x.num (List.mem_map_of_mem hx))
        (fun x hx => hfind x (by simp [hx])) (fun x hx => hwf x (by simp [hx]))
      rw [happ, this]
      simp [stated, hv, List.append_assoc]

/-- with pairwise distinct names, a node that lists the columns' scalar children (in any order, among
other children with other names) satisfies the lookup hypothesis -/
theorem find_of_mem (children : List BNode) (col : Col)
    (hmem : (colNode col) ∈ children) (huniq : ∀ b ∈ children, BNode.name b = col.name → b = (colNode col)) :
    findChild children col.name = some (colNode col) := by
  unfold findChild
  induction children with
  | nil => simp at hmem
  | cons b bs ih =>
    by_cases hb : BNode.name b == col.name
    · have hbe := huniq b (by simp) (by simpa using hb)
      subst hbe
      simp [List.find?, hb]
    · simp only [List.find?, hb]
      apply ih
      · cases hmem with
        | head => simp [colNode, BNode.name] at hb
        | tail _ h => exact h
      · intro x hx; exact huniq x (by simp [hx])

end TableauVerif.Props.C09

namespace TableauVerif.Props.C09
open TableauVerif TableauVerif.Val TableauVerif.Model.TableParser TableauVerif.Model.XmlDoc
open TableauVerif.Model.DocParser (findChild wrapNode BNode.children BNode.value BNode.name foldNodes)
open TableauVerif.Props.C01 TableauVerif.Spec.C01

/-! ### a repeated element: the list of structs -/

/-- one element of the list as the document holds it: a node with (at least) the scalar children of `cols` -/
structure ElemDoc where
  node : BNode
  cols : List Col

/-- the element node exposes its columns (any order, any further children) and its values are canonical -/
def ElemDoc.WF (e : ElemDoc) (schema : List (Nat × Str × SKind)) : Prop :=
  e.cols.map (fun c => (c.num, c.name, c.kind)) = schema ∧
  (e.cols.map (·.num)).Pairwise (· < ·) ∧
  (∀ col ∈ e.cols, findChild (BNode.children e.node) col.name = some (colNode col)) ∧
  (∀ col ∈ e.cols, ∀ v, col.val = some v → wfScalar col.kind v = true)

/-- what the elements state: one message per element that has a populated value, in document order -/
def statedList : List ElemDoc → List Val
  | [] => []
  | e :: rest => if e.cols.any (·.val.isSome) then .msg (stated e.cols) :: statedList rest else statedList rest

theorem fields_of_schema (schema : List (Nat × Str × SKind)) (cols : List Col)
    (h : cols.map (fun c => (c.num, c.name, c.kind)) = schema) :
    cols.map Col.field = schema.map (fun s => flatField s.1 s.2.1 s.2.2) := by
  rw [← h, List.map_map]; rfl

/-- the per-element step of the list loop in `parseListField` (struct elements) -/
def elemStep (c : Ctx) (sub : List TField) (elemNode : BNode) (l : List Val) : Model.TableParser.M (List Val) :=
  wrapNode elemNode (do
    let (em, p) ← Model.DocParser.parseFields c sub [] elemNode
    pure (if p then l ++ [.msg em] else l))

theorem fold_elems (c : Ctx) (schema : List (Nat × Str × SKind)) :
    ∀ (es : List ElemDoc) (acc : List Val), (∀ e ∈ es, e.WF schema) →
      foldNodes (elemStep c (schema.map (fun s => flatField s.1 s.2.1 s.2.2))) (es.map (·.node)) acc
        = .ok (acc ++ statedList es) := by
  intro es
  induction es with
  | nil => intro acc _; simp [foldNodes, statedList]
  | cons e rest ih =>
    intro acc hw
    obtain ⟨hs, hsorted, hfind, hvals⟩ := hw e (by simp)
    have hstep : elemStep c (schema.map (fun s => flatField s.1 s.2.1 s.2.2)) e.node acc
        = .ok (if e.cols.any (·.val.isSome) then acc ++ [.msg (stated e.cols)] else acc) := by
      cases hn : e.node with
      | mk k nn nv ch =>
        have hfind' : ∀ col ∈ e.cols, findChild ch col.name = some (colNode col) := by
          intro col hc; have := hfind col hc; simpa [hn, BNode.children] using this
        have hflat := C09_doc_flat_scalars_partial c k nn nv ch e.cols [] hsorted (by simp) hfind' hvals
        rw [fields_of_schema schema e.cols hs] at hflat
        simp [elemStep, hflat, wrapNode, wrapCol, bind, Except.bind, pure, Except.pure]
    rw [List.map_cons, foldNodes, hstep]
    simp only []
    rw [ih _ (fun x hx => hw x (by simp [hx]))]
    simp only [statedList]
    split <;> simp [List.append_assoc]

/-- **C09_doc_struct_list_partial**: a list node whose children are element nodes with scalar children: the
document parser appends one message per (non-empty) element, each holding exactly what the element states, in
document order — nothing lost, merged, duplicated or reordered, for any number of elements. -/
theorem C09_doc_struct_list_partial (c : Ctx) (num : Nat) (name protoName : Str) (schema : List (Nat × Str × SKind))
    (elems : List ElemDoc) (hwf : ∀ e ∈ elems, e.WF schema) (nodeName nodeValue : Str) (m : Msg) :
    Model.DocParser.parseField c
        (.mk num name [] .list .dflt false none none (schema.map (fun s => flatField s.1 s.2.1 s.2.2)) {} [] [] [] protoName) m
        (.mk .list nodeName nodeValue (elems.map (·.node)))
      = .ok (setList m num (getList m num ++ statedList elems),
             has (setList m num (getList m num ++ statedList elems)) num) := by
  have hk : (NKind.list == NKind.scalar) = false := by decide
  have hl : (Layout.dflt == Layout.incell) = false := by decide
  have hfold := fold_elems c schema elems (getList m num) hwf
  unfold elemStep at hfold
  simp only [Model.DocParser.parseField, Model.DocParser.BNode.kind, Model.DocParser.BNode.children, hl, hk,
    Bool.or_self, Bool.false_eq_true, if_false]
  rw [hfold]

end TableauVerif.Props.C09
