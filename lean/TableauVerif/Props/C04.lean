/-
C04 — Deterministic output: same input, byte-identical files.

Part 1: the inventory of order sources (every `range` over a Go map, every goroutine spawn in non-test
        code), REGENERATED from the source on every run, is exactly the classified list below: a new
        map iteration or spawn site breaks this obligation until it is classified.
Part 2: why each class is harmless — for all inputs: collect-then-sort yields the same sequence for
        every enumeration order; max/min accumulation and keyed insertion commute (see also
        `Props.C10.count_perm`); per-book results are collected by index (`Props.C11.C04_completion_independent`).
-/
import TableauVerif.Generated.Order
import TableauVerif.Props.C11
namespace TableauVerif.Props.C04
open TableauVerif

inductive Class where
  | commutativeAccumulate   -- body only folds with a commutative/idempotent operation (max, min, set insert, pool release)
  | collectThenSort         -- keys are collected and sorted (or inserted into an ordered set) before any use
  | independentTasks        -- one task per entry, tasks write pairwise distinct outputs
  | uniqueMatch             -- every entry is examined and two matching entries are refused (panic): no order in the result
deriving DecidableEq, Repr

/-- every map iteration of the code base, with the reason it cannot influence the output -/
def classified : List (String × Class) := [
  ("book.Book.ParseMetaAndPurge: range b.meta.MetasheetMap", .commutativeAccumulate),
  ("book.RowCells.Free: range rc.cells", .commutativeAccumulate),
  ("book.RowCells.GetCellCountWithPrefix: range r.cells", .commutativeAccumulate),
  ("book.RowCells.findCellRangeWithNamePrefix: range r.cells", .commutativeAccumulate),
  ("confgen.Generator.GenWorkbook: range primaryBookIndexInfo.books", .independentTasks),
  ("confgen.Generator.convert: range sheetMap", .independentTasks),
  ("confgen.buildWorkbookIndex: range bookIndexes", .commutativeAccumulate),
  ("confgen.buildWorkbookIndex: range relBookPaths", .commutativeAccumulate),
  ("confgen.buildWorkbookIndex: range v.books", .commutativeAccumulate),
  ("importer.sortedBookPaths: range relBookPaths", .collectThenSort),
  ("protogen.Generator.processSecondPass: range gen.cachedImporters", .independentTasks),
  ("protogen.bookExporter.export: range se.Imports", .collectThenSort),
  ("protogen.bookExporter.export: range x.ProtoFileOptions", .collectThenSort),
  ("strcase.Context.rangeAcronym: range ctx.acronyms", .uniqueMatch),
  ("strcase.New: range acronyms", .commutativeAccumulate),
  ("xfs.RewriteSubdir: range subdirRewrites", .collectThenSort)   -- since fix D10 (Props.C04Rewrite)
]

/-- **C04_inventory**: the map iterations found in the current source are exactly the classified ones -/
theorem C04_inventory : Generated.Order.mapRanges = classified.map (·.1) := by decide

def classifiedSpawns : List String := [
  "confgen.Generator.GenAll: errgroup.Go",
  "confgen.Generator.GenWorkbook: errgroup.Go",
  "confgen.ParseMessage: errgroup.Go",
  "confgen.sheetExporter.ScatterAndExport: errgroup.Go",
  "protogen.Generator.GenWorkbook: errgroup.Go",
  "protogen.Generator.generate: errgroup.Go",
  "protogen.Generator.processSecondPass: errgroup.Go"
]

/-- **C04_spawns**: the goroutine spawn sites are exactly the known fan-outs (per directory entry, per
workbook pass, per proto file, per merged / scattered book) -/
theorem C04_spawns : Generated.Order.spawns = classifiedSpawns := by decide

/-- **C04_collect_then_sort**: whatever order a map is enumerated in (any permutation of its keys), sorting
the collected keys yields the same sequence — the order the generated file / importer list is built in. -/
theorem C04_collect_then_sort (l₁ l₂ : List Nat) (h : l₁.Perm l₂) :
    l₁.mergeSort (fun a b => decide (a ≤ b)) = l₂.mergeSort (fun a b => decide (a ≤ b)) := by
  apply List.Perm.eq_of_pairwise (le := fun a b => decide (a ≤ b))
  · intro a b _ _ hab hba
    simp at hab hba
    omega
  · exact List.pairwise_mergeSort (fun a b c hab hbc => by simp at *; omega) (fun a b => by simp; omega) l₁
  · exact List.pairwise_mergeSort (fun a b c hab hbc => by simp at *; omega) (fun a b => by simp; omega) l₂
  · exact ((List.mergeSort_perm l₁ _).trans h).trans (List.mergeSort_perm l₂ _).symm

/-- max-accumulation is independent of the enumeration order -/
theorem C04_max_accumulate (l₁ l₂ : List Nat) (h : l₁.Perm l₂) (z : Nat) :
    l₁.foldl max z = l₂.foldl max z := by
  induction h generalizing z with
  | nil => rfl
  | cons x _ ih => simp only [List.foldl]; exact ih _
  | swap x y l => simp only [List.foldl]; congr 1; omega
  | trans _ _ ih₁ ih₂ => rw [ih₁, ih₂]

/-- the merge part: per-book results do not depend on the completion order of the workers -/
theorem C04_merge_completion (n : Nat) (c₁ c₂ : List (Nat × Model.Sheets.Msg)) (hp : c₁.Perm c₂)
    (hn : (c₁.map (·.1)).Nodup) : Model.Sheets.collect n c₁ = Model.Sheets.collect n c₂ :=
  Props.C11.C04_completion_independent n c₁ c₂ hp hn

end TableauVerif.Props.C04
