/-
C12 — contiguity of horizontal list elements (E2016), for lists of any length.

`hlistLoop` is the element loop of `parseHorizontalListField` (model `Model.TableParser`, tied to the code by
`corr.confgen.tableParse` and `e2e.C12.contiguity`). For a list that is not fixed-size:
* present elements followed only by absent ones are accepted, and the list holds exactly the present elements,
  in order (`C12_hlist_accept`);
* a present element after an absent one is rejected with E2016, reported at that element's column
  (`C12_hlist_reject`).
-/
import TableauVerif.Model.TableParser
namespace TableauVerif.Props.C12Contig
open TableauVerif TableauVerif.Val TableauVerif.Model.TableParser

/-- element `i` (1-based) of the row is `es[i-1]`, parsed without error -/
def ElemsAre (elemAt : Nat → M (Val × Bool)) (start : Nat) (es : List (Val × Bool)) : Prop :=
  ∀ j (hj : j < es.length), elemAt (start + j) = .ok es[j]

theorem elemsAre_tail {elemAt : Nat → M (Val × Bool)} {start : Nat} {e : Val × Bool} {es : List (Val × Bool)}
    (h : ElemsAre elemAt start (e :: es)) : elemAt start = .ok e ∧ ElemsAre elemAt (start + 1) es := by
  refine ⟨?_, fun j hj => ?_⟩
  · have := h 0 (by simp)
    simpa using this
  · have := h (j + 1) (by simp; omega)
    simpa [Nat.add_assoc, Nat.add_comm 1 j] using this

/-- one iteration of the loop on an element that parses -/
theorem loop_step (p : FProp) (elemAt : Nat → M (Val × Bool)) (colAt : Nat → Str) (n i fn : Nat) (acc : List Val)
    (v : Val) (pr : Bool) (h0 : elemAt i = .ok (v, pr)) :
    hlistLoop p elemAt colAt (n + 1) i fn acc =
      if fn != 0 then
        (if pr then .error { code := 2016, col := some (colAt i) } else hlistLoop p elemAt colAt n (i + 1) fn acc)
      else if !pr && !isFixed p then hlistLoop p elemAt colAt n (i + 1) i acc
      else hlistLoop p elemAt colAt n (i + 1) fn (acc ++ [v]) := by
  rw [hlistLoop]
  simp only [h0, wrapCol, bind, Except.bind]
  split
  · split
    · rfl
    · rfl
  · rfl

/-- after an absent element has been seen (`firstNone ≠ 0`), absent elements are skipped -/
theorem loop_absent (p : FProp) (elemAt : Nat → M (Val × Bool)) (colAt : Nat → Str) :
    ∀ (abs : List (Val × Bool)) (i fn : Nat) (acc : List Val), fn ≠ 0 → (∀ e ∈ abs, e.2 = false) →
      ElemsAre elemAt i abs →
      ∀ (more : Nat), hlistLoop p elemAt colAt (more + abs.length) i fn acc = hlistLoop p elemAt colAt more (i + abs.length) fn acc := by
  intro abs
  induction abs with
  | nil => intro i fn acc _ _ _ more; simp
  | cons e rest ih =>
    intro i fn acc hfn habs hel more
    obtain ⟨h0, hrest⟩ := elemsAre_tail hel
    obtain ⟨v, pr⟩ := e
    have hpr : pr = false := habs (v, pr) (by simp)
    subst hpr
    have hfn' : (fn != 0) = true := by simpa using hfn
    have : more + ((v, false) :: rest).length = (more + rest.length) + 1 := by simp; omega
    rw [this, loop_step p elemAt colAt _ i fn acc v false h0]
    simp only [hfn', if_true, Bool.false_eq_true, if_false]
    rw [ih (i + 1) fn acc hfn (fun x hx => habs x (by simp [hx])) hrest more]
    congr 1; simp; omega

/-- **C12_hlist_accept**: present elements, then absent ones — accepted, the list is the present elements in order -/
theorem C12_hlist_accept (p : FProp) (hnf : isFixed p = false) (elemAt : Nat → M (Val × Bool)) (colAt : Nat → Str) :
    ∀ (pres abs : List (Val × Bool)) (i : Nat) (acc : List Val), i ≠ 0 →
      (∀ e ∈ pres, e.2 = true) → (∀ e ∈ abs, e.2 = false) → ElemsAre elemAt i (pres ++ abs) →
      hlistLoop p elemAt colAt (pres ++ abs).length i 0 acc = .ok (acc ++ pres.map (·.1)) := by
  intro pres
  induction pres with
  | nil =>
    intro abs i acc hi _ habs hel
    cases abs with
    | nil => simp [hlistLoop]
    | cons e rest =>
      obtain ⟨h0, hrest⟩ := elemsAre_tail (by simpa using hel)
      obtain ⟨v, pr⟩ := e
      have hpr : pr = false := habs (v, pr) (by simp)
      subst hpr
      have : ([] ++ (v, false) :: rest).length = rest.length + 1 := by simp
      rw [this, loop_step p elemAt colAt _ i 0 acc v false h0]
      simp only [bne_self_eq_false, Bool.false_eq_true, if_false, Bool.not_false, hnf, Bool.and_self, if_true]
      have := loop_absent p elemAt colAt rest (i + 1) i acc hi (fun x hx => habs x (by simp [hx])) hrest 0
      simp only [Nat.zero_add] at this
      rw [this]; simp [hlistLoop]
  | cons e rest ih =>
    intro abs i acc hi hpres habs hel
    obtain ⟨h0, hrest⟩ := elemsAre_tail (by simpa using hel)
    obtain ⟨v, pr⟩ := e
    have hpr : pr = true := hpres (v, pr) (by simp)
    subst hpr
    have : ((v, true) :: rest ++ abs).length = (rest ++ abs).length + 1 := by simp
    rw [this, loop_step p elemAt colAt _ i 0 acc v true h0]
    simp only [bne_self_eq_false, Bool.false_eq_true, if_false, Bool.not_true, Bool.false_and]
    rw [ih abs (i + 1) (acc ++ [v]) (by omega) (fun x hx => hpres x (by simp [hx])) habs hrest]
    simp [List.append_assoc]

/-- **C12_hlist_reject**: a present element after an absent one is E2016, reported at that element's column,
whatever follows -/
theorem C12_hlist_reject (p : FProp) (hnf : isFixed p = false) (elemAt : Nat → M (Val × Bool)) (colAt : Nat → Str) :
    ∀ (pres : List (Val × Bool)) (a : Val × Bool) (abs : List (Val × Bool)) (v : Val) (rest : List (Val × Bool))
      (i : Nat) (acc : List Val), i ≠ 0 →
      (∀ e ∈ pres, e.2 = true) → a.2 = false → (∀ e ∈ abs, e.2 = false) →
      ElemsAre elemAt i (pres ++ a :: abs ++ (v, true) :: rest) →
      hlistLoop p elemAt colAt (pres ++ a :: abs ++ (v, true) :: rest).length i 0 acc =
        .error { code := 2016, col := some (colAt (i + pres.length + 1 + abs.length)) } := by
  intro pres
  induction pres with
  | nil =>
    intro a abs v rest i acc hi _ ha habs hel
    obtain ⟨h0, hrest⟩ := elemsAre_tail (by simpa using hel)
    obtain ⟨av, apr⟩ := a
    simp only at ha
    subst ha
    have hlen : ([] ++ (av, false) :: abs ++ (v, true) :: rest).length = ((rest.length + 1) + abs.length) + 1 := by
      simp; omega
    rw [hlen, loop_step p elemAt colAt _ i 0 acc av false h0]
    simp only [bne_self_eq_false, Bool.false_eq_true, if_false, Bool.not_false, hnf, Bool.and_self, if_true]
    -- skip the further absent elements
    have hsplit : ElemsAre elemAt (i + 1) abs := fun j hj => by
      have := hrest j (by simp; omega)
      simpa [List.getElem_append_left hj] using this
    rw [loop_absent p elemAt colAt abs (i + 1) i acc hi habs hsplit (rest.length + 1)]
    have hv : elemAt (i + 1 + abs.length) = .ok (v, true) := by
      have := hrest abs.length (by simp)
      simpa using this
    have hfn' : (i != 0) = true := by simpa using hi
    rw [loop_step p elemAt colAt _ _ i acc v true hv]
    simp [hfn']
  | cons e pres ih =>
    intro a abs v rest i acc hi hpres ha habs hel
    obtain ⟨h0, hrest⟩ := elemsAre_tail (by simpa using hel)
    obtain ⟨ev, epr⟩ := e
    have hpr : epr = true := hpres (ev, epr) (by simp)
    subst hpr
    have hlen : ((ev, true) :: pres ++ a :: abs ++ (v, true) :: rest).length = (pres ++ a :: abs ++ (v, true) :: rest).length + 1 := by
      simp
    rw [hlen, loop_step p elemAt colAt _ i 0 acc ev true h0]
    simp only [bne_self_eq_false, Bool.false_eq_true, if_false, Bool.not_true, Bool.false_and]
    have := ih a abs v rest (i + 1) (acc ++ [ev]) (by omega) (fun x hx => hpres x (by simp [hx])) ha habs
      (by simpa using hrest)
    rw [this]
    have hidx : i + 1 + pres.length + 1 + abs.length = i + ((ev, true) :: pres).length + 1 + abs.length := by
      simp only [List.length_cons]; omega
    rw [hidx]

-- the premises are satisfiable (test, labelled as a test): 7, 8 present, then a gap, then 9
example :
    hlistLoop {} (fun i => .ok ([(Val.int 7, true), (.int 8, true), (.int 0, false), (.int 9, true)].getD (i - 1) (.int 0, false)))
      (fun i => Str.decimal i) 4 1 0 [] = .error { code := 2016, col := some (Str.decimal 4) } := by
  rfl

end TableauVerif.Props.C12Contig
