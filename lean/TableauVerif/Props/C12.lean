/-
C12 — Field-property constraints are enforced exactly (range part; sequence / size helpers).
-/
import TableauVerif.Model.FieldProp
import TableauVerif.Spec.C12
namespace TableauVerif.Props.C12
open TableauVerif TableauVerif.Model.Literal TableauVerif.Model.FieldProp TableauVerif.Spec.C12

/-- **C12_range_total**: the range check never panics, whatever the range text (a range without a
comma is an ordinary "invalid range" error since fix D4). -/
theorem C12_range_total (range : Str) (k : RKind) (v : Int) (p pp : Bool) :
    checkInRange range k v p pp ≠ .panic := by
  have right : ∀ (r : Str), (if (trimSpace r == tilde) = true then RRes.ok
        else match parseBound k (trimSpace r) with
          | none => RRes.invalid
          | some hi => if v > hi then RRes.e2004 else RRes.ok) ≠ .panic := by
    intro r
    by_cases h2 : (trimSpace r == tilde) = true
    · simp [h2]
    · simp only [h2, if_false]
      cases parseBound k (trimSpace r) with
      | none => simp
      | some hi => by_cases hv : v > hi <;> simp [hv]
  unfold checkInRange
  split; · simp
  split; · simp
  split; · simp
  rename_i l r _
  split; · simp
  by_cases h1 : (trimSpace l == tilde) = true
  · simp only [h1, if_true]
    exact right r
  · simp only [h1, if_false]
    cases parseBound k (trimSpace l) with
    | none => simp
    | some lo =>
      by_cases hv : v < lo
      · simp [hv]
      · simp only [hv, if_false]
        exact right r

theorem readBound_open (k : RKind) (s : Str) (h : readBound k s = .open_) : trimSpace s = tilde := by
  unfold readBound at h
  by_cases ht : trimSpace s = tilde
  · exact ht
  · have : (trimSpace s == tilde) = false := by simpa using ht
    simp only [this] at h
    cases k <;> simp at h <;> split at h <;> simp at h

theorem readBound_at (k : RKind) (s : Str) (n : Int) (h : readBound k s = .at_ n) :
    (trimSpace s == tilde) = false ∧ parseBound k (trimSpace s) = some n := by
  unfold readBound at h
  by_cases ht : trimSpace s = tilde
  · simp [ht] at h
  · have hf : (trimSpace s == tilde) = false := by simpa using ht
    simp only [hf] at h
    refine ⟨hf, ?_⟩
    cases k
    · simp at h; split at h <;> simp at h; rename_i m hm; subst h; simp [parseBound, hm]
    · simp at h; split at h <;> simp at h; rename_i m hm; subst h; simp [parseBound, hm]
    · simp at h; split at h <;> simp at h; rename_i m hm; subst h; simp [parseBound, hm]
    · simp at h; split at h <;> simp at h; rename_i m hm; subst h; simp [parseBound, hm]

/-- **C12_range_iff**: for every numeric/string-length kind, every well-formed range text (open ends
`~`, equal bounds, int64/uint64 extremes) and every value: the check accepts iff the value is in
the denoted set, and otherwise rejects with E2004. -/
theorem C12_range_iff (range : Str) (k : RKind) (hk : k ≠ .other) (v : Int) (pp : Bool) (b : Bound × Bound)
    (hne : (trimSpace range).isEmpty = false) (hd : denote k range = some b) :
    checkInRange range k v true pp = (if contains b v then .ok else .e2004) := by
  unfold denote at hd
  unfold checkInRange
  simp only [hne, Bool.false_eq_true, if_false, Bool.not_true, Bool.false_and]
  cases hs : Str.splitFirst comma range with
  | none => simp [hs] at hd
  | some lr =>
    obtain ⟨l, r⟩ := lr
    simp only [hs] at hd
    have hko : (k == RKind.other) = false := by cases k <;> simp at hk ⊢
    simp only [hko, Bool.false_eq_true, if_false]
    cases hl : readBound k l with
    | bad => simp [hl] at hd
    | open_ =>
      have htl := readBound_open k l hl
      cases hr : readBound k r with
      | bad => simp [hl, hr] at hd
      | open_ =>
        have htr := readBound_open k r hr
        simp [hl, hr] at hd; subst hd
        simp [htl, htr, contains]
      | at_ hi =>
        obtain ⟨hf, hp⟩ := readBound_at k r hi hr
        simp [hl, hr] at hd; subst hd
        simp only [htl, hf, hp, contains]
        by_cases hv : v > hi
        · have : ¬ v ≤ hi := by omega
          simp [hv, this]
        · have : v ≤ hi := by omega
          simp [hv, this]
    | at_ lo =>
      obtain ⟨hfl, hpl⟩ := readBound_at k l lo hl
      cases hr : readBound k r with
      | bad => simp [hl, hr] at hd
      | open_ =>
        have htr := readBound_open k r hr
        simp [hl, hr] at hd; subst hd
        simp only [hfl, hpl, htr, contains]
        by_cases hv : v < lo
        · have : ¬ lo ≤ v := by omega
          simp [hv, this]
        · have : lo ≤ v := by omega
          simp [hv, this]
      | at_ hi =>
        obtain ⟨hfr, hpr⟩ := readBound_at k r hi hr
        simp [hl, hr] at hd; subst hd
        simp only [hfl, hpl, hfr, hpr, contains]
        by_cases hv : v < lo
        · have : ¬ lo ≤ v := by omega
          simp [hv, this]
        · have h1 : lo ≤ v := by omega
          by_cases hv2 : v > hi
          · have : ¬ v ≤ hi := by omega
            simp [hv, hv2, h1, this]
          · have : v ≤ hi := by omega
            simp [hv, hv2, h1, this]

/-- a satisfied or absent constraint never causes an error: no range ⇒ ok -/
theorem C12_norange_ok (k : RKind) (v : Int) (p pp : Bool) : checkInRange [] k v p pp = .ok := by
  simp [checkInRange, trimSpace, Str.trim, Str.dropWhileEnd]

/-- **C12_sequence_iff** (signed keys): with keys added one at a time under the check, the accepted
key sets are exactly the runs `n, n+1, …` (each new key is the start value or a successor). -/
theorem C12_sequence_first (s key : Int) : checkSequence (some s) key [] = (s == key) := by
  simp [checkSequence]

theorem C12_sequence_next (s key : Int) (k0 : Int) (ks : List Int) :
    checkSequence (some s) key (k0 :: ks) = (k0 :: ks).contains (key - 1) := by
  simp [checkSequence]

/-- size/fixed: an explicit size wins over `fixed`; otherwise the detected size when fixed, else "not fixed" -/
theorem C12_size (fixed : Bool) (size detected : Nat) :
    getSize fixed size detected = (if size > 0 then size else if fixed then detected else 0) ∧
    isFixed fixed size = (fixed || decide (size > 0)) := by
  simp [getSize, isFixed]

-- non-vacuity: "1,~" on an unsigned kind denotes [1, ∞) and 0 is outside, 18446744073709551615 inside
example : denote .unsigned (Str.ofString " 1 , ~") = some (.at_ 1, .open_) ∧
    checkInRange (Str.ofString " 1 , ~") .unsigned 0 true false = .e2004 ∧
    checkInRange (Str.ofString " 1 , ~") .unsigned 18446744073709551615 true false = .ok := by decide

end TableauVerif.Props.C12
