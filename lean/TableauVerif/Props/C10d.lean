/-
C10 (d) — removing an entirely blank column of an optional field, for sheets of scalar columns (any number of them, under
any column-name prefix): when every field is optional (the sheet option), a column that is absent reads exactly like a
column whose cell is blank — both are the empty virtual cell — so the line parses to the same message
(`C10d_flat_scalars_partial`).

(Partial: scalar columns. Aggregates — where element counting also looks at the columns — are covered by the pair kind
`dropblank` of `corr.confgen.layoutPairs`, real parser and model.)
-/
import TableauVerif.Props.C01
namespace TableauVerif.Props.C10d
open TableauVerif TableauVerif.Val TableauVerif.Model.TableParser TableauVerif.Props.C01

/-- the two lines show the same cells, except that a blank cell of the first may be missing from the second -/
def SameUpToBlank (acc acc' : RowAcc) (n : Str) : Prop :=
  acc'.dat n = acc.dat n ∨ (acc.dat n = some [] ∧ acc'.dat n = none)

theorem cellOf_optional (acc acc' : RowAcc) (n : Str) (h : SameUpToBlank acc acc' n) :
    cellOf acc' n true = cellOf acc n true := by
  rcases h with h | ⟨h1, h2⟩
  · simp [cellOf, h]
  · simp [cellOf, h1, h2]

theorem parseField_flat_optional (c : Ctx) (hopt : c.sheetOptional = true) (acc acc' : RowAcc) (num : Nat) (name : Str)
    (k : SKind) (m : Msg) (pre : Str) (h : SameUpToBlank acc acc' (pre ++ name)) :
    parseField c acc' (flatField num name k) m pre = parseField c acc (flatField num name k) m pre := by
  have ho : c.isOptional (flatField num name k) = true := by simp [Ctx.isOptional, hopt]
  simp only [flatField] at ho
  simp only [flatField, parseField, ho, cellOf_optional acc acc' (pre ++ name) h]

/-- **C10d_flat_scalars_partial** -/
theorem C10d_flat_scalars_partial (c : Ctx) (hopt : c.sheetOptional = true) (acc acc' : RowAcc) (pre : Str)
    (cols : List (Nat × Str × SKind)) :
    ∀ (m : Msg), (∀ col ∈ cols, SameUpToBlank acc acc' (pre ++ col.2.1)) →
      parseFields c acc' (cols.map fun s => flatField s.1 s.2.1 s.2.2) m pre =
      parseFields c acc (cols.map fun s => flatField s.1 s.2.1 s.2.2) m pre := by
  induction cols with
  | nil => intro m _; simp [parseFields]
  | cons col rest ih =>
    intro m h
    simp only [List.map_cons, parseFields]
    rw [parseField_flat_optional c hopt acc acc' col.1 col.2.1 col.2.2 m pre (h col (by simp))]
    cases hp : parseField c acc (flatField col.1 col.2.1 col.2.2) m pre with
    | error e => rfl
    | ok r =>
      obtain ⟨m1, p1⟩ := r
      simp only [bind, Except.bind]
      rw [ih m1 (fun x hx => h x (by simp [hx]))]

/-- the premises are met: a line whose column `Num` is blank, and the same line without that column -/
example : SameUpToBlank
    { dat := fun n => if n = Str.ofString "ID" then some (Str.ofString "7") else if n = Str.ofString "Num" then some [] else none, count := fun _ => 0 }
    { dat := fun n => if n = Str.ofString "ID" then some (Str.ofString "7") else none, count := fun _ => 0 }
    (Str.ofString "Num") := by
  right; constructor <;> decide

end TableauVerif.Props.C10d
