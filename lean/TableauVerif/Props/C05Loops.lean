/-
C05 / C18 — goroutines started in a loop do not share the loop variable.

The module declares a language version before go 1.22 (one variable per `for` statement, not per iteration): a function
literal started as a goroutine inside a loop must not mention the loop variable unless the body re-binds it first
(`v := v`); otherwise the loop writes the variable while the goroutines read it (a data race, and work done for the
wrong element). `Generated/LoopVars.lean` lists every such mention in the current source.
-/
import TableauVerif.Generated.LoopVars
namespace TableauVerif.Props.C05Loops
open TableauVerif.Generated.LoopVars

/-- per-iteration loop variables came with go 1.22 -/
def perIteration : Bool := goMajor > 1 || (goMajor == 1 && goMinor ≥ 22)

/-- **pin_no_shared_loop_variable**: either the language gives every iteration its own variable, or no goroutine closure
of the current source mentions an un-rebound loop variable -/
theorem pin_no_shared_loop_variable : perIteration = true ∨ captures = [] := by
  decide

end TableauVerif.Props.C05Loops
