/-
C12 / C03 / C10 — how many elements a horizontal list or map has (`GetCellCountWithPrefix`, model `Row.count`): every
element column `<prefix><k><rest>` present in the line is counted — the detected size is at least `k`, for EVERY index
`k` (one digit or many: 9, 10, 11, 100 …), wherever the column stands (`C12_every_element_column_counted`). So no element
column of an accepted sheet lies beyond the size the parsers loop to.
-/
import TableauVerif.Model.TableParser
import TableauVerif.Lemmas.Decimal
namespace TableauVerif.Props.C12Count
open TableauVerif TableauVerif.Str TableauVerif.Model.TableParser

/-- digits followed by something that is no digit: the leading number is the digits' value -/
theorem leadingNumber_digits (s rest : Str) (hs : ∀ c ∈ s, isDigit c = true)
    (hr : ∀ c, rest.head? = some c → isDigit c = false) :
    ∀ (acc v : Nat), parseNatAux s acc = some v → leadingNumber (s ++ rest) acc = v := by
  induction s with
  | nil =>
    intro acc v h
    simp only [parseNatAux, Option.some.injEq] at h
    subst h
    cases rest with
    | nil => simp [leadingNumber]
    | cons c cs => simp [leadingNumber, hr c rfl]
  | cons c cs ih =>
    intro acc v h
    have hc := hs c (by simp)
    simp only [parseNatAux, hc, if_true] at h
    simp only [List.cons_append, leadingNumber, hc, if_true]
    exact ih (fun x hx => hs x (by simp [hx])) _ _ h

theorem leadingNumber_decimal (k : Nat) (rest : Str) (hr : ∀ c, rest.head? = some c → isDigit c = false) :
    leadingNumber (decimal k ++ rest) 0 = k := by
  have hne := Lemmas.Decimal.decimal_ne_nil k
  have hp := Lemmas.Decimal.parseNat_decimal k
  have hd : parseNatAux (decimal k) 0 = some k := by
    unfold parseNat at hp
    cases hdn : decimal k with
    | nil => exact absurd hdn hne
    | cons c cs => rw [hdn] at hp; simpa using hp
  exact leadingNumber_digits (decimal k) rest (Lemmas.Decimal.decimal_digits k) hr 0 k hd

theorem foldl_cellCount_ge (pre : Str) (cells : List (Str × Str × Bool)) :
    ∀ (acc : Nat), acc ≤ cells.foldl (cellCount pre) acc := by
  induction cells with
  | nil => intro acc; simp
  | cons c rest ih =>
    intro acc
    simp only [List.foldl_cons]
    have h1 : acc ≤ cellCount pre acc c := by
      unfold cellCount; split <;> omega
    exact Nat.le_trans h1 (ih _)

theorem foldl_cellCount_mem (pre : Str) (cells : List (Str × Str × Bool)) (c : Str × Str × Bool) (hc : c ∈ cells) :
    ∀ (acc : Nat), cellCount pre 0 c ≤ cells.foldl (cellCount pre) acc := by
  induction cells with
  | nil => simp at hc
  | cons x rest ih =>
    intro acc
    simp only [List.foldl_cons]
    rcases List.mem_cons.mp hc with h | h
    · subst h
      have h1 : cellCount pre 0 c ≤ cellCount pre acc c := by
        unfold cellCount; split <;> omega
      exact Nat.le_trans h1 (foldl_cellCount_ge pre rest _)
    · exact ih h _

/-- **C12_every_element_column_counted** -/
theorem C12_every_element_column_counted (r : Row) (pre rest d : Str) (a : Bool) (k : Nat)
    (hcell : (pre ++ decimal k ++ rest, d, a) ∈ r.cells)
    (hr : ∀ c, rest.head? = some c → isDigit c = false) :
    k ≤ r.count pre := by
  have h := foldl_cellCount_mem pre r.cells _ hcell 0
  have hk : cellCount pre 0 (pre ++ decimal k ++ rest, d, a) = k := by
    have hp : pre.isPrefixOf (pre ++ decimal k ++ rest) = true := by
      rw [List.append_assoc]; simp
    have hdrop : (pre ++ decimal k ++ rest).drop pre.length = decimal k ++ rest := by
      rw [List.append_assoc]; simp
    simp only [cellCount, hp, if_true, hdrop, leadingNumber_decimal k rest hr]
    omega
  rw [hk] at h
  exact h

/-- the tenth element of a line is counted (the case the string-compared ordinal loses) -/
example : 10 ≤ (Row.mk [(Str.ofString "Item9ID", [], false), (Str.ofString "Item10ID", [], false)] 3 false).count (Str.ofString "Item") := by
  decide

end TableauVerif.Props.C12Count
