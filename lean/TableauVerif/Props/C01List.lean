/-
C01 (continued) — in-cell lists: what is written is what is read.

* `splitOn_joinWith`: splitting at a one-character separator inverts joining with it, for every non-empty
  list of parts that do not contain the separator (unbounded number and length of parts);
* `splitStr_single`: the model of `strings.Split` (with its search loop) agrees with the structural split
  for one-character separators;
* `C01_incell_list_roundtrip`: for a plain scalar list column (no field property, no key) with the default
  separator `,`, the cell written by the specification's writer for a non-empty list of canonical element
  values is read back by `parseListElems` as exactly that list, present — integers of any kind (zero
  included), booleans, and non-empty strings without a comma.
-/
import TableauVerif.Props.C01
namespace TableauVerif.Props.C01
open TableauVerif TableauVerif.Val TableauVerif.Model.TableParser TableauVerif.Spec.C01
open TableauVerif.Model.Literal

/-! ### split and join -/

theorem splitOn_no_sep (c : Nat) (p : Str) (h : c ∉ p) : Str.splitOn c p = [p] := by
  induction p with
  | nil => rfl
  | cons x xs ih =>
    have hx : x ≠ c := by intro e; subst e; simp at h
    have hxs : c ∉ xs := by intro e; exact h (by simp [e])
    simp [Str.splitOn, hx, ih hxs]

theorem splitOn_append_sep (c : Nat) (p rest : Str) (h : c ∉ p) :
    Str.splitOn c (p ++ c :: rest) = p :: Str.splitOn c rest := by
  induction p with
  | nil => simp [Str.splitOn]
  | cons x xs ih =>
    have hx : x ≠ c := by intro e; subst e; simp at h
    have hxs : c ∉ xs := by intro e; exact h (by simp [e])
    simp [Str.splitOn, hx, ih hxs]

/-- **splitOn_joinWith** -/
theorem splitOn_joinWith (c : Nat) (parts : List Str) (hne : parts ≠ []) (h : ∀ p ∈ parts, c ∉ p) :
    Str.splitOn c (joinWith [c] parts) = parts := by
  induction parts with
  | nil => exact absurd rfl hne
  | cons p rest ih =>
    cases rest with
    | nil => simp [joinWith]; exact splitOn_no_sep c p (h p (by simp))
    | cons q qs =>
      have : joinWith [c] (p :: q :: qs) = p ++ c :: joinWith [c] (q :: qs) := by simp [joinWith]
      rw [this, splitOn_append_sep c p _ (h p (by simp))]
      rw [ih (by simp) (fun x hx => h x (by simp [hx]))]

/-- prepend to the first piece -/
def prependFirst (a : Str) : List Str → List Str
  | [] => [a]
  | p :: ps => (a ++ p) :: ps

theorem splitOn_ne_nil (c : Nat) (s : Str) : Str.splitOn c s ≠ [] := by
  induction s with
  | nil => simp [Str.splitOn]
  | cons x xs ih =>
    unfold Str.splitOn
    split
    · simp
    · cases h : Str.splitOn c xs with
      | nil => exact absurd h ih
      | cons p ps => simp

theorem splitStr_go_single (c : Nat) (rest cur : Str) (fuel : Nat) (hf : rest.length ≤ fuel) :
    splitStr.go [c] rest cur fuel = prependFirst cur.reverse (Str.splitOn c rest) := by
  induction fuel generalizing rest cur with
  | zero =>
    have : rest = [] := by cases rest <;> simp_all
    subst this
    simp [splitStr.go, Str.splitOn, prependFirst]
  | succ fuel ih =>
    cases rest with
    | nil => simp [splitStr.go, Str.splitOn, prependFirst]
    | cons x xs =>
      have hlen : xs.length ≤ fuel := by simp at hf; omega
      by_cases hx : x = c
      · subst hx
        have hpre : List.isPrefixOf [x] (x :: xs) = true := by simp [List.isPrefixOf]
        simp only [splitStr.go, hpre, if_true, List.length_singleton, List.drop_succ_cons, List.drop_zero]
        rw [ih xs [] hlen]
        cases hs : Str.splitOn x xs with
        | nil => exact absurd hs (splitOn_ne_nil x xs)
        | cons p ps => simp [Str.splitOn, hs, prependFirst]
      · have hpre : List.isPrefixOf [c] (x :: xs) = false := by
          simp [List.isPrefixOf]; exact fun e => hx e.symm
        simp only [splitStr.go, hpre, Bool.false_eq_true, if_false]
        rw [ih xs (x :: cur) hlen]
        cases hs : Str.splitOn c xs with
        | nil => exact absurd hs (splitOn_ne_nil c xs)
        | cons p ps => simp [Str.splitOn, hx, hs, prependFirst]

/-- **splitStr_single**: for a one-character separator the search loop of `strings.Split` is the structural split -/
theorem splitStr_single (c : Nat) (s : Str) : splitStr [c] s = Str.splitOn c s := by
  unfold splitStr
  simp only [List.isEmpty_cons, Bool.false_eq_true, if_false]
  rw [splitStr_go_single c s [] s.length (Nat.le_refl _)]
  cases hs : Str.splitOn c s with
  | nil => exact absurd hs (splitOn_ne_nil c s)
  | cons p ps => simp [prependFirst]


/-! ### list elements -/

/-- a canonical list element of a kind: any in-range integer (zero included), a boolean, a non-empty string
without a comma -/
def wfElem : SKind → Val → Bool
  | .int32, .int n => Spec.C03.inRange .int32 n
  | .uint32, .int n => Spec.C03.inRange .uint32 n
  | .int64, .int n => Spec.C03.inRange .int64 n
  | .uint64, .int n => Spec.C03.inRange .uint64 n
  | .bool, .int n => n == 0 || n == 1
  | .string, .str s => !s.isEmpty && s.all (· != 44)
  | _, _ => false

theorem elem_roundtrip (k : SKind) (v : Val) (h : wfElem k v = true) :
    parseLit k (scalarText k (some v)) = .ok (v, true) := by
  cases k with
  | int32 =>
    cases v <;> simp [wfElem] at h
    rename_i n
    rw [scalarText_int _ _ (by decide) (by decide)]
    simp [parseLit, toLitKind, Props.C03.C03_int32_exact n h]
  | uint32 =>
    cases v <;> simp [wfElem] at h
    rename_i n
    rw [scalarText_int _ _ (by decide) (by decide)]
    simp [parseLit, toLitKind, Props.C03.C03_uint32_exact n h]
  | int64 =>
    cases v <;> simp [wfElem] at h
    rename_i n
    rw [scalarText_int _ _ (by decide) (by decide)]
    simp [parseLit, toLitKind, Props.C03.C03_int64_exact n h]
  | uint64 =>
    cases v <;> simp [wfElem] at h
    rename_i n
    rw [scalarText_int _ _ (by decide) (by decide)]
    simp [parseLit, toLitKind, Props.C03.C03_uint64_exact n h]
  | bool =>
    cases v <;> simp [wfElem] at h
    rcases h with h | h <;> subst h <;> rfl
  | string =>
    cases v <;> simp [wfElem] at h
    rename_i s
    have hs : s.isEmpty = false := by cases s <;> simp_all
    simp [parseLit, toLitKind, scalarText, hs]

theorem decimalInt_no_comma (n : Int) : (44 : Nat) ∉ Spec.C03.decimalInt n := by
  unfold Spec.C03.decimalInt
  have hd : ∀ m : Nat, (44 : Nat) ∉ Str.decimal m := by
    intro m hm
    have := Lemmas.Decimal.decimal_digits m 44 hm
    simp [Str.isDigit] at this
  split
  · intro hm
    simp only [List.mem_cons] at hm
    rcases hm with h | h
    · omega
    · exact hd _ h
  · exact hd _

theorem elem_text_no_comma (k : SKind) (v : Val) (h : wfElem k v = true) : (44 : Nat) ∉ scalarText k (some v) := by
  cases k with
  | int32 => cases v <;> simp [wfElem] at h; rw [scalarText_int _ _ (by decide) (by decide)]; exact decimalInt_no_comma _
  | uint32 => cases v <;> simp [wfElem] at h; rw [scalarText_int _ _ (by decide) (by decide)]; exact decimalInt_no_comma _
  | int64 => cases v <;> simp [wfElem] at h; rw [scalarText_int _ _ (by decide) (by decide)]; exact decimalInt_no_comma _
  | uint64 => cases v <;> simp [wfElem] at h; rw [scalarText_int _ _ (by decide) (by decide)]; exact decimalInt_no_comma _
  | bool =>
    cases v <;> simp [wfElem] at h
    rcases h with h | h <;> subst h <;> decide
  | string =>
    cases v <;> simp [wfElem] at h
    rename_i s
    simp only [scalarText]
    intro hm
    have := h.2 44 hm
    simp at this

/-- a plain scalar list column: no key, no field property -/
def plainList (num : Nat) (name : Str) (k : SKind) : TField :=
  .mk num name [] .list .incell false (some k) none [] {} [] [] [] name

theorem go_plain (num : Nat) (name : Str) (k : SKind) (subsep : Str) (size : Nat) (vals : List Val)
    (hwf : ∀ v ∈ vals, wfElem k v = true) :
    ∀ (i : Nat) (acc : List Val), i + vals.length ≤ size + 1 →
      parseListElems.go (plainList num name k) subsep size (vals.map fun v => scalarText k (some v)) i 0 acc
        = .ok (acc ++ vals) := by
  induction vals with
  | nil => intro i acc _; simp [parseListElems.go]
  | cons v rest ih =>
    intro i acc hi
    have hv := hwf v (by simp)
    have hp : parseListElem (plainList num name k) (scalarText k (some v)) subsep = .ok (v, true) := by
      simp only [parseListElem, plainList, TField.kind, TField.prop]
      exact parseFieldValue_noprop k _ v true (elem_roundtrip k v hv)
    have hle : ¬ i > size := by simp at hi; omega
    simp only [List.map_cons, parseListElems.go, hle, if_false, hp, bind, Except.bind]
    simp only [bne_self_eq_false, Bool.false_eq_true, if_false, Bool.not_true, Bool.false_and, plainList, TField.key,
      List.isEmpty_nil, Bool.not_true, if_false]
    have := ih (fun x hx => hwf x (by simp [hx])) (i + 1) (acc ++ [v]) (by simp at hi ⊢; omega)
    simp only [plainList] at this
    rw [this]
    simp

/-- **C01_incell_list_roundtrip** -/
theorem C01_incell_list_roundtrip (num : Nat) (name : Str) (k : SKind) (subsep : Str) (vals : List Val)
    (hne : vals ≠ []) (hwf : ∀ v ∈ vals, wfElem k v = true) :
    parseListElems (plainList num name k) subsep
        (splitStr [44] (joinWith [44] (vals.map fun v => scalarText k (some v)))) []
      = .ok (vals, true) := by
  have hparts : ∀ p ∈ vals.map (fun v => scalarText k (some v)), (44 : Nat) ∉ p := by
    intro p hp
    obtain ⟨v, hv, rfl⟩ := List.mem_map.mp hp
    exact elem_text_no_comma k v (hwf v hv)
  rw [splitStr_single, splitOn_joinWith 44 _ (by simpa using hne) hparts]
  unfold parseListElems
  have hfx : fixedSize (plainList num name k).prop vals.length = 0 := by
    simp [fixedSize, plainList, TField.prop, Model.FieldProp.getSize]
  have hnf : isFixed (plainList num name k).prop = false := by
    simp [isFixed, plainList, TField.prop, Model.FieldProp.isFixed]
  simp only [List.length_map, hfx, Nat.lt_irrefl, decide_false, Bool.false_and, Bool.false_eq_true, if_false, false_and]
  have hgo := go_plain num name k subsep vals.length vals hwf 1 [] (by omega)
  simp only [List.nil_append] at hgo
  simp only [hgo, bind, Except.bind, hnf, Bool.false_and, Bool.false_eq_true, if_false, pure, Except.pure]
  have : vals.isEmpty = false := by cases vals <;> simp_all
  simp [this]

-- non-vacuity
example : wfElem .int32 (.int 0) = true ∧ wfElem .string (.str (Str.ofString "a b")) = true ∧ wfElem .bool (.int 0) = true := by
  decide

end TableauVerif.Props.C01
