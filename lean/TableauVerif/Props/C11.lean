/-
C11 — Merger is the union of its sheets (and C04's merge part: the result does not depend on the
completion order of the per-book goroutines).
-/
import TableauVerif.Model.Sheets
import TableauVerif.Lemmas.Val
namespace TableauVerif.Props.C11
open TableauVerif TableauVerif.Val TableauVerif.Model.Sheets TableauVerif.Lemmas.Val

/-- **C04_completion_independent**: whatever order the per-book workers complete in (any permutation of
the completion list, indices pairwise distinct), the collected per-book messages — hence the merged
result and a reported duplicate pair — are the same. (True since fix D8; before it the messages were
appended in completion order.) -/
theorem find_idx_perm (i : Nat) {l₁ l₂ : List (Nat × Msg)} (hp : l₁.Perm l₂) (hn : (l₁.map (·.1)).Nodup) :
    l₁.find? (fun p => p.1 == i) = l₂.find? (fun p => p.1 == i) := by
  induction hp with
  | nil => rfl
  | cons x _ ih =>
    simp only [List.map_cons, List.nodup_cons] at hn
    simp only [List.find?]
    split
    · rfl
    · exact ih hn.2
  | swap x y l =>
    simp only [List.map_cons, List.nodup_cons, List.mem_cons, not_or] at hn
    simp only [List.find?]
    by_cases hx : (x.1 == i) = true <;> by_cases hy : (y.1 == i) = true
    · have h1 : x.1 = i := by simpa using hx
      have h2 : y.1 = i := by simpa using hy
      exact absurd (h2.trans h1.symm) hn.1.1
    · simp [hx, hy]
    · simp [hx, hy]
    · simp [hx, hy]
  | trans h₁ _ ih₁ ih₂ =>
    rw [ih₁ hn]
    exact ih₂ ((h₁.map (·.1)).nodup_iff.mp hn)

theorem C04_completion_independent (n : Nat) (c₁ c₂ : List (Nat × Msg)) (hp : c₁.Perm c₂)
    (hn : (c₁.map (·.1)).Nodup) : collect n c₁ = collect n c₂ := by
  unfold collect
  apply List.map_congr_left
  intro i _
  rw [find_idx_perm i hp hn]

/-- **C11_list_concat**: books that each contribute only the list field `n` merge to the concatenation
of their lists in book order — every element exactly once. -/
theorem C11_list_concat (n : Nat) (lists : List (List Val)) (acc : List Val) :
    ∀ j msgs, reduceGo msgs j [(n, .list acc)] (lists.map fun l => [(n, Val.list l)]) =
      .ok [(n, .list (acc ++ lists.flatten))] := by
  induction lists generalizing acc with
  | nil => intro j msgs; simp [reduceGo]
  | cons l rest ih =>
    intro j msgs
    simp only [List.map_cons, reduceGo, mergeMsg, getF, if_true, setF]
    have := ih (acc ++ l) (j + 1) msgs
    simp only [Nat.lt_irrefl, if_false, if_true] 
    simpa [List.append_assoc] using this

/-- a key present in the accumulated map is a duplicate: the merge of the later book fails -/
theorem C11_dup_detected (dst : List (Val × Val)) (k v : Val) (rest : List (Val × Val))
    (h : (getE dst k).isSome = true) : mergeEntries dst ((k, v) :: rest) = .error .dupKey := by
  simp [mergeEntries, h]

/-- entries with fresh keys are all added (map union) -/
theorem C11_fresh_added (dst : List (Val × Val)) (k v : Val) (h : (getE dst k).isSome = false) :
    mergeEntries dst [(k, v)] = .ok (setE dst k v) := by
  simp [mergeEntries, h]

-- non-vacuity / test: two books, a list each
example : (match reduce [[(1, .list [.int 1])], [(1, .list [.int 2, .int 3])]] with | .ok m => m.length | _ => 0) = 1 := by decide

/-! ### sheet specifiers -/

open TableauVerif.Model.Sheets in
/-- **C11_every_specified_pair_imported**: every (book, sheet) pair a specifier stands for is among the importers,
whatever the other specifiers name — in particular a second specifier naming another sheet of an already matched
book is not dropped -/
theorem C11_every_specified_pair_imported (n : Nat) (primary : String) (specs : List Specifier) (s : Specifier)
    (hs : s ∈ specs) (p : Nat × String) (hp : p ∈ s.pairs n primary) : p ∈ importers n primary specs := by
  simp only [importers, List.mem_flatMap]
  exact ⟨s, hs, hp⟩

open TableauVerif.Model.Sheets in
/-- **C11_importers_nothing_else**: … and nothing else is imported, each pair as often as it is specified -/
theorem C11_importers_nothing_else (n : Nat) (primary : String) (specs : List Specifier) :
    (importers n primary specs).length = (specs.map (fun s => (s.pairs n primary).length)).sum ∧
    ∀ p ∈ importers n primary specs, ∃ s ∈ specs, p ∈ s.pairs n primary := by
  refine ⟨?_, fun p hp => ?_⟩
  · induction specs with
    | nil => rfl
    | cons s rest ih => simp [importers, List.flatMap_cons] at ih ⊢
  · simp only [importers, List.mem_flatMap] at hp
    exact hp

open TableauVerif.Model.Sheets in
/-- **C11_scatter_one_file_per_importer**: Scatter writes the primary's file and one file per importer, each with
exactly the rows of its own sheet -/
theorem C11_scatter_one_file_per_importer {α : Type} (main : List α) (books : List (List (String × List α)))
    (primary : String) (specs : List Specifier) :
    (scatteredFiles main books primary specs).length = 1 + (importers books.length primary specs).length ∧
    ∀ f ∈ (scatteredFiles main books primary specs).tail, ∃ i, f.1 = some i ∧ f.2.2 = sheetRows (books.getD i []) f.2.1 := by
  refine ⟨by simp [scatteredFiles]; omega, fun f hf => ?_⟩
  simp only [scatteredFiles, List.tail_cons, List.mem_map] at hf
  obtain ⟨p, _, rfl⟩ := hf
  exact ⟨p.1, rfl, rfl⟩

end TableauVerif.Props.C11
