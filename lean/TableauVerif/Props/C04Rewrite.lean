/-
C04 — `xfs.RewriteSubdir` does not depend on the order in which the runtime enumerates the `SubdirRewrites` map
(fix D10: the rules are tried longest old subdir first, then by key), also when several rules match the path.
Model: `Model.Path.rewriteSubdir`, tied to the code by `corr.xfs.rewriteSubdir`.
-/
import TableauVerif.Model.Path
namespace TableauVerif.Props.C04Rewrite
open TableauVerif TableauVerif.Model.Path

theorem strLt_irrefl : ∀ a : Str, strLt a a = false
  | [] => rfl
  | x :: xs => by simp [strLt, strLt_irrefl xs]

theorem strLt_trichotomy : ∀ a b : Str, strLt a b = false → strLt b a = false → a = b
  | [], [], _, _ => rfl
  | [], _ :: _, h, _ => by simp [strLt] at h
  | _ :: _, [], _, h => by simp [strLt] at h
  | x :: xs, y :: ys, h1, h2 => by
    unfold strLt at h1 h2
    by_cases hxy : x < y
    · simp [hxy] at h1
    · by_cases hyx : y < x
      · simp [hyx] at h2
      · have : x = y := by omega
        subst this
        simp [hxy] at h1 h2
        rw [strLt_trichotomy xs ys h1 h2]

theorem strLt_asymm : ∀ a b : Str, strLt a b = true → strLt b a = false
  | [], [], h => by simp [strLt] at h
  | [], _ :: _, _ => by simp [strLt]
  | _ :: _, [], h => by simp [strLt] at h
  | x :: xs, y :: ys, h => by
    unfold strLt at h ⊢
    by_cases hxy : x < y
    · have : ¬ y < x := by omega
      simp [this, hxy]
    · by_cases hyx : y < x
      · simp [hxy, hyx] at h
      · simp [hxy, hyx] at h ⊢
        exact strLt_asymm xs ys h

theorem strLt_trans : ∀ a b c : Str, strLt a b = true → strLt b c = true → strLt a c = true
  | [], [], _, h, _ => by simp [strLt] at h
  | [], _ :: _, [], _, h => by simp [strLt] at h
  | [], _ :: _, _ :: _, _, _ => by simp [strLt]
  | _ :: _, [], _, h, _ => by simp [strLt] at h
  | _ :: _, _ :: _, [], _, h => by simp [strLt] at h
  | x :: xs, y :: ys, z :: zs, h1, h2 => by
    unfold strLt at h1 h2 ⊢
    by_cases hxy : x < y
    · by_cases hyz : y < z
      · have : x < z := by omega
        simp [this]
      · by_cases hzy : z < y
        · simp [hyz, hzy] at h2
        · have : y = z := by omega
          subst this; simp [hxy]
    · by_cases hyx : y < x
      · simp [hxy, hyx] at h1
      · have hxy' : x = y := by omega
        subst hxy'
        simp [hxy] at h1
        by_cases hxz : x < z
        · simp [hxz]
        · by_cases hzx : z < x
          · simp [hxz, hzx] at h2
          · simp [hxz, hzx] at h2 ⊢
            exact strLt_trans xs ys zs h1 h2

theorem ruleLe_total (a b : Str × Str) : (ruleLe a b || ruleLe b a) = true := by
  unfold ruleLe
  simp only []
  by_cases h : (clean a.1).length = (clean b.1).length
  · simp only [h, bne_self_eq_false, Bool.false_eq_true, if_false]
    cases hba : strLt b.1 a.1 with
    | false => simp
    | true => simp [strLt_asymm _ _ hba]
  · have h' : ¬ (clean b.1).length = (clean a.1).length := fun e => h e.symm
    simp [h, h']
    omega

/-- `ruleLe` spelled out -/
theorem ruleLe_iff (a b : Str × Str) :
    ruleLe a b = true ↔ (clean a.1).length > (clean b.1).length ∨
      ((clean a.1).length = (clean b.1).length ∧ strLt b.1 a.1 = false) := by
  unfold ruleLe
  simp only []
  by_cases h : (clean a.1).length = (clean b.1).length
  · simp [h]
  · simp [h]

theorem ruleLe_trans (a b c : Str × Str) (h1 : ruleLe a b = true) (h2 : ruleLe b c = true) : ruleLe a c = true := by
  rw [ruleLe_iff] at h1 h2 ⊢
  rcases h1 with h1 | ⟨h1, h1'⟩
  · rcases h2 with h2 | ⟨h2, _⟩
    · left; omega
    · left; omega
  · rcases h2 with h2 | ⟨h2, h2'⟩
    · left; omega
    · right
      refine ⟨by omega, ?_⟩
      -- ¬ (b < a), ¬ (c < b) ⊢ ¬ (c < a)
      cases hca : strLt c.1 a.1 with
      | false => rfl
      | true =>
        cases hab2 : strLt a.1 b.1 with
        | true => have := strLt_trans _ _ _ hca hab2; rw [this] at h2'; simp at h2'
        | false =>
          have := strLt_trichotomy _ _ hab2 h1'
          rw [this] at hca; rw [hca] at h2'; simp at h2'

/-- on entries of one map (keys pairwise different) the order is antisymmetric -/
theorem ruleLe_antisymm (a b : Str × Str) (hk : a.1 = b.1 → a = b) (h1 : ruleLe a b = true) (h2 : ruleLe b a = true) : a = b := by
  rw [ruleLe_iff] at h1 h2
  rcases h1 with h1 | ⟨_, h1'⟩
  · rcases h2 with h2 | ⟨h2, _⟩ <;> omega
  · rcases h2 with h2 | ⟨_, h2'⟩
    · omega
    · exact hk (strLt_trichotomy _ _ h2' h1')

/-- **C04_rewrite_order_independent**: whatever order the entries of the rewrite map are enumerated in (any
permutation; map keys are pairwise different), `RewriteSubdir` returns the same path — also when several rules
match it. -/
theorem C04_rewrite_order_independent (path : Str) (r₁ r₂ : List (Str × Str)) (hp : r₁.Perm r₂)
    (hkeys : ∀ a ∈ r₁, ∀ b ∈ r₁, a.1 = b.1 → a = b) :
    rewriteSubdir path r₁ = rewriteSubdir path r₂ := by
  have hsort : r₁.mergeSort ruleLe = r₂.mergeSort ruleLe := by
    apply List.Perm.eq_of_pairwise (le := fun a b => ruleLe a b = true)
    · intro a b ha hb hab hba
      have ha' : a ∈ r₁ := (List.mergeSort_perm r₁ _).mem_iff.mp ha
      have hb' : b ∈ r₁ := hp.mem_iff.mpr ((List.mergeSort_perm r₂ _).mem_iff.mp hb)
      exact ruleLe_antisymm a b (hkeys a ha' b hb') hab hba
    · exact List.pairwise_mergeSort (fun a b c => ruleLe_trans a b c) (fun a b => ruleLe_total a b) r₁
    · exact List.pairwise_mergeSort (fun a b c => ruleLe_trans a b c) (fun a b => ruleLe_total a b) r₂
    · exact ((List.mergeSort_perm r₁ _).trans hp).trans (List.mergeSort_perm r₂ _).symm
  have hemp : r₁.isEmpty = r₂.isEmpty := by
    cases r₁ <;> cases r₂ <;> simp_all
  unfold rewriteSubdir
  rw [hsort, hemp]

-- the premise is satisfiable (test, labelled as a test): two rules with different keys
example : ∀ a ∈ [((Str.ofString "excel/", Str.ofString "alt/") : Str × Str), (Str.ofString "excel/v2/", Str.ofString "new/")],
    ∀ b ∈ [((Str.ofString "excel/", Str.ofString "alt/") : Str × Str), (Str.ofString "excel/v2/", Str.ofString "new/")], a.1 = b.1 → a = b := by
  decide

end TableauVerif.Props.C04Rewrite
